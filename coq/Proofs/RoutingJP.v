(* Proofs about Model/RoutingJ.v: conservative extension of Model/Routing.v, termination of CfwManager.find_leftmost on
   every merge relation built by joining tree roots, the result of find_leftmost is the root, and the redirection of lookups
   after a join. *)
From Coq Require Import List Bool ZArith Arith Lia String.
Import ListNotations.
Require Import MV.Spec.RefEval MV.Model.DataPlane MV.Model.Routing MV.Spec.Rel MV.Model.RoutingJ MV.Proofs.RoutingP.
Open Scope nat_scope.
Open Scope list_scope.

(* ---------- conservative extension: without joins the merge relation stays empty and lookups are Routing's ---------- *)
Lemma find_leftmost_nil : forall fuel o cls, find_leftmost fuel [] o cls = Some o.
Proof. reflexivity. Qed.

Lemma get_cfw_j_nil : forall reg cls u,
  get_cfw_j reg [] cls u = match get_cfw reg cls u with Some o => Found o | None => NotFound end.
Proof. intros reg cls u; unfold get_cfw_j; destruct (get_cfw reg cls u); reflexivity. Qed.

Lemma first_hit_j_nil : forall reg cls us,
  first_hit_j reg [] cls us = match first_hit reg cls us with Some (_, o) => Found o | None => NotFound end.
Proof.
  intros reg cls us; induction us as [|u t IH]; cbn [first_hit_j first_hit]; [reflexivity|].
  rewrite get_cfw_j_nil. destruct (get_cfw reg cls u); [reflexivity | exact IH].
Qed.

Lemma route_x_nil_l : forall reg st tab,
  route_x reg [] (XB st tab) = match route reg st with Routed r w rd => RoutedJ r w rd | RouteErr => RouteErrJ end.
Proof.
  intros reg st tab; unfold route_x, route, route_fg_j, route_fg, route_tfs_j, route_tfs.
  destruct (rs_kind st).
  - rewrite first_hit_j_nil. destruct (first_hit reg (rs_cls st) (rs_tfs st)) as [[u o]|]; [reflexivity|].
    rewrite get_cfw_j_nil. destruct (get_cfw reg (rs_cls st) (rs_any st)); reflexivity.
  - rewrite first_hit_j_nil. destruct (first_hit reg (rs_from st) (rs_req st)) as [[u fo]|]; [|reflexivity].
    destruct (match rs_right st with Some u0 => Some u0 | None => hd_error (rs_req st) end); [|reflexivity].
    rewrite get_cfw_j_nil.
    match goal with |- context [get_cfw ?r ?c ?x] => destruct (get_cfw r c x) end; reflexivity.
Qed.

(* a step that is not a join leaves the merge relation alone *)
Lemma exec_x_rel_XB : forall s st tab s' out, exec_x s (XB st tab) = (s', out) -> x_rel s' = x_rel s.
Proof.
  intros s st tab s' out; unfold exec_x.
  destruct (route_x (x_reg s) (x_rel s) (XB st tab)) as [reg' w rd| |]; try (intros H; inversion H; reflexivity).
  destruct (rs_kind st).
  - destruct tab; [intros H; inversion H; reflexivity|].
    destruct (rs_get (x_store s) w); intros H; inversion H; reflexivity.
  - destruct rd; [|intros H; inversion H; reflexivity].
    destruct (rs_get (x_store s) n); intros H; inversion H; reflexivity.
Qed.

(* ---------- the merge relation as a forest ---------- *)
(* k reaches a root (a key that is its own parent, or a non-key) in exactly n parent steps *)
Fixpoint reach (rel : mrel) (n k : nat) : Prop :=
  match n with
  | O => mparent rel k = k
  | S m => mparent rel k <> k /\ reach rel m (mparent rel k)
  end.

Definition bounded (rel : mrel) : Prop := forall k, exists n, n <= List.length rel /\ reach rel n k.
(* the parent of a key is a key, with the same class *)
Definition homog (rel : mrel) : Prop :=
  forall k p c, mrel_get rel k = Some (p, c) -> exists p', mrel_get rel p = Some (p', c).

Lemma bounded_nil : bounded [].
Proof. intros k; exists 0; split; [apply Nat.le_refl | reflexivity]. Qed.

Lemma homog_nil : homog [].
Proof. intros k p c H; discriminate. Qed.

Lemma mparent_add : forall rel l r c k, mparent rel l = l ->
  mparent (mrel_add rel l r c) k = if Nat.eqb k r then l else mparent rel k.
Proof.
  intros rel l r c k Hl; unfold mrel_add, mparent.
  cbn [mrel_get]. destruct (Nat.eqb l r) eqn:Elr.
  - (* l = r: rel1 has l, nothing more is added *)
    cbn [mrel_get]. destruct (Nat.eqb k r) eqn:Ek; reflexivity.
  - destruct (mrel_get rel l) as [[pl cl]|] eqn:Gl.
    + cbn [mrel_get]. destruct (Nat.eqb k r) eqn:Ek; reflexivity.
    + cbn [mrel_get]. destruct (Nat.eqb k l) eqn:Ekl.
      * apply Nat.eqb_eq in Ekl; subst k. rewrite Elr. rewrite Gl. reflexivity.
      * destruct (Nat.eqb k r); reflexivity.
Qed.

Lemma add_length : forall rel l r c, List.length rel < List.length (mrel_add rel l r c).
Proof.
  intros rel l r c; unfold mrel_add.
  destruct (mrel_get ((r, (l, c)) :: rel) l); cbn [List.length]; lia.
Qed.

Fixpoint piter (m : nat) (f : nat -> nat) (k : nat) : nat := match m with O => k | S n => f (piter n f k) end.
Lemma iter_shift : forall (f : nat -> nat) m k, piter m f (f k) = f (piter m f k).
Proof. intros f m k; induction m as [|m IH]; cbn [piter]; [reflexivity | rewrite IH; reflexivity]. Qed.

(* a path that does not end in r is untouched by attaching r under l *)
Lemma reach_add_other : forall rel l r c n k, mparent rel l = l -> mparent rel r = r ->
  reach rel n k -> (forall m, m <= n -> piter m (mparent rel) k <> r) ->
  reach (mrel_add rel l r c) n k.
Proof.
  intros rel l r c n; induction n as [|n IH]; intros k Hl Hr Hreach Hne; cbn [reach] in *.
  - rewrite mparent_add by exact Hl. destruct (Nat.eqb k r) eqn:E; [|exact Hreach].
    apply Nat.eqb_eq in E; exfalso; apply (Hne 0); [lia | exact E].
  - destruct Hreach as [Hk Hrest]. rewrite mparent_add by exact Hl.
    destruct (Nat.eqb k r) eqn:E.
    + apply Nat.eqb_eq in E; exfalso; apply (Hne 0); [lia | exact E].
    + split; [exact Hk|]. apply IH; try assumption.
      intros m Hm. specialize (Hne (S m) ltac:(lia)). rewrite iter_shift. exact Hne.
Qed.

(* the end of a path is a root; r, being a root, can only be the END of a path *)
Lemma reach_root : forall rel n k, reach rel n k -> mparent rel (piter n (mparent rel) k) = piter n (mparent rel) k.
Proof.
  intros rel n; induction n as [|n IH]; intros k H; cbn [reach piter] in *; [exact H|].
  destruct H as [_ H]. rewrite <- iter_shift. apply IH; exact H.
Qed.

Lemma reach_inner_not_root : forall rel n k m, reach rel n k -> m < n ->
  mparent rel (piter m (mparent rel) k) <> piter m (mparent rel) k.
Proof.
  intros rel n; induction n as [|n IH]; intros k m H Hm; [lia|].
  cbn [reach] in H; destruct H as [Hk Hrest].
  destruct m as [|m]; cbn [piter]; [exact Hk|].
  rewrite <- iter_shift. apply IH; [exact Hrest | lia].
Qed.

(* attaching the root r under the root l keeps every chain finite, one step longer at most *)
Lemma bounded_add : forall rel l r c, bounded rel -> mparent rel l = l -> mparent rel r = r ->
  bounded (mrel_add rel l r c).
Proof.
  intros rel l r c Hb Hl Hr k.
  destruct (Hb k) as (n & Hn & Hreach).
  pose proof (add_length rel l r c) as Hlen.
  destruct (Nat.eq_dec (piter n (mparent rel) k) r) as [Eend | Nend].
  - (* the chain of k ends in r *)
    destruct (Nat.eq_dec l r) as [Elr | Nlr].
    + (* self join: r stays a root *)
      exists n; split; [lia|]. subst l.
      clear Hn Hlen. revert k Hreach Eend. induction n as [|n IH]; intros k Hreach Eend; cbn [reach piter] in *.
      * subst k. rewrite mparent_add by exact Hr. rewrite Nat.eqb_refl; reflexivity.
      * destruct Hreach as [Hk Hrest]. rewrite mparent_add by exact Hr.
        destruct (Nat.eqb k r) eqn:E; [apply Nat.eqb_eq in E; subst k; contradiction|].
        split; [exact Hk|]. apply IH; [exact Hrest | rewrite iter_shift; exact Eend].
    + exists (S n); split; [lia|].
      clear Hn Hlen. revert k Hreach Eend. induction n as [|n IH]; intros k Hreach Eend; cbn [reach piter] in *.
      * subst k. rewrite !mparent_add by exact Hl. rewrite Nat.eqb_refl.
        split; [exact Nlr|]. destruct (Nat.eqb l r) eqn:E; [apply Nat.eqb_eq in E; contradiction | exact Hl].
      * destruct Hreach as [Hk Hrest]. rewrite mparent_add by exact Hl.
        destruct (Nat.eqb k r) eqn:E; [apply Nat.eqb_eq in E; subst k; contradiction|].
        split; [exact Hk|]. apply (IH (mparent rel k)); [exact Hrest | rewrite iter_shift; exact Eend].
  - exists n; split; [lia|]. apply reach_add_other; try assumption.
    intros m Hm Em. destruct (Nat.eq_dec m n) as [E | N]; [subst m; contradiction|].
    apply (reach_inner_not_root rel n k m Hreach ltac:(lia)). rewrite Em; exact Hr.
Qed.

(* lookups after add_to_merge_relation *)
Lemma mrel_get_add : forall rel l r c k,
  mrel_get (mrel_add rel l r c) k =
    if Nat.eqb k r then Some (l, c)
    else if Nat.eqb k l then match mrel_get rel l with Some v => Some v | None => Some (l, c) end
    else mrel_get rel k.
Proof.
  intros rel l r c k; unfold mrel_add; cbn [mrel_get].
  destruct (Nat.eqb l r) eqn:Elr.
  - apply Nat.eqb_eq in Elr; subst l. cbn [mrel_get]. destruct (Nat.eqb k r); reflexivity.
  - destruct (mrel_get rel l) as [v|] eqn:Gl; cbn [mrel_get].
    + destruct (Nat.eqb k r) eqn:Ekr; [reflexivity|].
      destruct (Nat.eqb k l) eqn:Ekl; [apply Nat.eqb_eq in Ekl; subst k; exact Gl | reflexivity].
    + destruct (Nat.eqb k l) eqn:Ekl.
      * apply Nat.eqb_eq in Ekl; subst k. rewrite Elr; reflexivity.
      * destruct (Nat.eqb k r); reflexivity.
Qed.

(* classes stay homogeneous along chains when both joined objects carry the class of the join *)
Lemma homog_add : forall rel l r c, homog rel ->
  (forall p cl, mrel_get rel l = Some (p, cl) -> cl = c) ->
  (forall p cr, mrel_get rel r = Some (p, cr) -> cr = c) ->
  homog (mrel_add rel l r c).
Proof.
  intros rel l r c Hh Hcl Hcr k p c0 Hk.
  assert (Gl : exists q, mrel_get (mrel_add rel l r c) l = Some (q, c)).
  { rewrite mrel_get_add. destruct (Nat.eqb l r); [eexists; reflexivity|]. rewrite Nat.eqb_refl.
    destruct (mrel_get rel l) as [[pl cl]|] eqn:G; [rewrite (Hcl _ _ eq_refl); eexists; reflexivity | eexists; reflexivity]. }
  assert (Old : forall x px cx, mrel_get rel x = Some (px, cx) -> (x = r -> cx = c) ->
                 exists q, mrel_get (mrel_add rel l r c) x = Some (q, cx)).
  { intros x px cx Gx Hx. rewrite mrel_get_add. destruct (Nat.eqb x r) eqn:Exr.
    - apply Nat.eqb_eq in Exr. rewrite (Hx Exr). eexists; reflexivity.
    - destruct (Nat.eqb x l) eqn:Exl; [apply Nat.eqb_eq in Exl; subst x; rewrite Gx; eexists; reflexivity | eexists; exact Gx]. }
  rewrite mrel_get_add in Hk. destruct (Nat.eqb k r) eqn:Ekr.
  - inversion Hk; subst p c0. exact Gl.
  - destruct (Nat.eqb k l) eqn:Ekl.
    + destruct (mrel_get rel l) as [[pl cl]|] eqn:G.
      * inversion Hk; subst p c0. destruct (Hh _ _ _ G) as (p' & Hp).
        apply (Old _ _ _ Hp). intros E; subst pl. exact (Hcr _ _ Hp).
      * inversion Hk; subst p c0. exact Gl.
    + destruct (Hh _ _ _ Hk) as (p' & Hp). apply (Old _ _ _ Hp). intros E; subst p. exact (Hcr _ _ Hp).
Qed.

(* ---------- find_leftmost terminates on bounded homogeneous relations and returns the root ---------- *)
Lemma fl_loop_root : forall rel cls n fuel k lm p0, homog rel -> mrel_get rel k = Some (p0, cls) -> reach rel n k -> n < fuel ->
  fl_loop fuel rel k cls lm = Some (match n with O => lm | S _ => piter n (mparent rel) k end).
Proof.
  intros rel cls n; induction n as [|n IH]; intros fuel k lm p0 Hh Gk Hreach Hf;
    (destruct fuel as [|f]; [lia|]); cbn [fl_loop reach] in *.
  - rewrite Gk. unfold mparent in Hreach; rewrite Gk in Hreach; subst p0. rewrite Nat.eqb_refl; reflexivity.
  - destruct Hreach as [Hne Hrest]. rewrite Gk.
    assert (Ep : mparent rel k = p0) by (unfold mparent; rewrite Gk; reflexivity).
    rewrite Ep in *. destruct (Nat.eqb p0 k) eqn:E; [apply Nat.eqb_eq in E; contradiction|].
    destruct (Hh _ _ _ Gk) as (p' & Gp). rewrite Gp, Nat.eqb_refl.
    rewrite (IH f p0 p0 p' Hh Gp Hrest ltac:(lia)).
    f_equal. cbn [piter]. rewrite <- iter_shift, Ep. destruct n; reflexivity.
Qed.

Lemma find_leftmost_root_l : forall rel o cls, bounded rel -> homog rel ->
  (forall p0 c0, mrel_get rel o = Some (p0, c0) -> c0 = cls) ->
  exists rho, find_leftmost (fuel_of rel) rel o cls = Some rho /\ mparent rel rho = rho.
Proof.
  intros rel o cls Hb Hh Hc; unfold find_leftmost.
  destruct (mrel_get rel o) as [[p0 c0]|] eqn:G.
  - rewrite (Hc _ _ eq_refl) in G. destruct (Hb o) as (n & Hn & Hreach).
    rewrite (fl_loop_root rel cls n (fuel_of rel) o o p0 Hh G Hreach) by (unfold fuel_of; lia).
    eexists; split; [reflexivity|]. pose proof (reach_root rel n o Hreach) as R. destruct n; [exact R | exact R].
  - exists o; split; [reflexivity|]. unfold mparent; rewrite G; reflexivity.
Qed.

(* after joining r into the root l, a lookup that lands on r is redirected to l *)
Lemma find_leftmost_redirect_l : forall rel l r c fuel, l <> r -> mparent rel l = l ->
  (forall p cl, mrel_get rel l = Some (p, cl) -> cl = c) -> 2 <= fuel ->
  find_leftmost fuel (mrel_add rel l r c) r c = Some l.
Proof.
  intros rel l r c fuel Hne Hl Hcl Hf; unfold find_leftmost.
  assert (Gr : mrel_get (mrel_add rel l r c) r = Some (l, c)) by (rewrite mrel_get_add, Nat.eqb_refl; reflexivity).
  assert (Gl : mrel_get (mrel_add rel l r c) l = Some (l, c)).
  { rewrite mrel_get_add. destruct (Nat.eqb l r) eqn:E; [reflexivity|]. rewrite Nat.eqb_refl.
    destruct (mrel_get rel l) as [[pl cl]|] eqn:G; [|reflexivity].
    rewrite (Hcl _ _ eq_refl). unfold mparent in Hl; rewrite G in Hl; subst pl; reflexivity. }
  rewrite Gr. destruct fuel as [|[|f]]; [lia | lia|]. cbn [fl_loop]. rewrite Gr.
  destruct (Nat.eqb l r) eqn:E; [apply Nat.eqb_eq in E; contradiction|].
  rewrite Gl. cbn [fl_loop]. rewrite Gl, !Nat.eqb_refl. reflexivity.
Qed.

(* a relation with a cycle makes the real loop spin forever: the model reports it (None) - and no run can build one *)
Example find_leftmost_cycle_diverges :
  find_leftmost 50 [(1, (2, 7)); (2, (1, 7))] 1 7 = None.
Proof. vm_compute. reflexivity. Qed.

(* ---------- run-level invariant: in every run find_leftmost terminates ---------- *)
Fixpoint cls_of (reg : registry) (o : nat) : option nat :=
  match reg with [] => None | e :: r => if Nat.eqb (fst e) o then Some (fst (snd e)) else cls_of r o end.

Definition InvJ (reg : registry) (rel : mrel) : Prop :=
  NoDup (map fst reg) /\ bounded rel /\ homog rel /\
  (forall k p c, mrel_get rel k = Some (p, c) -> cls_of reg k = Some c).

Lemma InvJ_init : InvJ [] [].
Proof. repeat split; [constructor | apply bounded_nil | apply homog_nil | intros k p c H; discriminate]. Qed.

Lemma cls_of_in : forall reg e, NoDup (map fst reg) -> In e reg -> cls_of reg (fst e) = Some (fst (snd e)).
Proof.
  induction reg as [|e0 r IH]; intros e Hnd Hin; [destruct Hin|]. cbn [cls_of map] in *.
  inversion Hnd as [|? ? Hn Hr]; subst. destruct Hin as [He | Hin].
  - subst; rewrite Nat.eqb_refl; reflexivity.
  - destruct (Nat.eqb (fst e0) (fst e)) eqn:E.
    + apply Nat.eqb_eq in E. exfalso; apply Hn; rewrite E; apply in_map; exact Hin.
    + apply IH; assumption.
Qed.

Lemma cls_of_some_in : forall reg o c, cls_of reg o = Some c -> In o (map fst reg).
Proof.
  induction reg as [|e r IH]; intros o c H; cbn [cls_of map] in *; [discriminate|].
  destruct (Nat.eqb (fst e) o) eqn:E; [left; apply Nat.eqb_eq; exact E | right; eapply IH; exact H].
Qed.

Lemma cls_of_app : forall reg ext o c, cls_of reg o = Some c -> cls_of (reg ++ ext) o = Some c.
Proof.
  induction reg as [|e r IH]; intros ext o c H; cbn [cls_of app] in *; [discriminate|].
  destruct (Nat.eqb (fst e) o); [exact H | apply IH; exact H].
Qed.

Lemma get_cfw_cls : forall reg cls u o, NoDup (map fst reg) -> get_cfw reg cls u = Some o -> cls_of reg o = Some cls.
Proof.
  intros reg cls u o Hnd G. destruct (RoutingP.get_cfw_in _ _ _ _ G) as (e & Hin & Hm & Hf); subst o.
  rewrite (cls_of_in reg e Hnd Hin). unfold matches in Hm. apply andb_true_iff in Hm; destruct Hm as [Hc _].
  apply Nat.eqb_eq in Hc; rewrite Hc; reflexivity.
Qed.

(* all entries along a chain carry the class of its first entry *)
Lemma chain_class : forall rel cls n k p0, homog rel -> mrel_get rel k = Some (p0, cls) -> reach rel n k ->
  exists q, mrel_get rel (piter n (mparent rel) k) = Some (q, cls).
Proof.
  intros rel cls n; induction n as [|n IH]; intros k p0 Hh G Hreach; cbn [piter reach] in *.
  - exists p0; exact G.
  - destruct Hreach as [_ Hrest]. destruct (Hh _ _ _ G) as (p' & Gp).
    assert (Ep : mparent rel k = p0) by (unfold mparent; rewrite G; reflexivity).
    rewrite Ep in Hrest. destruct (IH p0 p' Hh Gp Hrest) as (q & Hq). exists q.
    rewrite <- iter_shift, Ep. exact Hq.
Qed.

(* a lookup never diverges; what it finds is a root of class cls *)
Lemma get_cfw_j_inv : forall reg rel cls u, InvJ reg rel ->
  get_cfw_j reg rel cls u = NotFound \/
  exists rho, get_cfw_j reg rel cls u = Found rho /\ mparent rel rho = rho /\ cls_of reg rho = Some cls /\
              (forall p c, mrel_get rel rho = Some (p, c) -> c = cls).
Proof.
  intros reg rel cls u (Hnd & Hb & Hh & Hc); unfold get_cfw_j.
  destruct (get_cfw reg cls u) as [o|] eqn:G; [right | left; reflexivity].
  pose proof (get_cfw_cls _ _ _ _ Hnd G) as Co.
  assert (Hco : forall p0 c0, mrel_get rel o = Some (p0, c0) -> c0 = cls).
  { intros p0 c0 Go. pose proof (Hc _ _ _ Go) as C. rewrite Co in C; inversion C; reflexivity. }
  unfold find_leftmost. destruct (mrel_get rel o) as [[p0 c0]|] eqn:Go.
  - pose proof (Hco _ _ eq_refl) as Ec; subst c0. destruct (Hb o) as (n & Hn & Hreach).
    rewrite (fl_loop_root rel cls n (fuel_of rel) o o p0 Hh Go Hreach) by (unfold fuel_of; lia).
    destruct (chain_class rel cls n o p0 Hh Go Hreach) as (q & Hq).
    pose proof (reach_root rel n o Hreach) as R.
    assert (E : (match n with O => o | S _ => piter n (mparent rel) o end) = piter n (mparent rel) o) by (destruct n; reflexivity).
    rewrite E. eexists; split; [reflexivity|]. split; [exact R|]. split; [exact (Hc _ _ _ Hq)|].
    intros p c Hp. rewrite Hq in Hp; inversion Hp; reflexivity.
  - exists o; split; [reflexivity|]. split; [unfold mparent; rewrite Go; reflexivity|]. split; [exact Co|].
    intros p c Hp; rewrite Go in Hp; discriminate.
Qed.

Lemma first_hit_j_inv : forall reg rel cls us, InvJ reg rel ->
  first_hit_j reg rel cls us = NotFound \/
  exists rho, first_hit_j reg rel cls us = Found rho /\ mparent rel rho = rho /\ cls_of reg rho = Some cls /\
              (forall p c, mrel_get rel rho = Some (p, c) -> c = cls).
Proof.
  intros reg rel cls us Hinv; induction us as [|u t IH]; cbn [first_hit_j]; [left; reflexivity|].
  destruct (get_cfw_j_inv reg rel cls u Hinv) as [N | (rho & F & H)]; [rewrite N; exact IH | rewrite F; right; exists rho; split; [reflexivity | exact H]].
Qed.

Lemma InvJ_reg_add : forall reg rel o c ch, InvJ reg rel -> ~ In o (map fst reg) -> InvJ (reg_add reg o c ch) rel.
Proof.
  intros reg rel o c ch (Hnd & Hb & Hh & Hc) Hfresh; unfold reg_add. repeat split; try assumption.
  - rewrite map_app; cbn [map fst]. clear - Hnd Hfresh. induction (map fst reg) as [|a l IH]; cbn [app].
    + constructor; [intros [] | constructor].
    + inversion Hnd as [|? ? Hn Hr]; subst. constructor.
      * intros Hin; apply in_app_or in Hin; destruct Hin as [Hin | [Hin | []]]; [exact (Hn Hin) | apply Hfresh; left; symmetry; exact Hin].
      * apply IH; [exact Hr | intros Hin; apply Hfresh; right; exact Hin].
  - intros k p c0 G. apply cls_of_app. eapply Hc; exact G.
Qed.

(* routing never diverges, and leaves the invariant intact (fresh step ids) *)
Lemma route_x_inv : forall reg rel x, InvJ reg rel -> ~ In (xsid x) (map fst reg) ->
  match route_x reg rel x with
  | RouteDiverges => False
  | RouteErrJ => True
  | RoutedJ reg' w rd =>
    InvJ reg' rel /\
    match x with
    | XJ j => reg' = reg /\ mparent rel w = w /\ (forall p c, mrel_get rel w = Some (p, c) -> c = j_cls j) /\ cls_of reg w = Some (j_cls j) /\
              exists f, rd = Some f /\ mparent rel f = f /\ (forall p c, mrel_get rel f = Some (p, c) -> c = j_cls j) /\ cls_of reg f = Some (j_cls j)
    | XB _ _ => True
    end
  end.
Proof.
  intros reg rel x Hinv Hfresh; destruct x as [st tab | j]; cbn [route_x xsid] in *.
  - destruct (rs_kind st).
    + unfold route_fg_j.
      destruct (first_hit_j_inv reg rel (rs_cls st) (rs_tfs st) Hinv) as [N | (rho & F & _)]; [rewrite N | rewrite F; split; [exact Hinv | exact I]].
      destruct (get_cfw_j_inv reg rel (rs_cls st) (rs_any st) Hinv) as [N2 | (rho & F2 & _)]; [rewrite N2 | rewrite F2; split; [exact Hinv | exact I]].
      split; [apply InvJ_reg_add; assumption | exact I].
    + unfold route_tfs_j.
      destruct (first_hit_j_inv reg rel (rs_from st) (rs_req st) Hinv) as [N | (rho & F & _)]; [rewrite N; exact I | rewrite F].
      destruct (match rs_right st with Some u => Some u | None => hd_error (rs_req st) end); [|exact I].
      set (reg' := reg_add reg (rs_sid st) (rs_cls st) _).
      assert (Hinv' : InvJ reg' rel) by (apply InvJ_reg_add; assumption).
      destruct (get_cfw_j_inv reg' rel (rs_from st) n Hinv') as [N2 | (rho2 & F2 & _)]; [rewrite N2; exact I | rewrite F2; split; [exact Hinv' | exact I]].
  - unfold route_join. destruct (hd_error (j_left j)) as [lu|]; [|exact I].
    destruct (get_cfw_j_inv reg rel (j_cls j) lu Hinv) as [N | (w & F & Hw1 & Hw2 & Hw3)]; [rewrite N; exact I | rewrite F].
    destruct (get_cfw_j_inv reg rel (j_cls j) (j_link j) Hinv) as [N2 | (f & F2 & Hf1 & Hf2 & Hf3)].
    + rewrite N2. destruct (hd_error (j_right j)) as [ru|]; [|exact I].
      destruct (get_cfw_j_inv reg rel (j_cls j) ru Hinv) as [N3 | (f & F3 & Hf1 & Hf2 & Hf3)]; [rewrite N3; exact I | rewrite F3].
      split; [exact Hinv|]. repeat split; try assumption. exists f; repeat split; assumption.
    + rewrite F2. split; [exact Hinv|]. repeat split; try assumption. exists f; repeat split; assumption.
Qed.

Lemma InvJ_join : forall reg rel w f c, InvJ reg rel ->
  mparent rel w = w -> (forall p c0, mrel_get rel w = Some (p, c0) -> c0 = c) -> cls_of reg w = Some c ->
  mparent rel f = f -> (forall p c0, mrel_get rel f = Some (p, c0) -> c0 = c) -> cls_of reg f = Some c ->
  InvJ reg (mrel_add rel w f c).
Proof.
  intros reg rel w f c (Hnd & Hb & Hh & Hc) Hw1 Hw2 Hw3 Hf1 Hf2 Hf3. repeat split.
  - exact Hnd.
  - apply bounded_add; assumption.
  - apply homog_add; assumption.
  - intros k p c0 G. rewrite mrel_get_add in G. destruct (Nat.eqb k f) eqn:Ekf.
    + apply Nat.eqb_eq in Ekf; subst k. inversion G; subst. exact Hf3.
    + destruct (Nat.eqb k w) eqn:Ekw; [|eapply Hc; exact G].
      apply Nat.eqb_eq in Ekw; subst k. destruct (mrel_get rel w) as [[pw cw]|] eqn:Gw.
      * inversion G; subst. eapply Hc; exact Gw.
      * inversion G; subst. exact Hw3.
Qed.

(* one step preserves the invariant and never reports divergence *)
Lemma exec_x_inv : forall s x s' out, InvJ (x_reg s) (x_rel s) -> ~ In (xsid x) (map fst (x_reg s)) ->
  exec_x s x = (s', out) -> InvJ (x_reg s') (x_rel s') /\ (forall sid, out <> XDiverges sid).
Proof.
  intros s x s' out Hinv Hfresh; unfold exec_x.
  pose proof (route_x_inv (x_reg s) (x_rel s) x Hinv Hfresh) as R.
  destruct (route_x (x_reg s) (x_rel s) x) as [reg' w rd| |]; [|intros H; inversion H; subst; split; [exact Hinv | discriminate] | destruct R].
  destruct R as [Hinv' Rj]. destruct x as [st tab | j].
  - destruct (rs_kind st).
    + destruct tab; [intros H; inversion H; subst; cbn; split; [exact Hinv' | discriminate]|].
      destruct (rs_get (x_store s) w); intros H; inversion H; subst; cbn; (split; [exact Hinv' | discriminate]).
    + destruct rd as [r|]; [|intros H; inversion H; subst; split; [exact Hinv | discriminate]].
      destruct (rs_get (x_store s) r); intros H; inversion H; subst; cbn; (split; [exact Hinv' | discriminate]).
  - destruct Rj as (Ereg & Hw1 & Hw2 & Hw3 & f & Erd & Hf1 & Hf2 & Hf3); subst reg' rd.
    destruct (rs_get (x_store s) w), (rs_get (x_store s) f); intros H; inversion H; subst; cbn;
      (split; [try exact Hinv; apply InvJ_join; assumption | discriminate]).
Qed.

Lemma exec_x_reg_ids : forall s x s' out, exec_x s x = (s', out) ->
  forall o, In o (map fst (x_reg s')) -> In o (map fst (x_reg s)) \/ o = xsid x.
Proof.
  intros s x s' out; unfold exec_x.
  assert (G : forall reg' w rd, route_x (x_reg s) (x_rel s) x = RoutedJ reg' w rd ->
              forall o, In o (map fst reg') -> In o (map fst (x_reg s)) \/ o = xsid x).
  { intros reg' w rd R o Ho. destruct x as [st tab | j]; cbn [route_x xsid] in *.
    - destruct (rs_kind st).
      + unfold route_fg_j in R. destruct (first_hit_j _ _ _ _); try discriminate; [inversion R; subst; left; exact Ho|].
        destruct (get_cfw_j _ _ _ _); try discriminate; [inversion R; subst; left; exact Ho|].
        inversion R; subst. unfold reg_add in Ho; rewrite map_app in Ho. apply in_app_or in Ho.
        destruct Ho as [Ho | [Ho | []]]; [left; exact Ho | right; symmetry; exact Ho].
      + unfold route_tfs_j in R. destruct (first_hit_j _ _ _ _); try discriminate.
        destruct (match rs_right st with Some u => Some u | None => hd_error (rs_req st) end); try discriminate.
        destruct (get_cfw_j _ _ _ _); try discriminate. inversion R; subst.
        unfold reg_add in Ho; rewrite map_app in Ho. apply in_app_or in Ho.
        destruct Ho as [Ho | [Ho | []]]; [left; exact Ho | right; symmetry; exact Ho].
    - unfold route_join in R. destruct (hd_error (j_left j)); try discriminate.
      destruct (get_cfw_j _ _ _ _); try discriminate.
      destruct (get_cfw_j _ _ (j_cls j) (j_link j)); try discriminate; [inversion R; subst; left; exact Ho|].
      destruct (hd_error (j_right j)); try discriminate.
      destruct (get_cfw_j _ _ _ _); try discriminate. inversion R; subst; left; exact Ho. }
  destruct (route_x (x_reg s) (x_rel s) x) as [reg' w rd| |] eqn:R; try (intros H; inversion H; subst; intros o Ho; left; exact Ho).
  specialize (G reg' w rd eq_refl).
  destruct x as [st tab | j].
  - destruct (rs_kind st).
    + destruct tab; [intros H; inversion H; subst; cbn; exact G|].
      destruct (rs_get (x_store s) w); intros H; inversion H; subst; cbn; exact G.
    + destruct rd as [r|]; [|intros H; inversion H; subst; intros o Ho; left; exact Ho].
      destruct (rs_get (x_store s) r); intros H; inversion H; subst; cbn; exact G.
  - destruct rd as [r|]; [|intros H; inversion H; subst; intros o Ho; left; exact Ho].
    destruct (rs_get (x_store s) w), (rs_get (x_store s) r); intros H; inversion H; subst; cbn; exact G.
Qed.

(* every run with distinct step ids: find_leftmost terminates at every lookup (no XDiverges), whatever the plan *)
Lemma run_x_never_diverges_l : forall steps s s' out, InvJ (x_reg s) (x_rel s) ->
  NoDup (map xsid steps) -> (forall o, In o (map fst (x_reg s)) -> ~ In o (map xsid steps)) ->
  run_x s steps = (s', out) -> InvJ (x_reg s') (x_rel s') /\ (forall sid, out <> XDiverges sid).
Proof.
  induction steps as [|x r IH]; intros s s' out Hinv Hnd Hdis; cbn [run_x].
  - intros H; inversion H; subst; split; [exact Hinv | discriminate].
  - destruct (exec_x s x) as [s1 o1] eqn:E.
    assert (Hfresh : ~ In (xsid x) (map fst (x_reg s))).
    { intros Hin. apply (Hdis _ Hin). left; reflexivity. }
    destruct (exec_x_inv s x s1 o1 Hinv Hfresh E) as [Hinv1 Hnd1].
    destruct o1; try (intros H; inversion H; subst; split; [exact Hinv1 | exact Hnd1]).
    cbn [map] in Hnd. inversion Hnd as [|? ? Hn Hr]; subst.
    apply IH; [exact Hinv1 | exact Hr |].
    intros o Ho1 Ho2. destruct (exec_x_reg_ids s x s1 XOk E o Ho1) as [Hin | Eq].
    + apply (Hdis _ Hin). right; exact Ho2.
    + subst o. exact (Hn Ho2).
Qed.

Lemma run_x_from_init_never_diverges_l : forall steps s' out, NoDup (map xsid steps) ->
  run_x x_init steps = (s', out) -> forall sid, out <> XDiverges sid.
Proof.
  intros steps s' out Hnd H. eapply (run_x_never_diverges_l steps x_init s' out); [exact InvJ_init | exact Hnd | intros o [] | exact H].
Qed.
