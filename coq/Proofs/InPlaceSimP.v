(* In-place calculations, micro level (C06): a legal scheduled interleaving of heap events (Model/DataPlaneInPlace.v, xrun)
   in which every two steps that are open at the same time are xindep computes exactly DataPlane.exec over the atomic
   actions its events stand for (eff), in event order: same tables, same failure.
   Linearisation points: ECalc for a replacing step, every EIns for an in-place step. *)
From Coq Require Import List Bool ZArith Arith Lia Permutation.
Import ListNotations.
Require MV.Model.Orch MV.Model.OrchCheck.
Require Import MV.Spec.RefEval MV.Model.DataPlane MV.Model.DataPlaneConc MV.Proofs.ConfluenceP MV.Model.DataPlaneInPlace.
Require Import MV.Proofs.InPlaceTraceP.
Local Open Scope nat_scope.

(* ------------------------------------------------------------------ events and positions *)
Lemma xevent_eqb_eq : forall a b, xevent_eqb a b = true <-> a = b.
Proof.
  intros [i|i|i k|i] [j|j|j l|j]; cbn; split; intros H; try discriminate;
    try (apply Nat.eqb_eq in H; subst; reflexivity); try (injection H as ->; apply Nat.eqb_refl).
  - apply andb_true_iff in H. destruct H as [H1 H2]. apply Nat.eqb_eq in H1, H2. subst. reflexivity.
  - injection H as -> ->. rewrite !Nat.eqb_refl. reflexivity.
Qed.

Lemma xevent_eqb_refl : forall a, xevent_eqb a a = true.
Proof. intros a. apply xevent_eqb_eq. reflexivity. Qed.

Lemma xevent_eqb_neq : forall a b, xevent_eqb a b = false <-> a <> b.
Proof.
  intros a b. split.
  - intros H E. apply xevent_eqb_eq in E. congruence.
  - intros H. destruct (xevent_eqb a b) eqn:E; [apply xevent_eqb_eq in E; contradiction | reflexivity].
Qed.

Lemma idx_le_length : forall e l, idx e l <= length l.
Proof. intros e. induction l as [|x l IH]; cbn; [lia|]. destruct (xevent_eqb x e); lia. Qed.

Lemma idx_lt_In : forall e l, idx e l < length l <-> In e l.
Proof.
  intros e. induction l as [|x l IH]; cbn; [split; [lia | intros []]|].
  destruct (xevent_eqb x e) eqn:E.
  - apply xevent_eqb_eq in E. split; [intros _; left; exact E | lia].
  - apply xevent_eqb_neq in E. split.
    + intros H. right. apply IH. lia.
    + intros [H|H]; [contradiction|]. apply IH in H. lia.
Qed.

Lemma idx_app_in : forall e l1 l2, In e l1 -> idx e (l1 ++ l2) = idx e l1.
Proof.
  intros e. induction l1 as [|x l1 IH]; intros l2 H; [destruct H|]. cbn.
  destruct (xevent_eqb x e) eqn:E; [reflexivity|]. f_equal. apply IH. destruct H as [H|H]; [|exact H].
  apply xevent_eqb_neq in E. contradiction.
Qed.

Lemma idx_app_notin : forall e l1 l2, ~ In e l1 -> idx e (l1 ++ l2) = length l1 + idx e l2.
Proof.
  intros e. induction l1 as [|x l1 IH]; intros l2 H; [reflexivity|]. cbn.
  destruct (xevent_eqb x e) eqn:E.
  - apply xevent_eqb_eq in E. exfalso. apply H. left. exact E.
  - f_equal. apply IH. intros X. apply H. right. exact X.
Qed.

Lemma idx_in_pre : forall e pre suf, In e pre -> idx e (pre ++ suf) < length pre.
Proof. intros e pre suf H. rewrite (idx_app_in e pre suf H). apply idx_lt_In. exact H. Qed.

Lemma idx_at_split : forall e pre r, ~ In e pre -> idx e (pre ++ e :: r) = length pre.
Proof. intros e pre r H. rewrite (idx_app_notin e pre _ H). cbn. rewrite xevent_eqb_refl. lia. Qed.

(* an event placed before the one at the split is in the prefix; one placed after it is not *)
Lemma before_split_in : forall e e' pre r, ~ In e pre -> idx e' (pre ++ e :: r) < idx e (pre ++ e :: r) -> In e' pre.
Proof.
  intros e e' pre r H L. rewrite (idx_at_split e pre r H) in L.
  destruct (in_dec (fun a b => match xevent_eqb a b as q return xevent_eqb a b = q -> {a = b} + {a <> b} with
                               | true => fun E => left (proj1 (xevent_eqb_eq a b) E)
                               | false => fun E => right (proj1 (xevent_eqb_neq a b) E) end eq_refl) e' pre) as [I|I]; [exact I|].
  rewrite (idx_app_notin e' pre _ I) in L. lia.
Qed.

Lemma after_split_notin : forall e e' pre r, ~ In e pre -> idx e (pre ++ e :: r) < idx e' (pre ++ e :: r) -> ~ In e' pre.
Proof.
  intros e e' pre r H L I. rewrite (idx_at_split e pre r H) in L. pose proof (idx_in_pre e' pre (e :: r) I). lia.
Qed.

Lemma NoDup_split_notin : forall (pre : list xevent) e r, NoDup (pre ++ e :: r) -> ~ In e pre /\ ~ In e r.
Proof.
  intros pre e r ND. apply NoDup_remove_2 in ND. split; intros X; apply ND; apply in_or_app; [left | right]; exact X.
Qed.

(* ------------------------------------------------------------------ association lists *)
Lemma aget_In : forall (A : Type) (l : list (nat * A)) k v, aget l k = Some v -> In (k, v) l.
Proof.
  intros A. induction l as [|[k' v'] l IH]; intros k v H; cbn in H; [discriminate|].
  destruct (Nat.eqb k' k) eqn:E.
  - apply Nat.eqb_eq in E. injection H as <-. subst. left. reflexivity.
  - right. apply IH. exact H.
Qed.

Lemma In_aget : forall (A : Type) (l : list (nat * A)) k v, NoDup (map fst l) -> In (k, v) l -> aget l k = Some v.
Proof.
  intros A. induction l as [|[k' v'] l IH]; intros k v ND H; [destruct H|]. cbn in *.
  apply NoDup_cons_iff in ND. destruct ND as [N1 N2]. destruct H as [H|H].
  - injection H as -> ->. rewrite Nat.eqb_refl. reflexivity.
  - destruct (Nat.eqb k' k) eqn:E.
    + apply Nat.eqb_eq in E. subst. exfalso. apply N1. apply (in_map fst) in H. exact H.
    + apply IH; assumption.
Qed.

Lemma aget_fst : forall (A : Type) (l : list (nat * A)) k v, aget l k = Some v -> In k (map fst l).
Proof. intros A l k v H. apply aget_In in H. apply (in_map fst) in H. exact H. Qed.

Lemma aget_some : forall (A : Type) (l : list (nat * A)) k, In k (map fst l) -> exists v, aget l k = Some v.
Proof.
  intros A. induction l as [|[k' v'] l IH]; intros k H; [destruct H|]. cbn in *.
  destruct (Nat.eqb k' k) eqn:E; [eexists; reflexivity|]. destruct H as [H|H]; [apply Nat.eqb_neq in E; contradiction|].
  apply IH. exact H.
Qed.

Lemma In_xdrop : forall b i j p, In (j, p) (xdrop b i) <-> In (j, p) b /\ j <> i.
Proof. intros b i j p. unfold xdrop. rewrite filter_In. cbn. rewrite negb_true_iff, Nat.eqb_neq. reflexivity. Qed.

Lemma In_fst_xdrop : forall b i j, In j (map fst (xdrop b i)) <-> In j (map fst b) /\ j <> i.
Proof.
  intros b i j. rewrite !in_map_iff. split.
  - intros [[k p] [E H]]. cbn in E. subst k. apply In_xdrop in H. destruct H as [H1 H2]. split; [|exact H2].
    exists (j, p). auto.
  - intros [[[k p] [E H]] Hne]. cbn in E. subst k. exists (j, p). split; [reflexivity|]. apply In_xdrop. auto.
Qed.

Lemma NoDup_fst_xdrop : forall b i, NoDup (map fst b) -> NoDup (map fst (xdrop b i)).
Proof.
  induction b as [|[k p] b IH]; intros i ND; [constructor|]. cbn in *. apply NoDup_cons_iff in ND. destruct ND as [N1 N2].
  destruct (negb (Nat.eqb k i)); cbn; [|apply IH; exact N2]. constructor; [|apply IH; exact N2].
  intros X. apply In_fst_xdrop in X. apply N1. apply X.
Qed.

(* ------------------------------------------------------------------ heap *)
Definition hst_wf (st : hst) : Prop :=
  (forall o r, get_ref st o = Some r -> r < h_next st /\ exists t, get_frame st r = Some t)
  /\ (forall o1 o2 r, get_ref st o1 = Some r -> get_ref st o2 = Some r -> o1 = o2).

Lemma get_ref_alloc : forall st o t o', get_ref (alloc st o t) o' = if Nat.eqb o o' then Some (h_next st) else get_ref st o'.
Proof. reflexivity. Qed.
Lemma get_frame_alloc : forall st o t r, get_frame (alloc st o t) r = if Nat.eqb (h_next st) r then Some t else get_frame st r.
Proof. reflexivity. Qed.
Lemma get_frame_set_frame : forall st r t r', get_frame (set_frame st r t) r' = if Nat.eqb r r' then Some t else get_frame st r'.
Proof. reflexivity. Qed.
Lemma get_ref_set_frame : forall st r t o, get_ref (set_frame st r t) o = get_ref st o.
Proof. reflexivity. Qed.
Lemma get_ref_set_ref : forall st o r o', get_ref (set_ref st o r) o' = if Nat.eqb o o' then Some r else get_ref st o'.
Proof. reflexivity. Qed.
Lemma get_frame_set_ref : forall st o r r', get_frame (set_ref st o r) r' = get_frame st r'.
Proof. reflexivity. Qed.

Lemma hst_wf_alloc : forall st o t, hst_wf st -> hst_wf (alloc st o t).
Proof.
  intros st o t [W1 W2]. split.
  - intros o' r H. rewrite get_ref_alloc in H. cbn [h_next alloc]. rewrite get_frame_alloc. destruct (Nat.eqb o o').
    + injection H as <-. rewrite Nat.eqb_refl. split; [lia | eexists; reflexivity].
    + destruct (W1 o' r H) as [L [t' F]]. split; [lia|]. destruct (Nat.eqb (h_next st) r) eqn:E; [eexists; reflexivity | exists t'; exact F].
  - intros o1 o2 r H1 H2. rewrite get_ref_alloc in H1, H2.
    destruct (Nat.eqb o o1) eqn:E1, (Nat.eqb o o2) eqn:E2.
    + apply Nat.eqb_eq in E1, E2. congruence.
    + injection H1 as <-. destruct (W1 o2 _ H2) as [L _]. lia.
    + injection H2 as <-. destruct (W1 o1 _ H1) as [L _]. lia.
    + exact (W2 o1 o2 r H1 H2).
Qed.

Lemma hst_wf_set_frame : forall st r t, hst_wf st -> hst_wf (set_frame st r t).
Proof.
  intros st r t [W1 W2]. split.
  - intros o r' H. rewrite get_ref_set_frame in H. destruct (W1 o r' H) as [L [t' F]]. split; [exact L|].
    rewrite get_frame_set_frame. destruct (Nat.eqb r r'); [eexists; reflexivity | exists t'; exact F].
  - exact W2.
Qed.

Lemma hst_wf_set_ref_same : forall st o r, hst_wf st -> get_ref st o = Some r -> hst_wf (set_ref st o r).
Proof.
  intros st o r [W1 W2] G.
  assert (S : forall o', get_ref (set_ref st o r) o' = get_ref st o').
  { intros o'. rewrite get_ref_set_ref. destruct (Nat.eqb o o') eqn:E; [apply Nat.eqb_eq in E; subst; symmetry; exact G | reflexivity]. }
  split.
  - intros o' r' H. rewrite S in H. exact (W1 o' r' H).
  - intros o1 o2 r' H1 H2. rewrite S in H1, H2. exact (W2 o1 o2 r' H1 H2).
Qed.

Lemma obs_inject : forall s o, obs (inject s) o = get_obj s o.
Proof.
  induction s as [|[k t] s IH]; intros o; [reflexivity|]. cbn [inject get_obj]. unfold obs. rewrite get_ref_alloc.
  destruct (Nat.eqb k o) eqn:E.
  - cbn [frame_of]. rewrite get_frame_alloc, Nat.eqb_refl. reflexivity.
  - fold (obs (inject s) o). rewrite <- IH. unfold obs. destruct (get_ref (inject s) o) as [r|] eqn:G; [|reflexivity].
    cbn [frame_of]. rewrite get_frame_alloc.
    assert (W : hst_wf (inject s)).
    { clear. induction s as [|[k t] s IH]; [split; intros; discriminate | apply hst_wf_alloc; exact IH]. }
    destruct W as [W1 _]. destruct (W1 o r G) as [L _]. destruct (Nat.eqb (h_next (inject s)) r) eqn:E'; [|reflexivity].
    apply Nat.eqb_eq in E'. lia.
Qed.

Lemma hst_wf_inject : forall s, hst_wf (inject s).
Proof. induction s as [|[k t] s IH]; [split; intros; discriminate | apply hst_wf_alloc; exact IH]. Qed.

Lemma read_obj_rd : forall x o, read_obj x = Some o -> In o (rd (base x)).
Proof.
  intros x o H. unfold read_obj in H. destruct (base x) as [o' c|o' ds|a b]; cbn; [discriminate | |]; injection H as ->; left; reflexivity.
Qed.

Lemma xindep_repl_l : forall a y, xindep (XRepl a) y = true -> independent a (base y) = true.
Proof. intros a y H. unfold xindep in H. cbn in H. rewrite orb_false_r in H. exact H. Qed.
Lemma xindep_repl_r : forall x a, xindep x (XRepl a) = true -> independent (base x) a = true.
Proof.
  intros x a H. unfold xindep in H. destruct x; cbn in H; rewrite orb_false_r in H; exact H.
Qed.

(* ------------------------------------------------------------------ the simulation *)
Section Sim.
  Variable n : nat.
  Variable steps : list xstep.
  Variable before : nat -> nat -> bool.
  Variable ev : list xevent.
  Hypothesis NDs : NoDup (map fst steps).
  Hypothesis WF : wf_x steps ev.
  Hypothesis SCH : scheduled_x before steps ev.
  Hypothesis DEP : xdep_ordered before steps.

  (* step i has read and not yet written *)
  Definition openp (pre : list xevent) (i : nat) : Prop := In (ERead i) pre /\ ~ In (EWrite i) pre.

  Record Inv (pre : list xevent) (st : hst) (b : xbufs) (s : store) : Prop := mkInv {
    iB0 : NoDup (map fst b);
    iB1 : forall i, In i (map fst b) <-> openp pre i;
    iB2 : forall i T, In (i, PCalc T) b -> In (ECalc i) pre;
    iB3 : forall i h hw, In (i, PRead h hw) b -> ~ In (ECalc i) pre;
    iW : hst_wf st;
    iA1 : forall i T a, In (i, PCalc T) b -> aget steps i = Some (XRepl a) -> get_obj s (wr a) = Some T;
    iA2 : forall o, (forall i T a, In (i, PCalc T) b -> aget steps i = Some (XRepl a) -> wr a <> o) -> get_obj s o = obs st o;
    iF : forall i h hw x, In (i, PRead h hw) b -> aget steps i = Some x -> h = do_read st x /\ hw = h }.

  Lemma split_facts : forall e pre r, ev = pre ++ e :: r ->
    ~ In e pre /\ In e ev /\ expected steps e
    /\ (forall e', idx e' ev < idx e ev -> In e' pre) /\ (forall e', idx e ev < idx e' ev -> ~ In e' pre).
  Proof.
    intros e pre r E. destruct WF as (ND & EX & _). rewrite E in ND. destruct (NoDup_split_notin pre e r ND) as [N1 N2].
    assert (I : In e ev) by (rewrite E; apply in_or_app; right; left; reflexivity).
    split; [exact N1|]. split; [exact I|]. split; [apply EX; exact I|]. split.
    - intros e' L. rewrite E in L. exact (before_split_in e e' pre r N1 L).
    - intros e' L. rewrite E in L. exact (after_split_notin e e' pre r N1 L).
  Qed.

  Lemma order_of : forall e, In e ev ->
    match e with
    | ERead _ => True
    | ECalc i => idx (ERead i) ev < idx e ev /\ idx e ev < idx (EWrite i) ev
    | EIns i _ => idx (ERead i) ev < idx e ev /\ idx e ev < idx (EWrite i) ev
    | EWrite i => idx (ERead i) ev < idx e ev
    end.
  Proof. destruct WF as (_ & _ & O). exact O. Qed.

  Lemma expected_in : forall e, expected steps e -> In e ev.
  Proof. destruct WF as (_ & EX & _). intros e. apply EX. Qed.
  Lemma in_expected : forall e, In e ev -> expected steps e.
  Proof. destruct WF as (_ & EX & _). intros e. apply EX. Qed.

  (* two steps open at the same time are unordered, hence xindep *)
  Lemma open_indep : forall pre suf i j x y, ev = pre ++ suf -> openp pre i -> openp pre j -> i <> j ->
    aget steps i = Some x -> aget steps j = Some y -> xindep x y = true.
  Proof.
    intros pre suf i j x y E [Ri Wi] [Rj Wj] Hne Ax Ay. destruct (xindep x y) eqn:X; [reflexivity | exfalso].
    destruct (DEP (i, x) (j, y) (aget_In _ _ _ _ Ax) (aget_In _ _ _ _ Ay) Hne X) as [B|B]; cbn [fst] in B.
    - pose proof (SCH i j B (aget_fst _ _ _ _ Ax) (aget_fst _ _ _ _ Ay)) as L. rewrite E in L.
      rewrite (idx_app_notin _ pre suf Wi) in L. pose proof (idx_in_pre _ pre suf Rj). lia.
    - pose proof (SCH j i B (aget_fst _ _ _ _ Ay) (aget_fst _ _ _ _ Ax)) as L. rewrite E in L.
      rewrite (idx_app_notin _ pre suf Wj) in L. pose proof (idx_in_pre _ pre suf Ri). lia.
  Qed.

  Lemma buf_open : forall pre st b s i p, Inv pre st b s -> In (i, p) b -> openp pre i.
  Proof. intros pre st b s i p I H. apply (iB1 _ _ _ _ I). apply (in_map fst) in H. exact H. Qed.

  Lemma open_buf : forall pre st b s i, Inv pre st b s -> openp pre i -> exists p, aget b i = Some p /\ In (i, p) b.
  Proof.
    intros pre st b s i I H. apply (iB1 _ _ _ _ I) in H. destruct (aget_some _ b i H) as [p A]. exists p. split; [exact A|].
    apply aget_In. exact A.
  Qed.

  (* the object an open step that has only read works on shows, in the abstract store, the table its handle points to *)
  Lemma read_fresh : forall pre suf st b s i h hw x o, ev = pre ++ suf -> Inv pre st b s ->
    In (i, PRead h hw) b -> aget steps i = Some x -> read_obj x = Some o ->
    h = get_ref st o /\ hw = h /\ get_obj s o = obs st o.
  Proof.
    intros pre suf st b s i h hw x o E I Hb Ax Ro. destruct (iF _ _ _ _ I i h hw x Hb Ax) as [Hh Hw].
    split; [rewrite Hh; unfold do_read; rewrite Ro; reflexivity|]. split; [exact Hw|].
    apply (iA2 _ _ _ _ I). intros j T a Hj Aj Wo.
    assert (Hne : j <> i).
    { intros ->. pose proof (In_aget _ b i _ (iB0 _ _ _ _ I) Hb) as A1. pose proof (In_aget _ b i _ (iB0 _ _ _ _ I) Hj) as A2. congruence. }
    pose proof (open_indep pre suf j i _ _ E (buf_open _ _ _ _ _ _ I Hj) (buf_open _ _ _ _ _ _ I Hb) Hne Aj Ax) as X.
    apply xindep_repl_l, independent_spec in X. destruct X as (_ & X & _). apply X. rewrite Wo. apply read_obj_rd. exact Ro.
  Qed.

  Lemma openp_snoc_other : forall pre e j, (forall i, e <> ERead i) -> (forall i, e <> EWrite i) -> (openp (pre ++ [e]) j <-> openp pre j).
  Proof.
    intros pre e j H1 H2. unfold openp. split; intros [A B]; split.
    - apply in_app_or in A. destruct A as [A|[A|[]]]; [exact A | exfalso; exact (H1 j A)].
    - intros X. apply B. apply in_or_app. left. exact X.
    - apply in_or_app. left. exact A.
    - intros X. apply in_app_or in X. destruct X as [X|[X|[]]]; [exact (B X) | exact (H2 j X)].
  Qed.

  (* ---- ERead ---- *)
  Lemma inv_read : forall pre r st b s i, ev = pre ++ ERead i :: r -> Inv pre st b s ->
    Inv (pre ++ [ERead i]) st ((i, let h := match aget steps i with Some x => do_read st x | None => None end in PRead h h) :: b) s.
  Proof.
    intros pre r st b s i E I. destruct (split_facts _ _ _ E) as (N & Iev & Ex & Bef & Aft). cbn [expected] in Ex.
    assert (NW : ~ In (EWrite i) pre) by (apply Aft; apply (order_of (EWrite i)); apply expected_in; exact Ex).
    assert (NC : ~ In (ECalc i) pre).
    { intros X. assert (Y : In (ECalc i) ev) by (rewrite E; apply in_or_app; left; exact X).
      destruct (order_of _ Y) as [L _]. exact (Aft _ L X). }
    cbn zeta. constructor.
    - cbn. constructor; [|exact (iB0 _ _ _ _ I)]. intros X. apply (iB1 _ _ _ _ I) in X. exact (N (proj1 X)).
    - intros j. cbn [map fst]. split.
      + intros [<-|H].
        * split; [apply in_or_app; right; left; reflexivity|]. intros X. apply in_app_or in X. destruct X as [X|[X|[]]]; [exact (NW X) | discriminate X].
        * apply (iB1 _ _ _ _ I) in H. destruct H as [A B]. split; [apply in_or_app; left; exact A|].
          intros X. apply in_app_or in X. destruct X as [X|[X|[]]]; [exact (B X) | discriminate X].
      + intros [A B]. apply in_app_or in A. destruct A as [A|[A|[]]].
        * right. apply (iB1 _ _ _ _ I). split; [exact A|]. intros X. apply B. apply in_or_app. left. exact X.
        * injection A as ->. left. reflexivity.
    - intros j T [H|H]; [discriminate H|]. apply in_or_app. left. exact (iB2 _ _ _ _ I j T H).
    - intros j h hw [H|H] X; apply in_app_or in X; destruct X as [X|[X|[]]]; try discriminate X.
      + injection H as <- _ _. exact (NC X).
      + exact (iB3 _ _ _ _ I j h hw H X).
    - exact (iW _ _ _ _ I).
    - intros j T a [H|H]; [discriminate H|]. exact (iA1 _ _ _ _ I j T a H).
    - intros o H. apply (iA2 _ _ _ _ I). intros j T a Hj Aj. apply (H j T a); [right; exact Hj | exact Aj].
    - intros j h hw x [H|H] Ax.
      + injection H as <- <- <-. rewrite Ax. auto.
      + exact (iF _ _ _ _ I j h hw x H Ax).
  Qed.

  Lemma dom_replace : forall (b : xbufs) i p j, In i (map fst b) -> (In j (map fst ((i, p) :: xdrop b i)) <-> In j (map fst b)).
  Proof.
    intros b i p j Hi. cbn [map fst]. split.
    - intros [<-|H]; [exact Hi | apply In_fst_xdrop in H; apply H].
    - intros H. destruct (Nat.eq_dec i j) as [->|Hne]; [left; reflexivity | right; apply In_fst_xdrop; split; [exact H | congruence]].
  Qed.

  (* ---- ECalc ---- *)
  Lemma sim_calc : forall pre r st b s i, ev = pre ++ ECalc i :: r -> Inv pre st b s ->
    exists h hw a, aget b i = Some (PRead h hw) /\ aget steps i = Some (XRepl a)
      /\ produce n a (frame_of st h) = produce n a (snapshot s a)
      /\ forall T, produce n a (snapshot s a) = inl T -> Inv (pre ++ [ECalc i]) st ((i, PCalc T) :: xdrop b i) (set_obj s (wr a) T).
  Proof.
    intros pre r st b s i E I. destruct (split_facts _ _ _ E) as (N & Iev & Ex & Bef & Aft). cbn [expected] in Ex.
    destruct Ex as [a Ax]. destruct (order_of _ Iev) as [L1 L2].
    assert (Op : openp pre i) by (split; [exact (Bef _ L1) | exact (Aft _ L2)]).
    assert (E' : ev = pre ++ (ECalc i :: r)) by exact E.
    destruct (open_buf _ _ _ _ _ I Op) as (p & Ab & Hb).
    destruct p as [h hw|T]; [|exfalso; exact (N (iB2 _ _ _ _ I i T Hb))].
    exists h, hw, a. split; [exact Ab|]. split; [exact Ax|]. split.
    - destruct a as [o cols|o ds|src dst]; cbn [produce snapshot]; [reflexivity | |].
      + destruct (read_fresh pre _ st b s i h hw _ o E' I Hb Ax eq_refl) as (Hh & _ & Ho). rewrite Hh.
        change (frame_of st (get_ref st o)) with (obs st o). rewrite Ho. reflexivity.
      + destruct (read_fresh pre _ st b s i h hw _ src E' I Hb Ax eq_refl) as (Hh & _ & Ho). rewrite Hh.
        change (frame_of st (get_ref st src)) with (obs st src). rewrite Ho. reflexivity.
    - intros T HT.
      assert (Hi : In i (map fst b)) by (apply (in_map fst) in Hb; exact Hb).
      assert (Other : forall j T' a', In (j, PCalc T') b -> aget steps j = Some (XRepl a') -> j <> i /\ independent a' a = true).
      { intros j T' a' Hj Aj. assert (Hne : j <> i).
        { intros ->. pose proof (In_aget _ b i _ (iB0 _ _ _ _ I) Hj). congruence. }
        split; [exact Hne|]. apply (xindep_repl_l a' (XRepl a)).
        exact (open_indep pre _ j i _ _ E' (buf_open _ _ _ _ _ _ I Hj) Op Hne Aj Ax). }
      constructor.
      + cbn [map fst]. constructor; [|apply NoDup_fst_xdrop; exact (iB0 _ _ _ _ I)]. intros X. apply In_fst_xdrop in X. destruct X as [_ X]. congruence.
      + intros j. rewrite (dom_replace b i _ j Hi). rewrite (iB1 _ _ _ _ I). symmetry. apply openp_snoc_other; intros; discriminate.
      + intros j T' [H|H].
        * injection H as <- _. apply in_or_app. right. left. reflexivity.
        * apply In_xdrop in H. apply in_or_app. left. exact (iB2 _ _ _ _ I j T' (proj1 H)).
      + intros j h' hw' [H|H] X; [discriminate H|]. apply In_xdrop in H. destruct H as [H Hne].
        apply in_app_or in X. destruct X as [X|[X|[]]]; [exact (iB3 _ _ _ _ I j h' hw' H X) | injection X as X; congruence].
      + exact (iW _ _ _ _ I).
      + intros j T' a' [H|H] Aj.
        * injection H as <- <-. assert (a' = a) by congruence. subst a'. rewrite get_set, Nat.eqb_refl. reflexivity.
        * apply In_xdrop in H. destruct H as [H Hne]. destruct (Other j T' a' H Aj) as [_ In']. apply independent_spec in In'.
          rewrite get_set. destruct (Nat.eqb (wr a) (wr a')) eqn:Q; [apply Nat.eqb_eq in Q; destruct In' as [X _]; congruence|].
          exact (iA1 _ _ _ _ I j T' a' H Aj).
      + intros o H. assert (Ho : wr a <> o) by (apply (H i T a); [left; reflexivity | exact Ax]).
        rewrite get_set. destruct (Nat.eqb (wr a) o) eqn:Q; [apply Nat.eqb_eq in Q; contradiction|].
        apply (iA2 _ _ _ _ I). intros j T' a' Hj Aj. apply (H j T' a'); [|exact Aj]. right. apply In_xdrop. split; [exact Hj|].
        exact (proj1 (Other j T' a' Hj Aj)).
      + intros j h' hw' x [H|H] Aj; [discriminate H|]. apply In_xdrop in H. exact (iF _ _ _ _ I j h' hw' x (proj1 H) Aj).
  Qed.

  Lemma not_calc_of_inpl : forall i sty o ds, aget steps i = Some (XInpl sty o ds) -> ~ In (ECalc i) ev.
  Proof. intros i sty o ds A X. apply in_expected in X. cbn in X. destruct X as [a X]. congruence. Qed.

  (* ---- EIns ---- *)
  Lemma sim_ins : forall pre r st b s i k, ev = pre ++ EIns i k :: r -> Inv pre st b s ->
    exists h hw sty o ds d, aget b i = Some (PRead h hw) /\ aget steps i = Some (XInpl sty o ds) /\ nth_error ds k = Some d
      /\ h = get_ref st o /\ get_obj s o = obs st o
      /\ forall rr t new, get_ref st o = Some rr -> get_frame st rr = Some t ->
           Inv (pre ++ [EIns i k]) (set_frame st rr (new ++ t)) ((i, PRead h (Some rr)) :: xdrop b i) (set_obj s o (new ++ t)).
  Proof.
    intros pre r st b s i k E I. destruct (split_facts _ _ _ E) as (N & Iev & Ex & Bef & Aft). cbn [expected] in Ex.
    destruct Ex as (sty & o & ds & Ax & Hk). destruct (order_of _ Iev) as [L1 L2].
    assert (Op : openp pre i) by (split; [exact (Bef _ L1) | exact (Aft _ L2)]).
    assert (E' : ev = pre ++ (EIns i k :: r)) by exact E.
    destruct (open_buf _ _ _ _ _ I Op) as (p & Ab & Hb).
    destruct p as [h hw|T].
    2:{ exfalso. apply (not_calc_of_inpl i sty o ds Ax). rewrite E. apply in_or_app. left. exact (iB2 _ _ _ _ I i T Hb). }
    destruct (nth_error ds k) as [d|] eqn:Hd; [|apply nth_error_None in Hd; lia].
    destruct (read_fresh pre _ st b s i h hw _ o E' I Hb Ax eq_refl) as (Hh & Hw & Ho).
    exists h, hw, sty, o, ds, d. repeat (split; [assumption || reflexivity|]).
    intros rr t new Gr Gf.
    assert (Hi : In i (map fst b)) by (apply (in_map fst) in Hb; exact Hb).
    assert (Other : forall j T' a', In (j, PCalc T') b -> aget steps j = Some (XRepl a') -> j <> i /\ wr a' <> o).
    { intros j T' a' Hj Aj. assert (Hne : j <> i).
      { intros ->. pose proof (In_aget _ b i _ (iB0 _ _ _ _ I) Hj). congruence. }
      split; [exact Hne|].
      pose proof (open_indep pre _ j i _ _ E' (buf_open _ _ _ _ _ _ I Hj) Op Hne Aj Ax) as X.
      apply xindep_repl_l, independent_spec in X. apply X. }
    constructor.
    + cbn [map fst]. constructor; [|apply NoDup_fst_xdrop; exact (iB0 _ _ _ _ I)]. intros X. apply In_fst_xdrop in X. destruct X as [_ X]. congruence.
    + intros j. rewrite (dom_replace b i _ j Hi). rewrite (iB1 _ _ _ _ I). symmetry. apply openp_snoc_other; intros; discriminate.
    + intros j T' [H|H]; [discriminate H|]. apply In_xdrop in H. apply in_or_app. left. exact (iB2 _ _ _ _ I j T' (proj1 H)).
    + intros j h' hw' [H|H] X.
      * injection H as <- _ _. apply in_app_or in X. destruct X as [X|[X|[]]]; [exact (iB3 _ _ _ _ I i h hw Hb X) | discriminate X].
      * apply In_xdrop in H. apply in_app_or in X. destruct X as [X|[X|[]]]; [exact (iB3 _ _ _ _ I j h' hw' (proj1 H) X) | discriminate X].
    + apply hst_wf_set_frame. exact (iW _ _ _ _ I).
    + intros j T' a' [H|H] Aj; [discriminate H|]. apply In_xdrop in H. destruct (Other j T' a' (proj1 H) Aj) as [_ Wn].
      rewrite get_set. destruct (Nat.eqb o (wr a')) eqn:Q; [apply Nat.eqb_eq in Q; congruence|]. exact (iA1 _ _ _ _ I j T' a' (proj1 H) Aj).
    + intros o' H. rewrite get_set. unfold obs. rewrite get_ref_set_frame. destruct (Nat.eqb o o') eqn:Q.
      * apply Nat.eqb_eq in Q. subst o'. rewrite Gr. cbn [frame_of]. rewrite get_frame_set_frame, Nat.eqb_refl. reflexivity.
      * assert (G : get_obj s o' = obs st o').
        { apply (iA2 _ _ _ _ I). intros j T' a' Hj Aj. apply (H j T' a'); [|exact Aj]. right. apply In_xdrop. split; [exact Hj|].
          exact (proj1 (Other j T' a' Hj Aj)). }
        rewrite G. unfold obs. destruct (get_ref st o') as [r'|] eqn:Gr'; [|reflexivity]. cbn [frame_of].
        rewrite get_frame_set_frame. destruct (Nat.eqb rr r') eqn:Q'; [|reflexivity]. apply Nat.eqb_eq in Q'. subst r'.
        destruct (iW _ _ _ _ I) as [_ W2]. pose proof (W2 o o' rr Gr Gr'). apply Nat.eqb_neq in Q. contradiction.
    + intros j h' hw' x [H|H] Aj.
      * injection H as <- <- <-. assert (x = XInpl sty o ds) by congruence. subst x. unfold do_read. cbn [read_obj base].
        rewrite get_ref_set_frame. split; [exact Hh | congruence].
      * apply In_xdrop in H. destruct (iF _ _ _ _ I j h' hw' x (proj1 H) Aj) as [F1 F2]. split; [|exact F2].
        rewrite F1. unfold do_read. destruct (read_obj x); [rewrite get_ref_set_frame|]; reflexivity.
  Qed.

  Lemma openp_snoc_write : forall pre i j, ~ In (EWrite i) pre -> (openp (pre ++ [EWrite i]) j <-> openp pre j /\ j <> i).
  Proof.
    intros pre i j NW. unfold openp. split.
    - intros [A B]. apply in_app_or in A. destruct A as [A|[A|[]]]; [|discriminate A]. split; [split; [exact A|]|].
      + intros X. apply B. apply in_or_app. left. exact X.
      + intros ->. apply B. apply in_or_app. right. left. reflexivity.
    - intros [[A B] Hne]. split; [apply in_or_app; left; exact A|]. intros X. apply in_app_or in X.
      destruct X as [X|[X|[]]]; [exact (B X) | injection X as X; congruence].
  Qed.

  (* ---- EWrite of a replacing step ---- *)
  Lemma sim_write_repl : forall pre r st b s i a, ev = pre ++ EWrite i :: r -> Inv pre st b s -> aget steps i = Some (XRepl a) ->
    exists T, aget b i = Some (PCalc T) /\ Inv (pre ++ [EWrite i]) (alloc st (wr a) T) (xdrop b i) s.
  Proof.
    intros pre r st b s i a E I Ax. destruct (split_facts _ _ _ E) as (N & Iev & Ex & Bef & Aft).
    pose proof (order_of _ Iev) as L1. cbn beta iota in L1.
    assert (Op : openp pre i) by (split; [exact (Bef _ L1) | exact N]).
    assert (E' : ev = pre ++ (EWrite i :: r)) by exact E.
    assert (IC : In (ECalc i) pre).
    { assert (Y : In (ECalc i) ev) by (apply expected_in; cbn; exists a; exact Ax). destruct (order_of _ Y) as [_ L2]. exact (Bef _ L2). }
    destruct (open_buf _ _ _ _ _ I Op) as (p & Ab & Hb).
    destruct p as [h hw|T]; [exfalso; exact (iB3 _ _ _ _ I i h hw Hb IC)|].
    exists T. split; [exact Ab|].
    assert (Other : forall j p' y, In (j, p') b -> j <> i -> aget steps j = Some y -> independent (base y) a = true).
    { intros j p' y Hj Hne Aj. apply xindep_repl_r. exact (open_indep pre _ j i _ _ E' (buf_open _ _ _ _ _ _ I Hj) Op Hne Aj Ax). }
    destruct (iW _ _ _ _ I) as [W1 W2].
    constructor.
    + apply NoDup_fst_xdrop. exact (iB0 _ _ _ _ I).
    + intros j. rewrite In_fst_xdrop, (iB1 _ _ _ _ I). symmetry. apply openp_snoc_write. exact N.
    + intros j T' H. apply In_xdrop in H. apply in_or_app. left. exact (iB2 _ _ _ _ I j T' (proj1 H)).
    + intros j h' hw' H X. apply In_xdrop in H. apply in_app_or in X. destruct X as [X|[X|[]]]; [exact (iB3 _ _ _ _ I j h' hw' (proj1 H) X) | discriminate X].
    + apply hst_wf_alloc. exact (iW _ _ _ _ I).
    + intros j T' a' H Aj. apply In_xdrop in H. exact (iA1 _ _ _ _ I j T' a' (proj1 H) Aj).
    + intros o H. unfold obs. rewrite get_ref_alloc. destruct (Nat.eqb (wr a) o) eqn:Q.
      * apply Nat.eqb_eq in Q. subst o. cbn [frame_of]. rewrite get_frame_alloc, Nat.eqb_refl. exact (iA1 _ _ _ _ I i T a Hb Ax).
      * assert (G : get_obj s o = obs st o).
        { apply (iA2 _ _ _ _ I). intros j T' a' Hj Aj. destruct (Nat.eq_dec j i) as [->|Hne].
          - assert (a' = a) by congruence. subst a'. apply Nat.eqb_neq. exact Q.
          - apply (H j T' a'); [|exact Aj]. apply In_xdrop. auto. }
        rewrite G. unfold obs. destruct (get_ref st o) as [r'|] eqn:Gr; [|reflexivity]. cbn [frame_of]. rewrite get_frame_alloc.
        destruct (Nat.eqb (h_next st) r') eqn:Q'; [|reflexivity]. apply Nat.eqb_eq in Q'. destruct (W1 o r' Gr) as [L _]. lia.
    + intros j h' hw' x H Aj. apply In_xdrop in H. destruct H as [H Hne]. destruct (iF _ _ _ _ I j h' hw' x H Aj) as [F1 F2].
      split; [|exact F2]. rewrite F1. unfold do_read. destruct (read_obj x) as [o'|] eqn:Ro; [|reflexivity].
      rewrite get_ref_alloc. destruct (Nat.eqb (wr a) o') eqn:Q; [|reflexivity]. apply Nat.eqb_eq in Q. exfalso.
      pose proof (Other j _ x H Hne Aj) as X. apply independent_spec in X. destruct X as (_ & _ & X). apply X. rewrite Q.
      apply read_obj_rd. exact Ro.
  Qed.

  (* ---- EWrite of an in-place step: the handle it stores is the one the object already has ---- *)
  Lemma sim_write_inpl : forall pre r st b s i sty o ds, ev = pre ++ EWrite i :: r -> Inv pre st b s ->
    aget steps i = Some (XInpl sty o ds) ->
    exists h, aget b i = Some (PRead h h) /\ h = get_ref st o
      /\ forall st', (forall o', get_ref st' o' = get_ref st o') -> (forall r', get_frame st' r' = get_frame st r') -> h_next st' = h_next st ->
            Inv (pre ++ [EWrite i]) st' (xdrop b i) s.
  Proof.
    intros pre r st b s i sty o ds E I Ax. destruct (split_facts _ _ _ E) as (N & Iev & Ex & Bef & Aft).
    pose proof (order_of _ Iev) as L1. cbn beta iota in L1.
    assert (Op : openp pre i) by (split; [exact (Bef _ L1) | exact N]).
    assert (E' : ev = pre ++ (EWrite i :: r)) by exact E.
    destruct (open_buf _ _ _ _ _ I Op) as (p & Ab & Hb).
    destruct p as [h hw|T].
    2:{ exfalso. apply (not_calc_of_inpl i sty o ds Ax). rewrite E. apply in_or_app. left. exact (iB2 _ _ _ _ I i T Hb). }
    destruct (read_fresh pre _ st b s i h hw _ o E' I Hb Ax eq_refl) as (Hh & Hw & _). subst hw.
    exists h. split; [exact Ab|]. split; [exact Hh|]. intros st' R F Nx.
    assert (Ob : forall o', obs st' o' = obs st o').
    { intros o'. unfold obs. rewrite R. destruct (get_ref st o'); cbn [frame_of]; [apply F | reflexivity]. }
    constructor.
    + apply NoDup_fst_xdrop. exact (iB0 _ _ _ _ I).
    + intros j. rewrite In_fst_xdrop, (iB1 _ _ _ _ I). symmetry. apply openp_snoc_write. exact N.
    + intros j T' H. apply In_xdrop in H. apply in_or_app. left. exact (iB2 _ _ _ _ I j T' (proj1 H)).
    + intros j h' hw' H X. apply In_xdrop in H. apply in_app_or in X. destruct X as [X|[X|[]]]; [exact (iB3 _ _ _ _ I j h' hw' (proj1 H) X) | discriminate X].
    + destruct (iW _ _ _ _ I) as [W1 W2]. split.
      * intros o' r' G. rewrite R in G. rewrite Nx, F. exact (W1 o' r' G).
      * intros o1 o2 r' G1 G2. rewrite R in G1, G2. exact (W2 o1 o2 r' G1 G2).
    + intros j T' a' H Aj. apply In_xdrop in H. exact (iA1 _ _ _ _ I j T' a' (proj1 H) Aj).
    + intros o' H. rewrite Ob. apply (iA2 _ _ _ _ I). intros j T' a' Hj Aj. apply (H j T' a'); [|exact Aj]. apply In_xdrop.
      split; [exact Hj|]. intros ->. pose proof (In_aget _ b i _ (iB0 _ _ _ _ I) Hj). congruence.
    + intros j h' hw' x H Aj. apply In_xdrop in H. destruct (iF _ _ _ _ I j h' hw' x (proj1 H) Aj) as [F1 F2]. split; [|exact F2].
      rewrite F1. unfold do_read. destruct (read_obj x); [rewrite R|]; reflexivity.
  Qed.

  Lemma sim : forall suf pre st b s, ev = pre ++ suf -> Inv pre st b s ->
    xout_rel (xrun n steps st b suf) (exec n s (flat_map (eff steps) suf)).
  Proof.
    induction suf as [|e suf IH]; intros pre st b s E I.
    - cbn. intros ob. symmetry. apply (iA2 _ _ _ _ I). intros i T a Hi _. exfalso.
      rewrite app_nil_r in E. subst pre. destruct (buf_open _ _ _ _ _ _ I Hi) as [R W]. apply W. apply expected_in.
      apply in_expected in R. exact R.
    - assert (E2 : ev = (pre ++ [e]) ++ suf) by (rewrite <- app_assoc; exact E).
      destruct e as [i|i|i k|i]; cbn [xrun flat_map eff app].
      + apply (IH _ _ _ _ E2). apply (inv_read pre suf); assumption.
      + destruct (sim_calc pre suf st b s i E I) as (h & hw & a & Ab & Ax & P & K). rewrite Ab, Ax. cbn [app exec].
        rewrite step_is_read_write. unfold write_from. rewrite P. destruct (produce n a (snapshot s a)) as [T|e'] eqn:Q.
        * apply (IH _ _ _ _ E2). apply K. reflexivity.
        * destruct e'; reflexivity.
      + destruct (sim_ins pre suf st b s i k E I) as (h & hw & sty & o & ds & d & Ab & Ax & Hd & Hh & Ho & K).
        rewrite Ab, Ax, Hd. cbn [app exec step]. rewrite Ho.
        assert (Hs : match sty with Mutate => h | Series => get_ref st o end = get_ref st o) by (destruct sty; [exact Hh | reflexivity]).
        rewrite Hs. subst h. unfold obs. destruct (get_ref st o) as [rr|] eqn:Gr; cbn [frame_of]; [|reflexivity].
        destruct (iW _ _ _ _ I) as [W1 _]. destruct (W1 o rr Gr) as [_ [t Gf]]. rewrite Gf.
        destruct (calc_cols n t [d]) as [new|f] eqn:C; [|reflexivity].
        apply (IH _ _ _ _ E2). apply K; first [reflexivity | assumption].
      + assert (Hi : In i (map fst steps)).
        { apply (in_expected (EWrite i)). rewrite E. apply in_or_app. right. left. reflexivity. }
        destruct (aget_some _ steps i Hi) as [x Ax]. destruct x as [a|sty o ds].
        * destruct (sim_write_repl pre suf st b s i a E I Ax) as (T & Ab & I'). rewrite Ab, Ax. exact (IH _ _ _ _ E2 I').
        * destruct (sim_write_inpl pre suf st b s i sty o ds E I Ax) as (h & Ab & Hh & K). rewrite Ab, Ax.
          destruct h as [rw|].
          -- apply (IH _ _ _ _ E2). apply K; try reflexivity. intros o'. rewrite get_ref_set_ref.
             destruct (Nat.eqb o o') eqn:Q; [apply Nat.eqb_eq in Q; subst o'; exact Hh | reflexivity].
          -- apply (IH _ _ _ _ E2). apply K; reflexivity.
  Qed.
End Sim.

(* every legal scheduled interleaving of a plan whose dependent steps are ordered computes the atomic actions of its events
   in event order: the same tables, the same failure *)
Lemma xrun_exec_l : forall n before steps ev st0 s0,
  NoDup (map fst steps) -> wf_x steps ev -> scheduled_x before steps ev -> xdep_ordered before steps ->
  hst_wf st0 -> (forall o, obs st0 o = get_obj s0 o) ->
  xout_rel (xrun n steps st0 [] ev) (exec n s0 (flat_map (eff steps) ev)).
Proof.
  intros n before steps ev st0 s0 ND WF SCH DEP W A.
  apply (sim n steps before ev WF SCH DEP ev [] st0 [] s0 eq_refl). constructor.
  - constructor.
  - intros i. split; [intros [] | intros [[] _]].
  - intros i T [].
  - intros i h hw [].
  - exact W.
  - intros i T a [].
  - intros o _. symmetry. apply A.
  - intros i h hw x [].
Qed.
