(* Lemmas about Model/Collection.v (C03). *)
From Coq Require Import List Bool String Arith Lia Permutation.
Import ListNotations.
Require Import MV.Model.Naming MV.Model.Collection MV.Spec.Columns MV.Proofs.NamingP.
Open Scope string_scope.
Open Scope list_scope.

(* ---------- feature equality ---------- *)
Lemma feq_spec : forall a b, feq a b = true <-> fgrp a = fgrp b /\ fname a = fname b /\ fkey a = fkey b.
Proof.
  intros a b. unfold feq. rewrite !andb_true_iff, !Nat.eqb_eq, String.eqb_eq. tauto.
Qed.

Lemma feq_refl : forall a, feq a a = true.
Proof. intros a. apply feq_spec. auto. Qed.

Lemma feq_sym : forall a b, feq a b = feq b a.
Proof.
  intros a b. apply eq_true_iff_eq. rewrite !feq_spec. intuition congruence.
Qed.

Lemma feq_trans : forall a b c, feq a b = true -> feq b c = true -> feq a c = true.
Proof. intros a b c. rewrite !feq_spec. intuition congruence. Qed.

Lemma feq_ignores_flag : forall g n k b b',
  feq {| fgrp := g; fname := n; fkey := k; fflag := b |} {| fgrp := g; fname := n; fkey := k; fflag := b' |} = true.
Proof. intros. apply feq_spec. auto. Qed.

(* ---------- de-duplicating insertion ---------- *)
Lemma insert_cases : forall coll f,
  (existsb (feq f) coll = true /\ insert coll f = coll) \/ (existsb (feq f) coll = false /\ insert coll f = coll ++ [f]).
Proof. intros coll f. unfold insert, add_feature. destruct (existsb (feq f) coll); cbn; auto. Qed.

Lemma insert_incl : forall coll f g, In g coll -> In g (insert coll f).
Proof.
  intros coll f g H. destruct (insert_cases coll f) as [[_ ->]|[_ ->]]; [exact H | apply in_or_app; left; exact H].
Qed.

Lemma collect_from_incl : forall order coll g, In g coll -> In g (collect_from coll order).
Proof.
  induction order as [|f t IH]; intros coll g H; cbn; [exact H|]. apply IH, insert_incl, H.
Qed.

Lemma collect_from_subset : forall order coll g, In g (collect_from coll order) -> In g coll \/ In g order.
Proof.
  induction order as [|f t IH]; intros coll g H; cbn in *; [left; exact H|].
  apply IH in H. destruct H as [H|H]; [|right; right; exact H].
  destruct (insert_cases coll f) as [[_ E]|[_ E]]; rewrite E in H; [left; exact H|].
  apply in_app_or in H. destruct H as [H|[<-|[]]]; [left; exact H | right; left; reflexivity].
Qed.

Lemma collect_from_app : forall l1 l2 coll, collect_from coll (l1 ++ l2) = collect_from (collect_from coll l1) l2.
Proof. intros. unfold collect_from. apply fold_left_app. Qed.

(* the stored representative of an equality class is its first occurrence *)
Lemma collect_from_first : forall order coll g,
  In g (collect_from coll order) <->
  In g coll \/ exists l1 l2, order = l1 ++ g :: l2 /\ (forall h, In h coll \/ In h l1 -> feq g h = false).
Proof.
  induction order as [|f t IH]; intros coll g.
  - cbn. split; [auto|]. intros [H|(l1 & l2 & H & _)]; [exact H | destruct l1; discriminate].
  - cbn [collect_from fold_left]. change (fold_left insert t (insert coll f)) with (collect_from (insert coll f) t).
    rewrite IH. destruct (insert_cases coll f) as [[Ex E]|[Ex E]]; rewrite E.
    + apply existsb_exists in Ex. destruct Ex as [h0 [Hh0 Hf0]]. split.
      * intros [H|(l1 & l2 & -> & Hn)]; [left; exact H|]. right. exists (f :: l1), l2. split; [reflexivity|].
        intros h [Hh|[<-|Hh]]; [apply Hn; auto | | apply Hn; auto].
        destruct (feq g f) eqn:Egf; [|reflexivity]. rewrite <- (Hn h0 (or_introl Hh0)). symmetry.
        eapply feq_trans; eassumption.
      * intros [H|(l1 & l2 & Ho & Hn)]; [left; exact H|]. destruct l1 as [|x l1]; cbn in Ho; injection Ho as <- ->.
        -- rewrite (Hn h0 (or_introl Hh0)) in Hf0. discriminate.
        -- right. exists l1, l2. split; [reflexivity|]. intros h [Hh|Hh]; apply Hn; [left | right; right]; exact Hh.
    + split.
      * intros [H|(l1 & l2 & -> & Hn)].
        -- apply in_app_or in H. destruct H as [H|[<-|[]]]; [left; exact H|]. right. exists [], t. split; [reflexivity|].
           intros h [Hh|[]]. rewrite <- not_true_iff_false in Ex. destruct (feq f h) eqn:Efh; [|reflexivity].
           exfalso. apply Ex. apply existsb_exists. exists h. auto.
        -- right. exists (f :: l1), l2. split; [reflexivity|].
           intros h [Hh|[<-|Hh]]; apply Hn; [left; apply in_or_app; left; exact Hh | left; apply in_or_app; right; left; reflexivity | right; exact Hh].
      * intros [H|(l1 & l2 & Ho & Hn)]; [left; apply in_or_app; left; exact H|].
        destruct l1 as [|x l1]; cbn in Ho; injection Ho as <- ->.
        -- left. apply in_or_app. right. left. reflexivity.
        -- right. exists l1, l2. split; [reflexivity|]. intros h [Hh|Hh]; apply Hn.
           ++ apply in_app_or in Hh. destruct Hh as [Hh|[<-|[]]]; [left; exact Hh | right; left; reflexivity].
           ++ right. right. exact Hh.
Qed.

Lemma collect_first_l : forall order g,
  In g (collect order) <-> exists l1 l2, order = l1 ++ g :: l2 /\ (forall h, In h l1 -> feq g h = false).
Proof.
  intros order g. unfold collect. rewrite collect_from_first. split.
  - intros [[]|(l1 & l2 & H & Hn)]. exists l1, l2. split; [exact H | intros h Hh; apply Hn; right; exact Hh].
  - intros (l1 & l2 & H & Hn). right. exists l1, l2. split; [exact H | intros h [[]|Hh]; apply Hn, Hh].
Qed.

(* ---------- the flag ---------- *)
Lemma flag_lost_from_false : forall order coll, flag_lost_from coll order = false ->
  forall r, In r order -> fflag r = true ->
  exists g, In g (collect_from coll order) /\ feq g r = true /\ fflag g = true.
Proof.
  induction order as [|f t IH]; intros coll Hk r Hin Hr; [destruct Hin|].
  cbn in Hk. apply orb_false_iff in Hk. destruct Hk as [Hf Ht]. cbn [collect_from fold_left].
  change (fold_left insert t (insert coll f)) with (collect_from (insert coll f) t).
  destruct Hin as [<-|Hin]; [|apply (IH _ Ht _ Hin Hr)].
  rewrite Hr in Hf. cbn in Hf. destruct (insert_cases coll f) as [[Ex E]|[Ex E]].
  - apply existsb_exists in Ex. destruct Ex as [h [Hh Hfh]]. exists h. split; [apply collect_from_incl; rewrite E; exact Hh|].
    rewrite feq_sym in Hfh. split; [exact Hfh|]. rewrite <- not_true_iff_false in Hf.
    destruct (fflag h) eqn:Eh; [reflexivity|]. exfalso. apply Hf. apply existsb_exists. exists h. split; [exact Hh|].
    rewrite Hfh, Eh. reflexivity.
  - exists f. split; [apply collect_from_incl; rewrite E; apply in_or_app; right; left; reflexivity|].
    split; [apply feq_refl | exact Hr].
Qed.

Lemma flag_preserved_partial_l : forall order r, kf_flag_lost order = false -> In r order -> fflag r = true ->
  exists g, In g (collect order) /\ feq g r = true /\ fflag g = true.
Proof. intros order r Hk. apply flag_lost_from_false. exact Hk. Qed.

Lemma dedup_in : forall l x, In x (dedup l) <-> In x l.
Proof.
  induction l as [|a l IH]; intros x; cbn; [tauto|]. destruct (mem_str a l) eqn:E.
  - rewrite IH. split; [auto|]. intros [<-|H]; [|exact H]. unfold mem_str in E. apply existsb_exists in E.
    destruct E as [y [Hy Ey]]. apply String.eqb_eq in Ey. subst. exact Hy.
  - cbn. rewrite IH. tauto.
Qed.

Lemma dedup_nodup : forall l, NoDup (dedup l).
Proof.
  induction l as [|a l IH]; cbn; [constructor|]. destruct (mem_str a l) eqn:E; [exact IH|].
  constructor; [|exact IH]. rewrite dedup_in. intros H. unfold mem_str in E. rewrite <- not_true_iff_false in E.
  apply E. apply existsb_exists. exists a. split; [exact H | apply String.eqb_refl].
Qed.

(* under the guard, the flagged members of the collection are exactly the requested features *)
Section Exact.
  Variables (order req : list feature).
  Hypothesis H1 : forall r, In r req -> fflag r = true /\ In r order.
  Hypothesis H2 : forall g, In g order -> fflag g = true -> In g req.
  Hypothesis H3 : forall r r', In r req -> In r' req -> feq r r' = true -> r = r'.
  Hypothesis Hk : kf_flag_lost order = false.

  Lemma flagged_collect : forall g, (In g (collect order) /\ fflag g = true) <-> In g req.
  Proof.
    intros g. split.
    - intros [Hin Hf]. apply collect_from_subset in Hin. destruct Hin as [[]|Hin]. apply H2; assumption.
    - intros Hr. destruct (H1 _ Hr) as [Hf Ho]. destruct (flag_preserved_partial_l _ _ Hk Ho Hf) as [h [Hh [Eh Fh]]].
      assert (In h req) as Hhr.
      { apply H2; [|exact Fh]. apply collect_from_subset in Hh. destruct Hh as [[]|Hh]. exact Hh. }
      rewrite (H3 _ _ Hhr Hr Eh) in Hh. auto.
  Qed.

  Variables (step : feature -> nat) (cols : nat -> list string).

  Lemma requested_names_exact : forall s n,
    In n (requested_names (step_features step (collect order) s)) <-> exists r, In r req /\ step r = s /\ fname r = n.
  Proof.
    intros s n. unfold requested_names, step_features. rewrite dedup_in, in_map_iff. split.
    - intros [g [Hn Hg]]. apply filter_In in Hg. destruct Hg as [Hg Hf]. apply filter_In in Hg. destruct Hg as [Hg Hs].
      apply Nat.eqb_eq in Hs. exists g. split; [apply flagged_collect; auto | auto].
    - intros [r [Hr [Hs Hn]]]. apply flagged_collect in Hr. destruct Hr as [Hr Hf]. exists r. split; [exact Hn|].
      apply filter_In. split; [|exact Hf]. apply filter_In. split; [exact Hr | apply Nat.eqb_eq; exact Hs].
  Qed.

  Lemma exact_partial_l : forall s c,
    In c (step_table cols step (collect order) s) <->
    In c (cols s) /\ exists r, In r req /\ step r = s /\ owner (fname r) c.
  Proof.
    intros s c. unfold step_table. rewrite select_spec_l. unfold wanted. split.
    - intros [Hc [n [Hn Ho]]]. apply requested_names_exact in Hn. destruct Hn as [r [Hr [Hs <-]]]. eauto 6.
    - intros [Hc [r [Hr [Hs Ho]]]]. split; [exact Hc|]. exists (fname r). split; [|exact Ho].
      apply requested_names_exact. eauto.
  Qed.

  Lemma one_table_l : (forall r r', In r req -> In r' req -> fname r = fname r' -> r = r') ->
    forall r, In r req -> forall s, In (fname r) (requested_names (step_features step (collect order) s)) <-> s = step r.
  Proof.
    intros Hn r Hr s. rewrite requested_names_exact. split.
    - intros [r' [Hr' [Hs E]]]. rewrite (Hn _ _ Hr' Hr E) in Hs. auto.
    - intros ->. eauto.
  Qed.
End Exact.

Lemma order_independent_l : forall order1 req1 order2 req2 step cols,
  (forall r, In r req1 -> fflag r = true /\ In r order1) -> (forall g, In g order1 -> fflag g = true -> In g req1) ->
  (forall r r', In r req1 -> In r' req1 -> feq r r' = true -> r = r') -> kf_flag_lost order1 = false ->
  (forall r, In r req2 -> fflag r = true /\ In r order2) -> (forall g, In g order2 -> fflag g = true -> In g req2) ->
  (forall r r', In r req2 -> In r' req2 -> feq r r' = true -> r = r') -> kf_flag_lost order2 = false ->
  (forall r, In r req1 <-> In r req2) ->
  forall s c, In c (step_table cols step (collect order1) s) <-> In c (step_table cols step (collect order2) s).
Proof.
  intros order1 req1 order2 req2 step cols A1 A2 A3 A4 B1 B2 B3 B4 Hreq s c.
  rewrite (exact_partial_l order1 req1 A1 A2 A3 A4), (exact_partial_l order2 req2 B1 B2 B3 B4).
  split; intros [Hc [r [Hr Hrest]]]; (split; [exact Hc | exists r; split; [apply Hreq; exact Hr | exact Hrest]]).
Qed.

(* ---------- the engine's calls are a fold of [insert] over their trace ---------- *)
Definition st_inv (st : pstate) : Prop := fst st = collect (map fst (snd st)).

Lemma collect_snoc : forall l f, collect (l ++ [f]) = insert (collect l) f.
Proof. intros l f. unfold collect. rewrite collect_from_app. reflexivity. Qed.

Lemma add_st_inv : forall st f, st_inv st -> st_inv (fst (add_st st f)).
Proof.
  intros [c tr] f H. unfold st_inv in *. cbn [fst snd] in H. unfold add_st. cbn [fst snd].
  destruct (add_feature c f) as [c' a] eqn:E. cbn [fst snd]. rewrite map_app. cbn [map fst].
  rewrite collect_snoc, <- H. unfold insert. rewrite E. reflexivity.
Qed.

Lemma fold_inv : forall (A : Type) (F : pstate -> A -> pstate) l,
  (forall s x, st_inv s -> st_inv (F s x)) -> forall s, st_inv s -> st_inv (fold_left F l s).
Proof. intros A F l HF. induction l as [|x t IH]; intros s Hs; cbn; [exact Hs | apply IH, HF, Hs]. Qed.

Lemma add_aux_inv : forall e g key st nm, st_inv st -> st_inv (add_aux e g key st nm).
Proof. intros. unfold add_aux. apply add_st_inv. assumption. Qed.

Lemma process_feature_inv : forall fuel e st nm key flag, st_inv st -> st_inv (process_feature fuel e st nm key flag).
Proof.
  induction fuel as [|n IH]; intros e st nm key flag Hs; cbn [process_feature]; [exact Hs|].
  set (f := {| fgrp := group_of e nm; fname := set_feature_name (supported e (group_of e nm)) nm; fkey := key; fflag := flag |}).
  pose proof (add_st_inv st f Hs) as H1. destruct (add_st st f) as [st1 added]. cbn [fst] in H1.
  assert (H2 : st_inv (if added then fold_left (fun s d => process_feature n e s d (dep_key e key) false)
                                      (inputs e (group_of e nm) (fname f)) st1 else st1)).
  { destruct added; [|exact H1]. apply fold_inv; [|exact H1]. intros s x Hx. apply IH, Hx. }
  cbn [fname f] in H2.
  destruct (index_cols e (group_of e nm)); destruct (links e);
    destruct (filters_for e (group_of e nm));
    repeat (apply fold_inv; [intros; apply add_aux_inv; assumption|]); exact H2.
Qed.

Lemma process_request_is_fold_l : forall fuel e req,
  fst (process_request fuel e req) = collect (map fst (snd (process_request fuel e req))).
Proof.
  intros fuel e req. unfold process_request. apply (fold_inv _ (fun s nm => process_feature fuel e s nm 0 true)).
  - intros s x Hx. apply process_feature_inv, Hx.
  - reflexivity.
Qed.

(* ---------- witnesses of the known-defect domain ---------- *)
(* one root group 0 with columns a, b; a GlobalFilter on b *)
Definition wit_env_filter : genv :=
  {| group_of := fun _ => 0; supported := fun _ => []; inputs := fun _ _ => []; dep_key := fun _ => 1;
     aux_key := fun _ => 0; filters_for := fun _ => Some ["b"]; index_cols := fun _ => []; links := None |}.
(* root group 0 with index column k and a link to group 1 on it; no filter *)
Definition wit_env_index : genv :=
  {| group_of := fun _ => 0; supported := fun _ => []; inputs := fun _ _ => []; dep_key := fun _ => 1;
     aux_key := fun _ => 0; filters_for := fun _ => None; index_cols := fun _ => [["k"]];
     links := Some [{| lgrp := 0; lidx := ["k"]; rgrp := 1; ridx := ["k2"] |}] |}.

Definition mkf (n : string) (b : bool) : feature := {| fgrp := 0; fname := n; fkey := 0; fflag := b |}.
Definition wit_order : list feature := [mkf "a" true; mkf "b" false; mkf "b" true; mkf "b" false].
Definition wit_req : list feature := [mkf "a" true; mkf "b" true].

Lemma wit_order_is_trace : map fst (snd (process_request 3 wit_env_filter ["a"; "b"])) = wit_order.
Proof. vm_compute. reflexivity. Qed.

Lemma flag_lost_refuted_l :
  (forall r, In r wit_req -> fflag r = true /\ In r wit_order) /\
  (forall g, In g wit_order -> fflag g = true -> In g wit_req) /\
  (forall r r', In r wit_req -> In r' wit_req -> feq r r' = true -> r = r') /\
  kf_flag_lost wit_order = true /\
  exists s c, In c ["a"; "b"] /\ (exists r, In r wit_req /\ 0 = s /\ owner (fname r) c) /\
              ~ In c (step_table (fun _ => ["a"; "b"]) (fun _ => 0) (collect wit_order) s).
Proof.
  split; [|split; [|split; [|split]]].
  - intros r [<-|[<-|[]]]; (split; [reflexivity | cbn; auto]).
  - intros g [<-|[<-|[<-|[<-|[]]]]] H; cbn in *; auto; discriminate.
  - intros r r' [<-|[<-|[]]] [<-|[<-|[]]] H; try reflexivity; vm_compute in H; discriminate.
  - vm_compute. reflexivity.
  - exists 0, "b". split; [cbn; auto|]. split.
    + exists (mkf "b" true). split; [cbn; auto|]. split; [reflexivity | left; reflexivity].
    + vm_compute. intros [H|[]]. discriminate.
Qed.

(* the same request in the other order keeps b; an index column requested after another feature of its group is lost too *)
Lemma flag_lost_order_dependence_l :
  step_table (fun _ => ["a"; "b"]) (fun _ => 0) (fst (process_request 3 wit_env_filter ["a"; "b"])) 0 = ["a"] /\
  step_table (fun _ => ["a"; "b"]) (fun _ => 0) (fst (process_request 3 wit_env_filter ["b"; "a"])) 0 = ["a"; "b"] /\
  kf_flag_lost (map fst (snd (process_request 3 wit_env_filter ["b"; "a"]))) = false /\
  step_table (fun _ => ["k"; "a"]) (fun _ => 0) (fst (process_request 3 wit_env_index ["a"; "k"])) 0 = ["a"] /\
  kf_flag_lost (map fst (snd (process_request 3 wit_env_index ["a"; "k"]))) = true /\
  step_table (fun _ => ["k"; "a"]) (fun _ => 0) (fst (process_request 3 wit_env_index ["k"; "a"])) 0 = ["k"; "a"].
Proof. vm_compute. repeat split. Qed.
