(* Lemmas about Model/Collection.v (C03). *)
From Coq Require Import List Bool String Arith Lia Permutation.
Import ListNotations.
Require Import MV.Model.Naming MV.Model.Collection MV.Spec.Columns MV.Proofs.NamingP.
Open Scope string_scope.
Open Scope list_scope.

(* ---------- feature equality ---------- *)
Lemma feq_spec : forall a b, feq a b = true <-> fgrp a = fgrp b /\ fname a = fname b /\ fkey a = fkey b.
Proof.
  intros a b. unfold feq. rewrite !andb_true_iff, !Nat.eqb_eq, String.eqb_eq. tauto.
Qed.

Lemma feq_refl : forall a, feq a a = true.
Proof. intros a. apply feq_spec. auto. Qed.

Lemma feq_sym : forall a b, feq a b = feq b a.
Proof.
  intros a b. apply eq_true_iff_eq. rewrite !feq_spec. intuition congruence.
Qed.

Lemma feq_trans : forall a b c, feq a b = true -> feq b c = true -> feq a c = true.
Proof. intros a b c. rewrite !feq_spec. intuition congruence. Qed.

Lemma feq_ignores_flag : forall g n k b b',
  feq {| fgrp := g; fname := n; fkey := k; fflag := b |} {| fgrp := g; fname := n; fkey := k; fflag := b' |} = true.
Proof. intros. apply feq_spec. auto. Qed.

(* ---------- de-duplicating insertion ---------- *)
Lemma feq_congr_r : forall a b x, feq a b = true -> feq x a = feq x b.
Proof.
  intros a b x H. apply eq_true_iff_eq. split; intros E; [eapply feq_trans; eassumption|].
  eapply feq_trans; [exact E | rewrite feq_sym; exact H].
Qed.

Lemma feq_set_requested : forall h x, feq (set_requested h) x = feq h x.
Proof. reflexivity. Qed.

Lemma feq_set_requested_r : forall h x, feq x (set_requested h) = feq x h.
Proof. reflexivity. Qed.

Definition has_eq (coll : list feature) (x : feature) : Prop := exists g, In g coll /\ feq g x = true.
Definition has_flagged_eq (coll : list feature) (x : feature) : Prop :=
  exists g, In g coll /\ feq g x = true /\ fflag g = true.

Lemma has_eq_cons : forall a t x, has_eq (a :: t) x <-> feq a x = true \/ has_eq t x.
Proof.
  intros a t x. unfold has_eq. split.
  - intros [g [[<-|Hg] E]]; [left; exact E | right; exists g; auto].
  - intros [E|[g [Hg E]]]; [exists a; cbn; auto | exists g; cbn; auto].
Qed.

Lemma has_flagged_eq_cons : forall a t x,
  has_flagged_eq (a :: t) x <-> (feq a x = true /\ fflag a = true) \/ has_flagged_eq t x.
Proof.
  intros a t x. unfold has_flagged_eq. split.
  - intros [g [[<-|Hg] E]]; [left; exact E | right; exists g; auto].
  - intros [E|[g [Hg E]]]; [exists a; cbn; auto | exists g; cbn; auto].
Qed.

Lemma has_eq_app : forall l1 l2 x, has_eq (l1 ++ l2) x <-> has_eq l1 x \/ has_eq l2 x.
Proof.
  intros l1 l2 x. unfold has_eq. split.
  - intros [g [Hg E]]. apply in_app_or in Hg. destruct Hg; [left | right]; exists g; auto.
  - intros [[g [Hg E]]|[g [Hg E]]]; exists g; (split; [apply in_or_app; auto | exact E]).
Qed.

Lemma has_flagged_eq_app : forall l1 l2 x, has_flagged_eq (l1 ++ l2) x <-> has_flagged_eq l1 x \/ has_flagged_eq l2 x.
Proof.
  intros l1 l2 x. unfold has_flagged_eq. split.
  - intros [g [Hg E]]. apply in_app_or in Hg. destruct Hg; [left | right]; exists g; auto.
  - intros [[g [Hg E]]|[g [Hg E]]]; exists g; (split; [apply in_or_app; auto | exact E]).
Qed.

Lemma existsb_feq_has_eq : forall f coll, existsb (feq f) coll = true <-> has_eq coll f.
Proof.
  intros f coll. rewrite existsb_exists. unfold has_eq.
  split; intros [g [Hg E]]; exists g; (split; [exact Hg | rewrite feq_sym; exact E]).
Qed.

Lemma mark_has_eq : forall f coll x, has_eq (mark_requested f coll) x <-> has_eq coll x.
Proof.
  intros f coll x. induction coll as [|a t IH]; cbn; [tauto|]. destruct (feq a f).
  - rewrite !has_eq_cons, feq_set_requested. tauto.
  - rewrite !has_eq_cons, IH. tauto.
Qed.

Lemma mark_flagged : forall f coll x, has_eq coll f ->
  (has_flagged_eq (mark_requested f coll) x <-> has_flagged_eq coll x \/ feq f x = true).
Proof.
  intros f coll x. induction coll as [|a t IH]; intros He; [destruct He as [g [[] _]]|]. cbn.
  destruct (feq a f) eqn:Eaf.
  - rewrite !has_flagged_eq_cons, feq_set_requested. cbn [fflag set_requested].
    assert (Hx : feq a x = feq f x).
    { apply eq_true_iff_eq. split; intros E; [eapply feq_trans; [rewrite feq_sym; exact Eaf | exact E] | eapply feq_trans; eassumption]. }
    rewrite Hx. tauto.
  - apply has_eq_cons in He. destruct He as [He|He]; [congruence|]. rewrite !has_flagged_eq_cons, (IH He). tauto.
Qed.

Lemma insert_has_eq : forall coll f x, has_eq (insert coll f) x <-> has_eq coll x \/ feq f x = true.
Proof.
  intros coll f x. unfold insert, add_feature. destruct (existsb (feq f) coll) eqn:Ex; cbn [fst].
  - apply existsb_feq_has_eq in Ex. assert (A : feq f x = true -> has_eq coll x).
    { intros E. destruct Ex as [g [Hg Eg]]. exists g. split; [exact Hg | eapply feq_trans; eassumption]. }
    destruct (fflag f); [rewrite mark_has_eq|]; tauto.
  - rewrite has_eq_app, has_eq_cons. unfold has_eq at 3. split; [|tauto]. intros [H|[H|[g [[] _]]]]; auto.
Qed.

Lemma insert_flagged : forall coll f x,
  has_flagged_eq (insert coll f) x <-> has_flagged_eq coll x \/ (feq f x = true /\ fflag f = true).
Proof.
  intros coll f x. unfold insert, add_feature. destruct (existsb (feq f) coll) eqn:Ex; cbn [fst].
  - apply existsb_feq_has_eq in Ex. destruct (fflag f) eqn:Ef; [rewrite (mark_flagged _ _ _ Ex); tauto|].
    split; [auto | intros [H|[_ H]]; [exact H | discriminate]].
  - rewrite has_flagged_eq_app, has_flagged_eq_cons. unfold has_flagged_eq at 3. split; [|tauto].
    intros [H|[H|[g [[] _]]]]; auto.
Qed.

Lemma collect_from_has_eq : forall order coll x,
  has_eq (collect_from coll order) x <-> has_eq coll x \/ exists r, In r order /\ feq r x = true.
Proof.
  induction order as [|f t IH]; intros coll x; cbn.
  - split; [auto|]. intros [H|[r [[] _]]]. exact H.
  - change (fold_left insert t (insert coll f)) with (collect_from (insert coll f) t). rewrite IH, insert_has_eq. split.
    + intros [[H|H]|[r [Hr E]]]; [auto | right; exists f; auto | right; exists r; auto].
    + intros [H|[r [[<-|Hr] E]]]; [auto | auto | right; exists r; auto].
Qed.

Lemma collect_from_flagged : forall order coll x,
  has_flagged_eq (collect_from coll order) x <->
  has_flagged_eq coll x \/ exists r, In r order /\ feq r x = true /\ fflag r = true.
Proof.
  induction order as [|f t IH]; intros coll x; cbn.
  - split; [auto|]. intros [H|[r [[] _]]]. exact H.
  - change (fold_left insert t (insert coll f)) with (collect_from (insert coll f) t). rewrite IH, insert_flagged. split.
    + intros [[H|H]|[r [Hr E]]]; [auto | right; exists f; auto | right; exists r; auto].
    + intros [H|[r [[<-|Hr] E]]]; [auto | auto | right; exists r; auto].
Qed.

Lemma collect_from_app : forall l1 l2 coll, collect_from coll (l1 ++ l2) = collect_from (collect_from coll l1) l2.
Proof. intros. unfold collect_from. apply fold_left_app. Qed.

(* the collection never holds two equal features *)
Inductive Distinct : list feature -> Prop :=
| D_nil : Distinct []
| D_cons : forall a l, (forall b, In b l -> feq a b = false) -> Distinct l -> Distinct (a :: l).

Lemma Distinct_eq : forall l, Distinct l -> forall a b, In a l -> In b l -> feq a b = true -> a = b.
Proof.
  intros l H. induction H as [|h l Hh Hl IH]; intros a b Ha Hb E; [destruct Ha|].
  destruct Ha as [<-|Ha]; destruct Hb as [<-|Hb]; try reflexivity.
  - rewrite (Hh _ Hb) in E. discriminate.
  - rewrite feq_sym, (Hh _ Ha) in E. discriminate.
  - apply IH; assumption.
Qed.

Lemma mark_in : forall f coll b, In b (mark_requested f coll) -> exists h, In h coll /\ feq h b = true.
Proof.
  intros f coll b. induction coll as [|a t IH]; cbn; [intros []|]. destruct (feq a f).
  - intros [<-|H]; [exists a; split; [left; reflexivity | rewrite feq_set_requested_r; apply feq_refl]
                   | exists b; split; [right; exact H | apply feq_refl]].
  - intros [<-|H]; [exists a; split; [left; reflexivity | apply feq_refl]|].
    destruct (IH H) as [h [Hh E]]. exists h. split; [right; exact Hh | exact E].
Qed.

Lemma mark_distinct : forall f coll, Distinct coll -> Distinct (mark_requested f coll).
Proof.
  intros f coll H. induction H as [|a l Ha Hl IH]; cbn; [constructor|]. destruct (feq a f).
  - constructor; [|exact Hl]. intros b Hb. rewrite feq_set_requested. apply Ha, Hb.
  - constructor; [|exact IH]. intros b Hb. destruct (mark_in _ _ _ Hb) as [h [Hh E]].
    rewrite <- (feq_congr_r _ _ a E). apply Ha, Hh.
Qed.

Lemma Distinct_snoc : forall l f, Distinct l -> (forall b, In b l -> feq b f = false) -> Distinct (l ++ [f]).
Proof.
  intros l f H. induction H as [|a l Ha Hl IH]; intros Hf; cbn.
  - constructor; [intros b []|constructor].
  - constructor.
    + intros b Hb. apply in_app_or in Hb. destruct Hb as [Hb|[<-|[]]]; [apply Ha, Hb | apply Hf; left; reflexivity].
    + apply IH. intros b Hb. apply Hf. right. exact Hb.
Qed.

Lemma insert_distinct : forall coll f, Distinct coll -> Distinct (insert coll f).
Proof.
  intros coll f H. unfold insert, add_feature. destruct (existsb (feq f) coll) eqn:Ex; cbn [fst].
  - destruct (fflag f); [apply mark_distinct|]; exact H.
  - apply Distinct_snoc; [exact H|]. intros b Hb. rewrite feq_sym. rewrite <- not_true_iff_false in Ex.
    destruct (feq f b) eqn:E; [|reflexivity]. exfalso. apply Ex. apply existsb_exists. exists b. auto.
Qed.

Lemma collect_from_distinct : forall order coll, Distinct coll -> Distinct (collect_from coll order).
Proof.
  induction order as [|f t IH]; intros coll H; cbn; [exact H|]. apply IH, insert_distinct, H.
Qed.

Lemma collect_distinct_l : forall order a b, In a (collect order) -> In b (collect order) -> feq a b = true -> a = b.
Proof. intros order. apply Distinct_eq. apply collect_from_distinct. constructor. Qed.

(* ---------- the flag ---------- *)
Lemma flag_preserved_l : forall order r, In r order -> fflag r = true ->
  exists g, In g (collect order) /\ feq g r = true /\ fflag g = true.
Proof.
  intros order r Hr Hf. apply (collect_from_flagged order [] r). right. exists r. split; [exact Hr|].
  split; [apply feq_refl | exact Hf].
Qed.

Definition any_flagged_eq (order : list feature) (g : feature) : bool := existsb (fun r => feq r g && fflag r) order.

Lemma any_flagged_eq_spec : forall order g,
  any_flagged_eq order g = true <-> exists r, In r order /\ feq r g = true /\ fflag r = true.
Proof.
  intros order g. unfold any_flagged_eq. rewrite existsb_exists.
  split; intros [r [Hr H]]; exists r; (split; [exact Hr|]); [apply andb_true_iff in H | apply andb_true_iff]; exact H.
Qed.

Lemma collect_flag_l : forall order g, In g (collect order) -> fflag g = any_flagged_eq order g.
Proof.
  intros order g Hg. apply eq_true_iff_eq. rewrite any_flagged_eq_spec. split.
  - intros Hf. assert (H : has_flagged_eq (collect order) g) by (exists g; split; [exact Hg | split; [apply feq_refl | exact Hf]]).
    apply (collect_from_flagged order [] g) in H. destruct H as [[h [[] _]]|H]. exact H.
  - intros H. assert (H' : has_flagged_eq (collect order) g) by (apply (collect_from_flagged order [] g); right; exact H).
    destruct H' as [g' [Hg' [E Fg']]]. rewrite <- (collect_distinct_l order g' g Hg' Hg E). exact Fg'.
Qed.

(* complete description of the collection: one feature per equality class that occurs among the calls, flagged iff some
   call of the class was flagged *)
Lemma collect_spec_l : forall order g,
  In g (collect order) <-> (exists r, In r order /\ feq r g = true) /\ fflag g = any_flagged_eq order g.
Proof.
  intros order g. split.
  - intros Hg. split; [|apply collect_flag_l, Hg].
    assert (H : has_eq (collect order) g) by (exists g; split; [exact Hg | apply feq_refl]).
    apply (collect_from_has_eq order [] g) in H. destruct H as [[h [[] _]]|H]. exact H.
  - intros [H Hf]. assert (H' : has_eq (collect order) g) by (apply (collect_from_has_eq order [] g); right; exact H).
    destruct H' as [g' [Hg' E]]. pose proof (collect_flag_l order g' Hg') as Fg'.
    assert (Eq : any_flagged_eq order g' = any_flagged_eq order g).
    { apply eq_true_iff_eq. rewrite !any_flagged_eq_spec.
      split; intros [r [Hr [Er Fr]]]; exists r; (split; [exact Hr|]); (split; [|exact Fr]);
        [rewrite <- (feq_congr_r _ _ r E) | rewrite (feq_congr_r _ _ r E)]; exact Er. }
    assert (Ff : fflag g' = fflag g) by congruence.
    apply feq_spec in E. destruct E as [E1 [E2 E3]].
    assert (Eg : g' = g) by (destruct g, g'; cbn in *; subst; reflexivity).
    rewrite <- Eg. exact Hg'.
Qed.

Lemma dedup_in : forall l x, In x (dedup l) <-> In x l.
Proof.
  induction l as [|a l IH]; intros x; cbn; [tauto|]. destruct (mem_str a l) eqn:E.
  - rewrite IH. split; [auto|]. intros [<-|H]; [|exact H]. unfold mem_str in E. apply existsb_exists in E.
    destruct E as [y [Hy Ey]]. apply String.eqb_eq in Ey. subst. exact Hy.
  - cbn. rewrite IH. tauto.
Qed.

Lemma dedup_nodup : forall l, NoDup (dedup l).
Proof.
  induction l as [|a l IH]; cbn; [constructor|]. destruct (mem_str a l) eqn:E; [exact IH|].
  constructor; [|exact IH]. rewrite dedup_in. intros H. unfold mem_str in E. rewrite <- not_true_iff_false in E.
  apply E. apply existsb_exists. exists a. split; [exact H | apply String.eqb_refl].
Qed.

(* ---------- exactly the requested columns, for every order of the engine's calls ---------- *)
Section Exact.
  Variables (order req : list feature).
  Hypothesis H1 : forall r, In r req -> fflag r = true /\ In r order.
  Hypothesis H2 : forall g, In g order -> fflag g = true -> In g req.
  Variables (step : feature -> nat) (cols : nat -> list string).
  Hypothesis Hstep : forall a b, feq a b = true -> step a = step b.

  Lemma requested_names_exact : forall s n,
    In n (requested_names (step_features step (collect order) s)) <-> exists r, In r req /\ step r = s /\ fname r = n.
  Proof.
    intros s n. unfold requested_names, step_features. rewrite dedup_in, in_map_iff. split.
    - intros [g [Hn Hg]]. apply filter_In in Hg. destruct Hg as [Hg Hf]. apply filter_In in Hg. destruct Hg as [Hg Hs].
      apply Nat.eqb_eq in Hs. rewrite (collect_flag_l _ _ Hg) in Hf. apply any_flagged_eq_spec in Hf.
      destruct Hf as [r [Hr [E Fr]]]. exists r. split; [apply H2; assumption|]. split.
      + rewrite (Hstep _ _ E). exact Hs.
      + apply feq_spec in E. destruct E as [_ [E _]]. congruence.
    - intros [r [Hr [Hs Hn]]]. destruct (H1 _ Hr) as [Fr Ho]. destruct (flag_preserved_l _ _ Ho Fr) as [g [Hg [E Fg]]].
      exists g. split.
      + apply feq_spec in E. destruct E as [_ [E _]]. congruence.
      + apply filter_In. split; [|exact Fg]. apply filter_In. split; [exact Hg|]. apply Nat.eqb_eq.
        rewrite (Hstep _ _ E). exact Hs.
  Qed.

  Lemma exact_l : forall s c,
    In c (step_table cols step (collect order) s) <->
    In c (cols s) /\ exists r, In r req /\ step r = s /\ owner (fname r) c.
  Proof.
    intros s c. unfold step_table. rewrite select_spec_l. unfold wanted. split.
    - intros [Hc [n [Hn Ho]]]. apply requested_names_exact in Hn. destruct Hn as [r [Hr [Hs <-]]]. eauto 6.
    - intros [Hc [r [Hr [Hs Ho]]]]. split; [exact Hc|]. exists (fname r). split; [|exact Ho].
      apply requested_names_exact. eauto.
  Qed.

  Lemma one_table_l : (forall r r', In r req -> In r' req -> fname r = fname r' -> step r = step r') ->
    forall r, In r req -> forall s, In (fname r) (requested_names (step_features step (collect order) s)) <-> s = step r.
  Proof.
    intros Hn r Hr s. rewrite requested_names_exact. split.
    - intros [r' [Hr' [Hs E]]]. rewrite <- Hs. apply Hn; assumption.
    - intros ->. eauto.
  Qed.
End Exact.

Lemma order_independent_l : forall order1 req1 order2 req2 step cols,
  (forall r, In r req1 -> fflag r = true /\ In r order1) -> (forall g, In g order1 -> fflag g = true -> In g req1) ->
  (forall r, In r req2 -> fflag r = true /\ In r order2) -> (forall g, In g order2 -> fflag g = true -> In g req2) ->
  (forall a b, feq a b = true -> step a = step b) ->
  (forall r, In r req1 <-> In r req2) ->
  forall s c, In c (step_table cols step (collect order1) s) <-> In c (step_table cols step (collect order2) s).
Proof.
  intros order1 req1 order2 req2 step cols A1 A2 B1 B2 Hstep Hreq s c.
  rewrite (exact_l order1 req1 A1 A2 step cols Hstep), (exact_l order2 req2 B1 B2 step cols Hstep).
  split; intros [Hc [r [Hr Hrest]]]; (split; [exact Hc | exists r; split; [apply Hreq; exact Hr | exact Hrest]]).
Qed.

(* ---------- the engine's calls are a fold of [insert] over their trace ---------- *)
Definition st_inv (st : pstate) : Prop := fst st = collect (map fst (snd st)).

Lemma collect_snoc : forall l f, collect (l ++ [f]) = insert (collect l) f.
Proof. intros l f. unfold collect. rewrite collect_from_app. reflexivity. Qed.

Lemma add_st_inv : forall st f, st_inv st -> st_inv (fst (add_st st f)).
Proof.
  intros [c tr] f H. unfold st_inv in *. cbn [fst snd] in H. unfold add_st. cbn [fst snd].
  destruct (add_feature c f) as [c' a] eqn:E. cbn [fst snd]. rewrite map_app. cbn [map fst].
  rewrite collect_snoc, <- H. unfold insert. rewrite E. reflexivity.
Qed.

Lemma fold_inv : forall (A : Type) (F : pstate -> A -> pstate) l,
  (forall s x, st_inv s -> st_inv (F s x)) -> forall s, st_inv s -> st_inv (fold_left F l s).
Proof. intros A F l HF. induction l as [|x t IH]; intros s Hs; cbn; [exact Hs | apply IH, HF, Hs]. Qed.

Lemma add_aux_inv : forall e g key st nm, st_inv st -> st_inv (add_aux e g key st nm).
Proof. intros. unfold add_aux. apply add_st_inv. assumption. Qed.

Lemma process_feature_inv : forall fuel e st nm key flag, st_inv st -> st_inv (process_feature fuel e st nm key flag).
Proof.
  induction fuel as [|n IH]; intros e st nm key flag Hs; cbn [process_feature]; [exact Hs|].
  set (f := {| fgrp := group_of e nm; fname := set_feature_name (supported e (group_of e nm)) nm; fkey := key; fflag := flag |}).
  pose proof (add_st_inv st f Hs) as H1. destruct (add_st st f) as [st1 added]. cbn [fst] in H1.
  assert (H2 : st_inv (if added then fold_left (fun s d => process_feature n e s d (dep_key e key) false)
                                      (inputs e (group_of e nm) (fname f)) st1 else st1)).
  { destruct added; [|exact H1]. apply fold_inv; [|exact H1]. intros s x Hx. apply IH, Hx. }
  cbn [fname f] in H2.
  destruct (index_cols e (group_of e nm)); destruct (links e);
    destruct (filters_for e (group_of e nm));
    repeat (apply fold_inv; [intros; apply add_aux_inv; assumption|]); exact H2.
Qed.

Lemma process_request_is_fold_l : forall fuel e req,
  fst (process_request fuel e req) = collect (map fst (snd (process_request fuel e req))).
Proof.
  intros fuel e req. unfold process_request. apply (fold_inv _ (fun s nm => process_feature fuel e s nm 0 true)).
  - intros s x Hx. apply process_feature_inv, Hx.
  - reflexivity.
Qed.

(* ---------- the former witnesses of the flag-lost defect (fixed by 069fedf) now return every requested column ---------- *)
(* one root group 0 with columns a, b; a GlobalFilter on b *)
Definition wit_env_filter : genv :=
  {| group_of := fun _ => 0; supported := fun _ => []; inputs := fun _ _ => []; dep_key := fun _ => 1;
     aux_key := fun _ => 0; filters_for := fun _ => Some ["b"]; index_cols := fun _ => []; links := None |}.
(* root group 0 with index column k and a link to group 1 on it; no filter *)
Definition wit_env_index : genv :=
  {| group_of := fun _ => 0; supported := fun _ => []; inputs := fun _ _ => []; dep_key := fun _ => 1;
     aux_key := fun _ => 0; filters_for := fun _ => None; index_cols := fun _ => [["k"]];
     links := Some [{| lgrp := 0; lidx := ["k"]; rgrp := 1; ridx := ["k2"] |}] |}.

Definition mkf (n : string) (b : bool) : feature := {| fgrp := 0; fname := n; fkey := 0; fflag := b |}.

Lemma flag_kept_examples_l :
  map fst (snd (process_request 3 wit_env_filter ["a"; "b"])) = [mkf "a" true; mkf "b" false; mkf "b" true; mkf "b" false] /\
  fst (process_request 3 wit_env_filter ["a"; "b"]) = [mkf "a" true; mkf "b" true] /\
  step_table (fun _ => ["a"; "b"]) (fun _ => 0) (fst (process_request 3 wit_env_filter ["a"; "b"])) 0 = ["a"; "b"] /\
  step_table (fun _ => ["a"; "b"]) (fun _ => 0) (fst (process_request 3 wit_env_filter ["b"; "a"])) 0 = ["a"; "b"] /\
  step_table (fun _ => ["k"; "a"]) (fun _ => 0) (fst (process_request 3 wit_env_index ["a"; "k"])) 0 = ["k"; "a"] /\
  step_table (fun _ => ["k"; "a"]) (fun _ => 0) (fst (process_request 3 wit_env_index ["k"; "a"])) 0 = ["k"; "a"].
Proof. vm_compute. repeat split. Qed.

(* ---------- execution modes ---------- *)
Require Import MV.Model.Modes.
From Coq Require Import Permutation.

Lemma seen_cols_perm : forall m m' held transferred s, Permutation (transferred s) (held s) ->
  Permutation (seen_cols m held transferred s) (seen_cols m' held transferred s).
Proof.
  intros m m' held transferred s P. unfold seen_cols.
  destruct (transfers m), (transfers m'); auto using Permutation_refl, Permutation_sym.
Qed.

Lemma seen_cols_in : forall m held transferred s c, Permutation (transferred s) (held s) ->
  (In c (seen_cols m held transferred s) <-> In c (held s)).
Proof.
  intros m held transferred s c P. unfold seen_cols. destruct (transfers m); [|tauto].
  split; intro H; [eapply Permutation_in; [exact P | exact H] | eapply Permutation_in; [apply Permutation_sym; exact P | exact H]].
Qed.

(* exactly the requested columns, in every mode: the transfer through the Flight store may reorder the columns but keeps
   the column set; the selection then returns exactly the columns HELD where the step ran that a requested feature owns *)
Lemma exact_any_mode_l : forall (order req : list feature),
  (forall r, In r req -> fflag r = true /\ In r order) ->
  (forall g, In g order -> fflag g = true -> In g req) ->
  forall (step : feature -> nat) (held transferred : nat -> list string),
  (forall a b, feq a b = true -> step a = step b) ->
  (forall s, Permutation (transferred s) (held s)) ->
  forall m s c,
    In c (step_table_in m held transferred step (collect order) s) <->
    In c (held s) /\ exists r, In r req /\ step r = s /\ owner (fname r) c.
Proof.
  intros order req H1 H2 step held transferred Hs HP m s c. unfold step_table_in.
  rewrite (exact_l order req H1 H2 step (seen_cols m held transferred) Hs s c).
  rewrite (seen_cols_in m held transferred s c (HP s)). tauto.
Qed.

(* the returned columns of a step do not depend on the mode: same set with ordering None, the very same list with
   'alphabetical' and with 'request_order' (for one iteration order `iter` of the requested names) *)
Lemma result_mode_independent_l : forall m m' iter held transferred o s,
  Permutation (transferred s) (held s) ->
  match identify iter (seen_cols m held transferred s) o, identify iter (seen_cols m' held transferred s) o with
  | RErr, RErr => True
  | RSet a, RSet b => Permutation a b
  | RList a, RList b => a = b
  | _, _ => False
  end.
Proof.
  intros m m' iter held transferred o s P. apply MV.Proofs.NamingP.identify_cols_perm_l.
  apply seen_cols_perm. exact P.
Qed.

Lemma step_table_mode_independent_l : forall m m' held transferred step coll s,
  Permutation (transferred s) (held s) ->
  Permutation (step_table_in m held transferred step coll s) (step_table_in m' held transferred step coll s).
Proof.
  intros m m' held transferred step coll s P. unfold step_table_in, step_table.
  apply MV.Proofs.NamingP.select_perm. apply seen_cols_perm. exact P.
Qed.
