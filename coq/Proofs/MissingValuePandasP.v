(* C19 lemmas: the Python glue of missing_value/pandas.py (Model/MissingValuePandas.v) computes the imputation
   specification under the kernel contracts `pd_contracts`; the three frameworks agree. *)
From Coq Require Import QArith List Bool Arith ZArith Lia.
Import ListNotations.
Require Import MV.Spec.Builtins MV.Model.MissingValuePyDict MV.Model.MissingValueArrow MV.Model.MissingValuePandas.
Require Import MV.Proofs.ImputeP MV.Proofs.ImputeGroupedP MV.Proofs.MissingValueArrowP.
Open Scope Q_scope.

Lemma rows_with_idx_of : forall keys k, rows_with keys k = idx_of keys k.
Proof. reflexivity. Qed.

Lemma fill_with_nth : forall v c j, (j < List.length c)%nat -> nth j (fill_with v c) None = keep_or (nth j c None) v.
Proof.
  intros v c j H. unfold fill_with.
  set (f := fun x : cell => match x with None => v | Some _ => x end).
  rewrite (nth_indep _ None (f None)) by (rewrite map_length; exact H).
  rewrite map_nth. unfold f, cell in *. destruct (nth j c None); reflexivity.
Qed.

Lemma fill_from_length : forall c o, List.length o = List.length c -> List.length (fill_from c o) = List.length c.
Proof. intros. unfold fill_from. rewrite map_length, combine_length. nlia. Qed.
Lemma fill_from_nth : forall c o j, List.length o = List.length c -> (j < List.length c)%nat ->
  nth j (fill_from c o) None = keep_or (nth j c None) (nth j o None).
Proof.
  intros c o j L H. unfold fill_from.
  set (f := fun p : cell * cell => match fst p with None => snd p | Some _ => fst p end).
  rewrite (nth_indep _ None (f (None, None))) by (rewrite map_length, combine_length; nlia).
  rewrite map_nth, combine_nth by (symmetry; exact L). unfold f. cbn [fst snd]. unfold cell in *.
  destruct (nth j c None); reflexivity.
Qed.

Lemma group_stat_col_nth : forall stat keys c j, (j < List.length keys)%nat ->
  nth j (group_stat_col stat keys c) None = stat (vals (members keys (nth j keys []) c)).
Proof.
  intros. unfold group_stat_col. set (f := fun k => stat (vals (members keys k c))).
  rewrite (nth_indep _ None (f [])) by (rewrite map_length; exact H).
  apply map_nth.
Qed.

Lemma keep_or_assoc : forall x a b, keep_or (keep_or x a) b = keep_or x (match a with Some v => Some v | None => b end).
Proof. intros [x|] [a|] b; reflexivity. Qed.

(* fillna(group statistic).fillna(overall statistic) *)
Lemma fill_two_levels : forall stat keys c, List.length keys = List.length c ->
  fill_with (stat (vals c)) (fill_from c (group_stat_col stat keys c)) = fill_stat stat keys c.
Proof.
  intros stat keys c L.
  assert (LG : List.length (group_stat_col stat keys c) = List.length c) by (unfold group_stat_col; rewrite map_length; exact L).
  apply nth_ext with (d := None) (d' := None).
  - rewrite fill_with_length, fill_from_length by exact LG. unfold fill_stat. rewrite map_length, combine_length. nlia.
  - intros j Hj. rewrite fill_with_length, fill_from_length in Hj by exact LG.
    rewrite fill_with_nth by (rewrite fill_from_length; auto). rewrite fill_from_nth by auto.
    rewrite group_stat_col_nth by nlia. rewrite fill_stat_nth by auto. rewrite keep_or_assoc. reflexivity.
Qed.

(* the groups handed out by groupby: disjoint, row i is in the group of its key *)
Lemma keyed_groups_disjoint : forall keys ks, NoDup ks -> disjoint_groups (map (rows_with keys) ks).
Proof.
  intros keys ks ND.
  replace (map (rows_with keys) ks) with (map snd (map (fun k => (k, idx_of keys k)) ks)) by (rewrite map_map; reflexivity).
  apply (groups_disjoint keys).
  - intros k idxs H. apply in_map_iff in H. destruct H as [k' [E _]]. inversion E; subst. reflexivity.
  - rewrite map_map. cbn [fst]. rewrite map_id. exact ND.
Qed.

Lemma keyed_groups_find : forall keys ks i, (forall k, In k ks <-> In k keys) -> (i < List.length keys)%nat ->
  find (mem_nat i) (map (rows_with keys) ks) = Some (idx_of keys (nth i keys [])).
Proof.
  intros keys ks i HK Hi. destruct (find (mem_nat i) (map (rows_with keys) ks)) as [idxs|] eqn:Ef.
  - apply find_some in Ef. destruct Ef as [Hin Hm]. apply mem_nat_true in Hm.
    apply in_map_iff in Hin. destruct Hin as [k [E _]]. subst idxs. rewrite rows_with_idx_of in *.
    apply in_idx_of in Hm. destruct Hm as [_ E]. rewrite E. reflexivity.
  - exfalso. assert (Hk : In (nth i keys []) ks) by (apply HK; apply nth_In; exact Hi).
    assert (Hs : In (rows_with keys (nth i keys [])) (map (rows_with keys) ks)) by (apply in_map; exact Hk).
    pose proof (find_none _ _ Ef _ Hs) as Hf. apply mem_nat_false in Hf. apply Hf.
    rewrite rows_with_idx_of. apply in_idx_of. split; auto.
Qed.

Section Pandas.
Variable K : pd_kernels.
Hypothesis HK : pd_contracts K.

Lemma pd_first_mode_spec : forall c, pd_first_mode K c = mode_l (vals c).
Proof.
  intros c. unfold pd_first_mode. rewrite (p_value_counts K HK). rewrite <- mode_refines_l.
  destruct (counter (vals c)) as [|p t] eqn:E. reflexivity.
  apply (p_idxmax K HK). discriminate.
Qed.

Lemma pd_plain_spec : forall m c, pd_plain K m c = impute_spec m c.
Proof.
  intros [| | |k| |] c; cbn [pd_plain impute_spec].
  - rewrite (p_fillna K HK), (p_mean K HK). reflexivity.
  - rewrite (p_fillna K HK), (p_median K HK). reflexivity.
  - rewrite (p_fillna K HK), pd_first_mode_spec. reflexivity.
  - apply (p_fillna K HK).
  - apply (p_ffill K HK).
  - apply (p_bfill K HK).
Qed.

(* ---- the per-group mode loop ---- *)
Section ModeLoop.
Variable keys : list key.
Variable data : col.
Hypothesis L : List.length keys = List.length data.

Definition mode_step (idxs : list nat) (r : col) : col :=
  match pd_first_mode K (cells_at data idxs) with
  | Some v => fill_indices (Some v) idxs r
  | None => r
  end.
Definition mode_val (idxs : list nat) (r : col) (j : nat) : cell :=
  keep_or (nth j r None) (pd_first_mode K (cells_at data idxs)).

Lemma mode_step_len : forall idxs r, List.length (mode_step idxs r) = List.length r.
Proof. intros. unfold mode_step. destruct (pd_first_mode K (cells_at data idxs)); auto. apply fill_indices_length. Qed.
Lemma mode_step_nth : forall idxs r j, True -> (forall i, In i idxs -> (i < List.length r)%nat) ->
  nth j (mode_step idxs r) None = if mem_nat j idxs then mode_val idxs r j else nth j r None.
Proof.
  intros idxs r j _ H. unfold mode_step, mode_val. destruct (pd_first_mode K (cells_at data idxs)) as [v|].
  - apply fill_indices_nth. exact H.
  - destruct (mem_nat j idxs); auto. destruct (nth j r None); reflexivity.
Qed.

Lemma pd_mode_loop_nth : forall j, (j < List.length data)%nat ->
  nth j (pd_mode_loop K keys data) None = keep_or (nth j data None) (mode_l (vals (members keys (nth j keys []) data))).
Proof.
  intros j Hj. unfold pd_mode_loop. destruct (p_groups K HK keys) as [ks [ND [HKS EG]]]. rewrite EG.
  change (fold_left _ (map (rows_with keys) ks) data)
    with (fold_left (fun r idxs => mode_step idxs r) (map (rows_with keys) ks) data).
  rewrite (fold_local (fun _ => True) mode_step mode_val mode_step_len mode_step_nth) with (c := data).
  - rewrite keyed_groups_find by (auto; nlia). unfold mode_val. rewrite pd_first_mode_spec.
    unfold cells_at. rewrite members_idx_of by exact L. reflexivity.
  - intros idxs r r' j' Hj' H. unfold mode_val, col, cell in *. rewrite (H _ Hj'). reflexivity.
  - intros idxs Hin. split. exact I. apply in_map_iff in Hin. destruct Hin as [k [E _]]. subst idxs.
    intros i Hi. rewrite rows_with_idx_of in Hi. apply idx_of_lt in Hi. nlia.
  - apply keyed_groups_disjoint. exact ND.
  - reflexivity.
  - reflexivity.
Qed.

Lemma pd_mode_loop_length : List.length (pd_mode_loop K keys data) = List.length data.
Proof. unfold pd_mode_loop. apply (fold_local_length mode_step mode_step_len). Qed.
End ModeLoop.

Lemma pd_grouped_spec : forall m keys c, List.length keys = List.length c ->
  pd_grouped K m keys c = impute_grouped_spec m keys c.
Proof.
  intros [| | |k| |] keys c L; cbn [pd_grouped impute_grouped_spec].
  - rewrite (p_transform_mean K HK) by exact L.
    rewrite (p_fillna_series K HK) by (unfold group_stat_col; rewrite map_length; exact L).
    rewrite (p_fillna K HK), (p_mean K HK). apply fill_two_levels. exact L.
  - rewrite (p_transform_median K HK) by exact L.
    rewrite (p_fillna_series K HK) by (unfold group_stat_col; rewrite map_length; exact L).
    rewrite (p_fillna K HK), (p_median K HK). apply fill_two_levels. exact L.
  - (* mode: the guarded overall fall-back is a fill with the overall mode in every case *)
    set (result := pd_mode_loop K keys c).
    assert (E : (if has_null result
                 then match pd_first_mode K c with Some ov => ps_fillna K result (Some ov) | None => result end
                 else result) = fill_with (mode_l (vals c)) result).
    { rewrite pd_first_mode_spec. destruct (has_null result) eqn:HN.
      - destruct (mode_l (vals c)). apply (p_fillna K HK). symmetry. apply fill_with_none.
      - symmetry. apply has_null_false_fill. exact HN. }
    rewrite E. apply nth_ext with (d := None) (d' := None).
    + rewrite fill_with_length. unfold result. rewrite pd_mode_loop_length. unfold fill_stat. rewrite map_length, combine_length. nlia.
    + intros j Hj. rewrite fill_with_length in Hj. unfold result in Hj. rewrite pd_mode_loop_length in Hj.
      rewrite fill_with_nth by (unfold result; rewrite pd_mode_loop_length; exact Hj).
      unfold result. rewrite pd_mode_loop_nth by auto. rewrite fill_stat_nth by auto. rewrite keep_or_assoc. reflexivity.
  - apply (p_fillna K HK).
  - apply (p_transform_ffill K HK). exact L.
  - apply (p_transform_bfill K HK). exact L.
Qed.

Lemma pd_perform_plain : forall m c, pd_perform K m None c = impute_spec m c.
Proof.
  intros m c. unfold pd_perform. destruct (has_null c) eqn:E; cbn [negb].
  - apply pd_plain_spec.
  - symmetry. apply impute_spec_no_null_id. exact E.
Qed.

Lemma pd_perform_grouped : forall m keys c, keys <> [] -> List.length keys = List.length c ->
  pd_perform K m (Some keys) c = impute_grouped_spec m keys c.
Proof.
  intros m keys c _ L. unfold pd_perform. destruct (has_null c) eqn:E; cbn [negb].
  - apply pd_grouped_spec. exact L.
  - symmetry. apply preserves_no_null_id; auto. apply impute_grouped_spec_preserves; auto.
Qed.
End Pandas.

(* the reference kernels satisfy the contracts *)
Lemma build_groups_keys_sub : forall keys k, In k (map fst (build_groups keys)) -> In k keys.
Proof.
  induction keys as [|x keys IH] using rev_ind; intros k H. cbn in H. contradiction.
  rewrite build_groups_snoc in H. pose proof (build_groups_inv keys) as [_ I2 _].
  destruct (in_dec (fun a b => list_eq_dec (fun x y : option Z => ltac:(decide equality; apply Z.eq_dec)) a b) x
                   (map fst (build_groups keys))) as [Hin|Hnot].
  - rewrite add_idx_in, map_fst_inc in H by auto. apply in_or_app. left. apply IH. exact H.
  - rewrite add_idx_notin, map_app in H by auto. apply in_app_or in H. apply in_or_app.
    destruct H as [H|[<-|[]]]. left. apply IH. exact H. right. left. reflexivity.
Qed.

Lemma ref_pd_contracts : pd_contracts ref_pd.
Proof.
  constructor; cbn; intros; auto.
  - destruct (most_common1 d) eqn:E. reflexivity. destruct d. contradiction. discriminate.
  - exists (map fst (build_groups keys)). pose proof (build_groups_inv keys) as [I1 I2 I3]. split. exact I2. split; auto.
    intros k. split. apply build_groups_keys_sub.
    intros Hk. apply In_nth with (d := []) in Hk. destruct Hk as [i [Hi E]]. rewrite <- E. apply I3. exact Hi.
Qed.

(* ---------------------------------------------------------------------------------------------------------- *)
(* the three frameworks agree                                                                                 *)
Lemma three_agree_grouped : forall Ka Kd, pa_contracts Ka -> pd_contracts Kd ->
  forall m ck gcols a, gcols <> [] -> a_cells a <> [] ->
  Forall (fun gc => List.length gc = List.length (a_cells a)) gcols -> wt_arr a ->
  (forall k, m = IConst k -> const_ok (a_ty a) (mk_py ck k) = true) -> kf_pa_string_stat m a = false ->
  let keys := rows_of gcols (List.length (a_cells a)) in
  exists r, pa_perform Ka m ck (Some gcols) a = Some r /\
            a_cells r = pd_perform Kd m (Some keys) (a_cells a) /\
            a_cells r = py_perform_imputation m (Some keys) (a_cells a).
Proof.
  intros Ka Kd HA HD m ck gcols a NE NC FL WT HC KF keys.
  destruct (pa_perform_grouped Ka HA m ck gcols a NE FL WT HC KF) as [r [E1 E2]].
  exists r. split. exact E1. split.
  - rewrite pd_perform_grouped; auto.
    + unfold keys. intro H. apply (f_equal (@List.length key)) in H. rewrite rows_of_length in H.
      cbn in H. apply length_zero_iff_nil in H. contradiction.
    + apply rows_of_length.
  - rewrite pydict_perform_grouped_refines_l by apply rows_of_length. exact E2.
Qed.
