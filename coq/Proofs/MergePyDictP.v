(* Refinement proof: outside the known-defect domains the PythonDict merge engine model computes the
   relational operators of Spec/Rel.v (as bags of rows).  Standard library only; no axioms. *)
From Coq Require Import List String ZArith Bool Permutation Lia.
Import ListNotations.
Require Import MV.Spec.Rel MV.Model.MergePyDict MV.Proofs.RelLemmas.
Open Scope string_scope.
Open Scope list_scope.

(* ==================================================================================================== *)
(* Python key equality *)

Lemma key_eqb_eq : forall a b, key_eqb a b = true <-> a = b.
Proof.
  induction a as [|x a IH]; destruct b as [|y b]; simpl; split; intro H; try discriminate; auto.
  - apply andb_true_iff in H. destruct H as [H1 H2]. apply val_eqb_eq in H1. apply IH in H2. now subst.
  - inversion H; subst. rewrite val_eqb_refl. simpl. now apply IH.
Qed.

Lemma key_eqb_refl : forall a, key_eqb a a = true.
Proof. intro. now apply key_eqb_eq. Qed.

Lemma key_eqb_sym : forall a b, key_eqb a b = key_eqb b a.
Proof. intros. apply eq_true_iff_eq. rewrite !key_eqb_eq. split; congruence. Qed.

Lemma key_eqb_neq : forall a b, key_eqb a b = false <-> a <> b.
Proof. intros. rewrite <- key_eqb_eq. destruct (key_eqb a b); split; congruence. Qed.

Lemma kmem_in : forall k l, kmem k l = true <-> In k l.
Proof.
  unfold kmem. intros. rewrite existsb_exists. split.
  - intros [x [Hx E]]. apply key_eqb_eq in E. now subst.
  - intro H. exists k. split; auto. apply key_eqb_refl.
Qed.

Lemma kmem_false : forall k l, kmem k l = false <-> ~ In k l.
Proof. intros. rewrite <- kmem_in. destruct (kmem k l); split; congruence. Qed.

Lemma kmem_app : forall k a b, kmem k (a ++ b) = kmem k a || kmem k b.
Proof. intros. unfold kmem. apply existsb_app. Qed.

Lemma has_dup_key_cons : forall k t, has_dup_key (k :: t) = false <-> ~ In k t /\ has_dup_key t = false.
Proof. intros. simpl. rewrite orb_false_iff, kmem_false. tauto. Qed.

(* ==================================================================================================== *)
(* {key: row} maps over duplicate-free key lists *)

Lemma dset_fresh : forall (k : list val) (v : row) d,
  ~ In k (map fst d) -> dset key_eqb k v d = d ++ [(k, v)].
Proof.
  induction d as [|[k' v'] t IH]; simpl; intros H; auto.
  destruct (key_eqb k' k) eqn:E.
  - apply key_eqb_eq in E. subst. tauto.
  - f_equal. apply IH. tauto.
Qed.

Lemma index_map_gen : forall ks data acc,
  has_dup_key (map (key_of ks) data) = false ->
  (forall r, In r data -> ~ In (key_of ks r) (map fst acc)) ->
  fold_left (fun m r => dset key_eqb (key_of ks r) r m) data acc = acc ++ map (fun r => (key_of ks r, r)) data.
Proof.
  induction data as [|r t IH]; simpl; intros acc ND H.
  - now rewrite app_nil_r.
  - apply orb_false_iff in ND. destruct ND as [N1 N2]. apply kmem_false in N1.
    rewrite dset_fresh by (apply H; auto).
    rewrite IH; auto.
    + now rewrite <- app_assoc.
    + intros r' Hr'. rewrite map_app, in_app_iff. simpl. intros [X|[X|[]]].
      * eapply H; eauto.
      * apply N1. rewrite X. now apply in_map.
Qed.

Lemma index_map_nodup : forall ks data,
  has_dup_key (map (key_of ks) data) = false -> index_map ks data = map (fun r => (key_of ks r, r)) data.
Proof. intros. unfold index_map. rewrite index_map_gen; auto. Qed.

Lemma kget_map : forall ks data k,
  kget k (map (fun r => (key_of ks r, r)) data) = find (fun r => key_eqb (key_of ks r) k) data.
Proof.
  unfold kget. induction data as [|r t IH]; simpl; intros k; auto.
  destruct (key_eqb (key_of ks r) k); auto.
Qed.

Lemma filter_find_unique : forall ks data k,
  has_dup_key (map (key_of ks) data) = false ->
  filter (fun r => key_eqb (key_of ks r) k) data =
  match find (fun r => key_eqb (key_of ks r) k) data with Some r => [r] | None => [] end.
Proof.
  induction data as [|r t IH]; simpl; intros k ND; auto.
  apply orb_false_iff in ND. destruct ND as [N1 N2]. apply kmem_false in N1.
  destruct (key_eqb (key_of ks r) k) eqn:E.
  - f_equal. apply key_eqb_eq in E. subst k.
    rewrite IH; auto. destruct (find _ t) as [r'|] eqn:F; auto.
    apply find_some in F. destruct F as [F1 F2]. apply key_eqb_eq in F2.
    exfalso. apply N1. rewrite <- F2. now apply in_map.
  - now apply IH.
Qed.

Lemma find_self : forall ks data r,
  has_dup_key (map (key_of ks) data) = false -> In r data ->
  find (fun r' => key_eqb (key_of ks r') (key_of ks r)) data = Some r.
Proof.
  induction data as [|x t IH]; simpl; intros r ND H; [tauto|].
  apply orb_false_iff in ND. destruct ND as [N1 N2]. apply kmem_false in N1.
  destruct H as [->|H].
  - now rewrite key_eqb_refl.
  - destruct (key_eqb (key_of ks x) (key_of ks r)) eqn:E.
    + apply key_eqb_eq in E. exfalso. apply N1. rewrite E. now apply in_map.
    + now apply IH.
Qed.

Lemma find_none_kmem : forall ks data k,
  find (fun r => key_eqb (key_of ks r) k) data = None <-> kmem k (map (key_of ks) data) = false.
Proof.
  induction data as [|r t IH]; simpl; intros k; [tauto|].
  rewrite (key_eqb_sym k). destruct (key_eqb (key_of ks r) k); simpl.
  - split; discriminate.
  - apply IH.
Qed.

Lemma existsb_filter_nil : forall (A : Type) (p : A -> bool) l, existsb p l = false <-> filter p l = [].
Proof.
  induction l as [|x t IH]; simpl; [tauto|].
  destruct (p x); simpl; [split; discriminate | exact IH].
Qed.

(* ==================================================================================================== *)
(* assignments into a row *)

Fixpoint last_write (c : col) (ws : list (col * val)) : option val :=
  match ws with
  | [] => None
  | (d, v) :: t => match last_write c t with
                   | Some w => Some w
                   | None => if String.eqb d c then Some v else None
                   end
  end.

Lemma get_row_set : forall c d v m, get c (row_set d v m) = if String.eqb d c then v else get c m.
Proof.
  unfold get, row_set. induction m as [|[e w] t IH]; simpl.
  - destruct (String.eqb d c); auto.
  - destruct (String.eqb e d) eqn:E; simpl.
    + apply String.eqb_eq in E. subst e. destruct (String.eqb d c); auto.
    + destruct (String.eqb e c) eqn:E2.
      * destruct (String.eqb d c) eqn:E3; auto.
        apply String.eqb_eq in E2. apply String.eqb_eq in E3. subst. rewrite String.eqb_refl in E. discriminate.
      * exact IH.
Qed.

Lemma get_row_writes : forall c ws m,
  get c (row_writes ws m) = match last_write c ws with Some v => v | None => get c m end.
Proof.
  unfold row_writes. induction ws as [|[d v] t IH]; simpl; intros m; auto.
  rewrite IH. destruct (last_write c t); auto. simpl. rewrite get_row_set. now destruct (String.eqb d c).
Qed.

Lemma last_write_app : forall c a b,
  last_write c (a ++ b) = match last_write c b with Some v => Some v | None => last_write c a end.
Proof.
  induction a as [|[d v] t IH]; simpl; intros b.
  - now destruct (last_write c b).
  - rewrite IH. destruct (last_write c b); auto.
Qed.

Lemma last_write_map_fun : forall (f : col -> val) c cs,
  last_write c (map (fun x => (x, f x)) cs) = if mem c cs then Some (f c) else None.
Proof.
  induction cs as [|d t IH]; simpl; auto.
  rewrite IH. rewrite (String.eqb_sym c d). destruct (mem c t); simpl.
  - now rewrite orb_true_r.
  - rewrite orb_false_r. destruct (String.eqb d c) eqn:E; auto. apply String.eqb_eq in E. now subst.
Qed.

Lemma last_write_nodup : forall c r, nodup_cols (row_cols r) = true -> last_write c r = lookup c r.
Proof.
  induction r as [|[d v] t IH]; simpl; intros H; auto.
  apply andb_true_iff in H. destruct H as [H1 H2]. rewrite IH; auto.
  destruct (String.eqb d c) eqn:E.
  - apply String.eqb_eq in E. subst d.
    assert (X : lookup c t = None) by (apply lookup_none; unfold has_col; now destruct (mem c (row_cols t))).
    now rewrite X.
  - now destruct (lookup c t).
Qed.

(* {**l, **r} reads r where r binds the column, l elsewhere *)
Lemma get_row_update : forall c l r,
  nodup_cols (row_cols r) = true ->
  get c (row_update l r) = if has_col c r then get c r else get c l.
Proof.
  intros c l r W. unfold row_update. rewrite get_row_writes, last_write_nodup; auto.
  unfold get at 2. destruct (lookup c r) eqn:E.
  - destruct (has_col c r) eqn:H; auto. apply lookup_none in H. congruence.
  - apply lookup_none in E. now rewrite E.
Qed.

Lemma mem_cols_minus : forall c a b, mem c (cols_minus a b) = mem c a && negb (mem c b).
Proof.
  intros. apply eq_true_iff_eq. unfold cols_minus.
  rewrite andb_true_iff, negb_true_iff, !mem_in, filter_In, negb_true_iff. tauto.
Qed.

Lemma key_writes_key_of : forall ks r, key_writes ks (key_of ks r) = map (fun c => (c, get c r)) ks.
Proof. unfold key_writes, key_of. induction ks; simpl; intros; auto. now rewrite IHks. Qed.

Lemma list_col_eqb_eq : forall a b, list_col_eqb a b = true -> a = b.
Proof.
  unfold list_col_eqb. induction a as [|x a IH]; destruct b as [|y b]; simpl; intro H; try discriminate; auto.
  apply andb_true_iff in H. destruct H as [H1 H2]. apply andb_true_iff in H2. destruct H2 as [H2 H3].
  apply String.eqb_eq in H2. subst. f_equal. apply IH. simpl in H1. now rewrite H1, H3.
Qed.

(* ==================================================================================================== *)
(* row-level facts used by all four joins *)

Lemma rows_wf_in : forall t r, rows_wf t = true -> In r t -> nodup_cols (row_cols r) = true.
Proof. unfold rows_wf. intros t r H Hr. rewrite forallb_forall in H. auto. Qed.

Lemma key_nonnull_get : forall ks r c,
  existsb is_null (key_of ks r) = false -> mem c ks = true -> get c r <> VNull.
Proof.
  intros ks r c H M E. apply mem_in in M.
  assert (X : existsb is_null (key_of ks r) = true).
  { apply existsb_exists. exists (get c r). split; [|now rewrite E].
    unfold key_of. apply in_map_iff. eauto. }
  congruence.
Qed.

Lemma shared_key_mem : forall lk rk c, shared_key lk rk c = true -> mem c lk = true /\ mem c rk = true.
Proof.
  unfold shared_key. induction lk as [|a lk IH]; destruct rk as [|b rk]; simpl; intros c H; try discriminate.
  apply orb_true_iff in H. destruct H as [H|H].
  - apply andb_true_iff in H. destruct H as [H1 H2]. rewrite (String.eqb_sym c a), (String.eqb_sym c b), H1, H2. auto.
  - destruct (IH _ _ H) as [X Y]. rewrite X, Y, !orb_true_r. auto.
Qed.

Section Rows.
  Variables (lk rk : list col) (L R : table).
  Hypothesis OF : overlap_free lk rk L R = true.
  Hypothesis WL : rows_wf L = true.
  Hypothesis WR : rows_wf R = true.

  (* a matched pair: {**l, **r} is the spec's row *)
  Lemma row_update_union : forall l r,
    In l L -> In r R -> key_of lk l = key_of rk r -> row_equiv (row_update l r) (row_union l r).
  Proof.
    intros l r Hl Hr K c. rewrite get_row_update by (eapply rows_wf_in; eauto). rewrite get_row_union.
    destruct (has_col c r) eqn:Hcr, (has_col c l) eqn:Hcl; auto.
    - symmetry. eapply shared_key_get; eauto.
      eapply (proj1 (overlap_free_spec _ _ _ _) OF); eapply has_col_table_cols; eauto.
    - now rewrite !get_no_col.
  Qed.

  (* filling columns the row cannot have with None does not change the row *)
  Lemma fill_equiv : forall fill r,
    (forall c, mem c fill = true -> has_col c r = false) ->
    row_equiv (row_writes (map (fun c => (c, VNull)) fill) r) r.
  Proof.
    intros fill r H c. rewrite get_row_writes, (last_write_map_fun (fun _ => VNull)).
    destruct (mem c fill) eqn:M; auto. symmetry. apply get_no_col. auto.
  Qed.

  Lemma fill_left_equiv : forall l, In l L ->
    row_equiv (row_writes (map (fun c => (c, VNull)) (cols_minus (cols_minus (table_cols R) rk) (table_cols L))) l) l.
  Proof.
    intros l Hl. apply fill_equiv. intros c M. rewrite mem_cols_minus in M.
    apply andb_true_iff in M. destruct M as [_ M]. apply negb_true_iff in M.
    destruct (has_col c l) eqn:E; auto. rewrite (has_col_table_cols c l L) in M; auto.
  Qed.

  Lemma fill_right_equiv : forall r, In r R ->
    row_equiv (row_writes (map (fun c => (c, VNull)) (cols_minus (cols_minus (table_cols L) lk) (table_cols R))) r) r.
  Proof.
    intros r Hr. apply fill_equiv. intros c M. rewrite mem_cols_minus in M.
    apply andb_true_iff in M. destruct M as [_ M]. apply negb_true_iff in M.
    destruct (has_col c r) eqn:E; auto. rewrite (has_col_table_cols c r R) in M; auto.
  Qed.

  (* ---- the row built by _outer_join ---- *)

  Lemma get_outer_row : forall lm rm key c,
    get c (outer_row L R lk rk lm rm key) =
    let lrow := match kget key lm with Some r => r | None => [] end in
    let rrow := match kget key rm with Some r => r | None => [] end in
    let in_l := match kget key lm with Some _ => true | None => false end in
    let in_r := match kget key rm with Some _ => true | None => false end in
    if mem c (table_cols R) && negb (mem c rk) then get c rrow
    else if mem c (table_cols L) && negb (mem c lk) then get c lrow
    else match last_write c (if list_col_eqb lk rk then key_writes lk key
                             else (if in_l then key_writes lk key else []) ++ (if in_r then key_writes rk key else []))
         with Some v => v | None => VNull end.
  Proof.
    intros. unfold outer_row. rewrite get_row_writes. rewrite !last_write_app.
    rewrite (last_write_map_fun (fun x => get x match kget key rm with Some r => r | None => [] end)).
    rewrite (last_write_map_fun (fun x => get x match kget key lm with Some r => r | None => [] end)).
    rewrite !mem_cols_minus. cbv zeta.
    destruct (mem c (table_cols R) && negb (mem c rk)); auto.
    destruct (mem c (table_cols L) && negb (mem c lk)); auto.
  Qed.

  Ltac sat :=
    repeat match goal with
    | H : true = true -> _ |- _ => specialize (H eq_refl)
    | H : false = false -> _ |- _ => specialize (H eq_refl)
    | H : false = true -> _ |- _ => clear H
    | H : true = false -> _ |- _ => clear H
    | H : _ /\ _ |- _ => destruct H
    | H : ?a = ?b, H2 : ?a = ?b -> _ |- _ => specialize (H2 H)
    | H : ?a <> ?b, H2 : ?a <> ?b -> _ |- _ => specialize (H2 H)
    | H : false = true |- _ => discriminate H
    | H : true = false |- _ => discriminate H
    end.

  Lemma outer_row_both : forall lm rm l r c,
    kget (key_of lk l) lm = Some l -> kget (key_of lk l) rm = Some r ->
    In l L -> In r R -> key_of lk l = key_of rk r -> existsb is_null (key_of lk l) = false ->
    get c (outer_row L R lk rk lm rm (key_of lk l)) = get c (row_union l r).
  Proof.
    intros lm rm l r c GL GR Hl Hr K NN.
    rewrite get_outer_row, GL, GR, get_row_union. cbv zeta.
    pose proof (has_col_table_cols c l L Hl) as F1.
    pose proof (has_col_table_cols c r R Hr) as F2.
    pose proof (proj1 (overlap_free_spec _ _ _ _) OF c) as F3.
    pose proof (shared_key_mem lk rk c) as F4.
    pose proof (fun H => shared_key_get lk rk c l r H K) as F5.
    pose proof (key_nonnull_get lk l c NN) as F6.
    assert (F7 : mem c rk = true -> get c r <> VNull) by (apply key_nonnull_get; now rewrite <- K).
    pose proof (get_nonnull_has_col c l) as F8.
    pose proof (get_nonnull_has_col c r) as F9.
    pose proof (get_no_col c l) as F10.
    pose proof (get_no_col c r) as F11.
    destruct (list_col_eqb lk rk) eqn:EQ.
    - apply list_col_eqb_eq in EQ. subst rk.
      rewrite key_writes_key_of, (last_write_map_fun (fun x => get x l)).
      destruct (mem c (table_cols R)) eqn:M1, (mem c lk) eqn:M2, (mem c (table_cols L)) eqn:M3,
               (has_col c l) eqn:M4, (has_col c r) eqn:M5; simpl; sat; congruence.
    - rewrite last_write_app. replace (key_writes rk (key_of lk l)) with (key_writes rk (key_of rk r)) by now rewrite K.
      rewrite !key_writes_key_of.
      rewrite (last_write_map_fun (fun x => get x r)), (last_write_map_fun (fun x => get x l)).
      destruct (mem c (table_cols R)) eqn:M1, (mem c lk) eqn:M2, (mem c (table_cols L)) eqn:M3,
               (has_col c l) eqn:M4, (has_col c r) eqn:M5, (mem c rk) eqn:M6; simpl; sat; congruence.
  Qed.

  Lemma outer_row_left : forall lm rm l c,
    kget (key_of lk l) lm = Some l -> kget (key_of lk l) rm = None -> In l L ->
    get c (outer_row L R lk rk lm rm (key_of lk l)) = get c l.
  Proof.
    intros lm rm l c GL GR Hl.
    rewrite get_outer_row, GL, GR. cbv beta iota zeta. rewrite ?get_nil.
    pose proof (has_col_table_cols c l L Hl) as F1.
    pose proof (proj1 (overlap_free_spec _ _ _ _) OF c) as F3.
    pose proof (shared_key_mem lk rk c) as F4.
    pose proof (get_no_col c l) as F10.
    assert (KW : last_write c (if list_col_eqb lk rk then key_writes lk (key_of lk l)
                               else key_writes lk (key_of lk l) ++ []) =
                 if mem c lk then Some (get c l) else None).
    { rewrite app_nil_r. destruct (list_col_eqb lk rk);
        now rewrite key_writes_key_of, (last_write_map_fun (fun x => get x l)). }
    rewrite KW.
    destruct (mem c (table_cols R)) eqn:M1, (mem c lk) eqn:M2, (mem c (table_cols L)) eqn:M3,
             (has_col c l) eqn:M4, (mem c rk) eqn:M6; simpl; sat; congruence.
  Qed.

  Lemma outer_row_right : forall lm rm r c,
    kget (key_of rk r) lm = None -> kget (key_of rk r) rm = Some r -> In r R ->
    get c (outer_row L R lk rk lm rm (key_of rk r)) = get c r.
  Proof.
    intros lm rm r c GL GR Hr.
    rewrite get_outer_row, GL, GR. cbv beta iota zeta. rewrite ?get_nil.
    pose proof (has_col_table_cols c r R Hr) as F2.
    pose proof (proj1 (overlap_free_spec _ _ _ _) OF c) as F3.
    pose proof (shared_key_mem lk rk c) as F4.
    pose proof (get_no_col c r) as F11.
    assert (KW : last_write c (if list_col_eqb lk rk then key_writes lk (key_of rk r)
                               else [] ++ key_writes rk (key_of rk r)) =
                 if mem c rk then Some (get c r) else None).
    { destruct (list_col_eqb lk rk) eqn:EQ.
      - apply list_col_eqb_eq in EQ. subst rk.
        now rewrite key_writes_key_of, (last_write_map_fun (fun x => get x r)).
      - simpl. now rewrite key_writes_key_of, (last_write_map_fun (fun x => get x r)). }
    rewrite KW.
    destruct (mem c (table_cols R)) eqn:M1, (mem c lk) eqn:M2, (mem c (table_cols L)) eqn:M3,
             (has_col c r) eqn:M5, (mem c rk) eqn:M6; simpl; sat; congruence.
  Qed.
End Rows.

(* ==================================================================================================== *)
(* matching: outside the null-key domain SQL matching and Python key equality coincide on L x R *)

Lemma null_key_free : forall jt L R lk rk l r,
  is_join jt = true -> kf_null_key jt L R lk rk = false -> In l L -> In r R ->
  key_eqb (key_of lk l) (key_of rk r) = true -> existsb is_null (key_of lk l) = false.
Proof.
  intros jt L R lk rk l r J H Hl Hr E. unfold kf_null_key in H. rewrite J in H. simpl in H.
  destruct (existsb is_null (key_of lk l)) eqn:N; auto.
  assert (X : existsb (fun l => existsb is_null (key_of lk l) &&
                                existsb (fun r => key_eqb (key_of lk l) (key_of rk r)) R) L = true).
  { apply existsb_exists. exists l. split; auto. rewrite N. simpl.
    apply existsb_exists. exists r. auto. }
  congruence.
Qed.

Lemma forallb_nonnull : forall k, forallb (fun v => negb (is_null v)) k = negb (existsb is_null k).
Proof. induction k; simpl; auto. rewrite IHk. now destruct (is_null a). Qed.

Lemma matches_key_eqb : forall jt L R lk rk l r,
  is_join jt = true -> kf_null_key jt L R lk rk = false -> In l L -> In r R ->
  matches lk rk l r = key_eqb (key_of lk l) (key_of rk r).
Proof.
  intros jt L R lk rk l r J H Hl Hr. unfold matches. apply eq_true_iff_eq.
  rewrite keys_match_spec, key_eqb_eq, forallb_nonnull, negb_true_iff. split.
  - tauto.
  - intro E. split; auto. eapply null_key_free; eauto. now apply key_eqb_eq.
Qed.

Lemma existsb_map_comm : forall (A B : Type) (p : B -> bool) (f : A -> B) l,
  existsb p (map f l) = existsb (fun x => p (f x)) l.
Proof. induction l; simpl; congruence. Qed.

Lemma existsb_ext_in : forall (A : Type) (p q : A -> bool) l,
  (forall x, In x l -> p x = q x) -> existsb p l = existsb q l.
Proof.
  induction l as [|x t IH]; simpl; intros H; auto.
  rewrite H by auto. rewrite IH; auto.
Qed.

(* ==================================================================================================== *)
(* the four joins *)

Section Joins.
  Variables (lk rk : list col) (L R : table).
  Hypothesis OF : overlap_free lk rk L R = true.
  Hypothesis WL : rows_wf L = true.
  Hypothesis WR : rows_wf R = true.
  Variable jt : jointype.
  Hypothesis J : is_join jt = true.
  Hypothesis NK : kf_null_key jt L R lk rk = false.

  (* partners of a left row, when right keys are duplicate free *)
  Lemma partners_of_left : forall l, In l L -> has_dup_key (map (key_of rk) R) = false ->
    filter (matches lk rk l) R =
    match kget (key_of lk l) (index_map rk R) with Some r => [r] | None => [] end
    /\ (forall r, kget (key_of lk l) (index_map rk R) = Some r -> In r R /\ key_of lk l = key_of rk r).
  Proof.
    intros l Hl ND. rewrite index_map_nodup, kget_map by auto. split.
    - rewrite <- filter_find_unique by auto. apply filter_ext_in. intros r Hr.
      rewrite (matches_key_eqb jt L R) by auto. apply key_eqb_sym.
    - intros r F. apply find_some in F. destruct F as [F1 F2]. apply key_eqb_eq in F2. auto.
  Qed.

  Lemma partners_of_right : forall r, In r R -> has_dup_key (map (key_of lk) L) = false ->
    filter (fun l => matches lk rk l r) L =
    match kget (key_of rk r) (index_map lk L) with Some l => [l] | None => [] end
    /\ (forall l, kget (key_of rk r) (index_map lk L) = Some l -> In l L /\ key_of lk l = key_of rk r).
  Proof.
    intros r Hr ND. rewrite index_map_nodup, kget_map by auto. split.
    - rewrite <- filter_find_unique by auto. apply filter_ext_in. intros l Hl.
      now rewrite (matches_key_eqb jt L R) by auto.
    - intros l F. apply find_some in F. destruct F as [F1 F2]. apply key_eqb_eq in F2. auto.
  Qed.

  Lemma py_inner_teq : has_dup_key (map (key_of rk) R) = false ->
    teq (py_inner L R lk rk) (rel_inner lk rk L R).
  Proof.
    intro ND. unfold py_inner, rel_inner, inner_rows. apply teq_flat_map. intros l Hl.
    destruct (partners_of_left l Hl ND) as [P1 P2]. rewrite P1.
    destruct (kget (key_of lk l) (index_map rk R)) as [r|] eqn:G; simpl; [|apply teq_nil].
    destruct (P2 r eq_refl). apply teq_single. eapply row_update_union; eauto.
  Qed.

  Lemma map_as_flat_map : forall (A B : Type) (f : A -> B) l, map f l = flat_map (fun x => [f x]) l.
  Proof. induction l; simpl; congruence. Qed.

  Lemma py_left_teq : has_dup_key (map (key_of rk) R) = false ->
    teq (py_left L R lk rk) (left_nested lk rk L R).
  Proof.
    intro ND. unfold py_left, left_nested. rewrite map_as_flat_map. apply teq_flat_map. intros l Hl.
    destruct (partners_of_left l Hl ND) as [P1 P2].
    destruct (kget (key_of lk l) (index_map rk R)) as [r|] eqn:G.
    - destruct (P2 r eq_refl) as [Hr K].
      assert (E : existsb (matches lk rk l) R = true).
      { destruct (existsb (matches lk rk l) R) eqn:X; auto. apply existsb_filter_nil in X.
        rewrite X in P1. discriminate. }
      rewrite E, P1. simpl. apply teq_single. eapply row_update_union; eauto.
    - apply existsb_filter_nil in P1. rewrite P1. apply teq_single.
      eapply row_equiv_trans; [apply fill_left_equiv; auto | apply row_equiv_sym; apply pad_equiv].
  Qed.

  Lemma py_right_teq : has_dup_key (map (key_of lk) L) = false ->
    teq (py_right L R lk rk) (right_nested lk rk L R).
  Proof.
    intro ND. unfold py_right, right_nested. rewrite map_as_flat_map. apply teq_flat_map. intros r Hr.
    destruct (partners_of_right r Hr ND) as [P1 P2].
    destruct (kget (key_of rk r) (index_map lk L)) as [l|] eqn:G.
    - destruct (P2 l eq_refl) as [Hl K].
      assert (E : existsb (fun l => matches lk rk l r) L = true).
      { destruct (existsb (fun l => matches lk rk l r) L) eqn:X; auto. apply existsb_filter_nil in X.
        rewrite X in P1. discriminate. }
      rewrite E, P1. simpl. apply teq_single. eapply row_update_union; eauto.
    - apply existsb_filter_nil in P1. rewrite P1. apply teq_single.
      eapply row_equiv_trans; [apply fill_right_equiv; auto | apply row_equiv_sym; apply pad_equiv].
  Qed.

  (* ---- outer ---- *)

  Lemma dedup_keys_app : forall a b seen,
    exists seen', dedup_keys seen (a ++ b) = dedup_keys seen a ++ dedup_keys seen' b
                  /\ (forall k, In k seen' <-> In k seen \/ In k a).
  Proof.
    induction a as [|k a IH]; simpl; intros b seen.
    - exists seen. split; auto. intuition.
    - destruct (kmem k seen) eqn:E.
      + destruct (IH b seen) as [s' [H1 H2]]. exists s'. split; auto.
        intro x. rewrite H2. apply kmem_in in E. intuition. subst. auto.
      + destruct (IH b (k :: seen)) as [s' [H1 H2]]. exists s'. split.
        * simpl. now rewrite H1.
        * intro x. rewrite H2. simpl. intuition.
  Qed.

  Lemma dedup_keys_nodup : forall l seen,
    has_dup_key l = false -> dedup_keys seen l = filter (fun k => negb (kmem k seen)) l.
  Proof.
    induction l as [|k t IH]; simpl; intros seen ND; auto.
    apply orb_false_iff in ND. destruct ND as [N1 N2]. apply kmem_false in N1.
    destruct (kmem k seen) eqn:E; simpl; [now apply IH|].
    f_equal. rewrite IH by auto. apply filter_ext_in. intros k' Hk'. simpl.
    destruct (key_eqb k' k) eqn:X; auto. apply key_eqb_eq in X. subst. tauto.
  Qed.

  Lemma filter_true : forall (A : Type) (l : list A), filter (fun _ => true) l = l.
  Proof. induction l; simpl; auto. now rewrite IHl. Qed.

  Lemma filter_map_comm : forall (A B : Type) (p : B -> bool) (f : A -> B) l,
    filter p (map f l) = map f (filter (fun x => p (f x)) l).
  Proof. induction l as [|x t IH]; simpl; auto. destruct (p (f x)); simpl; now rewrite IH. Qed.

  Lemma all_keys_shape :
    has_dup_key (map (key_of lk) L) = false -> has_dup_key (map (key_of rk) R) = false ->
    dedup_keys [] (map fst (index_map lk L) ++ map fst (index_map rk R)) =
    map (key_of lk) L ++ map (key_of rk) (filter (fun r => negb (kmem (key_of rk r) (map (key_of lk) L))) R).
  Proof.
    intros NL NR. rewrite !index_map_nodup by auto. rewrite !map_map. simpl.
    change (fun x : row => key_of lk x) with (key_of lk). change (fun x : row => key_of rk x) with (key_of rk).
    destruct (dedup_keys_app (map (key_of lk) L) (map (key_of rk) R) []) as [s' [H1 H2]].
    rewrite H1. rewrite !dedup_keys_nodup by auto. simpl. rewrite filter_true. f_equal.
    rewrite filter_map_comm. f_equal. apply filter_ext. intro r. f_equal.
    apply eq_true_iff_eq. rewrite !kmem_in, H2. simpl. tauto.
  Qed.

  Lemma right_only_kmem : forall r, In r R ->
    negb (existsb (fun l => matches lk rk l r) L) = negb (kmem (key_of rk r) (map (key_of lk) L)).
  Proof.
    intros r Hr. f_equal. unfold kmem. rewrite existsb_map_comm.
    apply existsb_ext_in. intros l Hl. rewrite (matches_key_eqb jt L R) by auto. apply key_eqb_sym.
  Qed.

  Lemma py_outer_bag : forall ord, (forall l, Permutation (ord l) l) ->
    has_dup_key (map (key_of lk) L) = false -> has_dup_key (map (key_of rk) R) = false ->
    bag_eq (py_outer ord L R lk rk) (rel_outer lk rk L R).
  Proof.
    intros ord PO NL NR. unfold py_outer.
    eapply bag_eq_trans; [apply perm_bag_eq; apply Permutation_map; apply PO|].
    rewrite all_keys_shape by auto. rewrite map_app, !map_map.
    rewrite rel_outer_left.
    apply bag_eq_app.
    - eapply bag_eq_trans; [|apply perm_bag_eq; apply left_nested_perm].
      apply teq_bag_eq. unfold left_nested. rewrite map_as_flat_map. apply teq_flat_map. intros l Hl.
      destruct (partners_of_left l Hl NR) as [P1 P2].
      assert (GL : kget (key_of lk l) (index_map lk L) = Some l).
      { rewrite index_map_nodup, kget_map by auto. now apply find_self. }
      destruct (kget (key_of lk l) (index_map rk R)) as [r|] eqn:G.
      + destruct (P2 r eq_refl) as [Hr K].
        assert (E : existsb (matches lk rk l) R = true).
        { destruct (existsb (matches lk rk l) R) eqn:X; auto. apply existsb_filter_nil in X.
          rewrite X in P1. discriminate. }
        rewrite E, P1. simpl. apply teq_single. intro c.
        eapply outer_row_both; eauto.
        eapply null_key_free; eauto. now apply key_eqb_eq.
      + apply existsb_filter_nil in P1. rewrite P1. apply teq_single.
        eapply row_equiv_trans; [|apply row_equiv_sym; apply pad_equiv].
        intro c. eapply outer_row_left; eauto.
    - unfold right_only.
      rewrite (filter_ext_in (fun r => negb (existsb (fun l => matches lk rk l r) L))
                             (fun r => negb (kmem (key_of rk r) (map (key_of lk) L))) R).
      2: { intros r Hr. now apply right_only_kmem. }
      apply teq_bag_eq. apply teq_map. intros r Hr. apply filter_In in Hr. destruct Hr as [Hr NM].
      apply negb_true_iff in NM.
      eapply row_equiv_trans; [|apply row_equiv_sym; apply pad_equiv].
      intro c. eapply outer_row_right; eauto.
      + rewrite index_map_nodup, kget_map by auto. now apply find_none_kmem.
      + rewrite index_map_nodup, kget_map by auto. now apply find_self.
  Qed.
End Joins.

(* ==================================================================================================== *)
(* union *)

Lemma union_pass_seen : forall ks data seen k,
  kmem k (snd (union_pass ks seen data)) = kmem k seen || kmem k (map (key_of ks) data).
Proof.
  induction data as [|r t IH]; simpl; intros seen k.
  - now rewrite orb_false_r.
  - destruct (kmem (key_of ks r) seen) eqn:E.
    + rewrite IH. destruct (key_eqb k (key_of ks r)) eqn:X; simpl; auto.
      apply key_eqb_eq in X. subst. rewrite E. reflexivity.
    + specialize (IH (key_of ks r :: seen) k).
      destruct (union_pass ks (key_of ks r :: seen) t) as [out s']. simpl in *. rewrite IH.
      destruct (key_eqb k (key_of ks r)); simpl; auto. now rewrite orb_true_r.
Qed.

Lemma union_pass_out : forall ks data seenK seenR,
  (forall r, In r data -> kmem (key_of ks r) seenK = existsb (row_eqb (canon r)) seenR) ->
  (forall r r', In r data -> In r' data -> key_eqb (key_of ks r) (key_of ks r') = row_equivb r r') ->
  fst (union_pass ks seenK data) = distinct_from seenR data.
Proof.
  induction data as [|r t IH]; simpl; intros seenK seenR A P; auto.
  rewrite <- (A r (or_introl eq_refl)).
  destruct (kmem (key_of ks r) seenK) eqn:E.
  - apply IH; auto.
  - specialize (IH (key_of ks r :: seenK) (canon r :: seenR)).
    destruct (union_pass ks (key_of ks r :: seenK) t) as [out s']. simpl in *. f_equal. apply IH.
    + intros r' Hr'. rewrite A by auto. f_equal. rewrite P by auto. reflexivity.
    + intros; apply P; auto.
Qed.

Lemma py_union_eq : forall L R lk rk,
  kf_union_partial_dup JUnion L R lk rk = false -> py_union L R lk rk = rel_union L R.
Proof.
  intros L R lk rk KF. simpl in KF.
  assert (AG : forall x y, In x (tagged L R lk rk) -> In y (tagged L R lk rk) ->
               key_eqb (fst x) (fst y) = row_equivb (snd x) (snd y)).
  { intros x y Hx Hy. destruct (key_eqb (fst x) (fst y)) eqn:A, (row_equivb (snd x) (snd y)) eqn:B; auto; exfalso;
      assert (X : existsb (fun x => existsb (fun y => xorb (key_eqb (fst x) (fst y)) (row_equivb (snd x) (snd y)))
                                        (tagged L R lk rk)) (tagged L R lk rk) = true)
        by (apply existsb_exists; exists x; split; auto; apply existsb_exists; exists y; split; auto;
            rewrite A, B; reflexivity); congruence. }
  assert (TL : forall l, In l L -> In (key_of lk l, l) (tagged L R lk rk)).
  { intros. unfold tagged. apply in_or_app. left. apply in_map_iff. eauto. }
  assert (TR : forall r, In r R -> In (key_of rk r, r) (tagged L R lk rk)).
  { intros. unfold tagged. apply in_or_app. right. apply in_map_iff. eauto. }
  unfold py_union, rel_union, distinct.
  destruct (distinct_from_app L R []) as [sR [H1 H2]]. rewrite H1.
  pose proof (union_pass_out lk L [] []) as OL.
  pose proof (union_pass_seen lk L []) as SL.
  destruct (union_pass lk [] L) as [outl seen]. simpl in OL, SL.
  pose proof (union_pass_out rk R seen sR) as OR.
  destruct (union_pass rk seen R) as [outr seen2]. simpl in OR.
  rewrite OL, OR; auto.
  - intros r Hr. rewrite SL. apply eq_true_iff_eq. rewrite kmem_in, existsb_row_eqb_in, H2. simpl.
    rewrite !in_map_iff. split.
    + intros [l [E Hl]]. right. exists l. split; auto.
      pose proof (AG (key_of lk l, l) (key_of rk r, r) (TL _ Hl) (TR _ Hr)) as X. simpl in X.
      rewrite E, key_eqb_refl in X. symmetry in X. unfold row_equivb in X. now apply row_eqb_eq in X.
    + intros [[]|[l [E Hl]]]. exists l. split; auto.
      pose proof (AG (key_of lk l, l) (key_of rk r, r) (TL _ Hl) (TR _ Hr)) as X. simpl in X.
      unfold row_equivb in X. rewrite E, row_eqb_refl in X. now apply key_eqb_eq in X.
  - intros r r' Hr Hr'. apply (AG (key_of rk r, r) (key_of rk r', r')); auto.
  - intros r r' Hr Hr'. apply (AG (key_of lk r, r) (key_of lk r', r')); auto.
Qed.

(* ==================================================================================================== *)
(* main theorem *)

Theorem pydict_merge_refines_l : forall ord jt L R lk rk,
  (forall l, Permutation (ord l) l) ->
  rows_wf L = true -> rows_wf R = true ->
  kf_dup_key jt L R lk rk = false ->
  kf_null_key jt L R lk rk = false ->
  kf_overlap_cols jt L R lk rk = false ->
  kf_union_partial_dup jt L R lk rk = false ->
  bag_eq (merge_pydict ord jt L R lk rk) (rel_join jt lk rk L R).
Proof.
  intros ord jt L R lk rk PO WL WR D N O U.
  destruct jt; unfold merge_pydict; simpl base_dispatch; simpl pydict_kernel; simpl rel_join;
    try (unfold kf_overlap_cols in O; simpl in O; apply negb_false_iff in O).
  - apply teq_bag_eq. eapply py_inner_teq; eauto. reflexivity.
  - eapply bag_eq_trans; [apply teq_bag_eq; eapply py_left_teq; eauto; reflexivity|].
    apply perm_bag_eq. apply left_nested_perm.
  - eapply bag_eq_trans; [apply teq_bag_eq; eapply py_right_teq; eauto; reflexivity|].
    apply perm_bag_eq. apply right_nested_perm.
  - simpl in D. apply orb_false_iff in D. destruct D as [D1 D2].
    eapply py_outer_bag; eauto. reflexivity.
  - apply bag_eq_refl.
  - rewrite py_union_eq; auto. apply bag_eq_refl.
Qed.

(* ==================================================================================================== *)
(* refutations: inside each domain the faithful model and the relational operator differ *)

Lemma bag_neq : forall a b, bag_eqb a b = false -> ~ bag_eq a b.
Proof. intros a b H E. apply bag_eqb_spec in E. congruence. Qed.

Definition idord (l : list (list val)) := l.

Open Scope Z_scope.
(* duplicate right keys: only the last right row with key 1 is joined *)
Definition wdup_L : table := [[("k", VInt 1); ("a", VInt 10)]].
Definition wdup_R : table := [[("k", VInt 1); ("b", VInt 100)]; [("k", VInt 1); ("b", VInt 101)]].
(* None keys are joined with each other *)
Definition wnull_L : table := [[("k", VNull); ("a", VInt 10)]].
Definition wnull_R : table := [[("k", VNull); ("b", VInt 100)]].
(* overlapping non-key column v: the right value replaces the left one *)
Definition wov_L : table := [[("k", VInt 1); ("v", VInt 10)]].
Definition wov_R : table := [[("k", VInt 1); ("v", VInt 20)]].
(* union: rows that differ outside the key are dropped *)
Definition wun_L : table := [[("k", VInt 1); ("a", VInt 10)]].
Definition wun_R : table := [[("k", VInt 1); ("a", VInt 11)]].

Lemma dup_key_refuted_l :
  kf_dup_key JInner wdup_L wdup_R ["k"] ["k"] = true /\
  kf_null_key JInner wdup_L wdup_R ["k"] ["k"] = false /\
  kf_overlap_cols JInner wdup_L wdup_R ["k"] ["k"] = false /\
  (forall jt, In jt [JInner; JLeft; JOuter] ->
     ~ bag_eq (merge_pydict idord jt wdup_L wdup_R ["k"] ["k"]) (rel_join jt ["k"] ["k"] wdup_L wdup_R)) /\
  kf_dup_key JRight wdup_R wdup_L ["k"] ["k"] = true /\
  ~ bag_eq (merge_pydict idord JRight wdup_R wdup_L ["k"] ["k"]) (rel_join JRight ["k"] ["k"] wdup_R wdup_L).
Proof.
  repeat split; try (vm_compute; reflexivity).
  - intros jt [<-|[<-|[<-|[]]]]; apply bag_neq; vm_compute; reflexivity.
  - apply bag_neq. vm_compute. reflexivity.
Qed.

Lemma null_key_refuted_l :
  kf_null_key JInner wnull_L wnull_R ["k"] ["k"] = true /\
  kf_dup_key JOuter wnull_L wnull_R ["k"] ["k"] = false /\
  kf_overlap_cols JInner wnull_L wnull_R ["k"] ["k"] = false /\
  (forall jt, is_join jt = true ->
     ~ bag_eq (merge_pydict idord jt wnull_L wnull_R ["k"] ["k"]) (rel_join jt ["k"] ["k"] wnull_L wnull_R)).
Proof.
  repeat split; try (vm_compute; reflexivity).
  intros jt J. apply bag_neq. destruct jt; try discriminate; vm_compute; reflexivity.
Qed.

Lemma overlap_cols_refuted_l :
  kf_overlap_cols JInner wov_L wov_R ["k"] ["k"] = true /\
  kf_dup_key JOuter wov_L wov_R ["k"] ["k"] = false /\
  kf_null_key JInner wov_L wov_R ["k"] ["k"] = false /\
  (forall jt, is_join jt = true ->
     ~ bag_eq (merge_pydict idord jt wov_L wov_R ["k"] ["k"]) (rel_join jt ["k"] ["k"] wov_L wov_R)).
Proof.
  repeat split; try (vm_compute; reflexivity).
  intros jt J. apply bag_neq. destruct jt; try discriminate; vm_compute; reflexivity.
Qed.

Lemma union_partial_dup_refuted_l :
  kf_union_partial_dup JUnion wun_L wun_R ["k"] ["k"] = true /\
  ~ bag_eq (merge_pydict idord JUnion wun_L wun_R ["k"] ["k"]) (rel_join JUnion ["k"] ["k"] wun_L wun_R) /\
  (* identical rows under differently named keys survive twice *)
  ~ bag_eq (merge_pydict idord JUnion wov_L wov_L ["k"] ["v"]) (rel_join JUnion ["k"] ["v"] wov_L wov_L).
Proof.
  repeat split; try (vm_compute; reflexivity); apply bag_neq; vm_compute; reflexivity.
Qed.

(* the guarded theorem is not vacuous: a 2 x 3 instance outside every domain, with every kind of row *)
Definition ex_L : table := [[("k", VInt 1); ("a", VInt 10)]; [("k", VInt 2); ("a", VInt 20)]; [("k", VNull); ("a", VInt 30)]].
Definition ex_R : table := [[("j", VInt 1); ("b", VStr "x")]; [("j", VInt 3); ("b", VStr "y")]].

Definition ex_UL : table := [[("k", VInt 1); ("a", VInt 10)]; [("k", VInt 2); ("a", VInt 20)]].
Definition ex_UR : table := [[("a", VInt 10); ("k", VInt 1)]; [("k", VInt 3); ("a", VNull)]; [("k", VInt 3)]].

Lemma example_outside_domains_l :
  forallb (fun jt => negb (in_kf jt ex_L ex_R ["k"] ["j"])) [JInner; JLeft; JRight; JOuter; JAppend] = true /\
  rows_wf ex_L = true /\ rows_wf ex_R = true /\
  map canon (merge_pydict idord JOuter ex_L ex_R ["k"] ["j"]) =
    [ [("a", VInt 10); ("b", VStr "x"); ("j", VInt 1); ("k", VInt 1)];
      [("a", VInt 20); ("k", VInt 2)];
      [("a", VInt 30)];
      [("b", VStr "y"); ("j", VInt 3)] ] /\
  forallb (fun jt => bag_eqb (merge_pydict idord jt ex_L ex_R ["k"] ["j"]) (rel_join jt ["k"] ["j"] ex_L ex_R))
          [JInner; JLeft; JRight; JOuter; JAppend] = true /\
  in_kf JUnion ex_UL ex_UR ["k"] ["k"] = false /\
  map canon (merge_pydict idord JUnion ex_UL ex_UR ["k"] ["k"]) =
    [ [("a", VInt 10); ("k", VInt 1)]; [("a", VInt 20); ("k", VInt 2)]; [("k", VInt 3)] ].
Proof. vm_compute. repeat split; reflexivity. Qed.
