(* C19 lemmas: remove_urls -- the two sequential substitutions of python_dict.py / pandas.py, token by token. *)
From Coq Require Import List Bool Arith Ascii String Lia.
Import ListNotations.
Require Import MV.Spec.Builtins MV.Model.TextCleanPyDict MV.Model.BuiltinsFw.

Section Generic.
Variable sp : ascii -> bool.

Definition tok (w : text) : Prop := forall a, In a w -> sp a = false.
Definition bnd (r : text) : Prop := match r with [] => True | a :: _ => sp a = true end.
(* the characters of the literal prefixes are not white space *)
Definition lits_ok : Prop := forallb (fun a => negb (sp a)) (lit "https://www.") = true.

Lemma tok_cons : forall a w, tok (a :: w) -> sp a = false /\ tok w.
Proof. intros a w H. split. apply H. left; auto. intros x Hx. apply H. right; auto. Qed.
Lemma tok_nil : tok [].
Proof. intros ? []. Qed.

Lemma take_run_app : forall w r, tok w -> bnd r -> take_run sp (w ++ r) = w.
Proof.
  induction w as [|a t IH]; intros r Hw Hr.
  - destruct r as [|b r]. reflexivity. cbn in *. rewrite Hr. reflexivity.
  - apply tok_cons in Hw. destruct Hw as [Ha Ht]. cbn. rewrite Ha, IH; auto.
Qed.

Lemma strip_next : forall p, (forall a, In a p -> sp a = false) -> forall w r, tok w -> bnd r ->
  next_nonsp sp (strip_prefix p (w ++ r)) = nonempty (strip_prefix p w).
Proof.
  induction p as [|a p IH]; intros Hp w r Hw Hr.
  - cbn. destruct w as [|c w]; cbn.
    + destruct r as [|b r]. reflexivity. cbn in Hr. rewrite Hr. reflexivity.
    + rewrite (proj1 (tok_cons _ _ Hw)). reflexivity.
  - destruct w as [|c w]; cbn.
    + destruct r as [|b r]. reflexivity. cbn in Hr. destruct (Ascii.eqb a b) eqn:E; [|reflexivity].
      apply Ascii.eqb_eq in E. subst b. rewrite (Hp a) in Hr by (left; auto). discriminate.
    + destruct (Ascii.eqb a c); [|reflexivity]. apply IH; auto. intros x Hx. apply Hp. right; auto.
      apply (tok_cons _ _ Hw).
Qed.

Hypothesis LOK : lits_ok.

Lemma lit_chars : forall p, (forall a, In a p -> In a (lit "https://www.")) -> forall a, In a p -> sp a = false.
Proof.
  intros p Hp a Ha. unfold lits_ok in LOK. rewrite forallb_forall in LOK. specialize (LOK a (Hp a Ha)).
  destruct (sp a); [discriminate|reflexivity].
Qed.

Lemma url_at_tok : forall w r, tok w -> bnd r -> url_at sp (w ++ r) = url_head w.
Proof.
  intros w r Hw Hr. unfold url_at, url_head.
  rewrite !strip_next; auto; apply lit_chars; intros a Ha; cbn in *; tauto.
Qed.

Lemma sub_del_ws : forall m b a r, sp a = true -> sub_del sp m b (a :: r) = a :: sub_del sp m false r.
Proof. intros. cbn. rewrite H. reflexivity. Qed.
Lemma sub_del_bnd_skip : forall m r, bnd r -> sub_del sp m true r = sub_del sp m false r.
Proof. intros m [|a r] H. reflexivity. cbn in H. rewrite !sub_del_ws by auto. reflexivity. Qed.
Lemma sub_del_skip_tok : forall m w r, tok w -> sub_del sp m true (w ++ r) = sub_del sp m true r.
Proof.
  induction w as [|a t IH]; intros r Hw. reflexivity.
  apply tok_cons in Hw. destruct Hw as [Ha Ht]. cbn. rewrite Ha. apply IH; auto.
Qed.
Lemma bnd_sub_del : forall m r, bnd r -> bnd (sub_del sp m false r).
Proof. intros m [|a r] H. exact I. cbn in H. rewrite sub_del_ws by auto. exact H. Qed.

(* ---- URL pass on one token ---- *)
Lemma url_pass_token : forall w r, tok w -> bnd r -> url_pass sp (w ++ r) = url_cut w ++ url_pass sp r.
Proof.
  unfold url_pass. induction w as [|a t IH]; intros r Hw Hr. reflexivity.
  pose proof (url_at_tok (a :: t) r Hw Hr) as HU.
  destruct (tok_cons _ _ Hw) as [Ha Ht].
  cbn [app sub_del url_cut]. cbn [app] in HU. rewrite Ha, HU.
  destruct (url_head (a :: t)).
  - rewrite sub_del_skip_tok, sub_del_bnd_skip; auto.
  - cbn [app]. f_equal. apply IH; auto.
Qed.

Lemma url_cut_prefix : forall w, exists rest, w = url_cut w ++ rest.
Proof.
  induction w as [|a t [rest IH]]. exists []. reflexivity.
  cbn [url_cut]. destruct (url_head (a :: t)). exists (a :: t). reflexivity.
  exists rest. cbn. f_equal. exact IH.
Qed.
Lemma tok_url_cut : forall w, tok w -> tok (url_cut w).
Proof.
  intros w H a Ha. destruct (url_cut_prefix w) as [rest E]. apply H. rewrite E. apply in_or_app. left. exact Ha.
Qed.

(* ---- e-mail pass on one token ---- *)
Lemma is_email_tail : forall a t, is_email (a :: t) = false -> is_email t = false.
Proof.
  intros a [|c u] H. reflexivity. cbn in *. apply orb_false_iff in H. tauto.
Qed.
Lemma email_pass_keep : forall w r, tok w -> bnd r -> is_email w = false ->
  email_pass sp (w ++ r) = w ++ email_pass sp r.
Proof.
  unfold email_pass. induction w as [|a t IH]; intros r Hw Hr He. reflexivity.
  destruct (tok_cons _ _ Hw) as [Ha Ht].
  cbn [app sub_del]. rewrite Ha. unfold email_at at 1.
  change (a :: t ++ r) with ((a :: t) ++ r). rewrite take_run_app, He by auto.
  cbn [app]. f_equal. apply IH; auto. eapply is_email_tail; eauto.
Qed.
Lemma email_pass_token : forall w r, tok w -> bnd r -> email_pass sp (w ++ r) = email_keep w ++ email_pass sp r.
Proof.
  intros w r Hw Hr. unfold email_keep. destruct (is_email w) eqn:E.
  - destruct w as [|a t]. discriminate. destruct (tok_cons _ _ Hw) as [Ha Ht].
    unfold email_pass. cbn [app sub_del]. rewrite Ha. unfold email_at at 1.
    change (a :: t ++ r) with ((a :: t) ++ r). rewrite take_run_app, E by auto.
    rewrite sub_del_skip_tok, sub_del_bnd_skip; auto.
  - apply email_pass_keep; auto.
Qed.
Lemma tok_email_keep : forall w, tok w -> tok (email_keep w).
Proof. intros w H. unfold email_keep. destruct (is_email w). apply tok_nil. exact H. Qed.

(* ---- both passes on one token ---- *)
Lemma two_pass_token : forall w r, tok w -> bnd r -> two_pass sp (w ++ r) = clean_token w ++ two_pass sp r.
Proof.
  intros w r Hw Hr. unfold two_pass, clean_token. rewrite url_pass_token by auto.
  apply email_pass_token. apply tok_url_cut; auto. apply bnd_sub_del; auto.
Qed.
Lemma two_pass_ws : forall a r, sp a = true -> two_pass sp (a :: r) = a :: two_pass sp r.
Proof. intros. unfold two_pass, url_pass, email_pass. rewrite !sub_del_ws by auto. reflexivity. Qed.

(* ---- induction over the tokens of a text ---- *)
Fixpoint drop_run (s : text) : text := match s with [] => [] | a :: t => if sp a then s else drop_run t end.
Lemma take_drop_run : forall s, take_run sp s ++ drop_run s = s.
Proof. induction s as [|a t IH]. reflexivity. cbn. destruct (sp a). reflexivity. cbn. f_equal. exact IH. Qed.
Lemma tok_take_run : forall s, tok (take_run sp s).
Proof.
  induction s as [|a t IH]; intros x Hx; cbn in Hx. contradiction.
  destruct (sp a) eqn:E. contradiction. destruct Hx as [<-|Hx]; auto.
Qed.
Lemma bnd_drop_run : forall s, bnd (drop_run s).
Proof. induction s as [|a t IH]. exact I. cbn. destruct (sp a) eqn:E. exact E. exact IH. Qed.
Lemma drop_run_length : forall s, (List.length (drop_run s) <= List.length s)%nat.
Proof. induction s as [|a t IH]; cbn. lia. destruct (sp a); cbn; lia. Qed.

Lemma token_ind : forall P : text -> Prop,
  P [] -> (forall a r, sp a = true -> P r -> P (a :: r)) ->
  (forall w r, w <> [] -> tok w -> bnd r -> P r -> P (w ++ r)) -> forall s, P s.
Proof.
  intros P H0 H1 H2 s. remember (List.length s) as n eqn:En. revert s En.
  induction n as [n IH] using lt_wf_ind. intros s En. destruct s as [|a t]. exact H0.
  destruct (sp a) eqn:E.
  - apply H1; auto. apply (IH (List.length t)); auto. subst n. cbn. lia.
  - rewrite <- (take_drop_run (a :: t)). apply H2.
    + cbn. rewrite E. discriminate.
    + apply tok_take_run.
    + apply bnd_drop_run.
    + apply (IH (List.length (drop_run (a :: t)))); auto. subst n. cbn [drop_run]. rewrite E.
      pose proof (drop_run_length t). cbn. lia.
Qed.

(* ---- idempotence ---- *)
Lemma nonempty_mono : forall p x y, nonempty (strip_prefix p x) = true -> nonempty (strip_prefix p (x ++ y)) = true.
Proof.
  induction p as [|a p IH]; intros x y H.
  - cbn in *. destruct x. discriminate. reflexivity.
  - destruct x as [|b x]. discriminate. cbn in *. destruct (Ascii.eqb a b). apply IH; auto. discriminate.
Qed.
Lemma url_head_mono : forall x y, url_head x = true -> url_head (x ++ y) = true.
Proof.
  intros x y H. unfold url_head in *. apply orb_true_iff in H. destruct H as [H|H].
  - apply orb_true_iff in H. destruct H as [H|H].
    + rewrite (nonempty_mono _ _ _ H). reflexivity.
    + rewrite (nonempty_mono _ _ _ H). rewrite orb_true_r. reflexivity.
  - rewrite (nonempty_mono _ _ _ H). rewrite orb_true_r. reflexivity.
Qed.
Lemma url_cut_idem : forall w, url_cut (url_cut w) = url_cut w.
Proof.
  induction w as [|a t IH]. reflexivity.
  cbn [url_cut]. destruct (url_head (a :: t)) eqn:E. reflexivity.
  cbn [url_cut]. destruct (url_head (a :: url_cut t)) eqn:E2.
  - exfalso. destruct (url_cut_prefix t) as [rest Er].
    pose proof (url_head_mono _ rest E2) as M. cbn [app] in M. rewrite <- Er in M. congruence.
  - f_equal. exact IH.
Qed.
Lemma email_keep_idem : forall w, email_keep (email_keep w) = email_keep w.
Proof. intros w. unfold email_keep. destruct (is_email w) eqn:E. reflexivity. rewrite E. reflexivity. Qed.

Lemma url_pass_ws : forall a r, sp a = true -> url_pass sp (a :: r) = a :: url_pass sp r.
Proof. intros. unfold url_pass. apply sub_del_ws; auto. Qed.
Lemma email_pass_ws : forall a r, sp a = true -> email_pass sp (a :: r) = a :: email_pass sp r.
Proof. intros. unfold email_pass. apply sub_del_ws; auto. Qed.

Lemma url_pass_idem : forall s, url_pass sp (url_pass sp s) = url_pass sp s.
Proof.
  apply token_ind.
  - reflexivity.
  - intros a r Ha IH. rewrite !url_pass_ws by auto. f_equal. exact IH.
  - intros w r _ Hw Hr IH. rewrite url_pass_token by auto.
    rewrite url_pass_token. rewrite url_cut_idem, IH. reflexivity.
    apply tok_url_cut; auto. apply bnd_sub_del; auto.
Qed.
Lemma email_pass_idem : forall s, email_pass sp (email_pass sp s) = email_pass sp s.
Proof.
  apply token_ind.
  - reflexivity.
  - intros a r Ha IH. rewrite !email_pass_ws by auto. f_equal. exact IH.
  - intros w r _ Hw Hr IH. rewrite email_pass_token by auto.
    rewrite email_pass_token. rewrite email_keep_idem, IH. reflexivity.
    apply tok_email_keep; auto. apply bnd_sub_del; auto.
Qed.
Lemma url_cut_clean_token : forall w, url_cut (clean_token w) = clean_token w.
Proof.
  intros w. unfold clean_token, email_keep. destruct (is_email (url_cut w)). reflexivity. apply url_cut_idem.
Qed.
Lemma clean_token_idem : forall w, clean_token (clean_token w) = clean_token w.
Proof. intros w. unfold clean_token at 1. rewrite url_cut_clean_token. unfold clean_token. apply email_keep_idem. Qed.
Lemma tok_clean_token : forall w, tok w -> tok (clean_token w).
Proof. intros. unfold clean_token. apply tok_email_keep. apply tok_url_cut. auto. Qed.
Lemma two_pass_idem : forall s, two_pass sp (two_pass sp s) = two_pass sp s.
Proof.
  apply token_ind.
  - reflexivity.
  - intros a r Ha IH. rewrite !two_pass_ws by auto. f_equal. exact IH.
  - intros w r _ Hw Hr IH. rewrite two_pass_token by auto.
    rewrite two_pass_token. rewrite clean_token_idem, IH. reflexivity.
    apply tok_clean_token; auto.
    unfold two_pass. apply bnd_sub_del. apply bnd_sub_del. auto.
Qed.

(* ---- the spec: map_tokens ---- *)
Hypothesis SPWS : forall a, sp a = is_ws a.

Lemma map_tokens_tok : forall f w cur r, tok w -> map_tokens f cur (w ++ r) = map_tokens f (rev w ++ cur) r.
Proof.
  induction w as [|a t IH]; intros cur r Hw. reflexivity.
  destruct (tok_cons _ _ Hw) as [Ha Ht]. cbn [app map_tokens]. rewrite <- SPWS, Ha, IH by auto.
  cbn [rev]. rewrite <- app_assoc. reflexivity.
Qed.
Lemma map_tokens_token : forall f w r, f [] = [] -> tok w -> bnd r ->
  map_tokens f [] (w ++ r) = f w ++ map_tokens f [] r.
Proof.
  intros f w r F0 Hw Hr. rewrite map_tokens_tok by auto. rewrite app_nil_r.
  destruct r as [|a r]; cbn [map_tokens].
  - rewrite rev_involutive. cbn [rev]. rewrite F0, app_nil_r. reflexivity.
  - cbn in Hr. rewrite <- SPWS, Hr, rev_involutive. cbn [rev]. rewrite F0. reflexivity.
Qed.
Lemma two_pass_is_spec : forall s, two_pass sp s = remove_urls s.
Proof.
  apply token_ind.
  - reflexivity.
  - intros a r Ha IH. rewrite two_pass_ws by auto. unfold remove_urls. cbn [map_tokens]. rewrite <- SPWS, Ha.
    cbn. f_equal. exact IH.
  - intros w r _ Hw Hr IH. rewrite two_pass_token by auto. unfold remove_urls.
    rewrite map_tokens_token; auto. f_equal. exact IH.
Qed.
End Generic.

(* ---- instances ---- *)
Lemma re_space_is_ws' : forall a, re_space a = is_ws a.
Proof. intros a. destruct a as [[] [] [] [] [] [] [] []]; vm_compute; reflexivity. Qed.
Lemma lits_ok_py : lits_ok re_space.
Proof. reflexivity. Qed.
Lemma lits_ok_re2 : lits_ok re2_space.
Proof. reflexivity. Qed.

Lemma py_remove_urls_refines : forall s, py_remove_urls s = remove_urls s.
Proof. intros. apply two_pass_is_spec. apply lits_ok_py. apply re_space_is_ws'. Qed.

(* ---- the same function for two white-space classes that agree on the characters of the text ---- *)
Lemma strip_prefix_incl : forall p s r, strip_prefix p s = Some r -> forall a, In a r -> In a s.
Proof.
  induction p as [|c p IH]; intros s r H a Ha.
  - cbn in H. inversion H. subst. exact Ha.
  - destruct s as [|b s]. discriminate. cbn in H. destruct (Ascii.eqb c b); [|discriminate]. right. eapply IH; eauto.
Qed.
Section Ext.
Variables sp1 sp2 : ascii -> bool.
Definition agree (s : text) : Prop := forall a, In a s -> sp1 a = sp2 a.

Lemma next_nonsp_ext : forall p s, agree s -> next_nonsp sp1 (strip_prefix p s) = next_nonsp sp2 (strip_prefix p s).
Proof.
  intros p s H. destruct (strip_prefix p s) as [[|c r]|] eqn:E; try reflexivity.
  cbn. rewrite (H c). reflexivity. eapply strip_prefix_incl; eauto. left; auto.
Qed.
Lemma url_at_ext : forall s, agree s -> url_at sp1 s = url_at sp2 s.
Proof. intros s H. unfold url_at. rewrite !(next_nonsp_ext _ _ H). reflexivity. Qed.
Lemma take_run_ext : forall s, agree s -> take_run sp1 s = take_run sp2 s.
Proof.
  induction s as [|a t IH]; intros H. reflexivity.
  cbn. rewrite (H a) by (left; auto). rewrite IH. reflexivity. intros x Hx. apply H. right; auto.
Qed.
Lemma email_at_ext : forall s, agree s -> email_at sp1 s = email_at sp2 s.
Proof. intros s H. unfold email_at. rewrite take_run_ext; auto. Qed.
Lemma sub_del_ext : forall m1 m2, (forall s, agree s -> m1 s = m2 s) ->
  forall s b, agree s -> sub_del sp1 m1 b s = sub_del sp2 m2 b s.
Proof.
  intros m1 m2 Hm. induction s as [|a t IH]; intros b H. reflexivity.
  assert (Ht : agree t) by (intros x Hx; apply H; right; auto).
  cbn. rewrite (H a) by (left; auto). rewrite (Hm (a :: t)) by auto. rewrite !IH by auto. reflexivity.
Qed.
End Ext.
Lemma in_sub_del : forall sp m s b a, In a (sub_del sp m b s) -> In a s.
Proof.
  induction s as [|x t IH]; intros b a H; cbn in H. contradiction.
  destruct (sp x). destruct H as [<-|H]. left; auto. right; eapply IH; eauto.
  destruct b. right; eapply IH; eauto.
  destruct (m (x :: t)). right; eapply IH; eauto. destruct H as [<-|H]. left; auto. right; eapply IH; eauto.
Qed.
Lemma two_pass_ext : forall sp1 sp2 s, agree sp1 sp2 s -> two_pass sp1 s = two_pass sp2 s.
Proof.
  intros sp1 sp2 s H. unfold two_pass, email_pass, url_pass.
  rewrite (sub_del_ext sp1 sp2 (url_at sp1) (url_at sp2)); auto. 2: apply url_at_ext.
  apply sub_del_ext. apply email_at_ext. intros a Ha. apply H. eapply in_sub_del; eauto.
Qed.

(* ---- nothing to remove ---- *)
Lemma strip_prefix_app : forall p q s,
  strip_prefix (p ++ q) s = match strip_prefix p s with Some r => strip_prefix q r | None => None end.
Proof.
  induction p as [|a p IH]; intros q s. reflexivity.
  destruct s as [|b s]; cbn. reflexivity. destruct (Ascii.eqb a b). apply IH. reflexivity.
Qed.
Lemma has_sub_skipn : forall p s k, has_sub p s = false -> strip_prefix p (skipn k s) = None.
Proof.
  intros p. induction s as [|a t IH]; intros k H.
  - destruct k; cbn in *; destruct (strip_prefix p []); congruence.
  - cbn [has_sub] in H. destruct (strip_prefix p (a :: t)) eqn:E. discriminate.
    destruct k. exact E. cbn [skipn]. apply IH. exact H.
Qed.
Lemma sub_del_nomatch : forall sp m s, (forall k, m (skipn k s) = false) -> sub_del sp m false s = s.
Proof.
  induction s as [|a t IH]; intros H. reflexivity.
  cbn. pose proof (H 0%nat) as H0. cbn in H0. rewrite H0.
  rewrite IH by (intros k; apply (H (S k))). destruct (sp a); reflexivity.
Qed.
Lemma at_in_false : forall r, ~ In ch_at r -> at_in r = false.
Proof.
  induction r as [|c u IH]; intros H. reflexivity.
  cbn [at_in]. destruct (Ascii.eqb c ch_at) eqn:E. apply Ascii.eqb_eq in E. subst. exfalso. apply H. left; auto.
  cbn [andb orb]. apply IH. intro. apply H. right; auto.
Qed.
Lemma in_take_run : forall sp s a, In a (take_run sp s) -> In a s.
Proof.
  induction s as [|x t IH]; intros a H; cbn in H. contradiction.
  destruct (sp x). contradiction. destruct H as [<-|H]. left; auto. right; auto.
Qed.
Lemma in_skipn : forall {A} k (s : list A) a, In a (skipn k s) -> In a s.
Proof. induction k; intros s a H. exact H. destruct s. exact H. right. apply IHk. exact H. Qed.
Lemma two_pass_unchanged : forall sp s,
  has_sub (lit "http") s = false -> has_sub (lit "www.") s = false -> ~ In ch_at s -> two_pass sp s = s.
Proof.
  intros sp s H1 H2 H3. unfold two_pass, url_pass, email_pass.
  assert (U : sub_del sp (url_at sp) false s = s).
  { apply sub_del_nomatch. intros k. unfold url_at.
    change (lit "http://") with (lit "http" ++ lit "://"). change (lit "https://") with (lit "http" ++ lit "s://").
    rewrite !strip_prefix_app, !(has_sub_skipn _ _ k H1), (has_sub_skipn _ _ k H2). reflexivity. }
  rewrite U. apply sub_del_nomatch. intros k. unfold email_at, is_email.
  destruct (take_run sp (skipn k s)) as [|c r] eqn:E. reflexivity.
  apply at_in_false. intro Hin. apply H3. apply (in_skipn k). apply (in_take_run sp). rewrite E. right. exact Hin.
Qed.
Lemma ws_unchanged : forall sp m s b, (forall a, In a s -> sp a = true) -> sub_del sp m b s = s.
Proof.
  induction s as [|a t IH]; intros b H. reflexivity.
  cbn. rewrite (H a) by (left; auto). f_equal. apply IH. intros x Hx. apply H. right; auto.
Qed.

(* ---- statements as they appear in Props/C19.v ---- *)
Definition std_class (sp : ascii -> bool) : Prop := sp = re_space \/ sp = re2_space.
Lemma std_lits : forall sp, std_class sp -> lits_ok sp.
Proof. intros sp [->| ->]; reflexivity. Qed.

Lemma remove_urls_token_l : forall sp, std_class sp -> forall w r,
  (forall a, In a w -> sp a = false) -> match r with [] => True | a :: _ => sp a = true end ->
  url_pass sp (w ++ r) = url_cut w ++ url_pass sp r /\
  email_pass sp (w ++ r) = email_keep w ++ email_pass sp r /\
  two_pass sp (w ++ r) = email_keep (url_cut w) ++ two_pass sp r.
Proof.
  intros sp C w r Hw Hr. pose proof (std_lits sp C) as L. repeat split.
  apply url_pass_token; auto. apply email_pass_token; auto. apply two_pass_token; auto.
Qed.
Lemma remove_urls_ws_l : forall sp a r, sp a = true ->
  url_pass sp (a :: r) = a :: url_pass sp r /\ email_pass sp (a :: r) = a :: email_pass sp r /\
  two_pass sp (a :: r) = a :: two_pass sp r.
Proof. intros. repeat split. apply url_pass_ws; auto. apply email_pass_ws; auto. apply two_pass_ws; auto. Qed.
Lemma remove_urls_idem_l : forall sp, std_class sp -> forall s,
  url_pass sp (url_pass sp s) = url_pass sp s /\ email_pass sp (email_pass sp s) = email_pass sp s /\
  two_pass sp (two_pass sp s) = two_pass sp s.
Proof.
  intros sp C s. pose proof (std_lits sp C) as L. repeat split.
  apply url_pass_idem; auto. apply email_pass_idem; auto. apply two_pass_idem; auto.
Qed.
Lemma remove_urls_unchanged_l : forall sp s,
  (has_sub (lit "http") s = false /\ has_sub (lit "www.") s = false /\ ~ In ch_at s) \/ (forall a, In a s -> sp a = true) ->
  two_pass sp s = s.
Proof.
  intros sp s [[H1 [H2 H3]]|H]. apply two_pass_unchanged; auto.
  unfold two_pass, email_pass, url_pass. rewrite (ws_unchanged sp _ s false H). apply ws_unchanged. exact H.
Qed.
Lemma both_are_two_pass : forall s, py_remove_urls s = two_pass re_space s /\ pd_remove_urls s = two_pass re2_space s.
Proof. split; reflexivity. Qed.
