(* Lemmas about the transformer registry, chain search, orientation and the chain-applying loop (C14). *)
From Coq Require Import List Bool Arith Lia Permutation.
Import ListNotations.
Require Import MV.Model.Transform MV.Spec.Transform.

(* ---------- decidable equalities ---------- *)
Lemma key_eqb_spec : forall a b : key, reflect (a = b) (key_eqb a b).
Proof.
  intros [a1 a2] [b1 b2]. unfold key_eqb. cbn [fst snd].
  destruct (Nat.eqb_spec a1 b1), (Nat.eqb_spec a2 b2); cbn; constructor; congruence.
Qed.

Lemma ofw_eqb_eq : forall a b, ofw_eqb a b = true <-> a = b.
Proof.
  intros [a|] [b|]; cbn; split; intro H; try congruence; try reflexivity.
  - apply Nat.eqb_eq in H. congruence.
  - inversion H. apply Nat.eqb_refl.
Qed.

Lemma tdecl_eqb_eq : forall a b, tdecl_eqb a b = true <-> a = b.
Proof.
  intros [i1 f1 o1 m1] [i2 f2 o2 m2]. unfold tdecl_eqb. cbn [t_id t_fw t_other t_imp]. split.
  - intro H. repeat (apply andb_true_iff in H; destruct H as [H ?]).
    apply Nat.eqb_eq in H. apply ofw_eqb_eq in H2. apply ofw_eqb_eq in H1. apply Bool.eqb_prop in H0. congruence.
  - intro H. inversion H. subst. rewrite Nat.eqb_refl, Bool.eqb_reflx.
    assert (E1 : ofw_eqb f2 f2 = true) by (apply ofw_eqb_eq; reflexivity).
    assert (E2 : ofw_eqb o2 o2 = true) by (apply ofw_eqb_eq; reflexivity).
    rewrite E1, E2. reflexivity.
Qed.

Lemma tdecl_eqb_refl : forall d, tdecl_eqb d d = true.
Proof. intro d. apply tdecl_eqb_eq. reflexivity. Qed.

Lemma is_fw_true : forall a o, is_fw a o = true <-> o = Some a.
Proof.
  intros a [x|]; cbn; split; intro H; try congruence.
  - apply Nat.eqb_eq in H. congruence.
  - inversion H. apply Nat.eqb_refl.
Qed.

Lemma is_fw_some : forall a x, is_fw a (Some x) = Nat.eqb a x.
Proof. reflexivity. Qed.

(* ---------- dict operations ---------- *)
Lemma lookup_dset : forall r k v k', lookup (dset r k v) k' = if key_eqb k k' then Some v else lookup r k'.
Proof.
  induction r as [|[k0 d0] r IH]; intros k v k'; cbn.
  - reflexivity.
  - destruct (key_eqb_spec k0 k) as [->|N]; cbn.
    + destruct (key_eqb_spec k k'); reflexivity.
    + rewrite IH. destruct (key_eqb_spec k0 k') as [->|N']; [|reflexivity].
      destruct (key_eqb_spec k k'); [congruence|reflexivity].
Qed.

Lemma lookup_in : forall r k d, lookup r k = Some d -> In (k, d) r.
Proof.
  induction r as [|[k0 d0] r IH]; intros k d; cbn; [discriminate|].
  destruct (key_eqb_spec k0 k) as [->|N]; intro H.
  - inversion H. left. reflexivity.
  - right. apply IH. exact H.
Qed.

Lemma in_dset : forall r k v x, In x (dset r k v) -> x = (k, v) \/ In x r.
Proof.
  induction r as [|[k0 d0] r IH]; intros k v x; cbn.
  - intros [<-|[]]. left. reflexivity.
  - destruct (key_eqb_spec k0 k) as [->|N]; cbn.
    + intros [<-|H]; [left; reflexivity | right; right; exact H].
    + intros [<-|H]; [right; left; reflexivity|]. apply IH in H. destruct H; [left|right; right]; assumption.
Qed.

(* ---------- the invariant of every registry reachable through `add` ---------- *)
Record reg_inv (r : registry) : Prop := {
  inv_entries : forall a b d, In ((a, b), d) r -> handles d a b /\ usable d;
  inv_sym     : forall a b d, lookup r (a, b) = Some d -> lookup r (b, a) = Some d
}.

Lemma reg_inv_nil : reg_inv [].
Proof. split; cbn; intros; [contradiction|discriminate]. Qed.

Lemma reg_inv_lookup : forall r a b d, reg_inv r -> lookup r (a, b) = Some d -> handles d a b /\ usable d.
Proof. intros r a b d I H. apply (inv_entries r I). apply lookup_in. exact H. Qed.

Lemma inv_sym_none : forall r a b, reg_inv r -> lookup r (a, b) = None -> lookup r (b, a) = None.
Proof.
  intros r a b I H. destruct (lookup r (b, a)) eqn:E; [|reflexivity].
  apply (inv_sym r I) in E. congruence.
Qed.

Lemma add_ok_shape : forall r d r', add r d = AddOk r' ->
  r' = r \/ exists l o, t_fw d = Some l /\ t_other d = Some o /\ usable d /\ lookup r (l, o) = None /\
                        r' = dset (dset r (l, o) d) (o, l) d.
Proof.
  intros r d r'. unfold add. destruct (check_imports d) eqn:C; cbn; [|discriminate].
  destruct (t_fw d) as [l|] eqn:F; [|discriminate]. destruct (t_other d) as [o|] eqn:G; [|discriminate].
  destruct (lookup r (l, o)) as [d'|] eqn:L.
  - destruct (tdecl_eqb d d'); [|discriminate]. intro H. inversion H. left. reflexivity.
  - intro H. inversion H. right. exists l, o. repeat split; try assumption; reflexivity.
Qed.

Lemma add_preserves_inv : forall r d r', reg_inv r -> add r d = AddOk r' -> reg_inv r'.
Proof.
  intros r d r' I H. apply add_ok_shape in H. destruct H as [->|(l & o & F & G & U & L & ->)]; [exact I|].
  split.
  - intros a b d0 H. apply in_dset in H. destruct H as [H|H].
    + inversion H. subst. split; [right; split; assumption | exact U].
    + apply in_dset in H. destruct H as [H|H].
      * inversion H. subst. split; [left; split; assumption | exact U].
      * apply (inv_entries r I). exact H.
  - intros a b d0. rewrite !lookup_dset.
    destruct (key_eqb_spec (o, l) (a, b)) as [E|N1].
    + inversion E. subst. intro H. inversion H. subst.
      destruct (key_eqb_spec (a, b) (b, a)); [reflexivity|].
      destruct (key_eqb_spec (b, a) (b, a)); [reflexivity|congruence].
    + destruct (key_eqb_spec (l, o) (a, b)) as [E|N2].
      * inversion E. subst. intro H. inversion H. subst.
        destruct (key_eqb_spec (b, a) (b, a)); [reflexivity|congruence].
      * intro H. pose proof (inv_sym r I _ _ _ H) as H'.
        destruct (key_eqb_spec (o, l) (b, a)) as [E|_]; [inversion E; subst; congruence|].
        destruct (key_eqb_spec (l, o) (b, a)) as [E|_]; [inversion E; subst; congruence|].
        exact H'.
Qed.

Lemma add_monotone : forall r d r' k d0, reg_inv r -> add r d = AddOk r' -> lookup r k = Some d0 -> lookup r' k = Some d0.
Proof.
  intros r d r' k d0 I H L0. apply add_ok_shape in H. destruct H as [->|(l & o & F & G & U & L & ->)]; [exact L0|].
  rewrite !lookup_dset.
  destruct (key_eqb_spec (o, l) k) as [<-|_].
  - apply (inv_sym_none r _ _ I) in L. congruence.
  - destruct (key_eqb_spec (l, o) k) as [<-|_]; [congruence|exact L0].
Qed.

Lemma build_from_inv : forall ds r r', reg_inv r -> build_from r ds = Some r' -> reg_inv r'.
Proof.
  induction ds as [|d ds IH]; intros r r' I; cbn.
  - intro H. inversion H. subst. exact I.
  - destruct (add r d) eqn:A; try discriminate.
    + apply IH. exact I.
    + apply IH. eapply add_preserves_inv; eassumption.
Qed.

Lemma build_inv : forall ds r, build ds = Some r -> reg_inv r.
Proof. intros ds r. apply build_from_inv. apply reg_inv_nil. Qed.

Lemma build_from_monotone : forall ds r r' k d0, reg_inv r -> build_from r ds = Some r' ->
  lookup r k = Some d0 -> lookup r' k = Some d0.
Proof.
  induction ds as [|d ds IH]; intros r r' k d0 I; cbn.
  - intro H. inversion H. subst. trivial.
  - destruct (add r d) eqn:A; try discriminate.
    + apply IH. exact I.
    + intros H L. eapply IH; [eapply add_preserves_inv; eassumption | exact H | eapply add_monotone; eassumption].
Qed.

(* a usable declaration that went through `add` is the registered transformer of its pair, in both directions *)
Lemma build_from_registers : forall ds r r' d l o, reg_inv r -> build_from r ds = Some r' ->
  In d ds -> usable d -> t_fw d = Some l -> t_other d = Some o ->
  lookup r' (l, o) = Some d /\ lookup r' (o, l) = Some d.
Proof.
  induction ds as [|d0 ds IH]; intros r r' d l o I B HIn U F G; [contradiction|].
  cbn in B. destruct HIn as [->|HIn].
  - assert (K : exists r1, add r d = AddOk r1 /\ lookup r1 (l, o) = Some d).
    { unfold add. unfold usable in U. rewrite U, F, G. cbn.
      destruct (lookup r (l, o)) as [d'|] eqn:L.
      - destruct (tdecl_eqb d d') eqn:E.
        + apply tdecl_eqb_eq in E. subst d'. eexists. split; [reflexivity|exact L].
        + unfold add in B. rewrite U, F, G in B. cbn in B. rewrite L, E in B. discriminate.
      - eexists. split; [reflexivity|]. rewrite !lookup_dset.
        destruct (key_eqb_spec (o, l) (l, o)); [reflexivity|].
        destruct (key_eqb_spec (l, o) (l, o)); [reflexivity|congruence]. }
    destruct K as (r1 & A & L1). rewrite A in B.
    assert (I1 : reg_inv r1) by (eapply add_preserves_inv; eassumption).
    assert (L' : lookup r' (l, o) = Some d) by (eapply build_from_monotone; eassumption).
    split; [exact L'|]. apply (inv_sym r' (build_from_inv _ _ _ I1 B)). exact L'.
  - destruct (add r d0) eqn:A; try discriminate.
    + eapply (IH r r' d l o); eassumption.
    + eapply (IH r0 r' d l o); try eassumption. eapply add_preserves_inv; eassumption.
Qed.

Lemma build_from_entries : forall ds r r' k d, build_from r ds = Some r' -> In (k, d) r' -> In (k, d) r \/ In d ds.
Proof.
  induction ds as [|d0 ds IH]; intros r r' k d; cbn.
  - intro H. inversion H. subst. auto.
  - destruct (add r d0) eqn:A; try discriminate.
    + intros B H. destruct (IH _ _ _ _ B H); auto.
    + intros B H. destruct (IH _ _ _ _ B H) as [H1|H1]; [|auto].
      apply add_ok_shape in A. destruct A as [->|(l & o & _ & _ & _ & _ & ->)]; [auto|].
      apply in_dset in H1. destruct H1 as [H1|H1]; [inversion H1; subst; auto|].
      apply in_dset in H1. destruct H1 as [H1|H1]; [inversion H1; subst; auto|auto].
Qed.

(* content of a built registry, independently of any order *)
Lemma lookup_built_iff : forall ds r a b d, build ds = Some r ->
  (lookup r (a, b) = Some d <-> In d ds /\ usable d /\ handles d a b).
Proof.
  intros ds r a b d B. pose proof (build_inv _ _ B) as I. split.
  - intro L. destruct (reg_inv_lookup _ _ _ _ I L) as [Hh Hu]. split; [|split; assumption].
    apply lookup_in in L. destruct (build_from_entries _ _ _ _ _ B L) as [[]|H]. exact H.
  - intros (HIn & U & [[F G]|[F G]]).
    + apply (build_from_registers ds [] r d a b reg_inv_nil B HIn U F G).
    + apply (build_from_registers ds [] r d b a reg_inv_nil B HIn U F G).
Qed.

Lemma registry_content_order_independent_l : forall ds ds' r r',
  Permutation ds ds' -> build ds = Some r -> build ds' = Some r' -> forall k, lookup r k = lookup r' k.
Proof.
  intros ds ds' r r' P B B' [a b].
  destruct (lookup r (a, b)) as [d|] eqn:L.
  - symmetry. apply (lookup_built_iff ds' r' a b d B'). apply (lookup_built_iff ds r a b d B) in L.
    destruct L as (HIn & U & Hh). split; [apply (Permutation_in d P HIn)|split; assumption].
  - destruct (lookup r' (a, b)) as [d|] eqn:L'; [|reflexivity].
    apply (lookup_built_iff ds' r' a b d B') in L'. destruct L' as (HIn & U & Hh).
    assert (X : lookup r (a, b) = Some d).
    { apply (lookup_built_iff ds r a b d B). split; [apply (Permutation_in d (Permutation_sym P) HIn)|split; assumption]. }
    congruence.
Qed.

(* ---------- chains ---------- *)
Lemma chain_sound_inv : forall hub r a b c, reg_inv r -> get_chain hub r a b = Some c -> is_path r c a b.
Proof.
  intros hub r a b c I. unfold get_chain.
  destruct (lookup r (a, b)) as [d|] eqn:L.
  - intro H. inversion H. subst. econstructor; [exact L | apply (reg_inv_lookup _ _ _ _ I L) | constructor].
  - destruct hub as [pa|]; [|discriminate].
    destruct (lookup r (a, pa)) as [d1|] eqn:L1; [|discriminate].
    destruct (lookup r (pa, b)) as [d2|] eqn:L2; [|discriminate].
    intro H. inversion H. subst.
    econstructor; [exact L1 | apply (reg_inv_lookup _ _ _ _ I L1) |].
    econstructor; [exact L2 | apply (reg_inv_lookup _ _ _ _ I L2) | constructor].
Qed.

Lemma chain_sound_l : forall ds hub r a b c, build ds = Some r -> get_chain hub r a b = Some c -> is_path r c a b.
Proof. intros. eapply chain_sound_inv; [eapply build_inv|]; eassumption. Qed.

Lemma chain_length_l : forall hub r a b c, get_chain hub r a b = Some c -> List.length c = 1 \/ List.length c = 2.
Proof.
  intros hub r a b c. unfold get_chain. destruct (lookup r (a, b)).
  - intro H. inversion H. auto.
  - destruct hub as [pa|]; [|discriminate]. destruct (lookup r (a, pa)); [|discriminate].
    destruct (lookup r (pa, b)); [|discriminate]. intro H. inversion H. auto.
Qed.

Definition declared (ds : list tdecl) (a b : fw) : Prop := exists d, In d ds /\ usable d /\ handles d a b.

Lemma chain_exists_iff_l : forall ds hub r a b, build ds = Some r ->
  ((exists c, get_chain hub r a b = Some c) <->
   (declared ds a b \/ exists pa, hub = Some pa /\ declared ds a pa /\ declared ds pa b)).
Proof.
  intros ds hub r a b B. unfold get_chain. split.
  - intros [c H]. destruct (lookup r (a, b)) as [d|] eqn:L.
    + left. exists d. apply (lookup_built_iff ds r a b d B). exact L.
    + destruct hub as [pa|]; [|discriminate].
      destruct (lookup r (a, pa)) as [d1|] eqn:L1; [|discriminate].
      destruct (lookup r (pa, b)) as [d2|] eqn:L2; [|discriminate].
      right. exists pa. split; [reflexivity|]. split.
      * exists d1. apply (lookup_built_iff ds r a pa d1 B). exact L1.
      * exists d2. apply (lookup_built_iff ds r pa b d2 B). exact L2.
  - intros [[d Hd]|(pa & -> & [d1 H1] & [d2 H2])].
    + apply (lookup_built_iff ds r a b d B) in Hd. rewrite Hd. eexists. reflexivity.
    + apply (lookup_built_iff ds r a pa d1 B) in H1. apply (lookup_built_iff ds r pa b d2 B) in H2.
      destruct (lookup r (a, b)); [eexists; reflexivity|]. rewrite H1, H2. eexists. reflexivity.
Qed.

Lemma chain_complete_two_hop_l : forall ds pa r a b, build ds = Some r ->
  (declared ds a b \/ (declared ds a pa /\ declared ds pa b)) -> exists c, get_chain (Some pa) r a b = Some c.
Proof.
  intros ds pa r a b B H. apply (chain_exists_iff_l ds (Some pa) r a b B).
  destruct H as [H|[H1 H2]]; [left; exact H|right; exists pa; auto].
Qed.

(* ---------- orientation ---------- *)
Lemma orientation_left : forall d a b, t_fw d = Some a -> t_other d = Some b -> a <> b ->
  identify_orientation d a b = ODir OLeft /\ identify_orientation d b a = ODir ORight.
Proof.
  intros d a b F G N. unfold identify_orientation. rewrite F, G, !is_fw_some.
  destruct (Nat.eqb_spec a b); [contradiction|]. destruct (Nat.eqb_spec b a); [congruence|].
  rewrite !Nat.eqb_refl. cbn. split; reflexivity.
Qed.

Lemma orientation_total_l : forall d a b, a <> b ->
  match identify_orientation d a b with
  | ODir o => identify_orientation d b a = ODir (flip o)
  | ONotMine => identify_orientation d b a = ONotMine
  | OSame | OUnsupported => False
  end.
Proof.
  intros d a b N. unfold identify_orientation.
  destruct (Nat.eqb_spec a b); [contradiction|]. destruct (Nat.eqb_spec b a); [congruence|].
  destruct (t_fw d) as [f|], (t_other d) as [o|]; cbn [is_fw];
    repeat match goal with
           | |- context [Nat.eqb ?x ?y] => destruct (Nat.eqb_spec x y); subst
           end; cbn; try reflexivity; try congruence; try contradiction.
Qed.

Lemma orientation_dir_iff : forall d a b, a <> b ->
  (identify_orientation d a b = ODir OLeft <-> t_fw d = Some a /\ t_other d = Some b) /\
  (identify_orientation d a b = ODir ORight <-> t_fw d = Some b /\ t_other d = Some a).
Proof.
  intros d a b N. unfold identify_orientation.
  destruct (Nat.eqb_spec a b); [contradiction|].
  destruct (t_fw d) as [f|], (t_other d) as [o|]; cbn [is_fw];
    repeat match goal with
           | |- context [Nat.eqb ?x ?y] => destruct (Nat.eqb_spec x y); subst
           end; cbn; split; split; intro H; try discriminate; try reflexivity; try tauto;
    try (destruct H as [H1 H2]; inversion H1; inversion H2; subst; congruence).
Qed.

(* ---------- one hop and typed hop lists ---------- *)
Section Data.
  Variable table : Type.
  Variable fwd bwd : tdecl -> table -> table.
  Notation transform := (transform table fwd bwd).
  Notation run_hops := (run_hops table fwd bwd).
  Notation apply_chain := (apply_chain table fwd bwd).
  Notation tfs_transform := (tfs_transform table fwd bwd).
  Notation direct_transform := (direct_transform table fwd bwd).

  Lemma transform_handles : forall d a b x, handles d a b -> a <> b ->
    (t_fw d = Some a /\ t_other d = Some b /\ transform d a b x = Some (fwd d x)) \/
    (t_fw d = Some b /\ t_other d = Some a /\ transform d a b x = Some (bwd d x)).
  Proof.
    intros d a b x [[F G]|[F G]] N; unfold Transform.transform.
    - left. destruct (orientation_left d a b F G N) as [-> _]. auto.
    - right. destruct (orientation_left d b a F G (not_eq_sym N)) as [_ ->]. auto.
  Qed.

  Lemma transform_total : forall d a b x, handles d a b -> a <> b -> exists y, transform d a b x = Some y.
  Proof. intros d a b x H N. destruct (transform_handles d a b x H N) as [(_ & _ & ->)|(_ & _ & ->)]; eexists; reflexivity. Qed.

  Lemma handles_sym : forall d a b, handles d a b -> handles d b a.
  Proof. intros d a b [H|H]; [right|left]; exact H. Qed.

  Lemma run_hops_app : forall l1 l2 x,
    run_hops (l1 ++ l2) x = match run_hops l1 x with Some y => run_hops l2 y | None => None end.
  Proof.
    induction l1 as [|[[d a] b] l1 IH]; intros l2 x; cbn; [reflexivity|].
    destruct (transform d a b x); [apply IH|reflexivity].
  Qed.

  Lemma run_typed_hops_total : forall l a b, typed_hops l a b -> forall x, exists y, run_hops l x = Some y.
  Proof.
    induction 1 as [a|d a m b l Hh N T IH]; intro x; cbn; [eexists; reflexivity|].
    destruct (transform_total d a m x Hh N) as [y ->]. apply IH.
  Qed.

  Variable valid : fw -> table -> Prop.
  Notation bijective_pair := (bijective_pair table fwd bwd valid).
  Notation bijective_registry := (bijective_registry table fwd bwd valid).

  Lemma roundtrip_hop : forall d a m x, handles d a m -> a <> m -> bijective_pair d -> valid a x ->
    exists y, transform d a m x = Some y /\ valid m y /\ transform d m a y = Some x.
  Proof.
    intros d a m x Hh N Bj V.
    destruct (transform_handles d a m x Hh N) as [(F & G & E)|(F & G & E)]; rewrite E.
    - destruct (Bj a m F G) as [B1 _]. destruct (B1 x V) as [V' R].
      exists (fwd d x). split; [reflexivity|]. split; [exact V'|].
      unfold Transform.transform. destruct (orientation_left d a m F G N) as [_ ->]. rewrite R. reflexivity.
    - destruct (Bj m a F G) as [_ B2]. destruct (B2 x V) as [V' R].
      exists (bwd d x). split; [reflexivity|]. split; [exact V'|].
      unfold Transform.transform. destruct (orientation_left d m a F G (not_eq_sym N)) as [-> _]. rewrite R. reflexivity.
  Qed.

  (* by induction on the chain: a typed chain followed by the reversed chain is the identity *)
  Lemma roundtrip_hops_l : forall l a b, typed_hops l a b ->
    (forall d a' b', In (d, a', b') l -> bijective_pair d) ->
    forall x, valid a x -> exists y, run_hops l x = Some y /\ valid b y /\ run_hops (rev_hops l) y = Some x.
  Proof.
    induction 1 as [a|d a m b l Hh N T IH]; intros Bj x V.
    - exists x. cbn. auto.
    - assert (Bd : bijective_pair d) by (apply (Bj d a m); left; reflexivity).
      destruct (roundtrip_hop d a m x Hh N Bd V) as (x1 & E1 & V1 & R1).
      destruct (IH (fun d0 a' b' H => Bj d0 a' b' (or_intror H)) x1 V1) as (y & E2 & V2 & R2).
      exists y. cbn [Spec.Transform.run_hops]. rewrite E1. split; [exact E2|]. split; [exact V2|].
      unfold rev_hops in *. cbn [map rev hop_rev]. rewrite run_hops_app, R2. cbn. rewrite R1. reflexivity.
  Qed.

  (* ---------- the TFS loop follows the typed hops of the chain ---------- *)
  Lemma find_target_unique : forall r d a m, reg_inv r -> lookup r (a, m) = Some d ->
    find_target r d a = Some m.
  Proof.
    intros r d a m I L. destruct (reg_inv_lookup _ _ _ _ I L) as [Hh _]. apply lookup_in in L.
    pose proof (inv_entries r I) as E. clear I.
    induction r as [|[[s t] d'] r IH]; [contradiction|]. cbn.
    destruct (tdecl_eqb d' d && Nat.eqb s a) eqn:C.
    - apply andb_true_iff in C. destruct C as [C1 C2]. apply tdecl_eqb_eq in C1. apply Nat.eqb_eq in C2. subst.
      destruct (E a t d (or_introl eq_refl)) as [Ht _].
      destruct Hh as [[F G]|[F G]], Ht as [[F' G']|[F' G']]; congruence.
    - destruct L as [L|L].
      + inversion L. subst. rewrite tdecl_eqb_refl, Nat.eqb_refl in C. discriminate.
      + apply IH; [exact L|]. intros a0 b0 d0 H. apply E. right. exact H.
  Qed.

  Lemma tfs_hops : forall hub r a b c, reg_inv r -> a <> b -> get_chain hub r a b = Some c ->
    exists l, typed_hops l a b /\ (forall d a' b', In (d, a', b') l -> registered r d) /\
      (forall x, apply_chain r c a None b x = run_hops l x) /\
      get_chain hub r b a = Some (rev c) /\
      (forall y, apply_chain r (rev c) b None a y = run_hops (rev_hops l) y).
  Proof.
    intros hub r a b c I N. unfold get_chain.
    destruct (lookup r (a, b)) as [d|] eqn:L.
    - intro H. inversion H. subst. clear H.
      destruct (reg_inv_lookup _ _ _ _ I L) as [Hh _].
      exists [(d, a, b)]. split; [constructor; [exact Hh|exact N|constructor]|].
      split; [intros d0 a' b' [H|[]]; injection H as E1 E2 E3; subst d0 a' b'; exists (a, b); exact L|].
      split; [intro x; cbn; destruct (transform d a b x); reflexivity|].
      rewrite (inv_sym r I _ _ _ L). split; [reflexivity|].
      intro y. cbn. destruct (transform d b a y); reflexivity.
    - destruct hub as [pa|]; [|discriminate].
      destruct (lookup r (a, pa)) as [d1|] eqn:L1; [|discriminate].
      destruct (lookup r (pa, b)) as [d2|] eqn:L2; [|discriminate].
      intro H. inversion H. subst. clear H.
      assert (Na : a <> pa) by (intro; subst; congruence).
      assert (Nb : pa <> b) by (intro; subst; congruence).
      destruct (reg_inv_lookup _ _ _ _ I L1) as [Hh1 _]. destruct (reg_inv_lookup _ _ _ _ I L2) as [Hh2 _].
      exists [(d1, a, pa); (d2, pa, b)].
      split; [constructor; [exact Hh1|exact Na|constructor; [exact Hh2|exact Nb|constructor]]|].
      split.
      { intros d0 a' b' [H|[H|[]]]; injection H as E1 E2 E3; subst d0 a' b'; [exists (a, pa)|exists (pa, b)]; assumption. }
      split.
      { intro x. cbn. rewrite (find_target_unique r d1 a pa I L1).
        destruct (transform d1 a pa x) as [y|]; [|reflexivity]. destruct (transform d2 pa b y); reflexivity. }
      rewrite (inv_sym_none r _ _ I L), (inv_sym r I _ _ _ L2), (inv_sym r I _ _ _ L1).
      split; [reflexivity|].
      intro y. cbn. rewrite (find_target_unique r d2 b pa I (inv_sym r I _ _ _ L2)).
      destruct (transform d2 b pa y) as [z|]; [|reflexivity]. destruct (transform d1 pa a z); reflexivity.
  Qed.

  Lemma tfs_total_inv : forall hub r a b c x, reg_inv r -> a <> b -> get_chain hub r a b = Some c ->
    exists y, tfs_transform hub r a b x = TOk table y.
  Proof.
    intros hub r a b c x I N G. destruct (tfs_hops hub r a b c I N G) as (l & T & _ & E & _).
    unfold Transform.tfs_transform. destruct (Nat.eqb_spec a b); [contradiction|]. rewrite G, E.
    destruct (run_typed_hops_total l a b T x) as [y ->]. eexists. reflexivity.
  Qed.

  Lemma roundtrip_inv : forall hub r a b x y, reg_inv r -> bijective_registry r -> a <> b -> valid a x ->
    tfs_transform hub r a b x = TOk table y -> valid b y /\ tfs_transform hub r b a y = TOk table x.
  Proof.
    intros hub r a b x y I Bj N V. unfold Transform.tfs_transform.
    destruct (Nat.eqb_spec a b); [contradiction|]. destruct (Nat.eqb_spec b a); [congruence|].
    destruct (get_chain hub r a b) as [c|] eqn:G; [|discriminate].
    destruct (tfs_hops hub r a b c I N G) as (l & T & Reg & E & G' & E').
    rewrite G', E, E'.
    destruct (roundtrip_hops_l l a b T (fun d a' b' H => Bj d (Reg d a' b' H)) x V) as (y' & R1 & V' & R2).
    rewrite R1. intro H. inversion H. subst. rewrite R2. auto.
  Qed.

  Lemma direct_roundtrip_inv : forall r a b x y, reg_inv r -> bijective_registry r -> a <> b -> valid a x ->
    direct_transform r a b x = Some (Some y) -> valid b y /\ direct_transform r b a y = Some (Some x).
  Proof.
    intros r a b x y I Bj N V. unfold Transform.direct_transform.
    destruct (lookup r (a, b)) as [d|] eqn:L; [|discriminate].
    rewrite (inv_sym r I _ _ _ L). destruct (reg_inv_lookup _ _ _ _ I L) as [Hh _].
    assert (Bd : bijective_pair d) by (apply Bj; exists (a, b); exact L).
    destruct (roundtrip_hop d a b x Hh N Bd V) as (y' & E & V' & R).
    rewrite E. intro H. inversion H. subst. rewrite R. auto.
  Qed.
End Data.

(* ---------- the same for registries built from declarations (the form cited by Props/C14.v) ---------- *)
Lemma tfs_total_l : forall table fwd bwd ds hub r a b c x,
  build ds = Some r -> a <> b -> get_chain hub r a b = Some c ->
  exists y, tfs_transform table fwd bwd hub r a b x = TOk table y.
Proof. intros table fwd bwd ds hub r a b c x B. apply tfs_total_inv. exact (build_inv ds r B). Qed.

Lemma roundtrip_under_bijection_l : forall table fwd bwd valid ds hub r a b x y,
  build ds = Some r -> bijective_registry table fwd bwd valid r -> a <> b -> valid a x ->
  tfs_transform table fwd bwd hub r a b x = TOk table y ->
  valid b y /\ tfs_transform table fwd bwd hub r b a y = TOk table x.
Proof. intros table fwd bwd valid ds hub r a b x y B. apply roundtrip_inv. exact (build_inv ds r B). Qed.

Lemma direct_roundtrip_l : forall table fwd bwd valid ds r a b x y,
  build ds = Some r -> bijective_registry table fwd bwd valid r -> a <> b -> valid a x ->
  direct_transform table fwd bwd r a b x = Some (Some y) ->
  valid b y /\ direct_transform table fwd bwd r b a y = Some (Some x).
Proof. intros table fwd bwd valid ds r a b x y B. apply direct_roundtrip_inv. exact (build_inv ds r B). Qed.

(* ---------- boolean checker of the invariant, for concrete (regenerated) registries ---------- *)
Definition handles_b (d : tdecl) (a b : fw) : bool :=
  (is_fw a (t_fw d) && is_fw b (t_other d)) || (is_fw b (t_fw d) && is_fw a (t_other d)).

Definition opt_tdecl_eqb (x y : option tdecl) : bool :=
  match x, y with Some a, Some b => tdecl_eqb a b | None, None => true | _, _ => false end.

Definition reg_inv_b (r : registry) : bool :=
  forallb (fun e : key * tdecl => let '((a, b), d) := e in
    handles_b d a b && check_imports d && opt_tdecl_eqb (lookup r (a, b)) (lookup r (b, a))) r
  && forallb (fun e : key * tdecl => let '(k, d) := e in opt_tdecl_eqb (lookup r k) (Some d)) r.

Lemma handles_b_true : forall d a b, handles_b d a b = true -> handles d a b.
Proof.
  intros d a b H. unfold handles_b in H. apply orb_true_iff in H.
  destruct H as [H|H]; apply andb_true_iff in H; destruct H as [H1 H2]; apply is_fw_true in H1; apply is_fw_true in H2;
    [left|right]; auto.
Qed.

Lemma reg_inv_b_sound : forall r, reg_inv_b r = true -> reg_inv r.
Proof.
  intros r H. unfold reg_inv_b in H. apply andb_true_iff in H. destruct H as [H1 H2].
  rewrite forallb_forall in H1, H2. split.
  - intros a b d HIn. specialize (H1 _ HIn). cbn in H1.
    apply andb_true_iff in H1. destruct H1 as [H1 _]. apply andb_true_iff in H1. destruct H1 as [Hh Hc].
    split; [apply handles_b_true; exact Hh|exact Hc].
  - intros a b d L. pose proof (lookup_in _ _ _ L) as HIn. specialize (H1 _ HIn). cbn in H1.
    apply andb_true_iff in H1. destruct H1 as [_ Hs]. rewrite L in Hs.
    destruct (lookup r (b, a)) as [d'|]; cbn in Hs; [|discriminate]. apply tdecl_eqb_eq in Hs. congruence.
Qed.

(* same content (as a finite map) *)
Definition reg_sub_b (r1 r2 : registry) : bool :=
  forallb (fun e : key * tdecl => let '(k, d) := e in opt_tdecl_eqb (lookup r1 k) (lookup r2 k)) r1.
Definition reg_equiv_b (r1 r2 : registry) : bool := reg_sub_b r1 r2 && reg_sub_b r2 r1.

Lemma reg_equiv_b_sound : forall r1 r2, reg_equiv_b r1 r2 = true -> forall k, lookup r1 k = lookup r2 k.
Proof.
  intros r1 r2 H k. unfold reg_equiv_b in H. apply andb_true_iff in H. destruct H as [H1 H2].
  unfold reg_sub_b in *. rewrite forallb_forall in H1, H2.
  assert (Q : forall x y, opt_tdecl_eqb x y = true -> x = y).
  { intros [x|] [y|]; cbn; intro E; try discriminate; [apply tdecl_eqb_eq in E; congruence|reflexivity]. }
  destruct (lookup r1 k) as [d|] eqn:L1.
  - specialize (H1 _ (lookup_in _ _ _ L1)). cbn in H1. rewrite L1 in H1. apply Q in H1. exact H1.
  - destruct (lookup r2 k) as [d|] eqn:L2; [|reflexivity].
    specialize (H2 _ (lookup_in _ _ _ L2)). cbn in H2. rewrite L1, L2 in H2. apply Q in H2. congruence.
Qed.

(* ---------- whether the constructor raises does not depend on the order of the declarations either ---------- *)
Lemma add_ok_registered : forall r d r' d', add r d = AddOk r' -> registered r' d' -> registered r d' \/ d' = d.
Proof.
  intros r d r' d' A [k L]. apply add_ok_shape in A. destruct A as [->|(l & o & _ & _ & _ & _ & ->)]; [left; exists k; exact L|].
  rewrite !lookup_dset in L.
  destruct (key_eqb (o, l) k); [right; congruence|]. destruct (key_eqb (l, o) k); [right; congruence|].
  left. exists k. exact L.
Qed.

Lemma build_from_none : forall ds r, reg_inv r -> build_from r ds = None ->
  exists d d' a b, In d ds /\ usable d /\ usable d' /\ d <> d' /\ handles d a b /\ handles d' a b /\
                   (In d' ds \/ registered r d').
Proof.
  induction ds as [|d0 ds IH]; intros r I; cbn; [discriminate|].
  destruct (add r d0) eqn:A.
  - intro B. destruct (IH r I B) as (d & d' & a & b & H1 & H2 & H3 & H4 & H5 & H6 & H7).
    exists d, d', a, b. repeat split; auto. destruct H7; auto.
  - intro B. destruct (IH r0 (add_preserves_inv _ _ _ I A) B) as (d & d' & a & b & H1 & H2 & H3 & H4 & H5 & H6 & H7).
    exists d, d', a, b. repeat split; auto. destruct H7 as [H7|H7]; [auto|].
    destruct (add_ok_registered _ _ _ _ A H7) as [H8| ->]; auto.
  - intros _. unfold add in A. destruct (check_imports d0) eqn:C; cbn in A; [|discriminate].
    destruct (t_fw d0) as [l|] eqn:F; [|discriminate]. destruct (t_other d0) as [o|] eqn:G; [|discriminate].
    destruct (lookup r (l, o)) as [d'|] eqn:L; [|discriminate].
    destruct (tdecl_eqb d0 d') eqn:E; [discriminate|].
    destruct (reg_inv_lookup _ _ _ _ I L) as [Hh Hu].
    exists d0, d', l, o. repeat split; auto.
    + intro X. subst d'. rewrite tdecl_eqb_refl in E. discriminate.
    + left. auto.
    + right. exists (l, o). exact L.
Qed.

Lemma build_some_no_conflict : forall ds r d d' a b, build ds = Some r ->
  In d ds -> In d' ds -> usable d -> usable d' -> handles d a b -> handles d' a b -> d = d'.
Proof.
  intros ds r d d' a b B H1 H2 U1 U2 Hh1 Hh2.
  assert (L1 : lookup r (a, b) = Some d) by (apply (lookup_built_iff ds r a b d B); auto).
  assert (L2 : lookup r (a, b) = Some d') by (apply (lookup_built_iff ds r a b d' B); auto).
  congruence.
Qed.

Lemma build_failure_order_independent_l : forall ds ds', Permutation ds ds' -> build ds = None -> build ds' = None.
Proof.
  intros ds ds' P B. destruct (build ds') as [r'|] eqn:B'; [|reflexivity]. exfalso.
  destruct (build_from_none ds [] reg_inv_nil B) as (d & d' & a & b & H1 & U1 & U2 & N & Hh1 & Hh2 & H7).
  destruct H7 as [H7|[k H7]]; [|cbn in H7; discriminate].
  apply N. eapply (build_some_no_conflict ds' r' d d' a b B'); eauto using Permutation_in.
Qed.
