(* Lemmas for Spec/RelNary.v: on uniform tables the inner join is a congruence for bag_eq and preserves uniformity;
   every plan of an inner-join tree computes the canonical comprehension all_matches (order independence).
   Standard library only; no axioms. *)
From Coq Require Import List String ZArith Bool Arith Permutation Lia.
Import ListNotations.
Require Import MV.Spec.Rel MV.Spec.RelNary MV.Proofs.RelLemmas.
Open Scope string_scope.
Open Scope list_scope.

(* ==================================================================================================== *)
(* 1. rows that bind the same columns to the same values (finer than row_equiv: null bindings count) *)

Definition rsame (r1 r2 : row) : Prop := forall c, lookup c r1 = lookup c r2.

Lemma rsame_refl : forall r, rsame r r.
Proof. intros r c. reflexivity. Qed.
Lemma rsame_sym : forall a b, rsame a b -> rsame b a.
Proof. intros a b H c. now rewrite H. Qed.
Lemma rsame_trans : forall a b c, rsame a b -> rsame b c -> rsame a c.
Proof. intros a b c H1 H2 x. now rewrite H1. Qed.
Lemma rsame_get : forall a b, rsame a b -> forall c, get c a = get c b.
Proof. intros a b H c. unfold get. now rewrite H. Qed.
Lemma rsame_equiv : forall a b, rsame a b -> row_equiv a b.
Proof. intros a b H c. now apply rsame_get. Qed.
Lemma rsame_has_col : forall a b, rsame a b -> forall c, has_col c a = has_col c b.
Proof.
  intros a b H c. destruct (has_col c a) eqn:Ea, (has_col c b) eqn:Eb; auto.
  - apply lookup_none in Eb. rewrite <- H in Eb. apply lookup_none in Eb. congruence.
  - apply lookup_none in Ea. rewrite H in Ea. apply lookup_none in Ea. congruence.
Qed.

Lemma lookup_filter_cols : forall (p : col -> bool) c r,
  lookup c (filter (fun cv => p (fst cv)) r) = if p c then lookup c r else None.
Proof.
  intros p c r. induction r as [|[d v] t IH]; simpl.
  - now destruct (p c).
  - destruct (p d) eqn:P; simpl.
    + destruct (String.eqb d c) eqn:E; auto. apply String.eqb_eq in E. subst. now rewrite P.
    + destruct (String.eqb d c) eqn:E; auto. apply String.eqb_eq in E. subst.
      rewrite P in IH. rewrite P. exact IH.
Qed.

Lemma lookup_row_union : forall c l r,
  lookup c (row_union l r) = match lookup c l with Some v => Some v | None => lookup c r end.
Proof.
  intros. unfold row_union. rewrite lookup_app. destruct (lookup c l) eqn:E; auto.
  rewrite (lookup_filter_cols (fun x => negb (has_col x l))). apply lookup_none in E. now rewrite E.
Qed.

Lemma rsame_row_union : forall a a' b b', rsame a a' -> rsame b b' -> rsame (row_union a b) (row_union a' b').
Proof. intros a a' b b' H1 H2 c. rewrite !lookup_row_union. now rewrite H1, H2. Qed.

Lemma key_of_get_ext : forall ks a b, (forall c, In c ks -> get c a = get c b) -> key_of ks a = key_of ks b.
Proof. intros. unfold key_of. now apply map_ext_in. Qed.

Lemma matches_ext : forall lk rk a a' b b',
  (forall c, In c lk -> get c a = get c a') -> (forall c, In c rk -> get c b = get c b') ->
  matches lk rk a b = matches lk rk a' b'.
Proof. intros. unfold matches. now rewrite (key_of_get_ext lk a a'), (key_of_get_ext rk b b'). Qed.

Lemma map_fst_filter : forall (p : col -> bool) (r : row),
  map fst (filter (fun cv => p (fst cv)) r) = filter p (map fst r).
Proof. induction r as [|[d v] t IH]; simpl; auto. destruct (p d); simpl; now rewrite IH. Qed.

Lemma row_cols_row_union : forall l r,
  row_cols (row_union l r) = row_cols l ++ filter (fun c => negb (mem c (row_cols l))) (row_cols r).
Proof.
  intros. unfold row_union, row_cols. rewrite map_app. f_equal.
  apply (map_fst_filter (fun c => negb (mem c (map fst l)))).
Qed.

(* ==================================================================================================== *)
(* 2. a pointwise relation between the operands of an inner join carries over to the result *)

Section JoinRel.
  Variables (X Y : Type) (R1 : row -> X -> Prop) (R2 : row -> Y -> Prop) (Ro : row -> row -> Prop).
  Variables (lk rk : list col) (m : X -> Y -> bool) (g : X -> Y -> row).

  Lemma inner_one_rel : forall x x' Tb FB,
    Forall2 R2 Tb FB ->
    (forall y y', R2 y y' -> In y' FB -> matches lk rk x y = m x' y' /\ (m x' y' = true -> Ro (row_union x y) (g x' y'))) ->
    Forall2 Ro (map (fun r => row_union x r) (filter (matches lk rk x) Tb)) (map (g x') (filter (m x') FB)).
  Proof.
    intros x x' Tb FB F. induction F as [|y y' Tb FB Hy F IH]; simpl; intros H; [constructor|].
    destruct (H y y' Hy (or_introl eq_refl)) as [E Hr]. rewrite E.
    destruct (m x' y') eqn:M; simpl.
    - constructor; [now apply Hr | apply IH; intros; apply H; simpl; auto].
    - apply IH. intros; apply H; simpl; auto.
  Qed.

  Lemma inner_rows_rel : forall Ta Tb FA FB,
    Forall2 R1 Ta FA -> Forall2 R2 Tb FB ->
    (forall x x' y y', R1 x x' -> In x' FA -> R2 y y' -> In y' FB ->
       matches lk rk x y = m x' y' /\ (m x' y' = true -> Ro (row_union x y) (g x' y'))) ->
    Forall2 Ro (inner_rows lk rk Ta Tb) (flat_map (fun x' => map (g x') (filter (m x') FB)) FA).
  Proof.
    intros Ta Tb FA FB F1 F2. unfold inner_rows.
    induction F1 as [|x x' Ta FA Hx F1 IH]; simpl; intros H; [constructor|].
    apply Forall2_app.
    - apply inner_one_rel; [exact F2|]. intros. apply H; simpl; auto.
    - apply IH. intros. apply H; simpl; auto.
  Qed.
End JoinRel.

Lemma Forall2_row_equiv_teq : forall a b, Forall2 row_equiv a b -> teq a b.
Proof. induction 1; [apply teq_nil | now apply teq_cons]. Qed.

Lemma Forall2_rsame_teq : forall a b, Forall2 rsame a b -> teq a b.
Proof. induction 1; [apply teq_nil | apply teq_cons; auto; now apply rsame_equiv]. Qed.

Lemma map_eq_Forall2 : forall (A B : Type) (f : A -> B) l1 l2,
  map f l1 = map f l2 -> Forall2 (fun a b => f a = f b) l1 l2.
Proof.
  induction l1 as [|x t IH]; destruct l2 as [|y u]; simpl; intros H; try discriminate; constructor.
  - now inversion H.
  - apply IH. now inversion H.
Qed.

(* ==================================================================================================== *)
(* 3. uniform tables: preservation and congruence *)

Lemma cols_eqb_eq : forall a b, cols_eqb a b = true <-> a = b.
Proof.
  induction a as [|x a IH]; destruct b as [|y b]; simpl; split; intro H; try discriminate; auto.
  - apply andb_true_iff in H. destruct H as [H1 H2]. apply String.eqb_eq in H1. apply IH in H2. now subst.
  - inversion H; subst. rewrite String.eqb_refl. simpl. now apply IH.
Qed.

Lemma uniformb_spec : forall cs T, uniformb cs T = true <-> uniform cs T.
Proof.
  intros. unfold uniformb, uniform. rewrite forallb_forall. split; intros H r Hr.
  - apply cols_eqb_eq. auto.
  - apply cols_eqb_eq. auto.
Qed.

Definition join_schema (csL csR : list col) : list col := csL ++ filter (fun c => negb (mem c csL)) csR.

Lemma inner_rows_in : forall lk rk L R x,
  In x (inner_rows lk rk L R) -> exists l r, In l L /\ In r R /\ matches lk rk l r = true /\ x = row_union l r.
Proof.
  intros lk rk L R x H. unfold inner_rows in H. apply in_flat_map in H. destruct H as [l [Hl H]].
  apply in_map_iff in H. destruct H as [r [E Hr]]. apply filter_In in Hr. destruct Hr as [Hr M].
  exists l, r. auto.
Qed.

Theorem inner_uniform_l : forall lk rk csL csR L R,
  uniform csL L -> uniform csR R -> uniform (join_schema csL csR) (rel_join JInner lk rk L R).
Proof.
  intros lk rk csL csR L R UL UR x Hx. simpl in Hx. unfold rel_inner in Hx.
  apply inner_rows_in in Hx. destruct Hx as [l [r [Hl [Hr [_ ->]]]]].
  rewrite row_cols_row_union, (UL l Hl), (UR r Hr). reflexivity.
Qed.

Lemma perm_filter : forall (A : Type) (p : A -> bool) l1 l2, Permutation l1 l2 -> Permutation (filter p l1) (filter p l2).
Proof.
  induction 1; simpl; auto.
  - destruct (p x); auto.
  - destruct (p x), (p y); auto. apply perm_swap.
  - eapply perm_trans; eauto.
Qed.

Lemma inner_rows_perm : forall lk rk L L' R R',
  Permutation L L' -> Permutation R R' -> Permutation (inner_rows lk rk L R) (inner_rows lk rk L' R').
Proof.
  intros lk rk L L' R R' HL HR. unfold inner_rows.
  eapply perm_trans; [apply Permutation_flat_map; exact HL|].
  apply flat_map_perm_ext. intros l _. apply Permutation_map. now apply perm_filter.
Qed.


Definition same_set (a b : list col) : Prop := forall c, In c a <-> In c b.

Lemma uniform_canon_rel : forall csL csL' L L3,
  same_set csL csL' -> Forall2 (fun a b => canon a = canon b) L L3 -> uniform csL L -> uniform csL' L3 ->
  Forall2 (fun a b => row_equiv a b /\ forall c, has_col c a = has_col c b) L L3.
Proof.
  intros csL csL' L L3 SS F. induction F as [|a b L L3 Hab F IH]; intros UL UL3; constructor.
  - split; [now apply canon_equiv|]. intro c. unfold has_col.
    rewrite (UL a (or_introl eq_refl)), (UL3 b (or_introl eq_refl)).
    apply eq_true_iff_eq. rewrite !mem_in. apply SS.
  - apply IH; intros r Hr; [apply UL | apply UL3]; now right.
Qed.

(* the blocked congruence: on a uniform LEFT operand (the right operand may be anything) *)
Theorem inner_congruence_l : forall lk rk csL csL' L L' R R',
  uniform csL L -> uniform csL' L' -> same_set csL csL' ->
  bag_eq L L' -> bag_eq R R' ->
  bag_eq (rel_join JInner lk rk L R) (rel_join JInner lk rk L' R').
Proof.
  intros lk rk csL csL' L L' R R' UL UL' SS HL HR. simpl. unfold rel_inner.
  unfold bag_eq in HL, HR.
  destruct (Permutation_map_inv canon L' HL) as [L3 [EL PL]].
  destruct (Permutation_map_inv canon R' HR) as [R3 [ER PR]].
  apply bag_eq_trans with (inner_rows lk rk L3 R3).
  - apply teq_bag_eq. apply Forall2_row_equiv_teq.
    change (inner_rows lk rk L3 R3) with
      (flat_map (fun x' => map (row_union x') (filter (matches lk rk x') R3)) L3).
    apply (inner_rows_rel row row
             (fun a b => row_equiv a b /\ forall c, has_col c a = has_col c b) row_equiv row_equiv).
    + apply map_eq_Forall2 in EL. apply (uniform_canon_rel csL csL'); auto.
      intros r Hr. apply UL'. eapply Permutation_in; [apply Permutation_sym; exact PL | exact Hr].
    + apply map_eq_Forall2 in ER. clear - ER. induction ER; constructor; auto. now apply canon_equiv.
    + intros x x' y y' [Hx Hc] _ Hy _. split.
      * apply matches_ext; intros; [apply Hx | apply Hy].
      * intros _ c. rewrite !get_row_union. now rewrite Hc, Hx, Hy.
  - apply perm_bag_eq. apply inner_rows_perm; now apply Permutation_sym.
Qed.
