(* Lemmas for Spec/RelNary.v: on uniform tables the inner join is a congruence for bag_eq and preserves uniformity;
   every plan of an inner-join tree computes the canonical comprehension all_matches (order independence).
   Standard library only; no axioms. *)
From Coq Require Import List String ZArith Bool Arith Permutation Lia.
Import ListNotations.
Require Import MV.Spec.Rel MV.Proofs.RelLemmas MV.Proofs.RelAssocP MV.Spec.RelNary.
Open Scope string_scope.
Open Scope list_scope.
Open Scope nat_scope.

(* ==================================================================================================== *)
(* 1. rows that bind the same columns to the same values (finer than row_equiv: null bindings count) *)

Definition rsame (r1 r2 : row) : Prop := forall c, lookup c r1 = lookup c r2.

Lemma rsame_refl : forall r, rsame r r.
Proof. intros r c. reflexivity. Qed.
Lemma rsame_sym : forall a b, rsame a b -> rsame b a.
Proof. intros a b H c. now rewrite H. Qed.
Lemma rsame_trans : forall a b c, rsame a b -> rsame b c -> rsame a c.
Proof. intros a b c H1 H2 x. now rewrite H1. Qed.
Lemma rsame_get : forall a b, rsame a b -> forall c, get c a = get c b.
Proof. intros a b H c. unfold get. now rewrite H. Qed.
Lemma rsame_equiv : forall a b, rsame a b -> row_equiv a b.
Proof. intros a b H c. now apply rsame_get. Qed.
Lemma rsame_has_col : forall a b, rsame a b -> forall c, has_col c a = has_col c b.
Proof.
  intros a b H c. destruct (has_col c a) eqn:Ea, (has_col c b) eqn:Eb; auto.
  - apply lookup_none in Eb. rewrite <- H in Eb. apply lookup_none in Eb. congruence.
  - apply lookup_none in Ea. rewrite H in Ea. apply lookup_none in Ea. congruence.
Qed.

Lemma lookup_filter_cols : forall (p : col -> bool) c r,
  lookup c (filter (fun cv => p (fst cv)) r) = if p c then lookup c r else None.
Proof.
  intros p c r. induction r as [|[d v] t IH]; simpl.
  - now destruct (p c).
  - destruct (p d) eqn:P; simpl.
    + destruct (String.eqb d c) eqn:E; auto. apply String.eqb_eq in E. subst. now rewrite P.
    + destruct (String.eqb d c) eqn:E; auto. apply String.eqb_eq in E. subst.
      rewrite P in IH. rewrite P. exact IH.
Qed.

Lemma lookup_row_union : forall c l r,
  lookup c (row_union l r) = match lookup c l with Some v => Some v | None => lookup c r end.
Proof.
  intros. unfold row_union. rewrite lookup_app. destruct (lookup c l) eqn:E; auto.
  rewrite (lookup_filter_cols (fun x => negb (has_col x l))). apply lookup_none in E. now rewrite E.
Qed.

Lemma rsame_row_union : forall a a' b b', rsame a a' -> rsame b b' -> rsame (row_union a b) (row_union a' b').
Proof. intros a a' b b' H1 H2 c. rewrite !lookup_row_union. now rewrite H1, H2. Qed.

Lemma key_of_get_ext : forall ks a b, (forall c, In c ks -> get c a = get c b) -> key_of ks a = key_of ks b.
Proof. intros. unfold key_of. now apply map_ext_in. Qed.

Lemma matches_ext : forall lk rk a a' b b',
  (forall c, In c lk -> get c a = get c a') -> (forall c, In c rk -> get c b = get c b') ->
  matches lk rk a b = matches lk rk a' b'.
Proof. intros. unfold matches. now rewrite (key_of_get_ext lk a a'), (key_of_get_ext rk b b'). Qed.

Lemma map_fst_filter : forall (p : col -> bool) (r : row),
  map fst (filter (fun cv => p (fst cv)) r) = filter p (map fst r).
Proof. induction r as [|[d v] t IH]; simpl; auto. destruct (p d); simpl; now rewrite IH. Qed.

Lemma row_cols_row_union : forall l r,
  row_cols (row_union l r) = row_cols l ++ filter (fun c => negb (mem c (row_cols l))) (row_cols r).
Proof.
  intros. unfold row_union, row_cols. rewrite map_app. f_equal.
  apply (map_fst_filter (fun c => negb (mem c (map fst l)))).
Qed.

(* ==================================================================================================== *)
(* 2. a pointwise relation between the operands of an inner join carries over to the result *)

Section JoinRel.
  Variables (X Y : Type) (R1 : row -> X -> Prop) (R2 : row -> Y -> Prop) (Ro : row -> row -> Prop).
  Variables (lk rk : list col) (m : X -> Y -> bool) (g : X -> Y -> row).

  Lemma inner_one_rel : forall x x' Tb FB,
    Forall2 R2 Tb FB ->
    (forall y y', R2 y y' -> In y' FB -> matches lk rk x y = m x' y' /\ (m x' y' = true -> Ro (row_union x y) (g x' y'))) ->
    Forall2 Ro (map (fun r => row_union x r) (filter (matches lk rk x) Tb)) (map (g x') (filter (m x') FB)).
  Proof.
    intros x x' Tb FB F. induction F as [|y y' Tb FB Hy F IH]; simpl; intros H; [constructor|].
    destruct (H y y' Hy (or_introl eq_refl)) as [E Hr]. rewrite E.
    destruct (m x' y') eqn:M; simpl.
    - constructor; [now apply Hr | apply IH; intros; apply H; simpl; auto].
    - apply IH. intros; apply H; simpl; auto.
  Qed.

  Lemma inner_rows_rel : forall Ta Tb FA FB,
    Forall2 R1 Ta FA -> Forall2 R2 Tb FB ->
    (forall x x' y y', R1 x x' -> In x' FA -> R2 y y' -> In y' FB ->
       matches lk rk x y = m x' y' /\ (m x' y' = true -> Ro (row_union x y) (g x' y'))) ->
    Forall2 Ro (inner_rows lk rk Ta Tb) (flat_map (fun x' => map (g x') (filter (m x') FB)) FA).
  Proof.
    intros Ta Tb FA FB F1 F2. unfold inner_rows.
    induction F1 as [|x x' Ta FA Hx F1 IH]; simpl; intros H; [constructor|].
    apply Forall2_app.
    - apply inner_one_rel; [exact F2|]. intros. apply H; simpl; auto.
    - apply IH. intros. apply H; simpl; auto.
  Qed.
End JoinRel.

Lemma Forall2_row_equiv_teq : forall a b, Forall2 row_equiv a b -> teq a b.
Proof. induction 1; [apply teq_nil | now apply teq_cons]. Qed.

Lemma Forall2_rsame_teq : forall a b, Forall2 rsame a b -> teq a b.
Proof. induction 1; [apply teq_nil | apply teq_cons; auto; now apply rsame_equiv]. Qed.

Lemma map_eq_Forall2 : forall (A B : Type) (f : A -> B) l1 l2,
  map f l1 = map f l2 -> Forall2 (fun a b => f a = f b) l1 l2.
Proof.
  induction l1 as [|x t IH]; destruct l2 as [|y u]; simpl; intros H; try discriminate; constructor.
  - now inversion H.
  - apply IH. now inversion H.
Qed.

(* ==================================================================================================== *)
(* 3. uniform tables: preservation and congruence *)

Lemma cols_eqb_eq : forall a b, cols_eqb a b = true <-> a = b.
Proof.
  induction a as [|x a IH]; destruct b as [|y b]; simpl; split; intro H; try discriminate; auto.
  - apply andb_true_iff in H. destruct H as [H1 H2]. apply String.eqb_eq in H1. apply IH in H2. now subst.
  - inversion H; subst. rewrite String.eqb_refl. simpl. now apply IH.
Qed.

Lemma uniformb_spec : forall cs T, uniformb cs T = true <-> uniform cs T.
Proof.
  intros. unfold uniformb, uniform. rewrite forallb_forall. split; intros H r Hr.
  - apply cols_eqb_eq. auto.
  - apply cols_eqb_eq. auto.
Qed.

Definition join_schema (csL csR : list col) : list col := csL ++ filter (fun c => negb (mem c csL)) csR.

Lemma inner_rows_in : forall lk rk L R x,
  In x (inner_rows lk rk L R) -> exists l r, In l L /\ In r R /\ matches lk rk l r = true /\ x = row_union l r.
Proof.
  intros lk rk L R x H. unfold inner_rows in H. apply in_flat_map in H. destruct H as [l [Hl H]].
  apply in_map_iff in H. destruct H as [r [E Hr]]. apply filter_In in Hr. destruct Hr as [Hr M].
  exists l, r. auto.
Qed.

Theorem inner_uniform_l : forall lk rk csL csR L R,
  uniform csL L -> uniform csR R -> uniform (join_schema csL csR) (rel_join JInner lk rk L R).
Proof.
  intros lk rk csL csR L R UL UR x Hx. simpl in Hx. unfold rel_inner in Hx.
  apply inner_rows_in in Hx. destruct Hx as [l [r [Hl [Hr [_ ->]]]]].
  rewrite row_cols_row_union, (UL l Hl), (UR r Hr). reflexivity.
Qed.

Lemma perm_filter : forall (A : Type) (p : A -> bool) l1 l2, Permutation l1 l2 -> Permutation (filter p l1) (filter p l2).
Proof.
  induction 1; simpl; auto.
  - destruct (p x); auto.
  - destruct (p x), (p y); auto. apply perm_swap.
  - eapply perm_trans; eauto.
Qed.

Lemma inner_rows_perm : forall lk rk L L' R R',
  Permutation L L' -> Permutation R R' -> Permutation (inner_rows lk rk L R) (inner_rows lk rk L' R').
Proof.
  intros lk rk L L' R R' HL HR. unfold inner_rows.
  eapply perm_trans; [apply Permutation_flat_map; exact HL|].
  apply flat_map_perm_ext. intros l _. apply Permutation_map. now apply perm_filter.
Qed.


Definition same_set (a b : list col) : Prop := forall c, In c a <-> In c b.

Lemma uniform_canon_rel : forall csL csL' L L3,
  same_set csL csL' -> Forall2 (fun a b => canon a = canon b) L L3 -> uniform csL L -> uniform csL' L3 ->
  Forall2 (fun a b => row_equiv a b /\ forall c, has_col c a = has_col c b) L L3.
Proof.
  intros csL csL' L L3 SS F. induction F as [|a b L L3 Hab F IH]; intros UL UL3; constructor.
  - split; [now apply canon_equiv|]. intro c. unfold has_col.
    rewrite (UL a (or_introl eq_refl)), (UL3 b (or_introl eq_refl)).
    apply eq_true_iff_eq. rewrite !mem_in. apply SS.
  - apply IH; intros r Hr; [apply UL | apply UL3]; now right.
Qed.

(* the blocked congruence: on a uniform LEFT operand (the right operand may be anything) *)
Theorem inner_congruence_l : forall lk rk csL csL' L L' R R',
  uniform csL L -> uniform csL' L' -> same_set csL csL' ->
  bag_eq L L' -> bag_eq R R' ->
  bag_eq (rel_join JInner lk rk L R) (rel_join JInner lk rk L' R').
Proof.
  intros lk rk csL csL' L L' R R' UL UL' SS HL HR. simpl. unfold rel_inner.
  unfold bag_eq in HL, HR.
  destruct (Permutation_map_inv canon L' HL) as [L3 [EL PL]].
  destruct (Permutation_map_inv canon R' HR) as [R3 [ER PR]].
  apply bag_eq_trans with (inner_rows lk rk L3 R3).
  - apply teq_bag_eq. apply Forall2_row_equiv_teq.
    change (inner_rows lk rk L3 R3) with
      (flat_map (fun x' => map (row_union x') (filter (matches lk rk x') R3)) L3).
    apply (inner_rows_rel row row
             (fun a b => row_equiv a b /\ forall c, has_col c a = has_col c b) row_equiv row_equiv).
    + apply map_eq_Forall2 in EL. apply (uniform_canon_rel csL csL'); auto.
      intros r Hr. apply UL'. eapply Permutation_in; [apply Permutation_sym; exact PL | exact Hr].
    + apply map_eq_Forall2 in ER. clear - ER. induction ER; constructor; auto. now apply canon_equiv.
    + intros x x' y y' [Hx Hc] _ Hy _. split.
      * apply matches_ext; intros; [apply Hx | apply Hy].
      * intros _ c. rewrite !get_row_union. now rewrite Hc, Hx, Hy.
  - apply perm_bag_eq. apply inner_rows_perm; now apply Permutation_sym.
Qed.

(* ==================================================================================================== *)
(* 4. tuples: lookup by table index, cartesian products, link satisfaction *)

Lemma nmem_in : forall i l, nmem i l = true <-> In i l.
Proof.
  unfold nmem. intros i l. rewrite existsb_exists. split.
  - intros [x [Hx E]]. apply Nat.eqb_eq in E. now subst.
  - intro H. exists i. split; auto. apply Nat.eqb_refl.
Qed.
Lemma nmem_false : forall i l, nmem i l = false <-> ~ In i l.
Proof. intros i l. rewrite <- nmem_in. destruct (nmem i l); split; congruence. Qed.
Lemma nmem_app : forall i a b, nmem i (a ++ b) = nmem i a || nmem i b.
Proof. intros. unfold nmem. apply existsb_app. Qed.

Lemma tget_app : forall i a b, tget i (a ++ b) = match tget i a with Some r => Some r | None => tget i b end.
Proof. induction a as [|[j r] a IH]; simpl; intros b; auto. destruct (Nat.eqb j i); auto. Qed.

Lemma tget_none : forall i t, tget i t = None <-> nmem i (map fst t) = false.
Proof.
  induction t as [|[j r] t IH]; simpl; [tauto|].
  rewrite (Nat.eqb_sym i j). destruct (Nat.eqb j i); simpl; [split; discriminate | exact IH].
Qed.

Lemma tget_some_in : forall i r t, tget i t = Some r -> In (i, r) t.
Proof.
  induction t as [|[j r'] t IH]; simpl; intros H; [discriminate|].
  destruct (Nat.eqb j i) eqn:E.
  - apply Nat.eqb_eq in E. inversion H; subst. now left.
  - right. auto.
Qed.

Lemma tget_in : forall i r t, NoDup (map fst t) -> In (i, r) t -> tget i t = Some r.
Proof.
  induction t as [|[j r'] t IH]; simpl; intros ND H; [tauto|].
  inversion ND as [|? ? Hn ND']; subst.
  destruct H as [H|H].
  - inversion H; subst. now rewrite Nat.eqb_refl.
  - destruct (Nat.eqb j i) eqn:E; auto.
    apply Nat.eqb_eq in E. subst. exfalso. apply Hn. apply in_map_iff. exists (i, r). auto.
Qed.

Lemma tget_perm : forall i t t', NoDup (map fst t) -> Permutation t t' -> tget i t = tget i t'.
Proof.
  intros i t t' ND P.
  assert (ND' : NoDup (map fst t')) by (eapply Permutation_NoDup; [apply Permutation_map; exact P | exact ND]).
  destruct (tget i t) as [r|] eqn:E.
  - symmetry. apply tget_in; auto. eapply Permutation_in; [exact P|]. now apply tget_some_in.
  - symmetry. apply tget_none. apply tget_none in E. apply nmem_false. apply nmem_false in E.
    intro H. apply E. eapply Permutation_in; [apply Permutation_sym; apply Permutation_map; exact P | exact H].
Qed.

Lemma map_flat_map_l : forall (X Y Z : Type) (f : Y -> Z) (g : X -> list Y) l,
  map f (flat_map g l) = flat_map (fun x => map f (g x)) l.
Proof. induction l as [|x t IH]; simpl; auto. now rewrite map_app, IH. Qed.

Section Prod.
  Variable ts : list table.

  Lemma prod_keys : forall S t, In t (prod ts S) -> map fst t = S.
  Proof.
    induction S as [|i S IH]; simpl; intros t H.
    - destruct H as [<-|[]]. reflexivity.
    - apply in_flat_map in H. destruct H as [r [_ H]]. apply in_map_iff in H. destruct H as [t' [<- H]].
      simpl. f_equal. auto.
  Qed.

  Lemma prod_rows : forall S t i r, In t (prod ts S) -> In (i, r) t -> In r (nth i ts []).
  Proof.
    induction S as [|j S IH]; simpl; intros t i r H Hr.
    - destruct H as [<-|[]]. destruct Hr.
    - apply in_flat_map in H. destruct H as [r' [Hr' H]]. apply in_map_iff in H. destruct H as [t' [<- H]].
      destruct Hr as [Hr|Hr]; [inversion Hr; now subst | eauto].
  Qed.

  Lemma prod_app : forall Sa Sb,
    prod ts (Sa ++ Sb) = flat_map (fun ta => map (app ta) (prod ts Sb)) (prod ts Sa).
  Proof.
    induction Sa as [|i Sa IH]; intros Sb; simpl.
    - rewrite app_nil_r. symmetry. apply map_id.
    - rewrite IH. rewrite flat_map_flat_map. apply flat_map_ext. intro r.
      rewrite map_flat_map_l, flat_map_map_l. apply flat_map_ext. intro ta. now rewrite map_map.
  Qed.

  Lemma prod_app_in : forall Sa Sb t,
    In t (prod ts (Sa ++ Sb)) <-> exists ta tb, In ta (prod ts Sa) /\ In tb (prod ts Sb) /\ t = ta ++ tb.
  Proof.
    intros. rewrite prod_app, in_flat_map. split.
    - intros [ta [Ha H]]. apply in_map_iff in H. destruct H as [tb [<- Hb]]. eauto.
    - intros [ta [tb [Ha [Hb ->]]]]. exists ta. split; auto. apply in_map_iff. eauto.
  Qed.
End Prod.

Lemma link_sat_flip : forall l t, link_sat (flip_link l) t = link_sat l t.
Proof.
  intros [[[[jt a] b] lk] rk] t. simpl. destruct (tget a t), (tget b t); auto. apply matches_swap.
Qed.
Lemma link_sat_orient : forall l f t, link_sat (orient l f) t = link_sat l t.
Proof. intros l [|] t; simpl; auto. apply link_sat_flip. Qed.

Lemma link_sat_absent_l : forall jt a b lk rk t, nmem a (map fst t) = false -> link_sat (jt, a, b, lk, rk) t = true.
Proof. intros. simpl. apply tget_none in H. now rewrite H. Qed.
Lemma link_sat_absent_r : forall jt a b lk rk t, nmem b (map fst t) = false -> link_sat (jt, a, b, lk, rk) t = true.
Proof. intros. simpl. apply tget_none in H. rewrite H. now destruct (tget a t). Qed.

Lemma forallb_andb : forall (A : Type) (p q : A -> bool) l,
  forallb (fun x => p x && q x) l = forallb p l && forallb q l.
Proof.
  induction l as [|x t IH]; simpl; auto. rewrite IH.
  destruct (p x), (q x), (forallb p t), (forallb q t); reflexivity.
Qed.

Lemma forallb_ext_in_l : forall (A : Type) (p q : A -> bool) l,
  (forall x, In x l -> p x = q x) -> forallb p l = forallb q l.
Proof.
  induction l as [|x t IH]; simpl; intros H; auto. rewrite (H x (or_introl eq_refl)), IH; auto.
Qed.

(* no link of E leaves the key set of ta or of tb, and the key sets are disjoint *)
Lemma sat_app_split : forall E ta tb,
  (forall x, nmem x (map fst ta) = true -> nmem x (map fst tb) = false) ->
  (forall jt a b lk rk, In (jt, a, b, lk, rk) E ->
     nmem a (map fst ta) = nmem b (map fst ta) /\ nmem a (map fst tb) = nmem b (map fst tb)) ->
  sat E (ta ++ tb) = sat E ta && sat E tb.
Proof.
  intros E ta tb D H. unfold sat. rewrite <- forallb_andb. apply forallb_ext_in_l.
  intros [[[[jt a] b] lk] rk] Hl. destruct (H _ _ _ _ _ Hl) as [Ha Hb].
  destruct (nmem a (map fst ta)) eqn:Ea.
  - assert (Eb : nmem b (map fst ta) = true) by congruence.
    rewrite (link_sat_absent_l jt a b lk rk tb (D a Ea)), andb_true_r.
    simpl. rewrite !tget_app.
    destruct (tget a ta) eqn:Ta; [|apply tget_none in Ta; congruence].
    destruct (tget b ta) eqn:Tb; [|apply tget_none in Tb; congruence]. reflexivity.
  - assert (Eb : nmem b (map fst ta) = false) by congruence.
    rewrite (link_sat_absent_l jt a b lk rk ta Ea). simpl. rewrite !tget_app.
    apply tget_none in Ea. apply tget_none in Eb. now rewrite Ea, Eb.
Qed.

Lemma forallb_perm : forall (A : Type) (p : A -> bool) l l', Permutation l l' -> forallb p l = forallb p l'.
Proof.
  induction 1; simpl; auto.
  - now rewrite IHPermutation.
  - destruct (p x), (p y); reflexivity.
  - congruence.
Qed.

(* ==================================================================================================== *)
(* 5. the union row of a tuple *)

Lemma lookup_urow_app : forall c ta tb,
  lookup c (urow (ta ++ tb)) = match lookup c (urow ta) with Some v => Some v | None => lookup c (urow tb) end.
Proof.
  induction ta as [|[i r] ta IH]; intros tb; simpl; auto.
  rewrite !lookup_row_union, IH. destruct (lookup c r); auto.
Qed.

Lemma urow_app : forall ta tb, rsame (urow (ta ++ tb)) (row_union (urow ta) (urow tb)).
Proof. intros ta tb c. now rewrite lookup_urow_app, lookup_row_union. Qed.

Section Coh.
  Variable css : list (list col).

  (* every row binds exactly the schema of its table *)
  Definition wf_tuple (t : tuple) : Prop := forall i r, In (i, r) t -> row_cols r = schema css i.
  (* rows of the tuple agree on the column names they share *)
  Definition coh (t : tuple) : Prop := forall i j ri rj c,
    In (i, ri) t -> In (j, rj) t -> In c (schema css i) -> In c (schema css j) -> get c ri = get c rj.

  Lemma has_col_urow : forall c t, wf_tuple t ->
    has_col c (urow t) = existsb (fun ir => mem c (schema css (fst ir))) t.
  Proof.
    induction t as [|[i r] t IH]; intros W; simpl; auto.
    rewrite has_col_row_union, IH.
    - f_equal. unfold has_col. now rewrite (W i r (or_introl eq_refl)).
    - intros j r' H. apply W. now right.
  Qed.

  Lemma get_urow_coh : forall c t i r, wf_tuple t -> coh t -> In (i, r) t -> In c (schema css i) ->
    get c (urow t) = get c r.
  Proof.
    induction t as [|[j rj] t IH]; intros i r W C Hin Hc; [destruct Hin|].
    simpl. rewrite get_row_union.
    destruct (has_col c rj) eqn:Hj.
    - apply (C j i rj r c); simpl; auto.
      unfold has_col in Hj. rewrite (W j rj (or_introl eq_refl)) in Hj. now apply mem_in.
    - destruct Hin as [Hin|Hin].
      + inversion Hin; subst. unfold has_col in Hj. rewrite (W i r (or_introl eq_refl)) in Hj.
        apply mem_false in Hj. contradiction.
      + apply (IH i r); auto.
        * intros a b H. apply W. now right.
        * intros a b ra rb x Ha Hb. apply C; now right.
  Qed.

  Lemma urow_perm : forall t t', wf_tuple t -> coh t -> Permutation t t' -> row_equiv (urow t) (urow t').
  Proof.
    intros t t' W C P c.
    assert (W' : wf_tuple t') by (intros i r H; apply W; eapply Permutation_in; [apply Permutation_sym; exact P | exact H]).
    assert (C' : coh t').
    { intros i j ri rj x Hi Hj. apply C; (eapply Permutation_in; [apply Permutation_sym; exact P|]; assumption). }
    destruct (existsb (fun ir => mem c (schema css (fst ir))) t) eqn:E.
    - apply existsb_exists in E. destruct E as [[i r] [Hin Hm]]. simpl in Hm. apply mem_in in Hm.
      rewrite (get_urow_coh c t i r), (get_urow_coh c t' i r); auto. eapply Permutation_in; eauto.
    - rewrite (get_no_col c (urow t)) by (rewrite has_col_urow; auto).
      rewrite get_no_col; auto. rewrite has_col_urow; auto.
      destruct (existsb (fun ir => mem c (schema css (fst ir))) t') eqn:E'; auto.
      apply existsb_exists in E'. destruct E' as [x [Hin Hm]].
      assert (existsb (fun ir => mem c (schema css (fst ir))) t = true); [|congruence].
      apply existsb_exists. exists x. split; auto. eapply Permutation_in; [apply Permutation_sym; exact P | exact Hin].
  Qed.
End Coh.

(* ==================================================================================================== *)
(* 6. products over permuted index lists *)

Definition TP (l l' : list tuple) : Prop :=
  exists l'', Permutation l l'' /\ Forall2 (@Permutation (nat * row)) l'' l'.

Lemma Forall2_perm_commute : forall (A B : Type) (R : A -> B -> Prop) b c,
  Permutation b c -> forall a, Forall2 R a b -> exists a', Permutation a a' /\ Forall2 R a' c.
Proof.
  induction 1; intros a F.
  - inversion F; subst. exists []. auto.
  - inversion F as [|xa ? a0 ? Hx F0]; subst. destruct (IHPermutation a0 F0) as [a' [P F']].
    exists (xa :: a'). auto.
  - inversion F as [|x1 ? a1 ? H1 F1]; subst. inversion F1 as [|x2 ? a2 ? H2 F2]; subst.
    exists (x2 :: x1 :: a2). split; [apply perm_swap | auto].
  - destruct (IHPermutation1 a F) as [a1 [P1 F1]]. destruct (IHPermutation2 a1 F1) as [a2 [P2 F2]].
    exists a2. split; auto. eapply perm_trans; eauto.
Qed.

Lemma Forall2_refl_l : forall (A : Type) (R : A -> A -> Prop) l, (forall x, R x x) -> Forall2 R l l.
Proof. induction l; constructor; auto. Qed.

Lemma Forall2_trans_l : forall (A : Type) (R : A -> A -> Prop) a b c,
  (forall x y z, R x y -> R y z -> R x z) -> Forall2 R a b -> Forall2 R b c -> Forall2 R a c.
Proof.
  intros A R a b c T F. revert c. induction F; intros c F'; inversion F'; subst; constructor; eauto.
Qed.

Lemma TP_refl : forall l, TP l l.
Proof. intro l. exists l. split; auto. apply Forall2_refl_l. intro; apply Permutation_refl. Qed.

Lemma TP_trans : forall a b c, TP a b -> TP b c -> TP a c.
Proof.
  intros a b c [a' [P1 F1]] [b' [P2 F2]].
  destruct (Forall2_perm_commute _ _ _ _ _ P2 _ F1) as [a'' [P3 F3]].
  exists a''. split; [eapply perm_trans; eauto|].
  eapply Forall2_trans_l; [|exact F3|exact F2]. intros; eapply perm_trans; eauto.
Qed.

Lemma TP_app : forall a b c d, TP a b -> TP c d -> TP (a ++ c) (b ++ d).
Proof.
  intros a b c d [a' [P1 F1]] [c' [P2 F2]]. exists (a' ++ c'). split.
  - now apply Permutation_app.
  - now apply Forall2_app.
Qed.

Lemma TP_flat_map : forall (X : Type) (f g : X -> list tuple) l,
  (forall x, In x l -> TP (f x) (g x)) -> TP (flat_map f l) (flat_map g l).
Proof.
  induction l as [|x t IH]; simpl; intros H; [apply TP_refl|].
  apply TP_app; auto.
Qed.

Lemma TP_map_cons : forall x l l', TP l l' -> TP (map (cons x) l) (map (cons x) l').
Proof.
  intros x l l' [l'' [P F]]. exists (map (cons x) l''). split; [now apply Permutation_map|].
  clear P. induction F; simpl; constructor; auto.
Qed.

Lemma Forall2_flat_map_same : forall (X Y : Type) (R : Y -> Y -> Prop) (f g : X -> list Y) l,
  (forall x, Forall2 R (f x) (g x)) -> Forall2 R (flat_map f l) (flat_map g l).
Proof. induction l; simpl; intros; [constructor | apply Forall2_app; auto]. Qed.

Lemma Forall2_map_same : forall (X Y : Type) (R : Y -> Y -> Prop) (f g : X -> Y) l,
  (forall x, R (f x) (g x)) -> Forall2 R (map f l) (map g l).
Proof. induction l; simpl; intros; constructor; auto. Qed.

Lemma prod_perm : forall ts S S', Permutation S S' -> TP (prod ts S) (prod ts S').
Proof.
  intros ts S S' P. induction P.
  - apply TP_refl.
  - simpl. apply TP_flat_map. intros r _. now apply TP_map_cons.
  - simpl.
    set (P0 := prod ts l).
    exists (flat_map (fun rx => flat_map (fun ry => map (fun t => (y, ry) :: (x, rx) :: t) P0) (nth y ts [])) (nth x ts [])).
    split.
    + eapply perm_trans; [|apply flat_map_swap].
      apply Permutation_refl'. apply flat_map_ext. intro ry.
      rewrite map_flat_map_l. apply flat_map_ext. intro rx. now rewrite map_map.
    + assert (E : flat_map (fun r => map (cons (x, r)) (flat_map (fun r0 => map (cons (y, r0)) P0) (nth y ts []))) (nth x ts [])
                = flat_map (fun rx => flat_map (fun ry => map (fun t => (x, rx) :: (y, ry) :: t) P0) (nth y ts [])) (nth x ts [])).
      { apply flat_map_ext. intro rx. rewrite map_flat_map_l. apply flat_map_ext. intro ry. now rewrite map_map. }
      rewrite E. apply Forall2_flat_map_same. intro rx. apply Forall2_flat_map_same. intro ry.
      apply Forall2_map_same. intro t. apply perm_swap.
  - eapply TP_trans; eauto.
Qed.

(* ==================================================================================================== *)
(* 7. two comprehensions over permuted index lists are the same bag *)

Lemma sat_perm_tuple : forall E t t', NoDup (map fst t) -> Permutation t t' -> sat E t = sat E t'.
Proof.
  intros E t t' ND P. unfold sat. apply forallb_ext_in_l. intros [[[[jt a] b] lk] rk] _. simpl.
  now rewrite (tget_perm a t t' ND P), (tget_perm b t t' ND P).
Qed.

Lemma final_bag_eq : forall css E P1 P2,
  TP P1 P2 ->
  (forall t, In t P1 -> wf_tuple css t /\ NoDup (map fst t)) ->
  (forall t, In t P1 -> sat E t = true -> coh css t) ->
  bag_eq (map urow (filter (sat E) P1)) (map urow (filter (sat E) P2)).
Proof.
  intros css E P1 P2 [l [P F]] W C.
  apply bag_eq_trans with (map urow (filter (sat E) l)).
  - apply perm_bag_eq. apply Permutation_map. now apply perm_filter.
  - apply teq_bag_eq.
    assert (W' : forall t, In t l -> wf_tuple css t /\ NoDup (map fst t)).
    { intros t H. apply W. eapply Permutation_in; [apply Permutation_sym; exact P | exact H]. }
    assert (C' : forall t, In t l -> sat E t = true -> coh css t).
    { intros t H. apply C. eapply Permutation_in; [apply Permutation_sym; exact P | exact H]. }
    clear P W C. induction F as [|t t' l P2 Ht F IH]; simpl; [apply teq_nil|].
    destruct (W' t (or_introl eq_refl)) as [Wt Nt].
    rewrite <- (sat_perm_tuple E t t' Nt Ht).
    assert (IH' : teq (map urow (filter (sat E) l)) (map urow (filter (sat E) P2))).
    { apply IH; intros; [apply W' | apply C']; simpl; auto. }
    destruct (sat E t) eqn:S; simpl; auto.
    apply teq_cons; auto. apply (urow_perm css); auto. apply C'; simpl; auto.
Qed.

(* ==================================================================================================== *)
(* 8. partitions *)

Lemma nodup_app_disj : forall (A : Type) (l1 l2 : list A) x, NoDup (l1 ++ l2) -> In x l1 -> In x l2 -> False.
Proof.
  induction l1 as [|y l1 IH]; simpl; intros l2 x ND H1 H2; [tauto|].
  inversion ND as [|? ? Hn ND']; subst. destruct H1 as [->|H1].
  - apply Hn. apply in_or_app. now right.
  - eapply IH; eauto.
Qed.

Lemma nodup_app_r : forall (A : Type) (l1 l2 : list A), NoDup (l1 ++ l2) -> NoDup l2.
Proof. induction l1; simpl; intros l2 H; auto. inversion H; auto. Qed.

Lemma filter_true_id : forall (A : Type) (p : A -> bool) l, (forall x, In x l -> p x = true) -> filter p l = l.
Proof.
  induction l as [|x t IH]; simpl; intros H; auto. rewrite (H x (or_introl eq_refl)). f_equal. auto.
Qed.

Lemma filter_filter_l : forall (A : Type) (p q : A -> bool) l,
  filter p (filter q l) = filter (fun x => q x && p x) l.
Proof.
  induction l as [|x t IH]; simpl; auto. destruct (q x); simpl; [destruct (p x); now rewrite IH | auto].
Qed.

Lemma find_comp_some : forall cs i c, find_comp cs i = Some c -> In c cs /\ nmem i (fst c) = true.
Proof. intros cs i c H. unfold find_comp in H. now apply find_some in H. Qed.

Lemma find_comp_ex : forall cs i, In i (flat_map fst cs) -> exists c, find_comp cs i = Some c.
Proof.
  intros cs i H. apply in_flat_map in H. destruct H as [c [Hc Hi]].
  unfold find_comp. destruct (find (fun c0 : comp => nmem i (fst c0)) cs) eqn:E; eauto.
  exfalso. apply (find_none _ _ E) in Hc. apply nmem_in in Hi. congruence.
Qed.

Lemma part_extract : forall (cs : list comp) ca a,
  NoDup (flat_map fst cs) -> In ca cs -> nmem a (fst ca) = true ->
  Permutation cs (ca :: filter (fun c => negb (nmem a (fst c))) cs).
Proof.
  induction cs as [|c cs IH]; intros ca a ND Hin Ha; [destruct Hin|].
  simpl in ND. simpl. destruct (nmem a (fst c)) eqn:Ec; simpl.
  - assert (ca = c).
    { destruct Hin as [->|Hin]; auto. exfalso. apply (nodup_app_disj _ _ _ a ND).
      - now apply nmem_in.
      - apply in_flat_map. exists ca. split; auto. now apply nmem_in. }
    subst ca. rewrite filter_true_id; auto.
    intros c' Hc'. destruct (nmem a (fst c')) eqn:E'; auto. exfalso. apply (nodup_app_disj _ _ _ a ND).
    + now apply nmem_in.
    + apply in_flat_map. exists c'. split; auto. now apply nmem_in.
  - destruct Hin as [->|Hin]; [congruence|].
    eapply perm_trans; [apply perm_skip; apply (IH ca a); auto | apply perm_swap].
    eapply nodup_app_r; eauto.
Qed.

Lemma part_extract2 : forall (cs : list comp) ca cb a b,
  NoDup (flat_map fst cs) -> In ca cs -> In cb cs ->
  nmem a (fst ca) = true -> nmem b (fst cb) = true -> nmem b (fst ca) = false ->
  Permutation cs (ca :: cb :: filter (fun c => negb (nmem a (fst c)) && negb (nmem b (fst c))) cs)
  /\ nmem a (fst cb) = false.
Proof.
  intros cs ca cb a b ND Ha Hb Ea Eb Eab.
  pose proof (part_extract cs ca a ND Ha Ea) as P1.
  assert (Hb' : In cb (filter (fun c => negb (nmem a (fst c))) cs)).
  { assert (H : In cb (ca :: filter (fun c => negb (nmem a (fst c))) cs)) by (eapply Permutation_in; eauto).
    destruct H as [->|H]; [congruence | exact H]. }
  assert (ND1 : NoDup (flat_map fst (filter (fun c => negb (nmem a (fst c))) cs))).
  { assert (H : NoDup (flat_map fst (ca :: filter (fun c => negb (nmem a (fst c))) cs))).
    { eapply Permutation_NoDup; [apply Permutation_flat_map; exact P1 | exact ND]. }
    simpl in H. eapply nodup_app_r; eauto. }
  pose proof (part_extract _ cb b ND1 Hb' Eb) as P2. rewrite filter_filter_l in P2.
  split.
  - eapply perm_trans; [exact P1|]. now apply perm_skip.
  - apply filter_In in Hb'. destruct Hb' as [_ H]. now destruct (nmem a (fst cb)).
Qed.

Lemma number_fst : forall (A : Type) (l : list A) k, map fst (number k l) = seq k (List.length l).
Proof. induction l as [|x t IH]; simpl; intros k; auto. now rewrite IH. Qed.

Lemma number_in : forall (A : Type) (d : A) (l : list A) k i x,
  In (i, x) (number k l) -> k <= i /\ i < k + List.length l /\ nth (i - k) l d = x.
Proof.
  induction l as [|y t IH]; simpl; intros k i x H; [tauto|].
  destruct H as [H|H].
  - inversion H; subst. rewrite Nat.sub_diag. repeat split; auto; lia.
  - apply IH in H. destruct H as [H1 [H2 H3]]. repeat split; try lia.
    replace (i - k) with (S (i - S k)) by lia. exact H3.
Qed.

Lemma init_comps_fst : forall ts, flat_map fst (init_comps ts) = seq 0 (List.length ts).
Proof.
  intro ts. unfold init_comps. rewrite <- (number_fst _ ts 0). generalize 0.
  induction ts as [|x t IH]; simpl; intros k; auto. now rewrite IH.
Qed.

Lemma init_comps_in : forall ts c, In c (init_comps ts) -> exists i, i < List.length ts /\ c = ([i], nth i ts []).
Proof.
  intros ts c H. unfold init_comps in H. apply in_map_iff in H. destruct H as [[i x] [<- H]].
  apply (number_in _ ([] : table)) in H. destruct H as [_ [H2 H3]]. rewrite Nat.sub_0_r in H3.
  exists i. split; [exact H2|]. simpl. now subst x.
Qed.

(* ==================================================================================================== *)
(* 9. one join step on comprehensions *)

Lemma filter_ext_in_l : forall (A : Type) (p q : A -> bool) l,
  (forall x, In x l -> p x = q x) -> filter p l = filter q l.
Proof.
  induction l as [|x t IH]; simpl; intros H; auto. rewrite (H x (or_introl eq_refl)), IH; auto.
Qed.

Lemma sat_cons : forall l E t, sat (l :: E) t = link_sat l t && sat E t.
Proof. reflexivity. Qed.

Lemma comp_split_inner : forall l E ta (sa : bool) PB,
  (forall tb, In tb PB -> sat E (ta ++ tb) = sa && sat E tb) ->
  map urow (filter (sat (l :: E)) (map (app ta) PB)) =
  if sa then map (fun tb => urow (ta ++ tb)) (filter (fun tb => link_sat l (ta ++ tb)) (filter (sat E) PB)) else [].
Proof.
  induction PB as [|tb PB IH]; cbn [map filter]; intros H; [now destruct sa|].
  rewrite sat_cons, (H tb (or_introl eq_refl)).
  assert (IH' := IH (fun t Ht => H t (or_intror Ht))). clear IH.
  destruct sa; cbn [andb].
  - destruct (sat E tb); cbn [filter].
    + destruct (link_sat l (ta ++ tb)); cbn [andb map]; now rewrite IH'.
    + rewrite andb_false_r. exact IH'.
  - rewrite andb_false_r. exact IH'.
Qed.

Lemma comp_split : forall l E PA PB,
  (forall ta tb, In ta PA -> In tb PB -> sat E (ta ++ tb) = sat E ta && sat E tb) ->
  map urow (filter (sat (l :: E)) (flat_map (fun ta => map (app ta) PB) PA)) =
  flat_map (fun ta => map (fun tb => urow (ta ++ tb))
                          (filter (fun tb => link_sat l (ta ++ tb)) (filter (sat E) PB))) (filter (sat E) PA).
Proof.
  induction PA as [|ta PA IH]; intros PB H; cbn [flat_map filter]; auto.
  rewrite filter_app, map_app, IH by (intros; apply H; simpl; auto).
  rewrite (comp_split_inner l E ta (sat E ta)) by (intros; apply H; simpl; auto).
  destruct (sat E ta); reflexivity.
Qed.

Lemma Forall2_map_r_inv : forall (A B C : Type) (R : A -> C -> Prop) (f : B -> C) a b,
  Forall2 R a (map f b) -> Forall2 (fun x y => R x (f y)) a b.
Proof.
  intros A B C R f a b. revert a. induction b as [|y b IH]; simpl; intros a F; inversion F; subst; constructor; auto.
Qed.

Lemma link_sat_cross : forall jt a b lk rk ta tb,
  nmem a (map fst ta) = true -> nmem b (map fst ta) = false -> nmem b (map fst tb) = true ->
  exists ra rb, In (a, ra) ta /\ In (b, rb) tb /\ link_sat (jt, a, b, lk, rk) (ta ++ tb) = matches lk rk ra rb.
Proof.
  intros jt a b lk rk ta tb Ha Hb Hb'.
  destruct (tget a ta) as [ra|] eqn:Ea; [|apply tget_none in Ea; congruence].
  destruct (tget b tb) as [rb|] eqn:Eb; [|apply tget_none in Eb; congruence].
  exists ra, rb. split; [now apply tget_some_in|]. split; [now apply tget_some_in|].
  simpl. rewrite !tget_app, Ea. apply tget_none in Hb. now rewrite Hb, Eb.
Qed.

Lemma shared_key_in : forall lk rk c, shared_key lk rk c = true -> In c lk /\ In c rk.
Proof.
  unfold shared_key. induction lk as [|x lk IH]; destruct rk as [|y rk]; simpl; intros c H; try discriminate.
  apply orb_true_iff in H. destruct H as [H|H].
  - apply andb_true_iff in H. destruct H as [H1 H2]. apply String.eqb_eq in H1. apply String.eqb_eq in H2. auto.
  - apply IH in H. tauto.
Qed.

(* ==================================================================================================== *)
(* 10. the premises, unpacked *)

Lemma cut_ok_spec : forall n css ls k side jt a b lk rk,
  cut_ok n css ls k side = true -> nth_error ls k = Some (jt, a, b, lk, rk) ->
  nmem a side = true /\ nmem b side = false /\
  (forall k' jt' a' b' lk' rk', k' <> k -> nth_error ls k' = Some (jt', a', b', lk', rk') -> nmem a' side = nmem b' side) /\
  (forall i j c, i < n -> j < n -> nmem i side = true -> nmem j side = false ->
                 In c (schema css i) -> In c (schema css j) -> shared_key lk rk c = true).
Proof.
  intros n css ls k side jt a b lk rk H Hk. unfold cut_ok in H. rewrite Hk in H.
  apply andb_true_iff in H. destruct H as [H H4]. apply andb_true_iff in H. destruct H as [H H3].
  apply andb_true_iff in H. destruct H as [H1 H2].
  split; [exact H1|]. split; [now destruct (nmem b side)|]. split.
  - intros k' jt' a' b' lk' rk' Hne Hk'. rewrite forallb_forall in H3.
    assert (Hlt : k' < List.length ls) by (apply nth_error_Some; congruence).
    specialize (H3 k' (proj2 (in_seq _ _ _) (conj (Nat.le_0_l _) Hlt))).
    rewrite Hk' in H3. apply orb_true_iff in H3. destruct H3 as [H3|H3].
    + apply Nat.eqb_eq in H3. contradiction.
    + now apply eqb_prop in H3.
  - intros i j c Hi Hj Si Sj Hci Hcj. rewrite forallb_forall in H4.
    specialize (H4 i (proj2 (in_seq _ _ _) (conj (Nat.le_0_l _) Hi))). rewrite Si in H4. simpl in H4.
    rewrite forallb_forall in H4.
    specialize (H4 j (proj2 (in_seq _ _ _) (conj (Nat.le_0_l _) Hj))). rewrite Sj in H4. simpl in H4.
    rewrite forallb_forall in H4. specialize (H4 c Hci).
    apply mem_in in Hcj. rewrite Hcj in H4. exact H4.
Qed.

Lemma subset_spec : forall ks cs, subset ks cs = true -> forall c, In c ks -> In c cs.
Proof. unfold subset. intros ks cs H c Hc. rewrite forallb_forall in H. apply mem_in. auto. Qed.

Lemma links_all_gen : forall (A : Type) (l : list A),
  flat_map (fun k => match nth_error l k with Some x => [x] | None => [] end) (seq 0 (List.length l)) = l.
Proof.
  induction l as [|x l IH]; simpl; auto. f_equal.
  rewrite <- seq_shift. rewrite flat_map_map_l. exact IH.
Qed.

Section Main.
  Variables (css : list (list col)) (sides : nat -> list nat) (ts : list table) (ls : list link).
  Hypothesis OK : nary_ok css sides ts ls = true.
  Let n := List.length ts.

  Lemma ok_parts :
    (forall i, uniform (schema css i) (nth i ts [])) /\ List.length ls + 1 = n /\
    (forall l, In l ls -> link_ok n css l = true) /\
    (forall k, k < List.length ls -> cut_ok n css ls k (sides k) = true).
  Proof.
    unfold nary_ok, tables_uniform, tree_ok in OK. fold n in OK.
    apply andb_true_iff in OK. destruct OK as [HU HT]. apply andb_true_iff in HU. destruct HU as [H1 H2].
    apply andb_true_iff in HT. destruct HT as [HT H5]. apply andb_true_iff in HT. destruct HT as [H3 H4].
    apply Nat.eqb_eq in H1. apply Nat.eqb_eq in H3. rewrite forallb_forall in H2, H4, H5.
    split; [|split; [exact H3|split; [exact H4|]]].
    - intros i. destruct (Nat.lt_ge_cases i n) as [Hi|Hi].
      + apply uniformb_spec.
        assert (Hin : In (nth i css [], nth i ts []) (combine css ts)).
        { rewrite <- (combine_nth css ts i [] []) by exact H1. apply nth_In.
          rewrite combine_length, H1. fold n. now rewrite Nat.min_id. }
        apply (H2 _ Hin).
      + rewrite (nth_overflow ts) by exact Hi. intros r [].
    - intros k Hk. apply H5. apply in_seq. lia.
  Qed.

  Definition links_of (done : list nat) : list link :=
    flat_map (fun k => match nth_error ls k with Some l => [l] | None => [] end) done.

  Lemma prod_wf : forall S t, In t (prod ts S) -> wf_tuple css t.
  Proof.
    intros S t Ht i r Hr. destruct ok_parts as [U _]. apply (U i). eapply prod_rows; eauto.
  Qed.

  (* what is known about link k used in orientation f *)
  Lemma orient_facts : forall k l f jt a b lk rk,
    k < List.length ls -> nth_error ls k = Some l -> orient l f = (jt, a, b, lk, rk) ->
    jt = JInner /\ a < n /\ b < n /\
    (forall c, In c lk -> In c (schema css a)) /\ (forall c, In c rk -> In c (schema css b)) /\
    nmem a (sides k) = negb (nmem b (sides k)) /\
    (forall i j c, i < n -> j < n -> nmem i (sides k) = nmem a (sides k) -> nmem j (sides k) = nmem b (sides k) ->
                   In c (schema css i) -> In c (schema css j) -> shared_key lk rk c = true) /\
    (forall k', k' < List.length ls -> k' <> k -> nmem a (sides k') = nmem b (sides k')) /\
    (forall t, link_sat (jt, a, b, lk, rk) t = link_sat l t) /\
    (forall jt' a' b' lk' rk', l = (jt', a', b', lk', rk') -> (a' = a /\ b' = b) \/ (a' = b /\ b' = a)).
  Proof.
    intros k l f jt a b lk rk Hk Hl Ho.
    destruct ok_parts as [_ [_ [HL HC]]].
    destruct l as [[[[jt0 a0] b0] lk0] rk0].
    pose proof (HL _ (nth_error_In _ _ Hl)) as Hok. unfold link_ok in Hok.
    apply andb_true_iff in Hok. destruct Hok as [Hok K2]. apply andb_true_iff in Hok. destruct Hok as [Hok K1].
    apply andb_true_iff in Hok. destruct Hok as [Hok B]. apply andb_true_iff in Hok. destruct Hok as [J A].
    apply Nat.ltb_lt in A. apply Nat.ltb_lt in B.
    assert (jt0 = JInner) by (destruct jt0; simpl in J; congruence || reflexivity).
    destruct (cut_ok_spec _ _ _ _ _ _ _ _ _ _ (HC k Hk) Hl) as [Sa [Sb [Sother Sov]]].
    assert (Oth : forall k', k' < List.length ls -> k' <> k -> nmem a0 (sides k') = nmem b0 (sides k')).
    { intros k' Hk' Hne. destruct (nth_error ls k') as [[[[[jt' a'] b'] lk'] rk']|] eqn:E'.
      - destruct (cut_ok_spec _ _ _ _ _ _ _ _ _ _ (HC k' Hk') E') as [_ [_ [S' _]]].
        apply (S' k jt0 a0 b0 lk0 rk0); auto.
      - apply nth_error_None in E'. lia. }
    destruct f; simpl in Ho; inversion Ho; subst.
    - (* flipped *)
      split; [reflexivity|]. split; [exact B|]. split; [exact A|].
      split; [apply subset_spec; exact K2|]. split; [apply subset_spec; exact K1|].
      split; [now rewrite Sa, Sb|]. split.
      + intros i j c Hi Hj Si Sj Hci Hcj. rewrite shared_key_swap. apply (Sov j i c); auto; congruence.
      + split; [intros; symmetry; now apply Oth|]. split.
        * intro t. apply (link_sat_flip (JInner, b, a, rk, lk) t).
        * intros jt' a' b' lk' rk' E. inversion E; subst. right. auto.
    - split; [reflexivity|]. split; [exact A|]. split; [exact B|].
      split; [apply subset_spec; exact K1|]. split; [apply subset_spec; exact K2|].
      split; [now rewrite Sa, Sb|]. split.
      + intros i j c Hi Hj Si Sj Hci Hcj. apply (Sov i j c); auto; congruence.
      + split; [exact Oth|]. split; [reflexivity|].
        intros jt' a' b' lk' rk' E. inversion E; subst. left. auto.
  Qed.

  (* ---------- the invariant of a run ---------- *)
  Record Inv (done : list nat) (cs : list comp) : Prop := {
    I_part : Permutation (flat_map fst cs) (seq 0 n);
    I_len : List.length cs + List.length done = n;
    I_side : forall k c x y, k < List.length ls -> ~ In k done -> In c cs -> In x (fst c) -> In y (fst c) ->
               nmem x (sides k) = nmem y (sides k);
    I_closed : forall jt a b lk rk c, In (jt, a, b, lk, rk) (links_of done) -> In c cs -> nmem a (fst c) = nmem b (fst c);
    I_repr : forall c, In c cs -> Forall2 rsame (snd c) (map urow (filter (sat (links_of done)) (prod ts (fst c))));
    I_coh : forall c t, In c cs -> In t (prod ts (fst c)) -> sat (links_of done) t = true -> coh css t }.

  Lemma inv_init : Inv [] (init_comps ts).
  Proof.
    constructor.
    - rewrite init_comps_fst. apply Permutation_refl.
    - unfold init_comps. rewrite map_length. simpl.
      assert (H : List.length (number 0 ts) = List.length (map fst (number 0 ts))) by (now rewrite map_length).
      rewrite H, number_fst, seq_length. unfold n. lia.
    - intros k c x y _ _ Hc Hx Hy. apply init_comps_in in Hc. destruct Hc as [i [_ ->]]. simpl in Hx, Hy.
      destruct Hx as [<-|[]]. destruct Hy as [<-|[]]. reflexivity.
    - intros jt a b lk rk c [].
    - intros c Hc. apply init_comps_in in Hc. destruct Hc as [i [_ ->]]. simpl.
      induction (nth i ts []) as [|r T IH]; simpl; constructor; auto.
      intro c. simpl. unfold row_union. simpl. now rewrite app_nil_r.
    - intros c t Hc Ht _. apply init_comps_in in Hc. destruct Hc as [i [_ ->]]. simpl in Ht.
      apply in_flat_map in Ht. destruct Ht as [r [_ [<-|[]]]].
      intros i1 i2 r1 r2 x [E1|[]] [E2|[]] _ _. congruence.
  Qed.

  Lemma in_parts_lt : forall done cs c x, Inv done cs -> In c cs -> In x (fst c) -> x < n.
  Proof.
    intros done cs c x I Hc Hx.
    assert (H : In x (seq 0 n)).
    { eapply Permutation_in; [apply (I_part _ _ I)|]. apply in_flat_map. eauto. }
    apply in_seq in H. lia.
  Qed.

  (* ---------- one link ---------- *)
  Lemma step_inv : forall done cs k f l,
    Inv done cs -> k < List.length ls -> ~ In k done -> nth_error ls k = Some l ->
    Inv (k :: done) (apply_link rel_join cs (orient l f)) /\ List.length (apply_link rel_join cs (orient l f)) < List.length cs.
  Proof.
    intros done cs k f l I Hk Hnd Hl.
    destruct (orient l f) as [[[[jt a] b] lk] rk] eqn:Eo.
    destruct (orient_facts k l f jt a b lk rk Hk Hl Eo) as (-> & An & Bn & Klk & Krk & Sab & Sov & Soth & Lsat & Lab).
    assert (ND : NoDup (flat_map fst cs)).
    { eapply Permutation_NoDup; [apply Permutation_sym; apply (I_part _ _ I) | apply seq_NoDup]. }
    assert (Ain : In a (flat_map fst cs)).
    { eapply Permutation_in; [apply Permutation_sym; apply (I_part _ _ I) | apply in_seq; lia]. }
    assert (Bin : In b (flat_map fst cs)).
    { eapply Permutation_in; [apply Permutation_sym; apply (I_part _ _ I) | apply in_seq; lia]. }
    destruct (find_comp_ex cs a Ain) as [ca Fa]. destruct (find_comp_ex cs b Bin) as [cb Fb].
    destruct (find_comp_some _ _ _ Fa) as [Hca Ea]. destruct (find_comp_some _ _ _ Fb) as [Hcb Eb].
    assert (Eab : nmem b (fst ca) = false).
    { destruct (nmem b (fst ca)) eqn:E; auto. exfalso.
      assert (H : nmem a (sides k) = nmem b (sides k)).
      { apply (I_side _ _ I k ca); auto; now apply nmem_in. }
      rewrite Sab in H. now destruct (nmem b (sides k)). }
    destruct (part_extract2 cs ca cb a b ND Hca Hcb Ea Eb Eab) as [P Eba].
    unfold apply_link. rewrite Fa, Fb, Eab.
    set (rest := filter (fun c => negb (nmem a (fst c)) && negb (nmem b (fst c))) cs) in *.
    destruct ca as [Sa Ta]. destruct cb as [Sb Tb]. simpl fst in *. simpl snd in *.
    assert (Hrest : forall c, In c rest -> In c cs /\ nmem a (fst c) = false /\ nmem b (fst c) = false).
    { intros c Hc. apply filter_In in Hc. destruct Hc as [Hc H]. apply andb_true_iff in H.
      destruct H as [H1 H2]. split; auto. split; [now destruct (nmem a (fst c)) | now destruct (nmem b (fst c))]. }
    assert (ND2 : NoDup (Sa ++ Sb ++ flat_map fst rest)).
    { apply (Permutation_NoDup (Permutation_flat_map fst P) ND). }
    assert (Disj : forall x, nmem x Sa = true -> nmem x Sb = false).
    { intros x Hx. apply nmem_false. intro Hx'. apply nmem_in in Hx.
      apply (nodup_app_disj _ _ _ x ND2 Hx). apply in_or_app. now left. }
    assert (EL : links_of (k :: done) = l :: links_of done).
    { unfold links_of. simpl. now rewrite Hl. }
    set (E := links_of done) in *.
    (* no applied link crosses Sa / Sb: the satisfaction of a concatenated tuple splits *)
    assert (Split : forall ta tb, In ta (prod ts Sa) -> In tb (prod ts Sb) -> sat E (ta ++ tb) = sat E ta && sat E tb).
    { intros ta tb Hta Htb. apply sat_app_split.
      - rewrite (prod_keys _ _ _ Hta), (prod_keys _ _ _ Htb). exact Disj.
      - intros jt' a' b' lk' rk' Hin. rewrite (prod_keys _ _ _ Hta), (prod_keys _ _ _ Htb). split.
        + apply (I_closed _ _ I jt' a' b' lk' rk' (Sa, Ta)); auto.
        + apply (I_closed _ _ I jt' a' b' lk' rk' (Sb, Tb)); auto. }
    (* the two rows of the link inside a concatenated tuple *)
    assert (Cross : forall ta tb, In ta (prod ts Sa) -> In tb (prod ts Sb) ->
              exists ra rb, In (a, ra) ta /\ In (b, rb) tb /\ link_sat l (ta ++ tb) = matches lk rk ra rb).
    { intros ta tb Hta Htb. rewrite <- Lsat. apply link_sat_cross.
      - now rewrite (prod_keys _ _ _ Hta).
      - now rewrite (prod_keys _ _ _ Hta).
      - now rewrite (prod_keys _ _ _ Htb). }
    split.
    2:{ simpl. apply Permutation_length in P. simpl in P. lia. }
    constructor; try rewrite EL.
    - (* partition *)
      eapply perm_trans; [|apply (I_part _ _ I)]. apply Permutation_sym.
      eapply perm_trans; [apply Permutation_flat_map; exact P|]. simpl. rewrite app_assoc. apply Permutation_refl.
    - pose proof (I_len _ _ I) as HL. apply Permutation_length in P. simpl in *. lia.
    - (* one-sidedness *)
      intros k' c x y Hk' Hnd' Hc Hx Hy.
      assert (Hne : k' <> k) by (intro; subst; apply Hnd'; now left).
      assert (Hnd'' : ~ In k' done) by (intro; apply Hnd'; now right).
      destruct Hc as [<-|Hc].
      + simpl in Hx, Hy.
        assert (Z : forall z, In z (Sa ++ Sb) -> nmem z (sides k') = nmem a (sides k')).
        { intros z Hz. apply in_app_or in Hz. destruct Hz as [Hz|Hz].
          - apply (I_side _ _ I k' (Sa, Ta)); auto. now apply nmem_in.
          - rewrite (Soth k' Hk' Hne). apply (I_side _ _ I k' (Sb, Tb)); auto. now apply nmem_in. }
        now rewrite (Z x Hx), (Z y Hy).
      + apply (I_side _ _ I k' c); auto. now apply Hrest.
    - (* applied links stay inside components *)
      intros jt' a' b' lk' rk' c [El|Hin] Hc.
      + assert (H : nmem a (fst c) = nmem b (fst c)).
        { destruct Hc as [<-|Hc].
          - simpl. rewrite !nmem_app, Ea, Eb. now rewrite orb_true_r.
          - destruct (Hrest c Hc) as [_ [H1 H2]]. congruence. }
        destruct (Lab _ _ _ _ _ El) as [[-> ->]|[-> ->]]; congruence.
      + destruct Hc as [<-|Hc].
        * simpl. rewrite !nmem_app.
          pose proof (I_closed _ _ I jt' a' b' lk' rk' (Sa, Ta) Hin Hca) as H1.
          pose proof (I_closed _ _ I jt' a' b' lk' rk' (Sb, Tb) Hin Hcb) as H2. simpl in H1, H2.
          now rewrite H1, H2.
        * apply (I_closed _ _ I jt' a' b' lk' rk' c Hin). now apply Hrest.
    - (* representation *)
      intros c [<-|Hc].
      + simpl fst. simpl snd. rewrite prod_app, comp_split by exact Split.
        unfold rel_inner.
        apply (inner_rows_rel tuple tuple (fun x t => rsame x (urow t)) (fun x t => rsame x (urow t)) rsame lk rk
                 (fun ta tb => link_sat l (ta ++ tb)) (fun ta tb => urow (ta ++ tb))).
        * apply Forall2_map_r_inv. apply (I_repr _ _ I (Sa, Ta) Hca).
        * apply Forall2_map_r_inv. apply (I_repr _ _ I (Sb, Tb) Hcb).
        * intros x ta y tb Hx Hta Hy Htb.
          apply filter_In in Hta. destruct Hta as [Hta Sta]. apply filter_In in Htb. destruct Htb as [Htb Stb].
          destruct (Cross ta tb Hta Htb) as [ra [rb [Hra [Hrb Hm]]]]. rewrite Hm. split.
          -- apply matches_ext.
             ++ intros c Hc. rewrite (rsame_get _ _ Hx).
                apply (get_urow_coh css c ta a ra); auto.
                ** eapply prod_wf; eauto.
                ** apply (I_coh _ _ I (Sa, Ta) ta); auto.
             ++ intros c Hc. rewrite (rsame_get _ _ Hy).
                apply (get_urow_coh css c tb b rb); auto.
                ** eapply prod_wf; eauto.
                ** apply (I_coh _ _ I (Sb, Tb) tb); auto.
          -- intros _. eapply rsame_trans; [apply rsame_row_union; eassumption|]. apply rsame_sym. apply urow_app.
      + destruct (Hrest c Hc) as [Hc' [Na _]].
        rewrite (filter_ext_in_l _ (sat (l :: E)) (sat E)); [apply (I_repr _ _ I c Hc')|].
        intros t Ht. rewrite sat_cons, <- Lsat.
        rewrite link_sat_absent_l; auto. now rewrite (prod_keys _ _ _ Ht).
    - (* coherence *)
      intros c t [<-|Hc] Ht Hs.
      + simpl fst in Ht. apply prod_app_in in Ht. destruct Ht as [ta [tb [Hta [Htb ->]]]].
        rewrite sat_cons in Hs. apply andb_true_iff in Hs. destruct Hs as [Hm Hs].
        rewrite (Split ta tb Hta Htb) in Hs. apply andb_true_iff in Hs. destruct Hs as [Sta Stb].
        destruct (Cross ta tb Hta Htb) as [ra [rb [Hra [Hrb Hm']]]]. rewrite Hm' in Hm.
        unfold matches in Hm. apply keys_match_spec in Hm. destruct Hm as [Hkeys _].
        pose proof (I_coh _ _ I (Sa, Ta) ta Hca Hta Sta) as Ca.
        pose proof (I_coh _ _ I (Sb, Tb) tb Hcb Htb Stb) as Cb.
        assert (X : forall i j ri rj c, In (i, ri) ta -> In (j, rj) tb ->
                      In c (schema css i) -> In c (schema css j) -> get c ri = get c rj).
        { intros i j ri rj c Hi Hj Hci Hcj.
          assert (Hi' : In i Sa) by (rewrite <- (prod_keys _ _ _ Hta); apply in_map_iff; exists (i, ri); auto).
          assert (Hj' : In j Sb) by (rewrite <- (prod_keys _ _ _ Htb); apply in_map_iff; exists (j, rj); auto).
          assert (SK : shared_key lk rk c = true).
          { apply (Sov i j c); auto.
            - apply (in_parts_lt done cs (Sa, Ta) i I Hca Hi').
            - apply (in_parts_lt done cs (Sb, Tb) j I Hcb Hj').
            - apply (I_side _ _ I k (Sa, Ta)); auto. now apply nmem_in.
            - apply (I_side _ _ I k (Sb, Tb)); auto. now apply nmem_in. }
          destruct (shared_key_in _ _ _ SK) as [Hlk Hrk].
          rewrite (Ca i a ri ra c Hi Hra Hci (Klk c Hlk)).
          rewrite (shared_key_get lk rk c ra rb SK Hkeys).
          apply (Cb b j rb rj c Hrb Hj (Krk c Hrk) Hcj). }
        intros i j ri rj c Hi Hj Hci Hcj.
        apply in_app_or in Hi. apply in_app_or in Hj. destruct Hi as [Hi|Hi], Hj as [Hj|Hj].
        * apply (Ca i j ri rj c); auto.
        * apply (X i j ri rj c); auto.
        * symmetry. apply (X j i rj ri c); auto.
        * apply (Cb i j ri rj c); auto.
      + destruct (Hrest c Hc) as [Hc' _]. rewrite sat_cons in Hs. apply andb_true_iff in Hs.
        apply (I_coh _ _ I c t Hc' Ht). tauto.
  Qed.

  (* ---------- a whole plan ---------- *)
  Lemma run_inv : forall p done cs,
    Inv done cs -> NoDup (map fst p ++ done) -> (forall k, In k (map fst p) -> k < List.length ls) ->
    Inv (rev (map fst p) ++ done) (fold_left (plan_step rel_join ls) p cs).
  Proof.
    induction p as [|[k f] p IH]; simpl; intros done cs I ND Hlt; auto.
    assert (Hk : k < List.length ls) by (apply Hlt; auto).
    destruct (nth_error ls k) as [l|] eqn:El; [|apply nth_error_None in El; lia].
    inversion ND as [|? ? Hn ND']; subst.
    rewrite <- app_assoc. simpl. apply IH.
    - unfold plan_step. simpl. rewrite El. apply step_inv; auto.
      intro H. apply Hn. apply in_or_app. now right.
    - eapply Permutation_NoDup; [apply Permutation_middle | exact ND].
    - intros k' H. apply Hlt. now right.
  Qed.

  Lemma plan_final : forall p, is_plan ls p ->
    exists S T, run_plan_comps rel_join ts ls p = [(S, T)] /\ Inv (rev (map fst p)) [(S, T)].
  Proof.
    intros p P. unfold is_plan in P.
    assert (I : Inv (rev (map fst p) ++ []) (fold_left (plan_step rel_join ls) p (init_comps ts))).
    { apply run_inv.
      - apply inv_init.
      - rewrite app_nil_r. eapply Permutation_NoDup; [apply Permutation_sym; exact P | apply seq_NoDup].
      - intros k H. assert (H' : In k (seq 0 (List.length ls))) by (eapply Permutation_in; eauto).
        apply in_seq in H'. lia. }
    rewrite app_nil_r in I. fold (run_plan_comps rel_join ts ls p) in I.
    pose proof (I_len _ _ I) as HL. rewrite rev_length in HL.
    apply Permutation_length in P. rewrite seq_length in P. rewrite P in HL.
    destruct ok_parts as [_ [Hn _]].
    destruct (run_plan_comps rel_join ts ls p) as [|[S T] [|c cs]] eqn:E; simpl in HL; try lia.
    exists S, T. auto.
  Qed.

  Lemma links_of_all : forall done, Permutation done (seq 0 (List.length ls)) -> Permutation (links_of done) ls.
  Proof.
    intros done P. unfold links_of.
    eapply perm_trans; [apply Permutation_flat_map; exact P|]. rewrite links_all_gen. apply Permutation_refl.
  Qed.

  (* every plan computes the canonical comprehension *)
  Theorem run_plan_all_matches_l : forall p, is_plan ls p -> bag_eq (run_plan ts ls p) (all_matches ts ls).
  Proof.
    intros p P. destruct (plan_final p P) as [S [T [E I]]].
    unfold run_plan. rewrite E. simpl.
    pose proof (I_part _ _ I) as HS. simpl in HS. rewrite app_nil_r in HS.
    eapply bag_eq_trans; [apply teq_bag_eq; apply Forall2_rsame_teq; apply (I_repr _ _ I (S, T)); now left|].
    simpl fst. unfold all_matches. fold n.
    assert (PE : Permutation (links_of (rev (map fst p))) ls).
    { apply links_of_all. eapply perm_trans; [apply Permutation_sym; apply Permutation_rev | exact P]. }
    rewrite (filter_ext (sat ls) (sat (links_of (rev (map fst p)))))
      by (intro t; symmetry; apply (forallb_perm _ _ _ _ PE)).
    apply (final_bag_eq css).
    - now apply prod_perm.
    - intros t Ht. split; [eapply prod_wf; eauto|].
      rewrite (prod_keys _ _ _ Ht). eapply Permutation_NoDup; [apply Permutation_sym; exact HS | apply seq_NoDup].
    - intros t Ht Hs. apply (I_coh _ _ I (S, T) t); auto. now left.
  Qed.

  Theorem nary_order_independent_l : forall p1 p2, is_plan ls p1 -> is_plan ls p2 ->
    bag_eq (run_plan ts ls p1) (run_plan ts ls p2).
  Proof.
    intros p1 p2 P1 P2. eapply bag_eq_trans; [apply run_plan_all_matches_l; exact P1|].
    apply bag_eq_sym. now apply run_plan_all_matches_l.
  Qed.

  (* every plan succeeds: no link is skipped, the run ends with ONE component holding all tables *)
  Theorem plan_succeeds_l : forall p, is_plan ls p ->
    exists S T, run_plan_comps rel_join ts ls p = [(S, T)] /\ Permutation S (seq 0 (List.length ts)).
  Proof.
    intros p P. destruct (plan_final p P) as [S [T [E I]]]. exists S, T. split; auto.
    pose proof (I_part _ _ I) as HS. simpl in HS. now rewrite app_nil_r in HS.
  Qed.
End Main.

(* ==================================================================================================== *)
(* 11. the harness's executor is the unflipped plan *)

Lemma join_in_order_run_plan : forall ts ls o, join_in_order ts ls o = run_plan ts ls (unflipped o).
Proof.
  intros ts ls o. unfold join_in_order, join_in_order_with, run_plan, run_plan_comps, head_table, init_comps.
  generalize (map (fun it : nat * table => ([fst it], snd it)) (number 0 ts)). intro cs.
  assert (H : fold_left (fun cs0 i => match nth_error ls i with Some l => apply_link rel_join cs0 l | None => cs0 end) o cs
            = fold_left (plan_step rel_join ls) (unflipped o) cs).
  { revert cs. induction o as [|k o IH]; simpl; intros cs; [reflexivity|]. apply IH. }
  now rewrite H.
Qed.

Lemma is_plan_unflipped : forall ls o, Permutation o (seq 0 (List.length ls)) -> is_plan ls (unflipped o).
Proof. intros ls o P. unfold is_plan, unflipped. rewrite map_map. simpl. now rewrite map_id. Qed.

(* ==================================================================================================== *)
(* 12. corollaries: computed cuts and schemas; the harness's link orders; the three-table plans *)

Theorem nary_premises_order_independent_l : forall ts ls,
  nary_premises ts ls = true ->
  forall p1 p2, is_plan ls p1 -> is_plan ls p2 -> bag_eq (run_plan ts ls p1) (run_plan ts ls p2).
Proof. intros ts ls H. unfold nary_premises, nary_premises_s in H. eapply nary_order_independent_l; eauto. Qed.

Theorem join_in_order_independent_l : forall ts ls,
  nary_premises ts ls = true ->
  forall o1 o2, Permutation o1 (seq 0 (List.length ls)) -> Permutation o2 (seq 0 (List.length ls)) ->
  bag_eq (join_in_order ts ls o1) (join_in_order ts ls o2).
Proof.
  intros ts ls H o1 o2 P1 P2. rewrite !join_in_order_run_plan.
  apply nary_premises_order_independent_l; auto; now apply is_plan_unflipped.
Qed.

Definition flag_of (o : RelAssocP.orient) : bool := match o with Fwd => false | Rev => true end.
Definition plan3 (link1_first : bool) (o_in o_out : RelAssocP.orient) : plan :=
  if link1_first then [(0, flag_of o_in); (1, flag_of o_out)] else [(1, flag_of o_in); (0, flag_of o_out)].

Lemma chain_plan_run_plan : forall k1a k1b k2a k2b A B C f o1 o2,
  chain_plan k1a k1b k2a k2b A B C f o1 o2 =
  run_plan [A; B; C] [(JInner, 0, 1, k1a, k1b); (JInner, 1, 2, k2a, k2b)] (plan3 f o1 o2).
Proof. intros. destruct f, o1, o2; reflexivity. Qed.

Lemma plan3_is_plan : forall l1 l2 f o1 o2, is_plan [l1; l2] (plan3 f o1 o2).
Proof. intros. unfold is_plan. destruct f; simpl; [apply Permutation_refl | apply perm_swap]. Qed.

Theorem tree3_instance_l : forall css sides k1a k1b k2a k2b A B C,
  nary_ok css sides [A; B; C] [(JInner, 0, 1, k1a, k1b); (JInner, 1, 2, k2a, k2b)] = true ->
  forall f o1 o2 f' o1' o2',
  bag_eq (chain_plan k1a k1b k2a k2b A B C f o1 o2) (chain_plan k1a k1b k2a k2b A B C f' o1' o2').
Proof.
  intros css sides k1a k1b k2a k2b A B C H f o1 o2 f' o1' o2'. rewrite !chain_plan_run_plan.
  eapply nary_order_independent_l; eauto; apply plan3_is_plan.
Qed.

(* ==================================================================================================== *)
(* 13. instances *)

(* a four-table tree that is neither a chain nor a star:  T0 -k- T1 -j- T2,  T1 -k- T3 ; duplicate and null keys *)
Definition x_ts : list table :=
  [ [ [("k", VInt 1); ("a", VInt 10)]; [("k", VInt 1); ("a", VInt 11)]; [("k", VInt 2); ("a", VInt 12)]; [("k", VNull); ("a", VInt 13)] ];
    [ [("k", VInt 1); ("j", VInt 7); ("b", VInt 20)]; [("k", VInt 2); ("j", VNull); ("b", VInt 21)]; [("k", VInt 1); ("j", VInt 8); ("b", VInt 22)] ];
    [ [("j", VInt 7); ("c", VInt 30)]; [("j", VInt 7); ("c", VInt 31)]; [("j", VNull); ("c", VInt 32)] ];
    [ [("k", VInt 1); ("d", VInt 40)]; [("k", VInt 3); ("d", VInt 41)]; [("k", VInt 1); ("d", VNull)] ] ]%Z.
Definition x_ls : list link :=
  [ (JInner, 0, 1, ["k"], ["k"]); (JInner, 1, 2, ["j"], ["j"]); (JInner, 1, 3, ["k"], ["k"]) ].

Lemma nary_example_l :
  nary_premises x_ts x_ls = true /\
  List.length (all_plans 3) = 48 /\
  forallb (fun p => bag_eqb (run_plan x_ts x_ls p) (all_matches x_ts x_ls)) (all_plans 3) = true /\
  bag_eqb (run_plan x_ts x_ls [(0, false); (1, false); (2, false)])
          (run_plan x_ts x_ls [(2, true); (1, true); (0, true)]) = true /\
  map canon (run_plan x_ts x_ls [(2, true); (1, true); (0, true)]) =
    [ [("a", VInt 10); ("b", VInt 20); ("c", VInt 30); ("d", VInt 40); ("j", VInt 7); ("k", VInt 1)];
      [("a", VInt 11); ("b", VInt 20); ("c", VInt 30); ("d", VInt 40); ("j", VInt 7); ("k", VInt 1)];
      [("a", VInt 10); ("b", VInt 20); ("c", VInt 30); ("j", VInt 7); ("k", VInt 1)];
      [("a", VInt 11); ("b", VInt 20); ("c", VInt 30); ("j", VInt 7); ("k", VInt 1)];
      [("a", VInt 10); ("b", VInt 20); ("c", VInt 31); ("d", VInt 40); ("j", VInt 7); ("k", VInt 1)];
      [("a", VInt 11); ("b", VInt 20); ("c", VInt 31); ("d", VInt 40); ("j", VInt 7); ("k", VInt 1)];
      [("a", VInt 10); ("b", VInt 20); ("c", VInt 31); ("j", VInt 7); ("k", VInt 1)];
      [("a", VInt 11); ("b", VInt 20); ("c", VInt 31); ("j", VInt 7); ("k", VInt 1)] ]%Z.
Proof. vm_compute. repeat split; reflexivity. Qed.

(* ==================================================================================================== *)
(* 14. uniformity is needed *)

(* (a) the congruence: equal bags whose rows bind different column sets join differently *)
Definition r_L : table := [[("k", VInt 1); ("x", VNull)]]%Z.
Definition r_L' : table := [[("k", VInt 1)]]%Z.
Definition r_R : table := [[("k", VInt 1); ("x", VInt 5)]]%Z.
(* the same with equal column sets per TABLE (not per row) *)
Definition r_M : table := [[("k", VInt 1); ("x", VNull)]; [("k", VInt 2)]]%Z.
Definition r_M' : table := [[("k", VInt 1)]; [("k", VInt 2); ("x", VNull)]]%Z.

Lemma inner_congruence_refuted_l :
  bag_eq r_L r_L' /\ ~ bag_eq (rel_join JInner ["k"] ["k"] r_L r_R) (rel_join JInner ["k"] ["k"] r_L' r_R) /\
  bag_eq r_M r_M' /\ (forall c, mem c (table_cols r_M) = mem c (table_cols r_M')) /\
  ~ bag_eq (rel_join JInner ["k"] ["k"] r_M r_R) (rel_join JInner ["k"] ["k"] r_M' r_R).
Proof.
  split; [apply bag_eqb_spec; reflexivity|]. split; [apply bag_neq_l; reflexivity|].
  split; [apply bag_eqb_spec; reflexivity|]. split; [|apply bag_neq_l; reflexivity].
  intro c. unfold r_M, r_M'. simpl. destruct (String.eqb c "k"), (String.eqb c "x"); reflexivity.
Qed.

(* (b) the tree theorem: every premise but uniformity holds (no schema makes table 0 uniform), and
       - the two orientations of a single link differ,
       - with fixed orientations the two link ORDERS of a three-table chain differ *)
Definition rf_ts : list table :=
  [ [ [("k", VInt 1); ("j", VInt 1)]; [("k", VInt 1); ("j", VInt 1); ("x", VNull)] ]; [ [("j", VInt 1); ("x", VInt 5)] ] ]%Z.
Definition rf_ls : list link := [ (JInner, 0, 1, ["j"], ["j"]) ].
Definition rg_ts : list table :=
  [ [ [("k", VInt 1)]; [("k", VInt 1); ("j", VNull)] ]; [ [("k", VInt 1); ("j", VInt 7)] ]; [ [("j", VInt 7); ("c", VInt 3)] ] ]%Z.
Definition rg_ls : list link := [ (JInner, 0, 1, ["k"], ["k"]); (JInner, 1, 2, ["j"], ["j"]) ].

Lemma not_uniform_two : forall (cs : list col) r1 r2 T, row_cols r1 <> row_cols r2 -> uniformb cs (r1 :: r2 :: T) = false.
Proof.
  intros cs r1 r2 T H. simpl. destruct (cols_eqb (row_cols r1) cs) eqn:E1; auto.
  destruct (cols_eqb (row_cols r2) cs) eqn:E2; auto. apply cols_eqb_eq in E1. apply cols_eqb_eq in E2. congruence.
Qed.

Lemma nary_uniformity_needed_l :
  (tree_ok (map schema_of rf_ts) (side_of 2 rf_ls) rf_ts rf_ls = true /\
   (forall css, tables_uniform css rf_ts = false) /\
   is_plan rf_ls [(0, false)] /\ is_plan rf_ls [(0, true)] /\
   ~ bag_eq (run_plan rf_ts rf_ls [(0, false)]) (run_plan rf_ts rf_ls [(0, true)])) /\
  (tree_ok (map schema_of rg_ts) (side_of 3 rg_ls) rg_ts rg_ls = true /\
   (forall css, tables_uniform css rg_ts = false) /\
   ~ bag_eq (join_in_order rg_ts rg_ls [0; 1]) (join_in_order rg_ts rg_ls [1; 0])).
Proof.
  split.
  - split; [reflexivity|]. split.
    + intros [|c0 [|c1 [|c2 css]]]; try reflexivity. unfold tables_uniform, rf_ts.
      cbn [List.length Nat.eqb combine forallb fst snd andb]. rewrite not_uniform_two; [reflexivity | discriminate].
    + split; [apply Permutation_refl|]. split; [apply Permutation_refl|]. apply bag_neq_l. reflexivity.
  - split; [reflexivity|]. split.
    + intros [|c0 [|c1 [|c2 [|c3 css]]]]; try reflexivity. unfold tables_uniform, rg_ts.
      cbn [List.length Nat.eqb combine forallb fst snd andb]. rewrite not_uniform_two; [reflexivity | discriminate].
    + apply bag_neq_l. reflexivity.
Qed.
