From Coq Require Import List Bool Lia.
Import ListNotations.
Require Import MV.Spec.Types MV.Model.Validate MV.Model.ValidateChain.

Lemma effective_length parent ls es : effective parent ls = Some es -> length es = length ls.
Proof.
  revert parent es; induction ls as [|l t IH]; cbn [effective]; intros parent es H.
  - injection H as <-; reflexivity.
  - destruct (merge_strict parent (l_own l)) as [e|]; [|discriminate].
    destruct (effective e t) as [r|] eqn:Hr; [|discriminate].
    injection H as <-; cbn [length]; f_equal; eauto.
Qed.

(* a strict flag that nobody below contradicts reaches EVERY depth *)
Lemma strict_reaches_every_depth_l ls :
  (forall l, In l ls -> l_own l = SAbsent \/ l_own l = STrue) ->
  effective STrue ls = Some (map (fun _ => STrue) ls).
Proof.
  induction ls as [|l t IH]; cbn [effective map]; intros H; [reflexivity|].
  assert (Hl : merge_strict STrue (l_own l) = Some STrue).
  { destruct (H l (or_introl eq_refl)) as [-> | ->]; reflexivity. }
  rewrite Hl, IH; [reflexivity|]. intros x Hx; apply H; right; exact Hx.
Qed.

Lemma existsb_combine_const {A} (f : A -> strict_opt -> bool) (ls : list A) (e : strict_opt) :
  existsb (fun le => f (fst le) (snd le)) (combine ls (map (fun _ => e) ls)) = existsb (fun l => f l e) ls.
Proof. induction ls as [|l t IH]; cbn; [reflexivity|]; rewrite IH; reflexivity. Qed.

(* per-call strict enforcement on a typed requested feature: the call fails with a mismatch exactly when SOME typed feature of
   the chain - at any depth - produces a type that is incompatible under the STRICT table *)
Lemma api_flag_chain_decision_l strict lenient top rest :
  l_own top <> SFalse ->
  (forall l, In l rest -> l_own l = SAbsent \/ l_own l = STrue) ->
  chain_run strict lenient true top rest = CMismatch <->
  exists l d a, In l (top :: rest) /\ l_declared l = Some d /\ l_actual l = Some a /\ strict d a = false.
Proof.
  intros Hown H. unfold chain_run.
  assert (Hc : api_add_conflicts true top = false) by (unfold api_add_conflicts; cbn; destruct (l_own top); congruence).
  rewrite Hc. cbn [propagate_strict].
  rewrite (strict_reaches_every_depth_l rest H).
  change (STrue :: map (fun _ => STrue) rest) with (map (fun _ : level => STrue) (top :: rest)).
  rewrite (existsb_combine_const (fun l e => validate_raises strict lenient (vcase_of l e)) (top :: rest) STrue).
  destruct (existsb _ (top :: rest)) eqn:He.
  - split; [intros _|reflexivity].
    apply existsb_exists in He. destruct He as [l [Hin Hv]].
    unfold validate_raises, vcase_of in Hv; cbn in Hv.
    destruct (l_declared l) as [d|] eqn:Hd; [|discriminate].
    destruct (l_actual l) as [a|] eqn:Ha; [|discriminate].
    exists l, d, a. repeat split; try assumption. destruct (strict d a); [discriminate|reflexivity].
  - split; [discriminate|]. intros [l [d [a [Hin [Hd [Ha Hs]]]]]].
    exfalso. assert (existsb (fun l0 => validate_raises strict lenient (vcase_of l0 STrue)) (top :: rest) = true).
    { apply existsb_exists. exists l. split; [exact Hin|].
      unfold validate_raises, vcase_of; cbn. rewrite Hd, Ha, Hs. reflexivity. }
    congruence.
Qed.

(* and it never ends in the conflict error *)
Lemma api_flag_chain_no_conflict_l strict lenient top rest :
  l_own top <> SFalse ->
  (forall l, In l rest -> l_own l = SAbsent \/ l_own l = STrue) ->
  chain_run strict lenient true top rest <> CConflict.
Proof.
  intros Hown H. unfold chain_run.
  assert (Hc : api_add_conflicts true top = false)
    by (unfold api_add_conflicts; cbn; destruct (l_own top); congruence).
  rewrite Hc. cbn [propagate_strict].
  rewrite (strict_reaches_every_depth_l rest H). destruct (existsb _ _); discriminate.
Qed.

(* without any strict flag anywhere every level is judged by the lenient table *)
Lemma effective_absent ls : (forall l, In l ls -> l_own l = SAbsent) -> effective SAbsent ls = Some (map (fun _ => SAbsent) ls).
Proof.
  induction ls as [|l t IH]; cbn [effective map]; intros H; [reflexivity|].
  rewrite (H l (or_introl eq_refl)). cbn [merge_strict]. rewrite IH; [reflexivity|]. intros x Hx; apply H; right; exact Hx.
Qed.

Lemma lenient_chain_decision_l strict lenient top rest :
  l_own top = SAbsent -> (forall l, In l rest -> l_own l = SAbsent) ->
  chain_run strict lenient false top rest = CMismatch <->
  exists l d a, In l (top :: rest) /\ l_declared l = Some d /\ l_actual l = Some a /\ lenient d a = false.
Proof.
  intros H0 H. unfold chain_run. unfold api_add_conflicts. cbn [andb]. unfold propagate_strict. rewrite H0.
  rewrite (effective_absent rest H).
  change (SAbsent :: map (fun _ => SAbsent) rest) with (map (fun _ : level => SAbsent) (top :: rest)).
  rewrite (existsb_combine_const (fun l e => validate_raises strict lenient (vcase_of l e)) (top :: rest) SAbsent).
  destruct (existsb _ (top :: rest)) eqn:He.
  - split; [intros _|reflexivity].
    apply existsb_exists in He. destruct He as [l [Hin Hv]].
    unfold validate_raises, vcase_of in Hv; cbn in Hv.
    destruct (l_declared l) as [d|] eqn:Hd; [|discriminate].
    destruct (l_actual l) as [a|] eqn:Ha; [|discriminate].
    exists l, d, a. repeat split; try assumption. destruct (lenient d a); [discriminate|reflexivity].
  - split; [discriminate|]. intros [l [d [a [Hin [Hd [Ha Hs]]]]]].
    exfalso. assert (existsb (fun l0 => validate_raises strict lenient (vcase_of l0 SAbsent)) (top :: rest) = true).
    { apply existsb_exists. exists l. split; [exact Hin|].
      unfold validate_raises, vcase_of; cbn. rewrite Hd, Ha, Hs. reflexivity. }
    congruence.
Qed.

(* the per-call flag does NOT reach a typed dependency of an UNTYPED requested feature: witness *)
Lemma api_flag_untyped_request_refuted_l :
  chain_run_old strict_spec lenient_spec true
    {| l_declared := None; l_actual := Some INT64; l_own := SAbsent |}
    [ {| l_declared := Some INT32; l_actual := Some INT64; l_own := SAbsent |} ] = COk
  /\ strict_spec INT32 INT64 = false.
Proof. vm_compute. split; reflexivity. Qed.

(* a typed requested feature that itself says strict_type_enforcement=False cannot be combined with the per-call flag *)
Lemma api_flag_own_false_rejected_l strict lenient d0 a0 rest :
  chain_run strict lenient true {| l_declared := d0; l_actual := a0; l_own := SFalse |} rest = CConflict.
Proof. reflexivity. Qed.

(* after the fix the same call is a mismatch *)
Lemma api_flag_untyped_request_fixed_l :
  chain_run strict_spec lenient_spec true
    {| l_declared := None; l_actual := Some INT64; l_own := SAbsent |}
    [ {| l_declared := Some INT32; l_actual := Some INT64; l_own := SAbsent |} ] = CMismatch.
Proof. vm_compute. reflexivity. Qed.
