# C10-feature-framework-name-picks-first-same-named-class.   PYTHONPATH=/repo python this.py
# Feature(name, compute_framework="N") takes the FIRST class named N in the iteration order of a set of class objects
# (FeatureValidator.validate_and_resolve_compute_framework).  With two live classes named N (class factory called twice, notebook
# cell run twice, plug-in shadowing a built-in name) WHICH group computes the feature - or whether the request is answered at all -
# follows the memory addresses of the two classes.  Several independent pairs, first twin always created first:
from mloda.user import mloda, Feature, PluginCollector
from mloda.provider import FeatureGroup, DataCreator
from mloda_plugins.compute_framework.base_implementations.python_dict.python_dict_framework import PythonDictFramework
keep, outcomes = [], []
for i in range(12):
    name = f"Twin{i}"
    A = type(name, (PythonDictFramework,), {})
    keep.append([object() for _ in range(7 * i % 5)])
    B = type(name, (PythonDictFramework,), {})
    def grp(gname, rule, feat):
        return type(gname, (FeatureGroup,), {"input_data": classmethod(lambda c: DataCreator({feat})),
                    "compute_framework_rule": classmethod(lambda c: rule),
                    "calculate_feature": classmethod(lambda c, data, fs: [{feat: gname}])})
    XA, XB, GA = grp(f"XA{i}", {A}, f"x{i}"), grp(f"XB{i}", {B}, f"x{i}"), grp(f"GA{i}", {A}, f"a{i}")
    pc = PluginCollector.enabled_feature_groups({XA, XB, GA})
    keep += [A, B, XA, XB, GA]
    row = []
    for feat in (f"x{i}", f"a{i}"):
        try:
            res = mloda.run_all([Feature(feat, compute_framework=name)], plugin_collector=pc)
            row.append("computed by " + res[0][0][feat][:2])
        except ValueError as e:
            row.append("rejected: " + str(e).splitlines()[0][:40])
    outcomes.append(tuple(row))
    print(f"pair {i}: x -> {row[0]:<14} a -> {row[1]}")
print("distinct outcomes over pairs that differ only in addresses:", len(set(outcomes)))
