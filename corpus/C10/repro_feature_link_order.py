# C10-feature-link-changes-later-features: [x(link), r] is answered, [r, x(link)] is rejected.   PYTHONPATH=/repo python this.py
from mloda.user import mloda, Feature, PluginCollector, Link, JoinSpec, Index
from mloda.provider import FeatureGroup, DataCreator
import mloda_plugins.compute_framework.base_implementations.pyarrow.table  # a compute framework must exist
mk = lambda nm, names, **d: type(nm, (FeatureGroup,), {"input_data": classmethod(lambda c: DataCreator(set(names))),
    "calculate_feature": classmethod(lambda c, data, fs: {n: [1] for n in fs.get_all_names()}), **d})
G1 = mk("G1", {"r"}, index_columns=classmethod(lambda c: [Index(("j",))])); G2 = mk("G2", {"r"}); GX = mk("GX", {"x"})
HA, HB = mk("HA", set()), mk("HB", set())
x = lambda: Feature("x", link=Link.inner(JoinSpec(HA, Index(("k",))), JoinSpec(HB, Index(("k",)))))
for feats in ([x(), Feature("r")], [Feature("r"), x()]):
    try: print([f.get_name() for f in feats], "->", {c.__name__ for c in mloda.prepare(feats, plugin_collector=PluginCollector.enabled_feature_groups({G1, G2, GX})).engine.feature_group_collection})
    except ValueError as e: print([f.get_name() for f in feats], "-> rejected:", str(e).splitlines()[0])
