# C10-domain-none-vs-domain-compare-raises: each feature alone is answered, together the request dies.   PYTHONPATH=/repo python this.py
from mloda.user import mloda, Feature, PluginCollector
from mloda.provider import FeatureGroup, DataCreator
import mloda_plugins.compute_framework.base_implementations.pyarrow.table  # a compute framework must exist
G = type("G", (FeatureGroup,), {"input_data": classmethod(lambda c: DataCreator({"r"})),
    "calculate_feature": classmethod(lambda c, data, fs: {n: [1] for n in fs.get_all_names()})})
pc = PluginCollector.enabled_feature_groups({G})
for feats in ([Feature("r")], [Feature("r", domain="default_domain")], [Feature("r"), Feature("r", domain="default_domain")]):
    try: print(len(feats), "feature(s) ->", len(mloda.run_all(feats, plugin_collector=pc)), "table(s)")
    except ValueError as e: print(len(feats), "feature(s) -> ValueError:", e)
