from __future__ import annotations

import argparse
import importlib
import json
import os
import sys
import traceback

sys.path.insert(0, os.path.dirname(os.path.dirname(os.path.abspath(__file__))))
from lib import vlib  # noqa: E402


def setup() -> int:
    """Regenerate every Gen table from /repo, build the whole Coq development, scan for forbidden vernacular."""
    from harness import gen_tables
    gen_tables.generate_all()
    from harness import py2coq      # Gen/Src.v: definitions translated from the source TEXT (fail closed), see Props/SrcTie.v
    py2coq.generate()
    # per-property generators of regenerated Coq files: harness/cXX_gen.py exposing generate()
    import glob
    for f in sorted(glob.glob(str(vlib.VERIF / "harness" / "c[0-9][0-9]_gen.py"))):
        m = importlib.import_module("harness." + os.path.basename(f)[:-3])
        if hasattr(m, "generate"):
            m.generate()
    vlib.ensure_makefile()
    rc, out = vlib.sh(["make", f"-j{vlib.NCPU}"], 3600, cwd=vlib.COQ)
    print(out[-4000:])
    if rc != 0:
        print("SETUP FAILED: coq build")
        return 1
    hits = vlib.forbidden_scan(p for p in vlib.COQ.rglob("*.v"))
    if hits:
        print("SETUP FAILED: forbidden vernacular:\n" + "\n".join(hits))
        return 1
    print("setup ok")
    return 0


def coqchk() -> int:
    mods = ["MV.Props." + p.stem for p in sorted((vlib.COQ / "Props").glob("*.v"))]
    rc, out = vlib.sh(["coqchk", "-silent", "-o", "-Q", ".", "MV"] + mods, 7200, cwd=vlib.COQ)
    (vlib.VERIF / "coqchk.log").write_text(out)
    print(out[-6000:])
    return rc


def _leave(rc: int) -> None:
    """End the check now: run the registered exit handlers (shared Flight server, temp files) under a time limit, kill whatever
    child processes are still alive (non-daemonic workers left behind by the implementation would otherwise keep the
    interpreter - and every pipe it holds - open for ever), then exit without waiting for stray threads."""
    import atexit
    import multiprocessing
    import threading
    t = threading.Thread(target=atexit._run_exitfuncs, daemon=True)
    t.start()
    t.join(20)
    try:
        for p in multiprocessing.active_children():
            try:
                p.kill()
            except Exception:  # noqa: BLE001
                pass
    except Exception:  # noqa: BLE001
        pass
    sys.stdout.flush()
    sys.stderr.flush()
    os._exit(rc)


def main() -> int:
    ap = argparse.ArgumentParser()
    ap.add_argument("prop", nargs="?")
    ap.add_argument("--tier", default=os.environ.get("VERIF_TIER", "quick"), choices=["quick", "thorough"])
    ap.add_argument("--replay")
    ap.add_argument("--setup", action="store_true")
    ap.add_argument("--coqchk", action="store_true")
    a = ap.parse_args()
    if a.setup:
        return setup()
    if a.coqchk:
        return coqchk()
    if not a.prop:
        ap.error("property id required")
    prop = a.prop.upper()
    seed = int(os.environ.get("VERIF_SEED", "0") or 0)
    mod = importlib.import_module(f"harness.{prop.lower()}")
    if a.replay:
        return mod.replay(a.replay)
    rep = vlib.Reporter(prop, a.tier, seed, level=getattr(mod, "LEVEL", "proof"))
    # fail closed on a check that does not end (e.g. a run of the implementation that blocks in a place no per-run watchdog
    # covers, or worker processes that keep the interpreter from exiting): report and leave, never hang
    import threading
    limit = int(os.environ.get("VERIF_CHECK_TIMEOUT_S", "0") or 0) or (1500 if a.tier == "quick" else 4 * 3600)
    done = threading.Event()

    def watchdog() -> None:
        if not done.wait(limit):
            try:
                rep.finding("check-timeout", f"the check did not end within {limit} s (a call into the implementation blocks or left "
                            "processes behind that keep the check from finishing)", {"limit_s": limit}, found_input=False)
                rc = rep.finish()
            except Exception:  # noqa: BLE001
                rc = 1
                print(f"VIOLATION property={prop} replay=/verif/replays/{prop}/timeout no-failing-input-found")
            _leave(rc or 1)
    threading.Thread(target=watchdog, daemon=True).start()
    try:
        mod.run(rep, a.tier, seed)
    except Exception:
        tb = traceback.format_exc()
        print(tb)
        rep.finding("check-crashed", "the check itself failed: " + tb.splitlines()[-1], {"traceback": tb},
                    found_input=False)
    rc = rep.finish()
    done.set()
    _leave(rc)
    return rc


if __name__ == "__main__":
    sys.exit(main())
