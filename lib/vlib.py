"""Shared machinery for the /verif checks.

Everything here runs under /venv/bin/python with PYTHONPATH=/repo (set by ./check).
Nothing in this file knows about a particular property.
"""
from __future__ import annotations

import hashlib
import json
import os
import re
import shutil
import subprocess
import sys
import time
from concurrent.futures import ThreadPoolExecutor
from pathlib import Path
from typing import Any, Callable, Dict, Iterable, List, Optional, Sequence, Tuple

VERIF = Path(__file__).resolve().parent.parent
REPO = Path(os.environ.get("VERIF_REPO", "/repo"))
COQ = VERIF / "coq"
BUILD = VERIF / "_build"
EVIDENCE = Path(os.environ.get("VERIF_EVIDENCE_DIR", str(VERIF / "evidence")))  # seed verification redirects this
REPLAYS = Path(os.environ.get("VERIF_REPLAY_DIR", str(VERIF / "replays")))
CORPUS = VERIF / "corpus"
PY = "/venv/bin/python"
NCPU = os.cpu_count() or 4

COQ_TIMEOUT_S = int(os.environ.get("VERIF_COQ_TIMEOUT", "900"))


# ----------------------------------------------------------------------------------------
# Coq term printers (Python value -> Gallina literal text)
# ----------------------------------------------------------------------------------------

def cq_str(s: str) -> str:
    """Coq string literal. Only printable ASCII is emitted verbatim; generators stay in ASCII.
    A double quote is doubled. Anything else is refused (fail closed)."""
    out = []
    for ch in s:
        o = ord(ch)
        if ch == '"':
            out.append('""')
        elif 32 <= o < 127:
            out.append(ch)
        else:
            raise ValueError(f"non printable-ASCII character {ch!r} in Coq string literal")
    return '"' + "".join(out) + '"'


def cq_bool(b: bool) -> str:
    return "true" if b else "false"


def cq_z(n: int) -> str:
    return f"({n})%Z"


def cq_nat(n: int) -> str:
    if n < 0 or n > 5000:
        raise ValueError("nat literal out of the range allowed in generated files")
    return f"{n}%nat"


def cq_list(items: Iterable[str]) -> str:
    items = list(items)
    if not items:
        return "[]"
    return "[" + "; ".join(items) + "]"


def cq_opt(x: Optional[str]) -> str:
    return "None" if x is None else f"(Some {x})"


def cq_pair(a: str, b: str) -> str:
    return f"({a}, {b})"


# ----------------------------------------------------------------------------------------
# Coq build
# ----------------------------------------------------------------------------------------

def sh(cmd: Sequence[str] | str, timeout: int, cwd: Optional[Path] = None, env: Optional[dict] = None,
       shell: bool = False) -> Tuple[int, str]:
    try:
        p = subprocess.run(cmd, cwd=str(cwd) if cwd else None, env=env, shell=shell, timeout=timeout,
                           stdout=subprocess.PIPE, stderr=subprocess.STDOUT, text=True, errors="replace")
        return p.returncode, p.stdout
    except subprocess.TimeoutExpired as e:
        out = e.stdout.decode("utf8", "replace") if isinstance(e.stdout, bytes) else (e.stdout or "")
        return 124, out + f"\n[timeout after {timeout}s]"


def coq_project_args() -> List[str]:
    return ["-Q", str(COQ), "MV"]


def ensure_makefile() -> None:
    mk = COQ / "Makefile"
    proj = COQ / "_CoqProject"
    files = sorted(str(p.relative_to(COQ)) for p in COQ.rglob("*.v") if "_build" not in p.parts)
    content = "-Q . MV\n" + "\n".join(files) + "\n"
    if not proj.exists() or proj.read_text() != content:
        proj.write_text(content)
        if mk.exists():
            mk.unlink()
    if not mk.exists():
        rc, out = sh(["coq_makefile", "-f", "_CoqProject", "-o", "Makefile"], 120, cwd=COQ)
        if rc != 0:
            raise RuntimeError("coq_makefile failed:\n" + out)


def make_targets(targets: Sequence[str], timeout: int = COQ_TIMEOUT_S) -> Tuple[bool, str]:
    """Full .vo build of the given targets (paths relative to coq/, ending in .vo)."""
    ensure_makefile()
    rc, out = sh(["make", f"-j{NCPU}", "-k"] + list(targets), timeout, cwd=COQ)
    return rc == 0, out


THEOREM_RE = re.compile(r"^\s*(Theorem|Lemma|Corollary|Example|Fact|Proposition|Remark)\s+([A-Za-z0-9_']+)", re.M)
FORBIDDEN_RE = re.compile(
    r"\b(Admitted|admit|Axiom|Axioms|Parameter|Parameters|Conjecture|Conjectures|Unset\s+Guard|bypass_check|"
    r"Admit\s+Obligations|type-in-type|impredicative-set|Unset\s+Universe\s+Checking|Unset\s+Positivity)\b")


def strip_coq_comments(text: str) -> str:
    out, depth, i = [], 0, 0
    while i < len(text):
        if text.startswith("(*", i):
            depth += 1
            i += 2
        elif text.startswith("*)", i) and depth:
            depth -= 1
            i += 2
        else:
            if depth == 0:
                out.append(text[i])
            i += 1
    return "".join(out)


def forbidden_scan(paths: Iterable[Path]) -> List[str]:
    hits = []
    for p in paths:
        txt = strip_coq_comments(p.read_text())
        for m in FORBIDDEN_RE.finditer(txt):
            hits.append(f"{p.relative_to(VERIF)}: {m.group(0)}")
        # Variable/Hypothesis outside a section
        depth = 0
        for line in txt.splitlines():
            s = line.strip()
            if re.match(r"Section\s+\w+", s):
                depth += 1
            elif re.match(r"End\s+\w+", s) and depth:
                depth -= 1
            elif depth == 0 and re.match(r"(Variable|Variables|Hypothesis|Hypotheses|Context)\b", s):
                hits.append(f"{p.relative_to(VERIF)}: {s.split()[0]} outside a Section")
    return hits


def dep_files(v_rel: str) -> List[Path]:
    """Transitive MV.* dependencies of a file under coq/ (by reading Require lines)."""
    seen: Dict[str, Path] = {}
    todo = [v_rel]
    while todo:
        r = todo.pop()
        if r in seen:
            continue
        p = COQ / r
        if not p.exists():
            continue
        seen[r] = p
        txt = strip_coq_comments(p.read_text())
        for name in re.findall(r"MV\.([A-Za-z0-9_]+)\.([A-Za-z0-9_]+)", txt):
            todo.append(f"{name[0]}/{name[1]}.v")
    return list(seen.values())


class ProofResult:
    def __init__(self) -> None:
        self.ok = False
        self.obligations = 0
        self.discharged = 0
        self.assumptions: List[str] = []
        self.log = ""
        self.cmd = ""
        self.failed_files: List[str] = []
        self.theorems: List[str] = []
        self.forbidden: List[str] = []


def build_props(prop: str, extra_targets: Sequence[str] = ()) -> ProofResult:
    """Build coq/Props/<prop>.vo and everything it needs; count statements and collect Print Assumptions."""
    res = ProofResult()
    rel = f"Props/{prop}.v"
    deps = dep_files(rel)
    res.forbidden = forbidden_scan(deps)
    per_file: Dict[Path, List[str]] = {}
    for p in deps:
        names = [m.group(2) for m in THEOREM_RE.finditer(strip_coq_comments(p.read_text()))]
        per_file[p] = names
        res.obligations += len(names)
    res.theorems = per_file.get(COQ / rel, [])
    targets = [f"Props/{prop}.vo"] + list(extra_targets)
    res.cmd = f"cd {COQ} && make -j{NCPU} -k " + " ".join(targets) + f" && coqc -Q . MV Props/{prop}.v (Print Assumptions)"
    ok, log = make_targets(targets)
    res.log = log
    for p, names in per_file.items():
        vo = p.with_suffix(".vo")
        # a file counts only if make itself considers its .vo up to date (a stale .vo left behind by a failed rebuild of the
        # file or of one of its dependencies does not)
        up_to_date = vo.exists() and (ok or sh(["make", "-q", str(vo.relative_to(COQ))], 120, cwd=COQ)[0] == 0)
        if up_to_date:
            res.discharged += len(names)
        else:
            res.failed_files.append(str(p.relative_to(COQ)))
    if ok and not res.failed_files:
        # re-run the small Props file to capture Print Assumptions output
        rc, out = sh(["coqc"] + coq_project_args() + [str(COQ / rel)], COQ_TIMEOUT_S, cwd=COQ)
        res.log += "\n" + out
        if rc == 0:
            res.assumptions = parse_assumptions(out)
            res.ok = not res.forbidden
        else:
            res.failed_files.append(rel)
            res.discharged -= len(per_file.get(COQ / rel, []))
    return res


def parse_assumptions(out: str) -> List[str]:
    """Return a list of 'Closed under the global context' / axiom lines as printed by Print Assumptions."""
    blocks, cur = [], None
    for line in out.splitlines():
        if line.startswith("Closed under the global context"):
            blocks.append("Closed under the global context")
            cur = None
        elif line.startswith("Axioms:"):
            cur = []
            blocks.append(cur)
        elif cur is not None:
            if line.strip() == "" or not (line.startswith(" ") or ":" in line):
                cur = None
            else:
                cur.append(line.strip())
    flat: List[str] = []
    for b in blocks:
        if isinstance(b, str):
            flat.append(b)
        else:
            flat.append("Axioms: " + " | ".join(b))
    return flat


# ----------------------------------------------------------------------------------------
# Correspondence: evaluate model on cases inside coqc
# ----------------------------------------------------------------------------------------

def run_cases(prop: str, name: str, requires: Sequence[str], checker: str, case_terms: Sequence[str],
              case_type: Optional[str] = None, shard: int = 300, extra_defs: str = "",
              timeout: int = COQ_TIMEOUT_S) -> Tuple[List[int], Dict[str, Any]]:
    """Write cases files `Definition cases := [...]` and evaluate `checker : case -> bool` on each with vm_compute.

    Returns (indices of cases where checker = false, info).  A coqc failure raises RuntimeError (fail closed).
    """
    d = BUILD / prop / name
    if d.exists():
        shutil.rmtree(d)
    d.mkdir(parents=True)
    shards = [list(range(i, min(i + shard, len(case_terms)))) for i in range(0, len(case_terms), shard)]
    files = []
    for k, idxs in enumerate(shards):
        f = d / f"cases_{k}.v"
        lines = ["From Coq Require Import List String ZArith Bool.", "Import ListNotations.",
                 "Open Scope string_scope. Open Scope list_scope."]
        for r in requires:
            lines.append(f"Require Import {r}.")
        if extra_defs:
            lines.append(extra_defs)
        ty = f" : list ({case_type})" if case_type else ""
        lines.append(f"Definition cases{ty} := [")
        lines.append(";\n".join(case_terms[i] for i in idxs))
        lines.append("].")
        lines.append("Fixpoint bad_from (n : nat) (l : list _) : list nat := match l with [] => [] | c :: t => "
                     f"if {checker} c then bad_from (S n) t else n :: bad_from (S n) t end.")
        lines.append("Definition verif_result := bad_from 0 cases.")
        lines.append("Eval vm_compute in verif_result.")
        f.write_text("\n".join(lines) + "\n")
        files.append(f)

    def one(f: Path) -> Tuple[int, str]:
        return sh(["coqc"] + coq_project_args() + [str(f)], timeout, cwd=d)

    t0 = time.time()
    bad: List[int] = []
    with ThreadPoolExecutor(max_workers=NCPU) as ex:
        results = list(ex.map(one, files))
    for k, (rc, out) in enumerate(results):
        if rc != 0:
            raise RuntimeError(f"coqc failed on {files[k]}:\n{out[-3000:]}")
        m = re.search(r"=\s*\[(.*?)\]\s*:\s*list nat", out, re.S)
        if not m:
            raise RuntimeError(f"cannot parse coqc output for {files[k]}:\n{out[-2000:]}")
        for tok in re.findall(r"\d+", m.group(1)):
            bad.append(shards[k][int(tok)])
    info = {"coq_cases": len(case_terms), "coq_shards": len(files), "coq_eval_s": round(time.time() - t0, 2),
            "cmd": f"coqc -Q {COQ} MV {d}/cases_*.v  (Eval vm_compute in bad_from 0 cases; checker = {checker})"}
    return bad, info


def coq_eval(prop: str, name: str, requires: Sequence[str], body: str, timeout: int = COQ_TIMEOUT_S) -> str:
    """Run an arbitrary vernacular body (definitions + Eval) and return stdout."""
    d = BUILD / prop / name
    d.mkdir(parents=True, exist_ok=True)
    f = d / "eval.v"
    lines = ["From Coq Require Import List String ZArith Bool.", "Import ListNotations.",
             "Open Scope string_scope. Open Scope list_scope."]
    lines += [f"Require Import {r}." for r in requires]
    lines.append(body)
    f.write_text("\n".join(lines) + "\n")
    rc, out = sh(["coqc"] + coq_project_args() + [str(f)], timeout, cwd=d)
    if rc != 0:
        raise RuntimeError(f"coqc failed on {f}:\n{out[-3000:]}")
    return out


# ----------------------------------------------------------------------------------------
# Gen tables (T1)
# ----------------------------------------------------------------------------------------

def write_if_changed(path: Path, content: str) -> bool:
    if path.exists() and path.read_text() == content:
        return False
    path.parent.mkdir(parents=True, exist_ok=True)
    path.write_text(content)
    return True


# ----------------------------------------------------------------------------------------
# Known findings, replays, evidence
# ----------------------------------------------------------------------------------------

def load_known_findings() -> List[dict]:
    p = VERIF / "known_findings.json"
    if not p.exists():
        return []
    return json.loads(p.read_text())["findings"]


class Reporter:
    """Collects what a check did and renders evidence + VIOLATION / KNOWN-FINDING lines."""

    def __init__(self, prop: str, tier: str, seed: int, level: str = "proof") -> None:
        self.prop, self.tier, self.seed, self.level = prop, tier, seed, level
        self.t0 = time.time()
        self.violations: List[dict] = []
        self.known_hits: Dict[str, dict] = {}
        self.coverage: Dict[str, Any] = {"evaluations": 0, "distinct_nontrivial": 0, "rule": "", "samples": [],
                                         "obligations": 0, "discharged": 0, "checker_cmd": "", "trusted_base": []}
        self.assumptions: List[str] = []
        self.notes: List[str] = []
        self._distinct: set = set()
        self.kf = [k for k in load_known_findings() if k["property"] == prop]

    # -- coverage helpers
    def count(self, n: int = 1) -> None:
        self.coverage["evaluations"] += n

    def nontrivial(self, key: Any) -> None:
        h = hashlib.sha1(json.dumps(key, sort_keys=True, default=str).encode()).hexdigest()
        self._distinct.add(h)

    def sample(self, s: Any, cap: int = 6) -> None:
        if len(self.coverage["samples"]) < cap:
            self.coverage["samples"].append(s)

    def add(self, key: str, value: Any) -> None:
        self.coverage[key] = value

    def proof(self, pr: ProofResult) -> None:
        self.coverage["obligations"] += pr.obligations
        self.coverage["discharged"] += pr.discharged
        self.coverage["checker_cmd"] = (self.coverage["checker_cmd"] + " ; " if self.coverage["checker_cmd"] else "") + pr.cmd
        self.coverage.setdefault("theorems", []).extend(pr.theorems)
        self.coverage.setdefault("print_assumptions", []).extend(pr.assumptions)
        tb = self.coverage["trusted_base"]
        for t in ["Coq 8.16.1 kernel (coqc), vm_compute (no native_compute)",
                  "Print Assumptions per theorem: " + ("; ".join(sorted(set(pr.assumptions))) or "n/a")]:
            if t not in tb:
                tb.append(t)

    # -- findings
    def finding(self, key: str, what: str, replay: Any, found_input: bool = True) -> None:
        """A failure of the property (or of a proof/correspondence). Matched against known_findings.json by key."""
        for k in self.kf:
            if k["key"] == key and k.get("status", "open") == "open":
                self.known_hits[key] = {"what": k["description"], "replay": replay}
                return
        self.violations.append({"key": key, "what": what, "replay": replay, "found_input": found_input})

    def finish(self) -> int:
        cov = self.coverage
        cov["distinct_nontrivial"] = len(self._distinct)
        cov["known_findings_reproduced"] = sorted(self.known_hits)
        _orch = sys.modules.get("harness.orch")
        if _orch is not None and getattr(_orch, "MP_HANG_RETRIES", [0])[0]:
            cov["multiprocessing_runs_reobserved_after_a_stall"] = _orch.MP_HANG_RETRIES[0]
        EVIDENCE.mkdir(exist_ok=True)
        lines = []
        for key, h in sorted(self.known_hits.items()):
            lines.append(f"KNOWN-FINDING: property={self.prop} {key}: {h['what']}")
        # known findings listed but not reproduced: say so (not an alarm by itself; correspondence decides)
        stale = [k["key"] for k in self.kf if k.get("status", "open") == "open" and k["key"] not in self.known_hits
                 and k.get("tier", "quick") in ("quick", self.tier)]
        cov["known_findings_not_reproduced_this_run"] = stale
        rc = 0
        if self.violations:
            rc = 1
            d = REPLAYS / self.prop
            d.mkdir(parents=True, exist_ok=True)
            for i, v in enumerate(self.violations[:20]):
                path = d / f"{int(time.time())}_{i}.json"
                path.write_text(json.dumps({"property": self.prop, "key": v["key"], "what": v["what"],
                                            "seed": self.seed, "tier": self.tier, "replay": v["replay"]},
                                           indent=1, default=str))
                suffix = "" if v["found_input"] else " no-failing-input-found"
                lines.append(f"# {v['what']}")
                lines.append(f"VIOLATION property={self.prop} replay={path}{suffix}")
        ev = {"property_id": self.prop, "tier": self.tier, "seed": self.seed, "level": self.level,
              "coverage": cov, "assumptions": self.assumptions, "wall_s": round(time.time() - self.t0, 2),
              "violations": len(self.violations), "notes": self.notes}
        (EVIDENCE / f"{self.prop}.json").write_text(json.dumps(ev, indent=1, default=str) + "\n")
        for l in lines:
            print(l)
        print(f"[{self.prop}] tier={self.tier} seed={self.seed} evaluations={cov['evaluations']} "
              f"distinct_nontrivial={cov['distinct_nontrivial']} obligations={cov['obligations']} "
              f"discharged={cov['discharged']} known={len(self.known_hits)} violations={len(self.violations)} "
              f"wall={ev['wall_s']}s")
        return rc
