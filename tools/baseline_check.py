#!/venv/bin/python
"""Run the repository's pinned suite (guard OFF) and compare with /root/.vp/BASELINE.json stable_pass."""
import json, os, subprocess, sys, tempfile
import xml.etree.ElementTree as ET

base = json.load(open("/root/.vp/BASELINE.json"))
want = set(base["stable_pass"])
out = tempfile.mktemp(suffix=".xml", dir="/verif/_build") if os.path.isdir("/verif/_build") else tempfile.mktemp(suffix=".xml")
env = dict(os.environ)
env.pop("MLODA_VERIF", None)
env.pop("PYTHONPATH", None)
cmd = f"cd /repo && /venv/bin/python -m pytest -ra -q -p no:cacheprovider --timeout=900 --continue-on-collection-errors --junitxml={out}"
p = subprocess.run(cmd, shell=True, env=env, stdout=subprocess.PIPE, stderr=subprocess.STDOUT, text=True)
print(p.stdout[-1500:])
passed = set()
for tc in ET.parse(out).getroot().iter("testcase"):
    if not any(ch.tag in ("failure", "error", "skipped") for ch in tc):
        passed.add(f"{tc.get('classname')}::{tc.get('name')}")
os.unlink(out)
missing = sorted(want - passed)
print(f"baseline stable_pass={len(want)} passed_now={len(passed)} missing={len(missing)}")
for m in missing[:40]:
    print("  MISSING", m)
sys.exit(1 if missing else 0)
