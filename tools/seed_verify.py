#!/usr/bin/env python3
"""Verify a seeded change: tools/seed_verify.py <ID> [--from /tmp/seed/<ID>] [--checks C01,C06] [--tier quick]

1. copies patch.diff / demo.py / NOTES.md into /verif/seeded/<ID>/ (when --from is given);
2. in a fresh scratch worktree of /repo: demo passes without the patch, fails with it; the pinned suite still passes with it;
3. runs the listed checks (default: the property's own) with VERIF_REPO pointing at the patched scratch tree;
4. removes the scratch worktree; writes /verif/seeded/<ID>/meta.json.
"""
import argparse, json, os, shutil, subprocess, sys, tempfile, time
import xml.etree.ElementTree as ET

ap = argparse.ArgumentParser()
ap.add_argument("id")
ap.add_argument("--from", dest="src")
ap.add_argument("--checks")
ap.add_argument("--tier", default="quick")
ap.add_argument("--skip-suite", action="store_true")
a = ap.parse_args()
sd = f"/verif/seeded/{a.id}"
os.makedirs(sd, exist_ok=True)
if a.src:
    for f in ("patch.diff", "demo.py", "NOTES.md"):
        if os.path.exists(os.path.join(a.src, f)):
            shutil.copy(os.path.join(a.src, f), os.path.join(sd, f))
wt = f"/tmp/seedv/{a.id}"
subprocess.run(["git", "-C", "/repo", "worktree", "remove", "--force", wt], stderr=subprocess.DEVNULL)
os.makedirs("/tmp/seedv", exist_ok=True)
subprocess.check_call(["git", "-C", "/repo", "worktree", "add", "-q", "--detach", wt, "HEAD"])
prev = {}
if os.path.exists(os.path.join(sd, "meta.json")):
    try:
        prev = json.load(open(os.path.join(sd, "meta.json")))
    except Exception:
        prev = {}
meta = {"id": a.id, "breaks_property": a.id.split("_")[0], "repo_head": subprocess.check_output(["git", "-C", "/repo", "rev-parse", "--short", "HEAD"], text=True).strip()}
env = dict(os.environ, PYTHONPATH=wt, PYTHONDONTWRITEBYTECODE="1")
env.pop("MLODA_VERIF", None)


def demo():
    p = subprocess.run(["/venv/bin/python", os.path.join(sd, "demo.py")], cwd=wt, env=env, stdout=subprocess.PIPE, stderr=subprocess.STDOUT, text=True, timeout=900)
    return p.returncode, p.stdout[-600:]

try:
    rc0, out0 = demo()
    meta["demo_without_patch_rc"] = rc0
    ap_ = subprocess.run(["git", "-C", wt, "apply", os.path.join(sd, "patch.diff")], stdout=subprocess.PIPE, stderr=subprocess.STDOUT, text=True)
    meta["patch_applies"] = ap_.returncode == 0
    if ap_.returncode != 0:
        print("patch does not apply:", ap_.stdout)
    rc1, out1 = demo()
    meta["demo_with_patch_rc"] = rc1
    meta["demo_with_patch_tail"] = out1[-300:]
    print(f"demo: without patch rc={rc0}, with patch rc={rc1}")
    if not a.skip_suite:
        base = json.load(open("/root/.vp/BASELINE.json"))
        want = set(base["stable_pass"])
        xml = tempfile.mktemp(suffix=".xml", dir="/tmp/seedv")
        subprocess.run(f"cd {wt} && /venv/bin/python -m pytest -q -p no:cacheprovider --timeout=900 --continue-on-collection-errors --junitxml={xml}",
                       shell=True, env=env, stdout=subprocess.DEVNULL, stderr=subprocess.DEVNULL)
        passed = set()
        for tc in ET.parse(xml).getroot().iter("testcase"):
            if not any(ch.tag in ("failure", "error", "skipped") for ch in tc):
                passed.add(f"{tc.get('classname')}::{tc.get('name')}")
        os.unlink(xml)
        missing = sorted(want - passed)
        meta["suite_missing"] = missing[:10]
        meta["suite_passes"] = not missing
        print("suite with patch: missing", len(missing), missing[:3])
    if a.skip_suite and "suite_passes" in prev:
        meta["suite_passes"], meta["suite_missing"] = prev["suite_passes"], prev.get("suite_missing", [])
        meta["suite_checked_at_repo_head"] = prev.get("suite_checked_at_repo_head", prev.get("repo_head"))
    elif not a.skip_suite:
        meta["suite_checked_at_repo_head"] = meta["repo_head"]
    checks = (a.checks or meta["breaks_property"]).split(",")
    meta["checks"] = dict(prev.get("checks", {})) if a.skip_suite else {}
    for c in checks:
        t0 = time.time()
        p = subprocess.run(["/verif/check", c, "--tier", a.tier], env=dict(os.environ, VERIF_REPO=wt, VERIF_EVIDENCE_DIR="/verif/_build/seed_evidence", VERIF_REPLAY_DIR="/verif/_build/seed_replays"), stdout=subprocess.PIPE, stderr=subprocess.STDOUT, text=True, timeout=7200)
        viol = [l for l in p.stdout.splitlines() if l.startswith("VIOLATION")]
        what = [l for l in p.stdout.splitlines() if l.startswith("# ")]
        meta["checks"][c] = {"rc": p.returncode, "violations": len(viol), "first": (what[0][:300] if what else None),
                             "no_failing_input": any("no-failing-input-found" in v for v in viol), "wall_s": round(time.time() - t0, 1)}
        print(f"check {c}: rc={p.returncode} violations={len(viol)} first={what[0][:200] if what else None}")
finally:
    subprocess.run(["git", "-C", "/repo", "worktree", "remove", "--force", wt])
json.dump(meta, open(os.path.join(sd, "meta.json"), "w"), indent=1)
