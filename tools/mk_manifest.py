#!/usr/bin/env python3
"""Writes /verif/MANIFEST.json from the table below (single source of truth for the registered checks)."""
import json, os

ALL = [f"C{i:02d}" for i in range(1, 21)]

CHECKS = {
 "C17": dict(
   technique="Coq proof over truth tables regenerated from the source (T1) + exhaustive model/implementation correspondence evaluated by vm_compute",
   text="The two compatibility relations and the Arrow-type map are finite functions: their complete graphs are regenerated from "
        "/repo on every run and the Coq kernel proves them equal to the documented tables (121 pairs each, 24 Arrow types), and "
        "proves that the modelled validate/strict-flag/conflict decision raises exactly on incompatible declared+present+supported "
        "columns. The hand-written decision model is tied to the code by running the real validator, the real run_all matrix on "
        "three frameworks and the real prepare on the complete finite input space and evaluating the model on the same points in coqc.",
   note="Trusted: Coq kernel + vm_compute; gen_tables.py (translator by exhaustive evaluation); pyarrow type predicates; "
        "Model/Validate.v is hand-written (control flow of validate, _process_features, set_data_type) and tied by exhaustive correspondence.",
   design="4/C17"),
 "C18": dict(
   technique="Coq proof (refinement of the documented link rule, order-independence of validation, prefix rule for all tuples) + model/implementation correspondence by vm_compute",
   text="Theorems quantify over every class hierarchy, link list and class pair: outside the stated asymmetric domain the links found are "
        "exactly those of the documented rule (exact first, else balanced ancestors at minimal distance, same concrete class for self "
        "links); never a sibling mismatch; closest wins; validation verdict = existence of a contradicting pair and is invariant under "
        "permutation of the set; is_a_part_of_ is the prefix relation for tuples of any length. The documented rule is refuted on the "
        "faithful model by a kernel-checked witness (known finding). The model is tied to the code by running _find_matching_links, "
        "validate_links, Index/supports_index and prepare() on generated class forests and evaluating the model on the same inputs.",
   note="Trusted: Coq kernel + vm_compute; hand-written Model/LinkSel.v; Python issubclass/__mro__ on single-inheritance forests; unique class names. "
        "Index tuples are exhaustive up to length 3 over 3 letters, the rest is PRNG-sampled (VERIF_SEED).",
   design="4/C18"),
}

NOT_YET = "check not built yet in this session (see DESIGN.md section 8 staging); not claimed"

def main():
    checks = []
    for pid in ALL:
        if pid not in CHECKS:
            continue
        c = CHECKS[pid]
        checks.append({
            "property_id": pid,
            "quick_cmd": f"./check {pid} --tier quick",
            "thorough_cmd": f"./check {pid} --tier thorough",
            "evidence_file": f"/verif/evidence/{pid}.json",
            "replay_cmd_template": f"./check {pid} --replay {{path}}",
            "engine": "coq-proof+correspondence",
            "level_claimed": {"category": c.get("category", "proof"), "text": c["text"], "design_ref": c["design"]},
            "level_note": c["note"],
            "technique": c["technique"],
        })
    m = {
        "version": 1,
        "setup_cmd": "./check --setup",
        "hooks": {"guard": "MLODA_VERIF", "enable": "no source hooks: checks observe through the public Extender API, "
                  "harness-side subclasses and instance wrapping; MLODA_VERIF=1 is exported by ./check but read by nothing in /repo",
                  "baseline_off_cmd": "/verif/tools/baseline_check.py", "source_commits": [], "add_only": True},
        "engines": [{"name": "coq-proof+correspondence", "path": "/verif/check",
                     "serves_properties": [c["property_id"] for c in checks],
                     "kind_free_text": "Coq 8.16.1 development under /verif/coq (Model/Spec/Proofs/Props, Gen regenerated from /repo) "
                                       "plus Python harness that runs mloda and evaluates the Coq models on the same inputs with coqc/vm_compute"}],
        "checks": checks,
        "notes": "fix commits in /repo: see known_findings.json (status fixed:<commit>).",
        "not_applicable": [{"property_id": p, "reason": NOT_YET} for p in ALL if p not in CHECKS],
    }
    json.dump(m, open("/verif/MANIFEST.json", "w"), indent=1)
    print("wrote MANIFEST.json with", len(checks), "checks")

main()
