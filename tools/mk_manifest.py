#!/usr/bin/env python3
"""Writes MANIFEST.json from the fragments in manifest.d/<ID>.json (keys: technique, text, note, design[, category])."""
import json, os, glob

HERE = os.path.dirname(os.path.dirname(os.path.abspath(__file__)))
ALL = [f"C{i:02d}" for i in range(1, 21)]
NOT_YET = "check not built yet in this session (see DESIGN.md section 8 staging); not claimed"
NA_REASONS = {}
if os.path.exists(os.path.join(HERE, "manifest.d", "not_applicable.json")):
    NA_REASONS = json.load(open(os.path.join(HERE, "manifest.d", "not_applicable.json")))


def main():
    checks = []
    for pid in ALL:
        f = os.path.join(HERE, "manifest.d", f"{pid}.json")
        if not os.path.exists(f):
            continue
        c = json.load(open(f))
        checks.append({
            "property_id": pid,
            "quick_cmd": f"./check {pid} --tier quick",
            "thorough_cmd": f"./check {pid} --tier thorough",
            "evidence_file": f"/verif/evidence/{pid}.json",
            "replay_cmd_template": f"./check {pid} --replay {{path}}",
            "engine": "coq-proof+correspondence",
            "level_claimed": {"category": c.get("category", "proof"), "text": c["text"], "design_ref": c["design"]},
            "level_note": c["note"],
            "technique": c["technique"],
        })
    claimed = {c["property_id"] for c in checks}
    m = {
        "version": 1,
        "setup_cmd": "./check --setup",
        "hooks": {"guard": "MLODA_VERIF", "enable": "no source hooks: checks observe through the public Extender API, "
                  "harness-side subclasses and instance wrapping; MLODA_VERIF=1 is exported by ./check but read by nothing in /repo",
                  "baseline_off_cmd": "/verif/tools/baseline_check.py", "source_commits": [], "add_only": True},
        "engines": [{"name": "coq-proof+correspondence", "path": "/verif/check",
                     "serves_properties": sorted(claimed),
                     "kind_free_text": "Coq 8.16.1 development under /verif/coq (Model/Spec/Proofs/Props, Gen regenerated from /repo) "
                                       "plus Python harness that runs mloda and evaluates the Coq models on the same inputs with coqc/vm_compute"}],
        "checks": checks,
        "notes": "fix commits in /repo: see known_findings.json (status fixed:<commit>).",
        "not_applicable": [{"property_id": p, "reason": NA_REASONS.get(p, NOT_YET)} for p in ALL if p not in claimed],
    }
    json.dump(m, open(os.path.join(HERE, "MANIFEST.json"), "w"), indent=1)
    print("wrote MANIFEST.json with", len(checks), "checks")


main()
