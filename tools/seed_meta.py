#!/usr/bin/env python3
"""Enrich seeded/<id>/meta.json with what the change is / what it needs to manifest (taken from the reviewer's NOTES.md) and what
was run, and (re)write the table of DESIGN.md section 9 (between the markers <!-- seed-table-begin/end -->)."""
import glob, json, os, re

HERE = os.path.dirname(os.path.dirname(os.path.abspath(__file__)))


def section(text: str, pat: str, n: int = 700) -> str:
    m = re.search(r"^#+\s*[^\n]*(" + pat + r")[^\n]*\n(.*?)(?=^#+\s|\Z)", text, re.S | re.M | re.I)
    if not m:
        return ""
    body = " ".join(m.group(2).split())
    return body[:n] + ("…" if len(body) > n else "")


rows = []
for f in sorted(glob.glob(os.path.join(HERE, "seeded", "*", "meta.json"))):
    d = os.path.dirname(f)
    m = json.load(open(f))
    notes = open(os.path.join(d, "NOTES.md")).read() if os.path.exists(os.path.join(d, "NOTES.md")) else ""
    title = next((l.lstrip("# ").strip() for l in notes.splitlines() if l.startswith("#")), "")
    files = sorted(set(re.findall(r"^\+\+\+ b/(\S+)", open(os.path.join(d, "patch.diff")).read(), re.M)))
    m["change_summary"] = title
    m["files_changed"] = files
    m["what_the_change_is"] = section(notes, r"the change|what the change is|what changed", 600)
    m["needs_to_manifest"] = section(notes, r"need|manifest", 700)
    m["ran"] = [f"git apply patch.diff in a scratch worktree of /repo@{m.get('repo_head')}",
                "demo.py without / with the patch (exit codes above)",
                "pinned suite with the patch (suite_passes)" if "suite_passes" in m else "pinned suite with the patch: verified when the seed was taken (see NOTES.md); not repeated in the last re-verification",
                ] + [f"VERIF_REPO=<patched tree> ./check {c} --tier quick -> rc {v['rc']}, {v['violations']} violation line(s)" for c, v in m.get("checks", {}).items()]
    json.dump(m, open(f, "w"), indent=1)
    caught = [c for c, v in m.get("checks", {}).items() if v.get("rc") == 1]
    missed = [c for c, v in m.get("checks", {}).items() if v.get("rc") == 0]
    nfi = [c for c, v in m.get("checks", {}).items() if v.get("no_failing_input")]
    rows.append((m["id"], m.get("breaks_property"), title[:110], ", ".join(files)[:90], ", ".join(caught) + (" (no-failing-input-found: " + ", ".join(nfi) + ")" if nfi else ""),
                 ", ".join(missed), "" if m.get("demo_with_patch_rc") else "demo passes with patch on this tree"))

table = ["| seed | property | change | files | caught by | run and silent | note |", "|---|---|---|---|---|---|---|"]
for r in rows:
    table.append("| " + " | ".join(str(x).replace("|", "/") for x in r) + " |")
p = os.path.join(HERE, "DESIGN.md")
s = open(p).read()
b, e = "<!-- seed-table-begin -->", "<!-- seed-table-end -->"
if b in s and e in s:
    s = s[:s.index(b) + len(b)] + "\n" + "\n".join(table) + "\n" + s[s.index(e):]
    open(p, "w").write(s)
print(f"{len(rows)} seeds; caught by own property's check: {sum(1 for r in rows if r[1] in r[4].split(' (')[0].split(', '))}; caught by some check: {sum(1 for r in rows if r[4])}")
