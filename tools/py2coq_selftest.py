#!/venv/bin/python
"""Differential self-test of the translator harness/py2coq.py (not part of any check; run by hand after changing it):
synthetic functions that exercise the subset are (1) run by CPython and (2) translated to Gallina and evaluated by
vm_compute on the same small exhaustive inputs; a second list of functions must be REFUSED (fail closed).

    PYTHONPATH=/repo:$PWD /venv/bin/python tools/py2coq_selftest.py
"""
from __future__ import annotations

import itertools
import os
import sys
import types
from pathlib import Path

sys.path.insert(0, os.path.dirname(os.path.dirname(os.path.abspath(__file__))))
from lib import vlib  # noqa: E402
from lib.vlib import cq_str  # noqa: E402
from harness import py2coq  # noqa: E402
from harness.py2coq import Target  # noqa: E402

SRC = '''
from typing import Set, Tuple
from uuid import UUID

SEP = "__"


def count_prefix(a: Tuple[str, ...], b: Tuple[str, ...]) -> int:
    n = 0
    for x, y in zip(a, b):
        if x != y:
            break
        n = n + 1
    return n


def last_or(a: Tuple[str, ...], d: str) -> str:
    if len(a) == 0:
        return d
    return a[-1]


def find_index(a: Tuple[str, ...], x: str) -> int:
    for i, y in enumerate(a):
        if y == x:
            return i
    raise ValueError(f"{x} not found")


def clamp_sum(a: Tuple[str, ...], lo: int, hi: int) -> int:
    total = 0
    for s in a:
        if len(s) > hi:
            continue
        if len(s) < lo:
            total -= 1
        else:
            total = total + len(s)
    return total


def nested(a: Tuple[str, ...], b: Tuple[str, ...]) -> int:
    n = 0
    for x in a:
        for y in b:
            if x == y:
                n += 1
                break
        if n >= 2:
            return n
    return 0 - n


def pick(d: int, k: str) -> bool:
    table = {"a": {"x", "y"}, "b": {"z"}, "a": {"y", "w"}}
    return k in table.get("a" if d > 0 else "b", set())


def only_in_first(a: Set[UUID], b: Set[UUID]) -> Set[UUID]:
    out: Set[UUID] = set()
    for u in a:
        if u in b:
            continue
        out.add(u)
    return out


def merge_into(a: Set[UUID], b: Set[UUID], c: Set[UUID]) -> bool:
    if not a & b:
        a.update(c)
        a.difference_update(b)
        return True
    return (not c) or a.issubset(b | c)


def second_part(s: str) -> str:
    parts = s.split("~")
    if len(parts) <= 1:
        raise KeyError("no second part")
    p = parts[1]
    if p.startswith("x") and not SEP in p:
        return "x"
    return p


def all_any(a: Tuple[str, ...], b: Tuple[str, ...]) -> bool:
    return all(x in b for x in a) and not any(x == y for x, y in zip(a, b)) or len(a) >= 3
'''

SRC2 = '''
from collections import OrderedDict, defaultdict
from typing import Dict, List, Optional, Set, Tuple, Union
from uuid import UUID


def count_words(a: Tuple[str, ...]) -> int:
    d: Dict[str, int] = {}
    for x in a:
        if x in d:
            d[x] = d[x] + 1
        else:
            d[x] = 1
    best = 0
    for k, v in d.items():
        if v > best:
            best = v
    return best + len(d)


def index_of_a(a: Tuple[str, ...]) -> str:
    d: Dict[str, int] = {}
    for i, x in enumerate(a):
        d[x] = i
    return a[d["a"] - d.get("b", 0)]


def group_by_len(a: Tuple[str, ...]) -> int:
    g: Dict[int, Set[str]] = defaultdict(set)
    for x in a:
        g[len(x)].add(x)
    n = 0
    for k in g:
        n = n + k
    for k in g.keys():
        n = n + 10
    return n + len(g) + len(g)


def plain_dict_add(a: Tuple[str, ...]) -> int:
    g: Dict[str, Set[str]] = {}
    g["a"] = {"z"}
    for x in a:
        g[x].add(x)
    return len(g)


def append_all(a: Tuple[str, ...], b: Tuple[str, ...]) -> Tuple[str, ...]:
    out = []
    for x in a:
        if x not in out:
            out.append(x)
    return list(b) + out


def untyped_set(a: Set[UUID], b: Set[UUID]) -> Set[UUID]:
    seen = set()
    for u in a:
        if u in b:
            seen.add(u)
    seen.update(b - a)
    return seen


def chain_eq(a: int, b: int, c: int) -> bool:
    return a == b == c


def shadow(a: Tuple[str, ...], b: Tuple[str, ...]) -> str:
    x = "init"
    for x in a:
        for x in b:
            if x == "b":
                break
    return x


def assign_loopvar(a: Tuple[str, ...]) -> int:
    n = 0
    for s in a:
        if s == "a":
            s = "b"
        if s == "b":
            n += 1
    return n


def rebind_iterable(a: Tuple[str, ...]) -> int:
    n = 0
    for x in a:
        a = ("q", x)
        n += len(a)
    return n + len(a)


def opt_last_pos(a: Tuple[str, ...], x: str) -> int:
    pos = None
    for i, y in enumerate(a):
        if y == x:
            pos = i
    if pos is None:
        return -1
    return pos + 1


def range_max(lo: int, hi: int) -> int:
    d: Dict[int, int] = {}
    for i in range(lo, hi):
        d[i] = hi - i
    n = 0
    for i in range(hi):
        n += 1
    if len(d.keys()):
        return max(d.keys()) + len(d) + n
    return 0 - 1


def od_move(a: Tuple[str, ...], x: str) -> Tuple[str, ...]:
    d: OrderedDict[str, int] = OrderedDict()
    for i, y in enumerate(a):
        d[y] = i
    d.move_to_end(x)
    out = []
    for k in d:
        out.append(k)
    return out


def pair_unpack(a: Tuple[str, ...]) -> int:
    d: Dict[int, Tuple[str, int]] = {}
    for i, y in enumerate(a):
        d[i] = (y, i + 1)
    n = 0
    for i in range(len(a)):
        s, k = d[i]
        if s == "a":
            n = n + k
    return n


def nested_pattern(a: Tuple[str, ...], b: Tuple[str, ...]) -> int:
    n = 0
    for i, (x, y) in enumerate(zip(a, b)):
        if x == y:
            n = n + i + 1
    return n


def prune(a: Tuple[str, ...], b: Tuple[str, ...]) -> int:
    d: Dict[str, int] = {}
    for i, x in enumerate(a):
        d[x] = i
    e = d.copy()
    for y in b:
        if y in e:
            del e[y]
    e.update({"zz": 5, "a": 7})
    f = {k: v for k, v in d.items() if k in b and v > 0}
    n = 0
    for k, v in f.items():
        if k in e and e[k] != v:
            n += 10
    return len(d) + len(e) + len(e) + n + len(f) + len(f) + len(f)


def del_missing(a: Tuple[str, ...]) -> int:
    d: Dict[str, int] = {}
    d["a"] = 1
    d["b"] = 2
    for x in a:
        del d[x]
    return len(d)


def with_default(a: Tuple[str, ...], x: str = "a") -> int:
    n = 0
    for y in a:
        if y == x:
            n += 1
    return n


def tagged(a: Tuple[str, ...], b: Tuple[str, ...], mode: Optional[str] = None) -> Union[Set[str], List[str]]:
    if mode is not None and mode not in ("sorted", "merge"):
        raise ValueError(f"bad mode {mode}")
    tags = {f"{x}~{x}" for x in a}
    if mode is None:
        return tags
    if mode == "sorted":
        return sorted(tags)
    out: List[str] = []
    out.extend(x for x in a if x not in out)
    out.extend(y for y in b if y not in out)
    out.sort()
    return out


def mutate_and_raise(a: Set[UUID], b: Set[UUID]) -> bool:
    a.update(b)
    if not b:
        raise KeyError("empty")
    a.difference_update(b)
    if not a:
        raise ValueError("nothing left")
    return a.issubset(b)
'''

SRC3 = '''
from collections import OrderedDict, defaultdict
from typing import Any, Dict, Set
from uuid import UUID


class Link:
    def __init__(self, uuid: UUID) -> None:
        self.uuid = uuid


def link_uuids(q: Any) -> Set[UUID]:
    out: Set[UUID] = set()
    groups = []
    for p in q:
        if isinstance(p, tuple):
            if isinstance(p[0], Link):
                out.add(p[0].uuid)
                continue
        groups.append(p)
    for p in groups:
        if isinstance(p[0], Link):
            out.add(p[0].uuid)
    return out


def postponed(q: Any, k: UUID) -> Set[UUID]:
    waiting = set()
    for p in q:
        if isinstance(p[0], Link):
            if p[1] == p[2]:
                continue
            waiting.add(p)
    out: Set[UUID] = set()
    for dep_link in waiting:
        out.add(dep_link[0].uuid)
    return out


class LinkTrekker:
    def __init__(self) -> None:
        self.data = defaultdict(set)
        self.data_ordered = OrderedDict()
        self.order = OrderedDict()

    def helper(self) -> None:
        pass

    def bump(self, k: UUID, x: UUID) -> None:
        if k not in self.order:
            self.order[k] = {x}
        else:
            self.order[k].add(x)
        self.helper()
        if x == k:
            raise ValueError("self dependency")
        self.order[x].add(k)

    def bump_twice(self, k: UUID) -> None:
        self.bump(k, k)
'''

# round 3: try / except Exception [as e] / [finally] (PySem.py_try), len(<set>) == 0
SRC_TRY = '''
def try_swallow(a: Tuple[str, ...], i: int) -> str:
    r = "none"
    try:
        r = a[i]
    except Exception as e:
        r = "caught"
    return r


def try_state_at_raise(a: Tuple[str, ...], i: int) -> int:
    n = 0
    try:
        n = n + 1
        x = a[i]
        n = n + 10
        if x == "a":
            return n
        n = n + 100
    except Exception:
        n = n + 1000
    finally:
        n = n + 5
    return n


def try_reraise(a: Tuple[str, ...], i: int) -> str:
    try:
        return a[i]
    except Exception as e:
        if i > 1:
            raise
        if i < 0:
            raise KeyError(f"negative {e}")
    return "swallowed"


def try_effects(s: Set[UUID], t: Set[UUID], a: Tuple[str, ...], i: int) -> bool:
    try:
        s.update(t)
        x = a[i]
        if x == "a":
            return True
        s.difference_update(t)
    except Exception as e:
        t.update(s)
        if len(a) == 0:
            raise
        if len(a) == 1:
            raise KeyError(f"one {e}")
    finally:
        t.difference_update(s)
    return False


def try_finally_raises(a: Tuple[str, ...], i: int) -> str:
    r = "x"
    try:
        r = a[i]
        if r == "b":
            return r
    except Exception:
        raise ValueError("handler")
    finally:
        if i == 0:
            raise TypeError("finally wins")
    return r


def try_in_loop(a: Tuple[str, ...], b: Tuple[str, ...]) -> int:
    n = 0
    for x in a:
        try:
            y = b[len(x)]
            if y == x:
                return n
            n = n + 1
        except Exception:
            n = n + 10
        finally:
            n = n + 100
    return n


def try_no_state(a: Tuple[str, ...], i: int) -> bool:
    try:
        if a[i] == "a":
            return True
    except Exception:
        return i > 0
    return False


def empty_set(a: Set[UUID], b: Set[UUID]) -> bool:
    c = a & b
    if len(c) == 0:
        return True
    return len(a - b) > 0
'''

REFUSED_TRY = '''
def r_try_bare(a: Tuple[str, ...]) -> str:
    try:
        return a[0]
    except:
        return ""


def r_try_two_handlers(a: Tuple[str, ...]) -> str:
    try:
        return a[0]
    except Exception:
        return ""
    except BaseException:
        return "b"


def r_try_tuple(a: Tuple[str, ...]) -> str:
    try:
        return a[0]
    except (IndexError, KeyError):
        return ""


def r_try_else(a: Tuple[str, ...]) -> str:
    try:
        x = a[0]
    except Exception:
        return ""
    else:
        return "e"
    return "x"


def r_try_return_in_finally(a: Tuple[str, ...]) -> str:
    try:
        return a[0]
    except Exception:
        return ""
    finally:
        return "f"


def r_try_no_handler(a: Tuple[str, ...]) -> str:
    try:
        return a[0]
    finally:
        pass


def r_try_loop_inside(a: Tuple[str, ...]) -> int:
    n = 0
    try:
        for x in a:
            n = n + 1
    except Exception:
        n = 0
    return n


def r_try_nested(a: Tuple[str, ...]) -> str:
    try:
        try:
            return a[0]
        except Exception:
            return a[1]
    except Exception:
        return ""


def r_try_break(a: Tuple[str, ...]) -> int:
    n = 0
    for x in a:
        try:
            if x == "a":
                break
            n = n + 1
        except Exception:
            n = 0
    return n


def r_try_used_after(a: Tuple[str, ...]) -> str:
    try:
        x = a[0]
    except Exception:
        return ""
    return x


def r_try_narrow_state(a: Tuple[str, ...]) -> int:
    pos = None
    try:
        pos = len(a)
        if pos is None:
            return 0
    except Exception:
        return 1
    return 2


def r_try_rebound_exception(a: Tuple[str, ...], Exception: int) -> str:
    try:
        return a[0]
    except Exception:
        return ""


def r_raise_outside_handler(a: int) -> int:
    if a > 0:
        raise
    return a
'''

REFUSED = '''
from collections import OrderedDict, defaultdict
from typing import Dict


def r_iter_built_set(a: Tuple[str, ...]) -> str:
    s = set()
    for x in a:
        s.add(x)
    last = ""
    for y in s:
        last = y
    return last


def r_defaultdict_read(a: Tuple[str, ...]) -> int:
    g: Dict[str, Set[str]] = defaultdict(set)
    for x in a:
        g[x].add(x)
    n = 0
    for x in a:
        if g[x]:
            n += 1
    return n


def r_store_then_mutate(a: Set[UUID], b: Set[UUID]) -> bool:
    d: Dict[int, Set[UUID]] = {}
    d[0] = a
    a.update(b)
    return d[0].issubset(b)


def r_dict_alias(a: Tuple[str, ...]) -> int:
    d: Dict[str, int] = {}
    e = d
    for x in a:
        e[x] = 1
    return len(d)


def r_chain_calls(a: Tuple[str, ...]) -> bool:
    return len(a) == len(a) == 2


def r_mutate_loop_element(a: Tuple[str, ...]) -> int:
    g: Dict[str, Set[str]] = {}
    for x in a:
        g[x] = {x}
    for k, v in g.items():
        v.add("z")
    return len(g)


def r_list(a: Set[UUID]) -> int:
    n = 0
    for u in list(a):
        n += 1
    return n

from typing import Set, Tuple
from uuid import UUID


def r_while(a: int) -> int:
    while a > 0:
        a = a - 1
    return a


def r_try(a: Tuple[str, ...]) -> str:
    try:
        return a[0]
    except IndexError:
        return ""


def r_lazy_index(a: Tuple[str, ...]) -> bool:
    return len(a) > 0 and a[0] == "x"


def r_alias(a: Set[UUID], b: Set[UUID]) -> bool:
    c = a
    c.update(b)
    return a.issubset(b)


def r_unknown_name(a: int) -> int:
    return helper(a)


def r_truthy_and(a: Tuple[str, ...], b: Tuple[str, ...]) -> bool:
    return bool(a and b)


def r_len_set(a: Set[UUID]) -> int:
    return len(a)


def r_mutate_iterated(a: Set[UUID]) -> bool:
    for u in a:
        a.add(u)
    return True


def r_fall_off(a: int) -> int:
    if a > 0:
        return 1


def r_comprehension_filter(a: Tuple[str, ...]) -> bool:
    return all(x == "a" for x in a if x != "b")


def r_lambda(a: int) -> int:
    f = lambda x: x + 1
    return f(a)


def r_star(a: int, *rest: int) -> int:
    return a
'''

T = lambda n, ps, r: Target(n, "selftest_src.py", None, n, ps, r)  # noqa: E731
TS, SS = "Tuple[str, ...]", "Set[UUID]"
GOOD = [
    T("count_prefix", [("a", TS), ("b", TS)], "int"), T("last_or", [("a", TS), ("d", "str")], "str"),
    T("find_index", [("a", TS), ("x", "str")], "int"), T("clamp_sum", [("a", TS), ("lo", "int"), ("hi", "int")], "int"),
    T("nested", [("a", TS), ("b", TS)], "int"), T("pick", [("d", "int"), ("k", "str")], "bool"),
    T("only_in_first", [("a", SS), ("b", SS)], SS), T("merge_into", [("a", SS), ("b", SS), ("c", SS)], "bool"),
    T("second_part", [("s", "str")], "str"), T("all_any", [("a", TS), ("b", TS)], "bool"),
]
GOOD2 = [
    T("count_words", [("a", TS)], "int"), T("index_of_a", [("a", TS)], "str"), T("group_by_len", [("a", TS)], "int"),
    T("plain_dict_add", [("a", TS)], "int"), T("append_all", [("a", TS), ("b", TS)], TS),
    T("untyped_set", [("a", SS), ("b", SS)], SS), T("chain_eq", [("a", "int"), ("b", "int"), ("c", "int")], "bool"),
    T("shadow", [("a", TS), ("b", TS)], "str"), T("assign_loopvar", [("a", TS)], "int"), T("rebind_iterable", [("a", TS)], "int"),
    T("opt_last_pos", [("a", TS), ("x", "str")], "int"), T("range_max", [("lo", "int"), ("hi", "int")], "int"),
    T("od_move", [("a", TS), ("x", "str")], TS), T("pair_unpack", [("a", TS)], "int"),
    T("nested_pattern", [("a", TS), ("b", TS)], "int"), T("mutate_and_raise", [("a", SS), ("b", SS)], "bool"),
    T("prune", [("a", TS), ("b", TS)], "int"), T("del_missing", [("a", TS)], "int"),
    Target("with_default", "selftest_src.py", None, "with_default", [("a", TS), ("x", "str")], "int", defaults={"x": "'a'"}),
    Target("tagged", "selftest_src.py", None, "tagged", [("a", TS), ("b", TS), ("mode", "Optional[str]")],
           "Union[Set[str], List[str]]", defaults={"mode": "None"}),
]
GOOD3 = [
    T("try_swallow", [("a", TS), ("i", "int")], "str"), T("try_state_at_raise", [("a", TS), ("i", "int")], "int"),
    T("try_reraise", [("a", TS), ("i", "int")], "str"), T("try_effects", [("s", SS), ("t", SS), ("a", TS), ("i", "int")], "bool"),
    T("try_finally_raises", [("a", TS), ("i", "int")], "str"), T("try_in_loop", [("a", TS), ("b", TS)], "int"),
    T("try_no_state", [("a", TS), ("i", "int")], "bool"), T("empty_set", [("a", SS), ("b", SS)], "bool"),
]
BAD_TRY = [(n, [("a", TS)], r) for n, r in (
    ("r_try_bare", "str"), ("r_try_two_handlers", "str"), ("r_try_tuple", "str"), ("r_try_else", "str"),
    ("r_try_return_in_finally", "str"), ("r_try_no_handler", "str"), ("r_try_loop_inside", "int"), ("r_try_nested", "str"),
    ("r_try_break", "int"), ("r_try_used_after", "str"), ("r_try_narrow_state", "int"))] + [
    ("r_try_rebound_exception", [("a", TS), ("Exception", "int")], "str"), ("r_raise_outside_handler", [("a", "int")], "int")]
BAD = [("with_default", [("a", TS), ("x", "str")], "int"),       # a default value the target does not declare
       ("r_iter_built_set", [("a", TS)], "str"), ("r_defaultdict_read", [("a", TS)], "int"),
       ("r_store_then_mutate", [("a", SS), ("b", SS)], "bool"), ("r_dict_alias", [("a", TS)], "int"),
       ("r_chain_calls", [("a", TS)], "bool"), ("r_mutate_loop_element", [("a", TS)], "int"), ("r_list", [("a", SS)], "int"),
       ("r_while", [("a", "int")], "int"), ("r_try", [("a", TS)], "str"), ("r_lazy_index", [("a", TS)], "bool"),
       ("r_alias", [("a", SS), ("b", SS)], "bool"), ("r_unknown_name", [("a", "int")], "int"),
       ("r_truthy_and", [("a", TS), ("b", TS)], "bool"), ("r_len_set", [("a", SS)], "int"),
       ("r_mutate_iterated", [("a", SS)], "bool"), ("r_fall_off", [("a", "int")], "int"),
       ("r_comprehension_filter", [("a", TS)], "bool"), ("r_lambda", [("a", "int")], "int"), ("r_star", [("a", "int")], "int"),
       ("r_missing", [("a", "int")], "int"), ("count_prefix", [("a", TS)], "int")]


def tuples(alpha, n):
    out = [()]
    for k in range(1, n + 1):
        out += list(itertools.product(alpha, repeat=k))
    return out


def subsets(n):
    return [[i for i in range(n) if m >> i & 1] for m in range(1 << n)]


def enc(v, ann):
    if ann == "int":
        return f"({v})%Z"
    if ann == "bool":
        return "true" if v else "false"
    if ann == "str":
        return cq_str(v) + "%string"
    if ann == TS:
        return "[" + "; ".join(cq_str(x) + "%string" for x in v) + "]"
    if ann == SS:
        return "[" + "; ".join(f"{x}%nat" for x in v) + "]"
    if ann == "Optional[str]":
        return "None" if v is None else f"(Some {cq_str(v)}%string)"
    if ann == "Union[Set[str], List[str]]":     # only as an expected result: (is it a set, its elements)
        return "(" + ("inl " if v[0] else "inr ") + "[" + "; ".join(cq_str(x) + "%string" for x in v[1]) + "])"
    raise KeyError(ann)


def domain(ann):
    from uuid import UUID  # noqa: F401
    return {"int": [-1, 0, 1, 2], "bool": [False, True], "str": ["", "a", "x", "z", "y", "a~b", "~xa", "a~x__b~c", "w"],
            TS: tuples("ab", 3) + [("ab", "a"), ("abc", "", "b")], SS: subsets(3),
            "Optional[str]": [None, "sorted", "merge", "x"]}[ann]


UNION_EQ = ("(fun x y => match x, y with inl a, inl b => py_set_eqb String.eqb a b | inr a, inr b => py_list_eqb String.eqb a b "
            "| _, _ => false end)")
EQ = {"Union[Set[str], List[str]]": UNION_EQ, "int": "Z.eqb", "bool": "Bool.eqb", "str": "String.eqb", SS: "py_set_eqb Nat.eqb", TS: "py_list_eqb String.eqb"}


def plan_tests(d: Path, reserved: set) -> int:
    """round 2: the constructs that need the data model of the planner objects (py2coq.CLASSES, Model/PyObj.v): isinstance
    narrowing on the queue items, the order-oracle site, a callee that is a parameter, mutation of a field of self (with the
    (res unit) * self result), a statement call of a translated method"""
    import re
    from collections import OrderedDict
    from uuid import UUID
    from harness.py2coq import LIST, OBJ
    (d / "src" / "selftest_plan.py").write_text(SRC3)
    py2coq._MODULES.clear()
    mod = types.ModuleType("selftest_plan")
    exec(compile(SRC3, "selftest_plan", "exec"), mod.__dict__)
    Tp = lambda n, ps, r, **kw: Target(n, "selftest_plan.py", kw.pop("cls", None), kw.pop("fn", n), ps, r, gen="SrcPlan", **kw)  # noqa: E731
    q_ty = {"q": LIST(OBJ("QueueItem"))}
    site = {"dep_link": ("PlannerL.ordk", "PlannerL.site_issue {k}")}
    fails = 0
    try:        # the set built by the function is iterated: refused unless the target configures the oracle site
        py2coq.Fn(Tp("postponed", [("q", "Any"), ("k", "UUID")], "Set[UUID]", types=q_ty), reserved).translate()
        print("NOT REFUSED: postponed without an oracle site")
        fails += 1
    except py2coq.Unsupported as ex:
        print(f"refused  {'postponed (no site)':24s} {ex}")
    try:        # a method that is neither a target nor a configured callee
        py2coq.Fn(Tp("LinkTrekker_bump", [("k", "UUID"), ("x", "UUID")], "None", cls="LinkTrekker", fn="bump",
                     self_class="LinkTrekker"), reserved).translate()
        print("NOT REFUSED: bump without its callee")
        fails += 1
    except py2coq.Unsupported as ex:
        print(f"refused  {'bump (callee unknown)':24s} {ex}")
    targets = [Tp("link_uuids", [("q", "Any")], "Set[UUID]", types=q_ty),
               Tp("postponed", [("q", "Any"), ("k", "UUID")], "Set[UUID]", types=q_ty, sites=site),
               Tp("LinkTrekker_bump", [("k", "UUID"), ("x", "UUID")], "None", cls="LinkTrekker", fn="bump", self_class="LinkTrekker",
                  callees=["helper"]),
               Tp("LinkTrekker_bump_twice", [("k", "UUID")], "None", cls="LinkTrekker", fn="bump_twice", self_class="LinkTrekker")]
    saved = list(py2coq.TARGETS)
    out = [py2coq.PRELUDES["SrcPlan"]]
    py2coq.DONE.clear()
    try:
        py2coq.TARGETS[:] = targets         # bump_twice calls bump: the registry of translated targets is consulted
        fns = {}
        for t in targets:
            if t.name == "LinkTrekker_bump_twice":
                continue
            f = py2coq.Fn(t, reserved)
            out.append(f.translate())
            py2coq.DONE[t.name] = f
            fns[t.name] = f
        try:    # a statement call of a translated method that has a callee parameter of its own: refused
            py2coq.Fn(targets[3], reserved).translate()
            print("NOT REFUSED: bump_twice")
            fails += 1
        except py2coq.Unsupported as ex:
            print(f"refused  {'bump_twice':24s} {ex}")
    finally:
        py2coq.TARGETS[:] = saved
        py2coq.DONE.clear()
    uu = lambda k: UUID(int=k + 1)  # noqa: E731
    links = {u: mod.Link(uu(u)) for u in (0, 4, 8)}
    grp = type("G", (), {})
    items = [("L", 0, 0, 1), ("L", 4, 1, 1), ("L", 8, 2, 0), ("G", 7)]

    def py_item(x):
        return (links[x[1]], x[2], x[3]) if x[0] == "L" else (grp, frozenset())

    def cq_item(x):
        return f"PlannerL.PL ({x[1]}, ({x[2]}, {x[3]}))%nat" if x[0] == "L" else f"PlannerL.PG {x[1]}%nat []"
    queues = [list(p) for n in range(4) for p in itertools.permutations(items, n)]
    nl = lambda l: "[" + "; ".join(f"{x}%nat" for x in l) + "]"  # noqa: E731
    terms1, terms2, terms3 = [], [], []
    for q in queues:
        r = sorted(u.int - 1 for u in mod.link_uuids([py_item(x) for x in q]))
        terms1.append(f"py_set_eqb Nat.eqb (link_uuids [{'; '.join(cq_item(x) for x in q)}]) {nl(r)}")
        r = sorted(u.int - 1 for u in mod.postponed([py_item(x) for x in q], uu(3)))
        terms2.append(f"py_set_eqb Nat.eqb (postponed PlannerA.ord_id [{'; '.join(cq_item(x) for x in q)}] 3%nat) {nl(r)}")
    orders = [[], [(0, [4])], [(4, [0]), (0, [8])], [(8, [0, 4])]]
    for o in orders:
        for k in (0, 4, 8):
            for x in (0, 4, 8):
                lt = mod.LinkTrekker()
                lt.order = OrderedDict((uu(a), {uu(b) for b in v}) for a, v in o)
                try:
                    lt.bump(uu(k), uu(x))
                    exc = None
                except Exception as ex:  # noqa: BLE001
                    exc = type(ex).__name__
                obs = "[" + "; ".join(f"({a.int - 1}%nat, {nl(sorted(b.int - 1 for b in v))})" for a, v in lt.order.items()) + "]"
                cq_o = "[" + "; ".join(f"({a}%nat, {nl(v)})" for a, v in o) + "]"
                call = (f"LinkTrekker_bump (fun s => (Ok tt, s)) {{| PlannerL.t_data := []; PlannerL.t_dor := []; "
                        f"PlannerL.t_order := {cq_o} |}} {k}%nat {x}%nat")
                pat = f"Raise {exc}" if exc else "Ok _"
                terms3.append(f"match {call} with ({pat}, s) => PlannerL.amap_exact_eqb (PlannerL.t_order s) {obs} | _ => false end")
    checks = [("link_uuids", terms1), ("postponed", terms2), ("LinkTrekker_bump", terms3)]
    for name, terms in checks:
        out.append(f"Definition bad_{name} : list nat := map fst (filter (fun p => negb (snd p)) (combine (seq 0 {len(terms)}) [\n  "
                   + ";\n  ".join(terms) + "])).\n")
    out.append("Eval vm_compute in (" + ", ".join(f"bad_{n}" for n, _ in checks) + ").\n")
    v = d / "selftest_plan.v"
    v.write_text("\n".join(out))
    vlib.make_targets(["Model/PySem.vo", "Model/PlannerL.vo", "Model/PyObj.vo"])
    rc, res = vlib.sh(["coqc"] + vlib.coq_project_args() + [str(v)], 900, cwd=d)
    if rc != 0:
        print("coqc FAILED on the generated planner definitions:\n" + res[-3000:])
        return fails + 1
    m = re.search(r"=\s*\((.*)\)\s*:", res, re.S)
    lists = re.findall(r"\[([^\]]*)\]", m.group(1)) if m else []
    if len(lists) != len(checks):
        print("cannot parse:", res[-1000:])
        return fails + 1
    for (name, terms), l in zip(checks, lists):
        bad = [int(x) for x in re.findall(r"\d+", l)]
        print(f"{'DIFFERS ' if bad else 'agrees  '} {name:16s} {len(terms)} inputs" + (f"  first differing case {bad[0]}" if bad else ""))
        fails += bool(bad)
    return fails


def main() -> int:
    from uuid import UUID
    d = vlib.BUILD / "py2coq_selftest"
    (d / "src").mkdir(parents=True, exist_ok=True)
    fails = 0
    # ---- refused
    (d / "src" / "selftest_src.py").write_text(REFUSED + REFUSED_TRY + SRC + SRC2 + SRC_TRY)
    py2coq.ROOT[0] = d / "src"
    py2coq._MODULES.clear()
    reserved = py2coq._model_globals()
    for name, ps, r in BAD + BAD_TRY:
        try:
            py2coq.Fn(T(name, ps, r), reserved).translate()
            print(f"NOT REFUSED: {name}")
            fails += 1
        except py2coq.Unsupported as ex:
            print(f"refused  {name:24s} {ex}")
    # ---- translated and compared with CPython
    mod = types.ModuleType("selftest_src")
    exec(compile(SRC, "selftest_src", "exec"), mod.__dict__)
    exec(compile(SRC2, "selftest_src2", "exec"), mod.__dict__)
    exec(compile(SRC_TRY, "selftest_src3", "exec"), mod.__dict__)
    out = [py2coq.PRELUDE, "Open Scope string_scope.\nOpen Scope list_scope.\nOpen Scope Z_scope.\n"]
    checks = []
    for t in GOOD + GOOD2 + GOOD3:
        f = py2coq.Fn(t, reserved)
        out.append(f.translate())
        mutated = f.mutated
        cases = list(itertools.product(*[domain(a) for _, a in t.params]))
        terms = []
        for args in cases:
            pyargs = [({UUID(int=k + 1) for k in v} if a == SS else tuple(v) if a == TS else v) for v, (_, a) in zip(args, t.params)]
            try:
                r = getattr(mod, t.fn)(*pyargs)
                exc = None
            except Exception as ex:  # noqa: BLE001
                r, exc = None, type(ex).__name__
            back = lambda v, a: (sorted(u.int - 1 for u in v) if a == SS else list(v) if a == TS  # noqa: E731
                                 else (isinstance(v, set), sorted(v) if isinstance(v, set) else list(v)) if a.startswith("Union") else v)
            call = f"{t.name} " + " ".join(enc(v, a) for v, (_, a) in zip(args, t.params))
            if f.partial and mutated:       # (res R) * the mutated parameters: they are left behind when it raises, too
                pat = ", ".join([f"m{k}" for k in range(len(mutated))])
                conj = []
                for k, p in enumerate(mutated):
                    i = [q for q, _ in t.params].index(p)
                    conj.append(f"py_set_eqb Nat.eqb m{k} {enc(back(pyargs[i], SS), SS)}")
                if exc:
                    terms.append(f"match {call} with (Raise {exc}, {pat}) => {' && '.join(conj)} | _ => false end")
                else:
                    conj.insert(0, f"{EQ[t.returns]} v {enc(back(r, t.returns), t.returns)}")
                    terms.append(f"match {call} with (Ok v, {pat}) => {' && '.join(conj)} | _ => false end")
            elif f.partial:
                if exc:
                    terms.append(f"match {call} with Raise {exc} => true | _ => false end")
                else:
                    terms.append(f"match {call} with Ok v => {EQ[t.returns]} v {enc(back(r, t.returns), t.returns)} | _ => false end")
            elif mutated:
                if exc:
                    terms.append("false")
                    continue
                pat = "(" + ", ".join(["v"] + [f"m{k}" for k in range(len(mutated))]) + ")"
                conj = [f"{EQ[t.returns]} v {enc(back(r, t.returns), t.returns)}"]
                for k, p in enumerate(mutated):
                    i = [q for q, _ in t.params].index(p)
                    conj.append(f"py_set_eqb Nat.eqb m{k} {enc(back(pyargs[i], SS), SS)}")
                terms.append(f"let '{pat} := {call} in " + " && ".join(conj))
            else:
                terms.append("false" if exc else f"{EQ[t.returns]} ({call}) {enc(back(r, t.returns), t.returns)}")
        checks.append((t.name, cases, terms))
        out.append(f"Definition bad_{t.name} : list nat := map fst (filter (fun p => negb (snd p)) (combine (seq 0 {len(terms)}) [\n  "
                   + ";\n  ".join(terms) + "])).\n")
    out.append("Eval vm_compute in (" + ", ".join(f"bad_{n}" for n, _, _ in checks) + ").\n")
    v = d / "selftest.v"
    v.write_text("\n".join(out))
    ok, log = vlib.make_targets(["Model/PySem.vo", "Spec/Types.vo", "Model/LinkSel.vo"])
    rc, res = vlib.sh(["coqc"] + vlib.coq_project_args() + [str(v)], 900, cwd=d)
    if rc != 0:
        print("coqc FAILED on the generated definitions:\n" + res[-3000:])
        return 1
    import re
    m = re.search(r"=\s*\((.*)\)\s*:", res, re.S)
    lists = re.findall(r"\[([^\]]*)\]", m.group(1)) if m else []
    if len(lists) != len(checks):
        print("cannot parse:", res[-1000:])
        return 1
    for (name, cases, _), l in zip(checks, lists):
        bad = [int(x) for x in re.findall(r"\d+", l)]
        print(f"{'DIFFERS ' if bad else 'agrees  '} {name:16s} {len(cases)} inputs" + (f"  first differing input {cases[bad[0]]}" if bad else ""))
        fails += bool(bad)
    fails += plan_tests(d, reserved)
    print("selftest", "FAILED" if fails else "ok")
    return 1 if fails else 0


if __name__ == "__main__":
    sys.exit(main())
