#!/venv/bin/python
"""Differential self-test of the translator harness/py2coq.py (not part of any check; run by hand after changing it):
synthetic functions that exercise the subset are (1) run by CPython and (2) translated to Gallina and evaluated by
vm_compute on the same small exhaustive inputs; a second list of functions must be REFUSED (fail closed).

    PYTHONPATH=/repo:$PWD /venv/bin/python tools/py2coq_selftest.py
"""
from __future__ import annotations

import itertools
import os
import sys
import types
from pathlib import Path

sys.path.insert(0, os.path.dirname(os.path.dirname(os.path.abspath(__file__))))
from lib import vlib  # noqa: E402
from lib.vlib import cq_str  # noqa: E402
from harness import py2coq  # noqa: E402
from harness.py2coq import Target  # noqa: E402

SRC = '''
from typing import Set, Tuple
from uuid import UUID

SEP = "__"


def count_prefix(a: Tuple[str, ...], b: Tuple[str, ...]) -> int:
    n = 0
    for x, y in zip(a, b):
        if x != y:
            break
        n = n + 1
    return n


def last_or(a: Tuple[str, ...], d: str) -> str:
    if len(a) == 0:
        return d
    return a[-1]


def find_index(a: Tuple[str, ...], x: str) -> int:
    for i, y in enumerate(a):
        if y == x:
            return i
    raise ValueError(f"{x} not found")


def clamp_sum(a: Tuple[str, ...], lo: int, hi: int) -> int:
    total = 0
    for s in a:
        if len(s) > hi:
            continue
        if len(s) < lo:
            total -= 1
        else:
            total = total + len(s)
    return total


def nested(a: Tuple[str, ...], b: Tuple[str, ...]) -> int:
    n = 0
    for x in a:
        for y in b:
            if x == y:
                n += 1
                break
        if n >= 2:
            return n
    return 0 - n


def pick(d: int, k: str) -> bool:
    table = {"a": {"x", "y"}, "b": {"z"}, "a": {"y", "w"}}
    return k in table.get("a" if d > 0 else "b", set())


def only_in_first(a: Set[UUID], b: Set[UUID]) -> Set[UUID]:
    out: Set[UUID] = set()
    for u in a:
        if u in b:
            continue
        out.add(u)
    return out


def merge_into(a: Set[UUID], b: Set[UUID], c: Set[UUID]) -> bool:
    if not a & b:
        a.update(c)
        a.difference_update(b)
        return True
    return (not c) or a.issubset(b | c)


def second_part(s: str) -> str:
    parts = s.split("~")
    if len(parts) <= 1:
        raise KeyError("no second part")
    p = parts[1]
    if p.startswith("x") and not SEP in p:
        return "x"
    return p


def all_any(a: Tuple[str, ...], b: Tuple[str, ...]) -> bool:
    return all(x in b for x in a) and not any(x == y for x, y in zip(a, b)) or len(a) >= 3
'''

REFUSED = '''
from typing import Set, Tuple
from uuid import UUID


def r_while(a: int) -> int:
    while a > 0:
        a = a - 1
    return a


def r_try(a: Tuple[str, ...]) -> str:
    try:
        return a[0]
    except IndexError:
        return ""


def r_lazy_index(a: Tuple[str, ...]) -> bool:
    return len(a) > 0 and a[0] == "x"


def r_alias(a: Set[UUID], b: Set[UUID]) -> bool:
    c = a
    c.update(b)
    return a.issubset(b)


def r_unknown_name(a: int) -> int:
    return helper(a)


def r_truthy_and(a: Tuple[str, ...], b: Tuple[str, ...]) -> bool:
    return bool(a and b)


def r_len_set(a: Set[UUID]) -> int:
    return len(a)


def r_mutate_iterated(a: Set[UUID]) -> bool:
    for u in a:
        a.add(u)
    return True


def r_fall_off(a: int) -> int:
    if a > 0:
        return 1


def r_comprehension_filter(a: Tuple[str, ...]) -> bool:
    return all(x == "a" for x in a if x != "b")


def r_lambda(a: int) -> int:
    f = lambda x: x + 1
    return f(a)


def r_star(a: int, *rest: int) -> int:
    return a
'''

T = lambda n, ps, r: Target(n, "selftest_src.py", None, n, ps, r)  # noqa: E731
TS, SS = "Tuple[str, ...]", "Set[UUID]"
GOOD = [
    T("count_prefix", [("a", TS), ("b", TS)], "int"), T("last_or", [("a", TS), ("d", "str")], "str"),
    T("find_index", [("a", TS), ("x", "str")], "int"), T("clamp_sum", [("a", TS), ("lo", "int"), ("hi", "int")], "int"),
    T("nested", [("a", TS), ("b", TS)], "int"), T("pick", [("d", "int"), ("k", "str")], "bool"),
    T("only_in_first", [("a", SS), ("b", SS)], SS), T("merge_into", [("a", SS), ("b", SS), ("c", SS)], "bool"),
    T("second_part", [("s", "str")], "str"), T("all_any", [("a", TS), ("b", TS)], "bool"),
]
BAD = [("r_while", [("a", "int")], "int"), ("r_try", [("a", TS)], "str"), ("r_lazy_index", [("a", TS)], "bool"),
       ("r_alias", [("a", SS), ("b", SS)], "bool"), ("r_unknown_name", [("a", "int")], "int"),
       ("r_truthy_and", [("a", TS), ("b", TS)], "bool"), ("r_len_set", [("a", SS)], "int"),
       ("r_mutate_iterated", [("a", SS)], "bool"), ("r_fall_off", [("a", "int")], "int"),
       ("r_comprehension_filter", [("a", TS)], "bool"), ("r_lambda", [("a", "int")], "int"), ("r_star", [("a", "int")], "int"),
       ("r_missing", [("a", "int")], "int"), ("count_prefix", [("a", TS)], "int")]


def tuples(alpha, n):
    out = [()]
    for k in range(1, n + 1):
        out += list(itertools.product(alpha, repeat=k))
    return out


def subsets(n):
    return [[i for i in range(n) if m >> i & 1] for m in range(1 << n)]


def enc(v, ann):
    if ann == "int":
        return f"({v})%Z"
    if ann == "bool":
        return "true" if v else "false"
    if ann == "str":
        return cq_str(v) + "%string"
    if ann == TS:
        return "[" + "; ".join(cq_str(x) + "%string" for x in v) + "]"
    if ann == SS:
        return "[" + "; ".join(f"{x}%nat" for x in v) + "]"
    raise KeyError(ann)


def domain(ann):
    from uuid import UUID  # noqa: F401
    return {"int": [-1, 0, 1, 2], "bool": [False, True], "str": ["", "a", "x", "z", "y", "a~b", "~xa", "a~x__b~c", "w"],
            TS: tuples("ab", 3) + [("ab", "a"), ("abc", "", "b")], SS: subsets(3)}[ann]


EQ = {"int": "Z.eqb", "bool": "Bool.eqb", "str": "String.eqb", SS: "py_set_eqb Nat.eqb"}


def main() -> int:
    from uuid import UUID
    d = vlib.BUILD / "py2coq_selftest"
    (d / "src").mkdir(parents=True, exist_ok=True)
    fails = 0
    # ---- refused
    (d / "src" / "selftest_src.py").write_text(REFUSED + SRC)
    py2coq.ROOT[0] = d / "src"
    py2coq._MODULES.clear()
    reserved = py2coq._model_globals()
    for name, ps, r in BAD:
        try:
            py2coq.Fn(T(name, ps, r), reserved).translate()
            print(f"NOT REFUSED: {name}")
            fails += 1
        except py2coq.Unsupported as ex:
            print(f"refused  {name:24s} {ex}")
    # ---- translated and compared with CPython
    mod = types.ModuleType("selftest_src")
    exec(compile(SRC, "selftest_src", "exec"), mod.__dict__)
    out = [py2coq.PRELUDE, "Open Scope string_scope.\nOpen Scope list_scope.\nOpen Scope Z_scope.\n"]
    checks = []
    for t in GOOD:
        f = py2coq.Fn(t, reserved)
        out.append(f.translate())
        mutated = f.mutated
        cases = list(itertools.product(*[domain(a) for _, a in t.params]))
        terms = []
        for args in cases:
            pyargs = [({UUID(int=k + 1) for k in v} if a == SS else tuple(v) if a == TS else v) for v, (_, a) in zip(args, t.params)]
            try:
                r = getattr(mod, t.fn)(*pyargs)
                exc = None
            except Exception as ex:  # noqa: BLE001
                r, exc = None, type(ex).__name__
            back = lambda v, a: sorted(u.int - 1 for u in v) if a == SS else v  # noqa: E731
            call = f"{t.name} " + " ".join(enc(v, a) for v, (_, a) in zip(args, t.params))
            if f.partial:
                if exc:
                    terms.append(f"match {call} with Raise {exc} => true | _ => false end")
                else:
                    terms.append(f"match {call} with Ok v => {EQ[t.returns]} v {enc(back(r, t.returns), t.returns)} | _ => false end")
            elif mutated:
                if exc:
                    terms.append("false")
                    continue
                pat = "(" + ", ".join(["v"] + [f"m{k}" for k in range(len(mutated))]) + ")"
                conj = [f"{EQ[t.returns]} v {enc(back(r, t.returns), t.returns)}"]
                for k, p in enumerate(mutated):
                    i = [q for q, _ in t.params].index(p)
                    conj.append(f"py_set_eqb Nat.eqb m{k} {enc(back(pyargs[i], SS), SS)}")
                terms.append(f"let '{pat} := {call} in " + " && ".join(conj))
            else:
                terms.append("false" if exc else f"{EQ[t.returns]} ({call}) {enc(back(r, t.returns), t.returns)}")
        checks.append((t.name, cases, terms))
        out.append(f"Definition bad_{t.name} : list nat := map fst (filter (fun p => negb (snd p)) (combine (seq 0 {len(terms)}) [\n  "
                   + ";\n  ".join(terms) + "])).\n")
    out.append("Eval vm_compute in (" + ", ".join(f"bad_{n}" for n, _, _ in checks) + ").\n")
    v = d / "selftest.v"
    v.write_text("\n".join(out))
    ok, log = vlib.make_targets(["Model/PySem.vo", "Spec/Types.vo", "Model/LinkSel.vo"])
    rc, res = vlib.sh(["coqc"] + vlib.coq_project_args() + [str(v)], 900, cwd=d)
    if rc != 0:
        print("coqc FAILED on the generated definitions:\n" + res[-3000:])
        return 1
    import re
    m = re.search(r"=\s*\((.*)\)\s*:", res, re.S)
    lists = re.findall(r"\[([^\]]*)\]", m.group(1)) if m else []
    if len(lists) != len(checks):
        print("cannot parse:", res[-1000:])
        return 1
    for (name, cases, _), l in zip(checks, lists):
        bad = [int(x) for x in re.findall(r"\d+", l)]
        print(f"{'DIFFERS ' if bad else 'agrees  '} {name:16s} {len(cases)} inputs" + (f"  first differing input {cases[bad[0]]}" if bad else ""))
        fails += bool(bad)
    print("selftest", "FAILED" if fails else "ok")
    return 1 if fails else 0


if __name__ == "__main__":
    sys.exit(main())
