#!/usr/bin/env python3
"""Resolve a merge conflict in known_findings.json by taking the union of entries (by property+key); ours wins on clashes."""
import json, subprocess
ours = json.loads(subprocess.check_output(["git", "show", ":2:known_findings.json"]))
theirs = json.loads(subprocess.check_output(["git", "show", ":3:known_findings.json"]))
seen = {(f["property"], f["key"]) for f in ours["findings"]}
for f in theirs["findings"]:
    if (f["property"], f["key"]) not in seen:
        ours["findings"].append(f)
json.dump(ours, open("known_findings.json", "w"), indent=1)
print(len(ours["findings"]), "findings")
