"""C15 family `levels`: WHICH features of one split share a calculation step (dependency levels).

Generated requests: a root group (DataCreator) and one or two derived feature groups whose features depend on each other
INSIDE the group (chains, diamonds, fan-ins with unequal ancestor counts at equal depth, random layered DAGs, two groups
interleaved: a feature of A depends on a feature of B that depends on a feature of A).  All derived features have the
same (empty) group options, one framework and no declared type, so each feature group is ONE split (Model/Grouping.v);
some requests vary the CONTEXT of the requested features only.  The real `mloda.run_all` (SYNC) is observed through the
public API: every generated `calculate_feature` records `features.get_all_names()`, the result tables are returned.

Per feature group one case is evaluated in Coq (Model/LevelDepth.v chk_lcase): the calls are the levels of
PlannerA.split_levels in order; two features share a call IFF their depth (longest chain of in-group ancestors, the SPEC of
Props/C15.v C15_level_is_depth / C15_same_step_iff_same_depth) is equal; #calls = 1 + max depth (C15_levels_count); the
number of result tables = number of levels holding a requested feature.  The property sentence is also judged directly in
Python on the observation (independent depth computation)."""
from __future__ import annotations

import json
import logging
import random
import time
from typing import Any, Dict, List, Optional, Tuple

from lib import vlib

P = "C15"
REQ_L = ["MV.Model.Orch", "MV.Model.PlannerA", "MV.Model.LevelDepth"]
SRC = ["x0", "x1", "x2"]
_CALLS: List[Tuple[str, List[str]]] = []
_DEPS: Dict[str, List[str]] = {}
_CLS: Dict[str, type] = {}


def classes() -> Dict[str, type]:
    if not _CLS:
        import pandas as pd
        from mloda.provider import FeatureGroup, DataCreator
        from mloda.user import Feature
        from mloda_plugins.compute_framework.base_implementations.pandas.dataframe import PandasDataFrame

        def mk(prefix: str) -> type:
            def match(cls: Any, feature_name: Any, options: Any, data_access_collection: Any = None) -> bool:
                return str(feature_name) in _DEPS and str(feature_name).startswith(prefix)

            def input_features(self: Any, options: Any, feature_name: Any) -> Any:
                return {Feature(n) for n in _DEPS[str(feature_name)]}

            def calc(cls: Any, data: Any, features: Any) -> Any:
                names = sorted(set(str(n) for n in features.get_all_names()))
                _CALLS.append((prefix, names))
                for n in names:
                    data[n] = sum(data[d] for d in _DEPS[n])
                return data

            return type("K15Lv" + prefix.upper(), (FeatureGroup,),
                        {"input_features": input_features, "match_feature_group_criteria": classmethod(match),
                         "calculate_feature": classmethod(calc), "compute_framework_rule": classmethod(lambda cls: {PandasDataFrame})})

        def input_data(cls: Any) -> Any:
            return DataCreator(set(SRC))

        def calc_root(cls: Any, data: Any, features: Any) -> Any:
            return pd.DataFrame({c: [1, 2, 3] for c in SRC})

        _CLS["R"] = type("K15LvRoot", (FeatureGroup,), {"input_data": classmethod(input_data), "calculate_feature": classmethod(calc_root),
                                                         "compute_framework_rule": classmethod(lambda cls: {PandasDataFrame})})
        _CLS["a"] = mk("a")
        _CLS["b"] = mk("b")
    return _CLS


# ---------------------------------------------------------------- generators
def _src(rng: random.Random) -> str:
    return rng.choice(SRC)


def gen_chain(rng: random.Random) -> Dict[str, List[str]]:
    n = rng.randrange(2, 6)
    return {f"a{i}": ([f"a{i - 1}"] if i else [_src(rng)]) + ([_src(rng)] if rng.random() < 0.3 else []) for i in range(n)}


def gen_diamond(rng: random.Random) -> Dict[str, List[str]]:
    d = {"a0": [_src(rng)], "a1": ["a0"], "a2": ["a0"], "a3": ["a1", "a2"]}
    if rng.random() < 0.5:
        d["a4"] = ["a3"] if rng.random() < 0.5 else ["a1"]
    if rng.random() < 0.5:
        d["a5"] = [_src(rng)]
    return d


def gen_fanin(rng: random.Random) -> Dict[str, List[str]]:
    """layer 0: k >= 2 features on the source; layer 1: features over subsets of layer 0 of DIFFERENT sizes (equal depth,
    unequal ancestor counts); optionally a layer 2 likewise"""
    k = rng.randrange(2, 5)
    d = {f"a{i}": [_src(rng)] for i in range(k)}
    prev, nxt = list(d), k
    for _layer in range(rng.randrange(1, 3)):
        cur = []
        sizes = list(range(1, len(prev) + 1))
        rng.shuffle(sizes)
        for sz in sizes[:rng.randrange(2, 4)]:
            name = f"a{nxt}"
            nxt += 1
            d[name] = sorted(rng.sample(prev, sz))
            cur.append(name)
        prev = cur
        if len(prev) < 2:
            break
    return d


def gen_layered(rng: random.Random, prefixes: str = "a") -> Dict[str, List[str]]:
    """random layered DAG; with two prefixes the layers alternate / mix the two feature groups"""
    d: Dict[str, List[str]] = {}
    layers: List[List[str]] = []
    cnt = {p: 0 for p in prefixes}
    for li in range(rng.randrange(2, 5)):
        cur = []
        for _ in range(rng.randrange(1, 4)):
            p = rng.choice(prefixes)
            name = f"{p}{cnt[p]}"
            cnt[p] += 1
            if li == 0:
                ins = [_src(rng)]
            else:
                ins = [rng.choice(layers[-1])]
                for e in [x for lay in layers for x in lay]:
                    if e not in ins and rng.random() < 0.25:
                        ins.append(e)
                if rng.random() < 0.2:
                    ins.append(_src(rng))
            d[name] = sorted(set(ins))
            cur.append(name)
        layers.append(cur)
    return d


def gen_interleaved(rng: random.Random) -> Dict[str, List[str]]:
    """a feature of group a depends on a feature of group b that depends on a feature of group a"""
    d = {"a0": [_src(rng)], "b0": ["a0"], "a1": ["b0"], "a2": [_src(rng)]}
    if rng.random() < 0.6:
        d["b1"] = ["a1"] + (["b0"] if rng.random() < 0.5 else [])
    if rng.random() < 0.6:
        d["a3"] = ["a0", "a2"] if rng.random() < 0.5 else ["a2"]
    if rng.random() < 0.4:
        d["b2"] = [_src(rng)]
    return d


SHAPES = [("chain", gen_chain), ("diamond", gen_diamond), ("fanin", gen_fanin), ("fanin", gen_fanin), ("layered", gen_layered),
          ("layered2", lambda r: gen_layered(r, "ab")), ("interleaved", gen_interleaved)]


def gen_request(rng: random.Random) -> dict:
    shape, g = rng.choice(SHAPES)
    deps = g(rng)
    names = sorted(deps)
    consumers = {n for ins in deps.values() for n in ins}
    sinks = [n for n in names if n not in consumers]
    mode = rng.random()
    if mode < 0.5:
        req = sinks
    elif mode < 0.8:
        req = sorted(set(sinks) | set(rng.sample(names, rng.randrange(0, len(names) + 1))))
    else:
        req = sorted(rng.sample(names, rng.randrange(1, len(names) + 1)))
    ctx = rng.random() < 0.3
    return {"shape": shape, "deps": deps, "req": [[n, (i + 1 if ctx else 0)] for i, n in enumerate(req)]}


WITNESSES = [
    {"shape": "witness", "deps": {"a0": ["x0"], "a1": ["x1"], "a2": ["a0"], "a3": ["a0", "a1"]}, "req": [["a2", 0], ["a3", 0]]},
    {"shape": "witness", "deps": {"a0": ["x0"], "a1": ["x1"], "a2": ["a0"], "a3": ["a0", "a1"]}, "req": [["a2", 1], ["a3", 2]]},
    {"shape": "witness", "deps": {"a0": ["x0"], "a1": ["x1"], "a2": ["a0"], "a3": ["a0", "a1"]}, "req": [["a0", 0], ["a2", 0], ["a3", 0]]},
    {"shape": "witness", "deps": {"a0": ["x0"], "a1": ["a0"], "a2": ["a1"], "a3": ["a0"], "a4": ["a2", "a3"]}, "req": [["a4", 0]]},
    {"shape": "witness", "deps": {"a0": ["x0"], "b0": ["a0"], "a1": ["b0"], "b1": ["a1", "x1"], "a2": ["x2"]}, "req": [["b1", 0], ["a2", 0]]},
]


# ---------------------------------------------------------------- oracle helpers (python side)
def closure(deps: Dict[str, List[str]]) -> Dict[str, List[str]]:
    memo: Dict[str, set] = {}

    def anc(n: str) -> set:
        if n not in memo:
            s: set = set()
            for d in deps.get(n, []):
                s.add(d)
                s |= anc(d)
            memo[n] = s
        return memo[n]

    return {n: sorted(anc(n)) for n in deps}


def reachable(deps: Dict[str, List[str]], req: List[str]) -> List[str]:
    cl = closure(deps)
    out = set()
    for r in req:
        out.add(r)
        out |= set(cl[r])
    return sorted(n for n in out if n in deps)


def py_depth(cl: Dict[str, List[str]], F: List[str]) -> Dict[str, int]:
    fs = set(F)
    memo: Dict[str, int] = {}

    def dp(n: str) -> int:
        if n not in memo:
            memo[n] = max([1 + dp(a) for a in cl[n] if a in fs], default=0)
        return memo[n]

    return {n: dp(n) for n in F}


def step_cycle(deps: Dict[str, List[str]], reach: List[str]) -> bool:
    """do the steps the property demands (per feature group, one step per depth) wait for each other in a cycle?  (two feature
    groups that depend on each other feature-wise: mloda rejects such a plan at prepare, /repo 12fe10c; outside C15's domain)"""
    cl = closure(deps)
    step: Dict[str, Tuple[str, int]] = {}
    for p in sorted({nm[0] for nm in reach}):
        F = [nm for nm in reach if nm[0] == p]
        for f, d in py_depth(cl, F).items():
            step[f] = (p, d)
    edges: Dict[Tuple[str, int], set] = {s: set() for s in step.values()}
    for f, s_ in step.items():
        for a in cl[f]:
            if a in step and step[a] != s_:
                edges[s_].add(step[a])
    done: set = set()
    while True:
        ready = [s_ for s_ in edges if s_ not in done and edges[s_] <= done]
        if not ready:
            return len(done) != len(edges)
        done.update(ready)


def expected_value(deps: Dict[str, List[str]], n: str, memo: Dict[str, int]) -> int:
    if n in SRC:
        return 1
    if n not in memo:
        memo[n] = sum(expected_value(deps, d, memo) for d in deps[n])
    return memo[n]


# ---------------------------------------------------------------- running the real code
def run_case(case: dict) -> dict:
    from mloda.user import Feature, Options, PluginCollector, ParallelizationMode, mloda
    from mloda_plugins.compute_framework.base_implementations.pandas.dataframe import PandasDataFrame
    cls = classes()
    _DEPS.clear()
    _DEPS.update(case["deps"])
    _CALLS.clear()
    feats = [Feature(n, Options(context={"tag": t})) if t else Feature(n) for n, t in case["req"]]
    try:
        res = mloda.run_all(feats, compute_frameworks={PandasDataFrame},
                            plugin_collector=PluginCollector.enabled_feature_groups({cls["R"], cls["a"], cls["b"]}),
                            parallelization_modes={ParallelizationMode.SYNC})
    except Exception as e:  # noqa: BLE001
        return {"exc": f"{type(e).__name__}: {str(e)[:200]}", "calls": [list(c) for c in _CALLS], "tables": []}
    tables = [{str(c): int(r[c].iloc[0]) for c in r.columns} for r in res]
    return {"exc": None, "calls": [[p, ns] for p, ns in _CALLS], "tables": tables}


def nat_list(xs: List[int]) -> str:
    return "[" + "; ".join(str(x) for x in xs) + "]%nat"


def check_levels(rep: vlib.Reporter, rng: random.Random, n: int, report: Any) -> bool:
    logging.disable(logging.CRITICAL)
    found = False
    t0 = time.time()
    st: Dict[str, Any] = {"requests": 0, "group_cases": 0, "shapes": {}, "calls_per_group": {}, "max_depth": {}, "exceptions": 0,
                          "groups_with_equal_depth_unequal_ancestor_count": 0, "context_only_variation": 0, "two_group_requests": 0,
                          "interleaved_groups": 0, "rejected_cross_group_step_cycle": 0, "pairs_judged": 0, "pairs_same_depth_independent": 0}
    terms: List[str] = []
    descs: List[dict] = []
    cases = list(WITNESSES) + [gen_request(rng) for _ in range(n)]
    for case in cases:
        obs = run_case(case)
        rep.count()
        st["requests"] += 1
        st["shapes"][case["shape"]] = st["shapes"].get(case["shape"], 0) + 1
        deps = case["deps"]
        req = [r for r, _ in case["req"]]
        rp = {"kind": "levels", "case": case}
        if any(t for _, t in case["req"]):
            st["context_only_variation"] += 1
        if obs["exc"] and "wait for each other in a cycle" in obs["exc"] and step_cycle(deps, reachable(deps, req)):
            st["rejected_cross_group_step_cycle"] += 1      # the steps the property demands cannot be ordered: rejected at prepare
            continue
        if obs["exc"]:
            st["exceptions"] += 1
            report(rep, "levels-exc", "levels-exc:" + json.dumps(case)[:300],
                   f"run_all raised on a request with in-group dependencies {json.dumps(deps)} requested {req}: {obs['exc']}", rp)
            found = True
            continue
        cl = closure(deps)
        reach = reachable(deps, req)
        num = {nm: i for i, nm in enumerate(sorted(set(deps) | set(SRC)))}
        prefixes = sorted({nm[0] for nm in reach})
        st["two_group_requests"] += len(prefixes) > 1
        # values: every requested column is delivered exactly once with the right value
        memo: Dict[str, int] = {}
        delivered: Dict[str, int] = {}
        for t in obs["tables"]:
            for c, v in t.items():
                delivered[c] = delivered.get(c, 0) + 1
                if v != expected_value(deps, c, memo):
                    report(rep, "levels-value", "levels-value:" + json.dumps(case)[:300],
                           f"wrong value of {c}: {v} instead of {expected_value(deps, c, memo)} for deps {json.dumps(deps)} requested {req}", rp)
                    found = True
        if sorted(delivered) != sorted(set(req)) or any(k != 1 for k in delivered.values()):
            report(rep, "levels-delivery", "levels-delivery:" + json.dumps(case)[:300],
                   f"requested {req} but delivered columns {delivered} (deps {json.dumps(deps)})", rp)
            found = True
        for p in prefixes:
            F = [nm for nm in reach if nm[0] == p]
            calls = [ns for q, ns in obs["calls"] if q == p]
            greq = [r for r in req if r[0] == p]
            ntab = sum(1 for t in obs["tables"] if any(c[0] == p for c in t))
            dp = py_depth(cl, F)
            fs = set(F)
            intra = {f: [a for a in cl[f] if a in fs] for f in F}
            if any(any(a[0] != p and any(b in fs for b in cl.get(a, [])) for a in cl[f]) for f in F):
                st["interleaved_groups"] += 1
            if any(dp[f] == dp[g] and len(intra[f]) != len(intra[g]) for f in F for g in F):
                st["groups_with_equal_depth_unequal_ancestor_count"] += 1
            st["group_cases"] += 1
            st["calls_per_group"][len(calls)] = st["calls_per_group"].get(len(calls), 0) + 1
            md = max(dp.values())
            st["max_depth"][md] = st["max_depth"].get(md, 0) + 1
            if md >= 1:
                rep.nontrivial(["levels", sorted((f, intra[f]) for f in F)])
            # ---- the property sentence, judged directly on the observation
            callof = {f: [i for i, c in enumerate(calls) if f in c] for f in F}
            for f in F:
                if len(callof[f]) != 1:
                    report(rep, "levels-once", "levels-once:" + json.dumps(case)[:300],
                           f"feature {f} was handed to {len(callof[f])} calculate_feature calls of its group: calls {calls}, deps {json.dumps(deps)}, requested {req}", rp)
                    found = True
            for i, f in enumerate(F):
                for g in F[i + 1:]:
                    st["pairs_judged"] += 1
                    indep = f not in cl[g] and g not in cl[f]
                    together = bool(set(callof[f]) & set(callof[g]))
                    if together and not indep:
                        report(rep, "levels-dependent-together", "levels-dep:" + json.dumps(case)[:300],
                               f"{f} and {g} were computed in ONE call although one depends on the other: calls {calls}, deps {json.dumps(deps)}, requested {req}", rp)
                        found = True
                    if indep and dp[f] == dp[g]:
                        st["pairs_same_depth_independent"] += 1
                        if not together:
                            report(rep, "levels-split", "levels-split:" + json.dumps(case)[:300],
                                   f"{f} (in-group ancestors {intra[f]}) and {g} (in-group ancestors {intra[g]}) belong to one feature group, have equal group "
                                   f"options / framework / type, do not depend on each other and both sit at depth {dp[f]}, but were NOT computed together: "
                                   f"calculate_feature calls of the group {calls} (expected {1 + md} calls), result tables {[sorted(t) for t in obs['tables']]}; "
                                   f"deps {json.dumps(deps)}, requested {req}", rp)
                            found = True
            if len(calls) != 1 + md:
                report(rep, "levels-count", "levels-count:" + json.dumps(case)[:300],
                       f"feature group '{p}' was computed in {len(calls)} calls {calls}, the minimum (1 + longest in-group dependency chain) is {1 + md}; "
                       f"deps {json.dumps(deps)}, requested {req}", rp)
                found = True
            # ---- the model, evaluated in Coq
            try:
                cterm = "[" + "; ".join("[" + "; ".join(str(num[x]) for x in c) + "]" for c in calls) + "]"
            except KeyError:
                continue            # a call received an unknown name: reported above (levels-once / delivery)
            terms.append("{| lc_F := %s; lc_cl := [%s]; lc_calls := %s%%nat; lc_tables := %d%%nat; lc_req := %s |}" % (
                nat_list([num[f] for f in F]),
                "; ".join("(%d%%nat, %s)" % (num[f], nat_list([num[a] for a in cl[f]])) for f in F),
                cterm if calls else "[]", ntab, nat_list([num[r] for r in greq])))
            descs.append({"case": case, "group": p, "F": F, "calls": calls, "tables": ntab, "depth": dp})
            rep.sample({"family": "levels", "deps": deps, "requested": req, "group": p, "calls": calls, "depth": dp}, cap=8)
    bad, info = vlib.run_cases(P, "levels", REQ_L, "chk_lcase", terms, case_type="lcase", shard=150)
    for i in bad:
        d = descs[i]
        report(rep, "levels-model", "levels-model:" + json.dumps(d["case"])[:300],
               f"the calculate_feature calls of feature group '{d['group']}' are not the dependency levels of the model (split_levels / depth): "
               f"calls {d['calls']}, depth per feature {d['depth']}, result tables of the group {d['tables']}; deps {json.dumps(d['case']['deps'])}, "
               f"requested {[r for r, _ in d['case']['req']]}", {"kind": "levels", "case": d["case"]})
        found = True
    # how many generated splits separate the code's levels from the rejected rank-by-ancestor-count (seed C15_r5)?
    bad2, _ = vlib.run_cases(P, "levels_count_differs", REQ_L, "(fun c => negb (lc_count_differs c))", terms, case_type="lcase", shard=150)
    st["splits_where_rank_by_ancestor_count_differs"] = len(bad2)
    st["coq_cases"] = len(terms)
    st["seconds"] = round(time.time() - t0, 1)
    rep.add("levels", st)
    return found


def replay_case(r: dict) -> None:
    logging.disable(logging.CRITICAL)
    case = r["case"]
    obs = run_case(case)
    print("now: exception", obs["exc"])
    print("now: calculate_feature calls", obs["calls"])
    print("now: result tables", [sorted(t) for t in obs["tables"]])
    cl = closure(case["deps"])
    reach = reachable(case["deps"], [x for x, _ in case["req"]])
    for p in sorted({nm[0] for nm in reach}):
        F = [nm for nm in reach if nm[0] == p]
        print(f"expected levels of group {p} (by depth):", py_depth(cl, F))
