"""C14 value model tie (T2): native tables of the three base frameworks  <->  terms of coq/Model/ValueConv.v.

abstract(native) is the ABSTRACTION FUNCTION of the tie (trusted, ordinary Python): it reads a real pa.Table / pd.DataFrame /
list of dicts and writes down the model value it denotes -- column kinds / dtypes included, floats by their IEEE bits.
Nothing here compares values: the comparison `conv a b src = out` is evaluated inside Coq (chk_conv below) over the same
definitions Props/C14val.v is about.

JSON form (also the replay format):
   {"fw": "D", "rows": [[[key, cell], ...], ...]}                     python-dict rows, keys in dict order
   {"fw": "A", "cols": [[name, kind, [cell, ...]], ...]}              kind in null|int|float|str|bool
   {"fw": "P", "cols": [[name, dtype, [cell, ...]], ...]}             dtype in int|float|bool|str|obj
   {"fw": "X", "why": ...}                                            raised / not expressible
   cell: None | ["i", n] | ["f", hex] | ["s", str] | ["b", bool]
"""
from __future__ import annotations

import math
import struct
from typing import Any, Dict, List, Optional, Tuple

FW_LETTER = {"PythonDictFramework": "D", "PyArrowTable": "A", "PandasDataFrame": "P"}
FW_COQ = {"D": "FDict", "A": "FArrow", "P": "FPandas"}


class NotExpressible(Exception):
    pass


# ------------------------------------------------------------------------------------------------------------
# native -> JSON abstraction
# ------------------------------------------------------------------------------------------------------------

def cell_of(v: Any) -> Any:
    """A Python value as found in a dict / object column / to_pylist().  None and NaN stay DISTINCT here."""
    import numpy as np
    if v is None:
        return None
    if isinstance(v, (bool, np.bool_)):
        return ["b", bool(v)]
    if isinstance(v, (int, np.integer)):
        return ["i", int(v)]
    if isinstance(v, (float, np.floating)):
        return ["f", float(v).hex()]
    if isinstance(v, str):
        return ["s", v]
    raise NotExpressible(f"cell {type(v).__name__}")


def missing(v: Any) -> bool:
    import pandas as pd
    return v is None or v is pd.NA or v is pd.NaT or (isinstance(v, float) and math.isnan(v))


def abstract(native: Any) -> Dict[str, Any]:
    import pyarrow as pa
    import pandas as pd
    import numpy as np
    try:
        if isinstance(native, list):
            rows = []
            for r in native:
                if not isinstance(r, dict):
                    raise NotExpressible("non-dict row")
                row = []
                for k, v in r.items():
                    if not isinstance(k, str):
                        raise NotExpressible("non-str key")
                    row.append([k, cell_of(v)])
                rows.append(row)
            return {"fw": "D", "rows": rows}
        if isinstance(native, pa.Table):
            cols = []
            for name, col in zip(native.column_names, native.columns):
                ty = col.type
                vals = col.to_pylist()
                if pa.types.is_null(ty):
                    kind = "null"
                elif ty == pa.int64():
                    kind = "int"
                elif ty == pa.float64():
                    kind = "float"
                elif pa.types.is_string(ty) or pa.types.is_large_string(ty):
                    kind = "str"
                elif pa.types.is_boolean(ty):
                    kind = "bool"
                else:
                    raise NotExpressible(f"arrow type {ty}")
                cols.append([name, kind, [cell_of(v) for v in vals]])
            return {"fw": "A", "cols": cols}
        if isinstance(native, pd.DataFrame):
            cols = []
            for j, name in enumerate(native.columns):
                if not isinstance(name, str):
                    raise NotExpressible("non-str column name")
                s = native.iloc[:, j]
                dt = s.dtype
                vals = s.tolist()
                if dt == np.dtype("int64"):
                    kind, cells = "int", [cell_of(v) for v in vals]
                elif dt == np.dtype("float64"):
                    kind, cells = "float", [cell_of(v) for v in vals]
                elif dt == np.dtype("bool"):
                    kind, cells = "bool", [cell_of(v) for v in vals]
                elif isinstance(dt, pd.StringDtype) and isinstance(dt.na_value, float):
                    kind, cells = "str", [None if missing(v) else cell_of(v) for v in vals]
                elif dt == np.dtype("O"):
                    kind, cells = "obj", [None if missing(v) else cell_of(v) for v in vals]
                else:
                    raise NotExpressible(f"pandas dtype {dt}")
                cols.append([name, kind, cells])
            return {"fw": "P", "cols": cols}
        raise NotExpressible(f"type {type(native).__name__}")
    except NotExpressible as e:
        return {"fw": "X", "why": str(e)}


# ------------------------------------------------------------------------------------------------------------
# JSON abstraction -> Coq term
# ------------------------------------------------------------------------------------------------------------

def cq_string(s: str) -> str:
    if all(32 <= ord(ch) < 127 for ch in s):
        return '"' + s.replace('"', '""') + '"'
    b = s.encode("utf-8", "surrogatepass")
    return "(S_ [" + "; ".join(str(x) for x in b) + "]%N)"


def cq_float(hexs: str) -> str:
    f = float.fromhex(hexs)
    if math.isnan(f):
        return "S754_nan"
    bits = struct.unpack(">Q", struct.pack(">d", f))[0]
    sign = "true" if bits >> 63 else "false"
    ex = (bits >> 52) & 0x7FF
    frac = bits & ((1 << 52) - 1)
    if ex == 0x7FF:
        return f"(S754_infinity {sign})"
    if ex == 0 and frac == 0:
        return f"(S754_zero {sign})"
    if ex == 0:
        return f"(S754_finite {sign} {frac}%positive ({-1074})%Z)"
    return f"(S754_finite {sign} {frac | (1 << 52)}%positive ({ex - 1075})%Z)"


def cq_cell(c: Any) -> str:
    if c is None:
        return "VNull"
    t, v = c
    if t == "i":
        return f"(VInt ({v})%Z)"
    if t == "f":
        return f"(VFloat {cq_float(v)})"
    if t == "s":
        return f"(VStr {cq_string(v)})"
    if t == "b":
        return f"(VBool {'true' if v else 'false'})"
    raise ValueError(c)


def _opt(c: Any, want: str) -> str:
    if c is None:
        return "None"
    t, v = c
    if t != want:
        raise NotExpressible(f"cell {c} in a {want} column")
    if t == "i":
        return f"(Some ({v})%Z)"
    if t == "f":
        return f"(Some {cq_float(v)})"
    if t == "s":
        return f"(Some {cq_string(v)})"
    return f"(Some {'true' if v else 'false'})"


def _plain(c: Any, want: str) -> str:
    if c is None:
        raise NotExpressible(f"missing value in a {want} column that cannot hold one")
    t, v = c
    if t != want:
        raise NotExpressible(f"cell {c} in a {want} column")
    if t == "i":
        return f"({v})%Z"
    if t == "f":
        return cq_float(v)
    return "true" if v else "false"


def _lst(items: List[str]) -> str:
    return "[" + "; ".join(items) + "]"


def term(a: Dict[str, Any]) -> str:
    """anytable term.  Raises NotExpressible when the JSON value has no model counterpart."""
    fw = a["fw"]
    if fw == "X":
        return "(TFail true)" if a.get("rejected") else "(TFail false)"
    if fw == "D":
        return "(TDict " + _lst([_lst([f"({cq_string(k)}, {cq_cell(c)})" for k, c in row]) for row in a["rows"]]) + ")"
    if fw == "A":
        cols = []
        for name, kind, cells in a["cols"]:
            if kind == "null":
                if any(c is not None for c in cells):
                    raise NotExpressible("value in a null column")
                body = f"(ANull {len(cells)}%nat)"
            else:
                con, w = {"int": ("AInt", "i"), "float": ("AFloat", "f"), "str": ("AStr", "s"), "bool": ("ABool", "b")}[kind]
                body = f"({con} {_lst([_opt(c, w) for c in cells])})"
            cols.append(f"({cq_string(name)}, {body})")
        return "(TArrow " + _lst(cols) + ")"
    if fw == "P":
        cols = []
        for name, kind, cells in a["cols"]:
            if kind == "int":
                body = f"(PInt {_lst([_plain(c, 'i') for c in cells])})"
            elif kind == "float":
                body = f"(PFloat {_lst([_plain(c, 'f') for c in cells])})"
            elif kind == "bool":
                body = f"(PBool {_lst([_plain(c, 'b') for c in cells])})"
            elif kind == "str":
                body = f"(PStr {_lst([_opt(c, 's') for c in cells])})"
            else:
                body = f"(PObj {_lst([cq_cell(c) for c in cells])})"
            cols.append(f"({cq_string(name)}, {body})")
        return "(TPandas " + _lst(cols) + ")"
    raise ValueError(fw)


def count_cells(a: Dict[str, Any], into: Dict[str, int]) -> None:
    def one(c: Any) -> None:
        k = "null" if c is None else {"i": "int", "f": "float", "s": "str", "b": "bool"}[c[0]]
        if c is not None and c[0] == "f" and c[1] == "nan":
            k = "nan"
        into[k] = into.get(k, 0) + 1
    if a["fw"] == "D":
        for row in a["rows"]:
            for _, c in row:
                one(c)
    elif a["fw"] in ("A", "P"):
        for _, _, cells in a["cols"]:
            for c in cells:
                one(c)


# ------------------------------------------------------------------------------------------------------------
# checker, evaluated inside coqc over Model/ValueConv.v + Spec/ValueConv.v
# ------------------------------------------------------------------------------------------------------------
REQ = ["MV.Model.Transform", "MV.Model.ValueConv", "MV.Spec.ValueConv", "MV.Gen.Registry", "MV.Model.ValueConvReg"]
CASE_TY = "ccase"

EXTRA = r"""
From Coq Require Import SpecFloat Ascii.
From Coq Require PrimFloat FloatOps Uint63.
Open Scope Z_scope.
Definition S_ (l : list N) : string := string_of_list_ascii (map ascii_of_N l).
Fixpoint leqb {A} (e : A -> A -> bool) (x y : list A) : bool :=
  match x, y with [] , [] => true | a :: x', b :: y' => e a b && leqb e x' y' | _, _ => false end.
Definition oeqb {A} (e : A -> A -> bool) (x y : option A) : bool :=
  match x, y with Some a, Some b => e a b | None, None => true | _, _ => false end.
Definition cell_eqb (a b : cell) : bool :=
  match a, b with
  | VNull, VNull => true | VInt x, VInt y => Z.eqb x y | VFloat x, VFloat y => sf_eqb x y
  | VStr x, VStr y => String.eqb x y | VBool x, VBool y => Bool.eqb x y | _, _ => false end.
Definition acol_eqb (a b : acol) : bool :=
  match a, b with
  | ANull n, ANull m => Nat.eqb n m | AInt x, AInt y => leqb (oeqb Z.eqb) x y | AFloat x, AFloat y => leqb (oeqb sf_eqb) x y
  | AStr x, AStr y => leqb (oeqb String.eqb) x y | ABool x, ABool y => leqb (oeqb Bool.eqb) x y | _, _ => false end.
Definition pcol_eqb (a b : pcol) : bool :=
  match a, b with
  | PInt x, PInt y => leqb Z.eqb x y | PFloat x, PFloat y => leqb sf_eqb x y | PBool x, PBool y => leqb Bool.eqb x y
  | PStr x, PStr y => leqb (oeqb String.eqb) x y | PObj x, PObj y => leqb cell_eqb x y | _, _ => false end.
Definition named_eqb {A} (e : A -> A -> bool) (a b : string * A) : bool := String.eqb (fst a) (fst b) && e (snd a) (snd b).
Definition any_eqb (a b : anytable) : bool :=
  match a, b with
  | TDict x, TDict y => leqb (leqb (named_eqb cell_eqb)) x y
  | TArrow x, TArrow y => leqb (named_eqb acol_eqb) x y
  | TPandas x, TPandas y => leqb (named_eqb pcol_eqb) x y
  | TFail r, TFail r' => Bool.eqb r r'
  | _, _ => false end.

(* hardware cross-check of the widening: the kernel's primitive int63 -> binary64 conversion (PrimFloat.of_uint63, the
   machine's round-to-nearest-even) against SpecFloat.binary_normalize, on every integer that occurs in a case *)
Definition hw_z2f (z : Z) : spec_float :=
  if z <? 0 then SFopp (FloatOps.Prim2SF (PrimFloat.of_uint63 (Uint63.of_Z (- z))))
  else FloatOps.Prim2SF (PrimFloat.of_uint63 (Uint63.of_Z z)).
Definition hw_ok_cell (c : cell) : bool :=
  match c with VInt z => if (Z.abs z <? 2 ^ 63) then sf_eqb (hw_z2f z) (z2f z) else true | _ => true end.
Definition hw_ok (x : anytable) : bool := forallb (fun c => forallb hw_ok_cell (snd c)) (view_of x).

Inductive ccase :=
| CLeg (a b : fwk) (src out : anytable)        (* one real conversion a -> b (direct transformer or the step loop) *)
| CTrip (a b : fwk) (src back : anytable)      (* real a -> b -> a *)
| CRound (a b : fwk) (src out back : anytable). (* both legs and the round trip of one real a -> b -> a *)

(* where the model itself changes the representation in a way the property merely tolerates or the unchanged tree is known
   to lose something: a column with a null and otherwise only integers while pandas is on the route (superset of kf_widening), an empty
   table on its way to list-of-dicts (`a column with a null whose other cells are integers`: an all-null int64 column counts).  THERE a real result that differs from the model is still accepted when it satisfies
   the specification (a repair of the known findings must not raise an alarm); everywhere else: the model, bit for bit. *)
Definition only_int (cs : list cell) : bool := forallb (fun c => match norm c with VInt _ | VNull => true | _ => false end) cs.
Definition dom_route (a b : fwk) (v : view) : bool :=
  (uses_pandas a b && existsb (fun c => existsb is_null (snd c) && only_int (snd c)) v) || (fwk_eqb b FDict && kf_empty v).
Definition chk_leg_exact (a b : fwk) (src out : anytable) : bool :=
  hw_ok src &&
  any_eqb (route a b src) (conv a b src) &&                       (* routing model o value model = the six conversions *)
  any_eqb (conv a b src) out.                                     (* the real result IS the model's, bit for bit *)
Definition chk_leg (a b : fwk) (src out : anytable) : bool :=
  chk_leg_exact a b src out
  || (dom_route a b (view_of src) && valid_of b out && pres (view_of src) (view_of out)).   (* ... or the specification *)
Definition chk_trip (a b : fwk) (src back : anytable) : bool :=
  kf_route_exact a b (view_of src) || pres (view_of src) (view_of back).   (* the property itself, on real data *)
Definition chk_conv (c : ccase) : bool :=
  match c with
  | CLeg a b src out => chk_leg a b src out
  | CTrip a b src back => chk_trip a b src back
  | CRound a b src out back => chk_leg a b src out && chk_leg b a out back && chk_trip a b src back
  end.
(* the same without the specification alternative: is the MODEL still what the code does? *)
Definition chk_conv_exact (c : ccase) : bool :=
  match c with
  | CLeg a b src out => chk_leg_exact a b src out
  | CTrip a b src back => true
  | CRound a b src out back => chk_leg_exact a b src out && chk_leg_exact b a out back
  end.
Close Scope Z_scope.
"""


def leg_case(a: str, b: str, src: Dict[str, Any], out: Dict[str, Any]) -> str:
    return f"(CLeg {FW_COQ[a]} {FW_COQ[b]} {term(src)} {term(out)})"


def trip_case(a: str, b: str, src: Dict[str, Any], back: Dict[str, Any]) -> str:
    return f"(CTrip {FW_COQ[a]} {FW_COQ[b]} {term(src)} {term(back)})"


def round_case(a: str, b: str, src: Dict[str, Any], out: Dict[str, Any], back: Dict[str, Any]) -> str:
    return f"(CRound {FW_COQ[a]} {FW_COQ[b]} {term(src)} {term(out)} {term(back)})"


# ------------------------------------------------------------------------------------------------------------
# JSON abstraction -> native (replays; ragged python-dict tables)
# ------------------------------------------------------------------------------------------------------------

def py_of(c: Any) -> Any:
    if c is None:
        return None
    t, v = c
    return float.fromhex(v) if t == "f" else v


def native_of(a: Dict[str, Any]) -> Any:
    import pyarrow as pa
    import pandas as pd
    import numpy as np
    if a["fw"] == "D":
        return [{k: py_of(c) for k, c in row} for row in a["rows"]]
    if a["fw"] == "A":
        ty = {"null": pa.null(), "int": pa.int64(), "float": pa.float64(), "str": pa.string(), "bool": pa.bool_()}
        arrays = [pa.array([py_of(c) for c in cells], type=ty[kind], from_pandas=False) for _, kind, cells in a["cols"]]
        names = [name for name, _, _ in a["cols"]]
        return pa.Table.from_arrays(arrays, names=names) if names else pa.table({})
    if a["fw"] == "P":
        data = {}
        n = 0
        for name, kind, cells in a["cols"]:
            n = len(cells)
            vals = [py_of(c) for c in cells]
            if kind == "int":
                data[name] = np.array(vals, dtype="int64")
            elif kind == "float":
                data[name] = np.array(vals, dtype="float64")
            elif kind == "bool":
                data[name] = np.array(vals, dtype="bool")
            elif kind == "str":
                data[name] = pd.array([np.nan if v is None else v for v in vals], dtype=pd.StringDtype(na_value=np.nan))
            else:
                data[name] = pd.Series(vals, dtype=object, index=pd.RangeIndex(n))
        return pd.DataFrame(data, index=pd.RangeIndex(n)) if data else pd.DataFrame(index=pd.RangeIndex(0))
    raise ValueError(a["fw"])


# ------------------------------------------------------------------------------------------------------------
# the tie
# ------------------------------------------------------------------------------------------------------------
LETTER_FW = {v: k for k, v in FW_LETTER.items()}
_TFS: Dict[Tuple[str, str], Any] = {}
_DIRECT: Dict[Tuple[str, str], Any] = {}


def real_conv(a: str, b: str, native: Any, how: str = "tfs") -> Tuple[Dict[str, Any], Any]:
    """One real conversion a -> b (letters).  how = "tfs": TransformFrameworkStep.transform (direct or two hops);
    "direct": the registered transformer class called through BaseTransformer.transform.  Returns (abstraction, native)."""
    from harness import c14 as H
    f1, f2 = LETTER_FW[a], LETTER_FW[b]
    try:
        if how == "direct":
            if (a, b) not in _DIRECT:
                from mloda.core.abstract_plugins.components.framework_transformer.cfw_transformer import ComputeFrameworkTransformer
                e1, e2 = H.cfw_class(f1).expected_data_framework(), H.cfw_class(f2).expected_data_framework()
                _DIRECT[(a, b)] = (ComputeFrameworkTransformer().transformer_map.get((e1, e2)), e1, e2)
            t, e1, e2 = _DIRECT[(a, b)]
            if t is None:
                return {"fw": "X", "why": "no direct transformer"}, None
            out = t.transform(e1, e2, native, None)
        else:
            if (a, b) not in _TFS:
                _TFS[(a, b)] = (H.new_tfs(H.cfw_class(f1), H.cfw_class(f2)), H.new_cfw(f2))
            step, cfw = _TFS[(a, b)]
            out = step.transform(cfw, native, set())
    except Exception as e:  # noqa: BLE001
        msg = f"{type(e).__name__}: {str(e)[:160]}"
        return {"fw": "X", "why": msg, "rejected": isinstance(e, ValueError) and "Inconsistent schema" in str(e)}, None
    ab = abstract(out)
    if ab["fw"] != b:
        return {"fw": "X", "why": f"result is {type(out).__name__} ({ab.get('why', ab['fw'])})"}, None
    return ab, out


def ragged(rng: Any, rows: List[List[List[Any]]]) -> Tuple[str, List[List[List[Any]]]]:
    """A python-dict table (JSON rows) whose rows no longer all have the key set of row 0 -- or only a different key order."""
    rows = [list(map(list, r)) for r in rows]
    op = rng.choice(["drop", "extra", "drop0", "extra0", "reorder", "rename"])
    i = rng.randrange(1, len(rows))
    if op == "drop":
        rows[i].pop(rng.randrange(len(rows[i])))
    elif op == "extra":
        rows[i].insert(rng.randrange(len(rows[i]) + 1), ["zz_extra", ["i", 7]])
    elif op == "drop0":
        rows[0].pop(rng.randrange(len(rows[0])))
    elif op == "extra0":
        rows[0].append(["zz_extra", None])
    elif op == "reorder":
        rows[i] = list(reversed(rows[i]))
    else:
        j = rng.randrange(len(rows[i]))
        rows[i][j] = [rows[i][j][0] + "_", rows[i][j][1]]
    return op, rows


def run_tie(rep: Any, seed: int, big: bool, tables: List[Tuple[Dict[str, Any], bool]]) -> bool:
    """Model conversions evaluated inside Coq against the real ones, all six directions, forward leg / back leg / round
    trip.  Returns True when a violation with a concrete table was reported."""
    import random
    import time
    import json
    from lib import vlib
    from harness import c14_values as V
    t0 = time.time()
    rng = random.Random(seed * 104729 + 1414)          # own stream: the value tests' PRNG sequence is untouched
    cases: List[str] = []
    meta: List[Dict[str, Any]] = []
    st: Dict[str, Any] = {"tables": 0, "sources": 0, "sources_outside_model": {}, "legs": 0, "round_trips": 0, "directions": {},
                          "cells_by_kind": {}, "ragged_dict_tables": 0, "real_rejected": 0, "real_raised_other": 0,
                          "result_not_expressible": 0, "via": {"tfs": 0, "direct": 0}}
    found = False

    def note_leg(a: str, b: str, src: Dict[str, Any], out: Dict[str, Any]) -> None:
        st["legs"] += 1
        st["directions"][f"{a}->{b}"] = st["directions"].get(f"{a}->{b}", 0) + 1
        count_cells(src, st["cells_by_kind"])
        if out["fw"] == "X":
            st["real_rejected" if out.get("rejected") else "real_raised_other"] += 1

    def one_source(src: Dict[str, Any], native: Any, a: str, info: Dict[str, Any], hows: List[str]) -> None:
        st["sources"] += 1
        for b in "DAP":
            if b == a:
                continue
            for how in hows:
                if how == "direct" and "A" not in (a, b):
                    continue
                st["via"][how] += 1
                out, out_native = real_conv(a, b, native, how)
                note_leg(a, b, src, out)
                m = {"a": a, "b": b, "src": src, "out": out, **info, "how": how}
                if out_native is None:
                    cases.append(leg_case(a, b, src, out))
                    meta.append({"case": "leg", **m})
                    continue
                back, _ = real_conv(b, a, out_native, how)
                note_leg(b, a, out, back)
                try:
                    cases.append(round_case(a, b, src, out, back))
                    st["round_trips"] += 1
                except NotExpressible as e:             # a real result without counterpart in the model: a disagreement
                    st["result_not_expressible"] += 1
                    cases.append(leg_case(a, b, src, {"fw": "X", "why": str(e)}))
                meta.append({"case": "round", **m, "back": back})

    n_fixed = sum(1 for _, f in tables if f)
    n_gen = n_fixed + (4000 if big else 220)          # index bound into `tables` (corpus first)
    for ti, (t, is_fixed) in enumerate(tables):
        if not is_fixed and ti >= n_gen:
            break
        st["tables"] += 1
        for f1 in V.FWS:
            a = FW_LETTER[f1]
            vs = [v for v in V.variants(f1, t) if not v.startswith("nullable")]      # extension dtypes: not modelled
            vs = vs if is_fixed else [rng.choice(vs)]
            for variant in vs:
                native = V.build(f1, t, variant)
                src = abstract(native)
                if src["fw"] == "X":
                    k = src["why"]
                    st["sources_outside_model"][k] = st["sources_outside_model"].get(k, 0) + 1
                    continue
                try:
                    term(src)
                except NotExpressible as e:
                    st["sources_outside_model"][str(e)[:40]] = st["sources_outside_model"].get(str(e)[:40], 0) + 1
                    continue
                one_source(src, native, a, {"table": t, "f1": f1, "variant": variant}, ["tfs", "direct"] if is_fixed else ["tfs"])
        # the schema check: the same table as python-dict rows with one row's keys disturbed
        if t["n"] >= 2 and t["cols"] and (is_fixed or ti % 3 == 0):
            base = abstract(V.build("PythonDictFramework", t, "plain"))
            op, rows = ragged(rng, base["rows"])
            src = {"fw": "D", "rows": rows}
            st["ragged_dict_tables"] += 1
            one_source(src, native_of(src), "D", {"table": t, "f1": "PythonDictFramework", "variant": "ragged:" + op}, ["tfs", "direct"])

    shard = max(60, -(-len(cases) // max(1, vlib.NCPU - 2)))
    bad, info = vlib.run_cases("C14", "conv", REQ, "chk_conv", cases, case_type=CASE_TY, extra_defs=EXTRA, shard=shard)
    rep.count(len(cases))
    # inside the tolerance domain a result that satisfies the specification is accepted: count how often that (and not
    # equality with the model) is what made the case pass -- > 0 means the model no longer describes the code there
    badset = set(bad)
    dom = [i for i, m in enumerate(meta) if i not in badset and _in_tolerance_domain(m)]
    st["cases_in_tolerance_domain"] = len(dom)
    cap = 2000 if big else 240
    if len(dom) > cap:                                  # evenly thinned: a repair changes every case of the domain alike
        dom = [dom[(k * len(dom)) // cap] for k in range(cap)]
    stale: List[int] = []
    if dom:
        sbad, _ = vlib.run_cases("C14", "conv_exact", REQ, "chk_conv_exact", [cases[i] for i in dom], case_type=CASE_TY,
                                 extra_defs=EXTRA, shard=max(60, -(-len(dom) // max(1, vlib.NCPU - 2))))
        stale = [dom[k] for k in sbad]
    st["tolerance_domain_cases_re_evaluated_against_the_model_alone"] = len(dom)
    st["accepted_by_specification_not_by_model"] = len(stale)
    if stale:
        m = meta[stale[0]]
        rep.notes.append(f"value model: {len(stale)} real conversions in the tolerance domain (nullable integer column through pandas / empty "
                         f"table to list-of-dicts) differ from Model/ValueConv.v but satisfy the specification -- the code was changed "
                         f"there (repair of a known finding?); the theorems of Props/C14val.v no longer describe it. First: "
                         f"{m['a']}->{m['b']} on {json.dumps(m['src'], ensure_ascii=True)[:200]} gave {json.dumps(m['out'], ensure_ascii=True)[:200]}")
    # which part of a failing round case disagrees (second, tiny Coq run over the reported ones only)
    rep_bad = bad[:6]
    parts: List[Tuple[int, str, str]] = []
    for i in rep_bad:
        m = meta[i]
        if m["case"] == "round":
            parts.append((i, "forward leg", leg_case(m["a"], m["b"], m["src"], m["out"])))
            try:
                parts.append((i, "back leg", leg_case(m["b"], m["a"], m["out"], m["back"])))
                parts.append((i, "round trip not preserved", trip_case(m["a"], m["b"], m["src"], m["back"])))
            except NotExpressible as e:
                parts.append((i, f"real result outside the model ({e})", "(CTrip FDict FArrow (TFail false) (TFail true))"))
    failing: Dict[int, List[str]] = {}
    if parts:
        pbad, _ = vlib.run_cases("C14", "conv_diag", REQ, "chk_conv", [p[2] for p in parts], case_type=CASE_TY, extra_defs=EXTRA)
        for k in pbad:
            failing.setdefault(parts[k][0], []).append(parts[k][1])
    for i in rep_bad:
        m = meta[i]
        found = True
        which = ", ".join(failing.get(i, [])) or ("forward leg" if m["case"] == "leg" else "?")
        what = (f"value model vs real conversion {m['a']}->{m['b']}" + (f"->{m['a']}" if m["case"] == "round" else "") +
                f" [{which}] via {m.get('how')}, source {m.get('f1')}[{m.get('variant')}]: Model/ValueConv.v and the real transformers "
                f"disagree on {json.dumps(m['src'], ensure_ascii=True)[:300]}; real result {json.dumps(m['out'], ensure_ascii=True)[:300]}"
                + (f"; real way back {json.dumps(m['back'], ensure_ascii=True)[:300]}" if "back" in m else ""))
        rep.finding(f"conv:{m['a']}->{m['b']}:{which}:{json.dumps(m['src'], ensure_ascii=True)[:160]}", what,
                    {"kind": "conv", "failing_parts": failing.get(i, []), **{k: m[k] for k in m if k != "table"}})
    for m in meta:
        if any(c is None or c[0] != "i" or abs(c[1]) >= 2 ** 53 for c in _cells(m["src"])):
            rep.nontrivial(("conv", m["a"], m["b"], m["src"]))
    st.update({**info, "disagreements": len(bad), "wall_s": round(time.time() - t0, 1)})
    rep.add("value_model_correspondence", st)
    return found


def _nullable_int(a: Dict[str, Any]) -> bool:
    if a["fw"] == "D":
        if not a["rows"]:
            return False
        cols = [[dict((k, c) for k, c in row).get(k0) for row in a["rows"]] for k0, _ in a["rows"][0]]
    elif a["fw"] in ("A", "P"):
        cols = [cells for _, _, cells in a["cols"]]
    else:
        return False
    def null(c: Any) -> bool:
        return c is None or (c[0] == "f" and c[1] == "nan")
    return any(any(null(c) for c in col) and all(null(c) or c[0] == "i" for c in col) for col in cols)


def _empty_with_columns(a: Dict[str, Any]) -> bool:
    return a["fw"] in ("A", "P") and bool(a["cols"]) and len(a["cols"][0][2]) == 0


def _in_tolerance_domain(m: Dict[str, Any]) -> bool:
    """Python-side over-approximation of dom_route for either leg (only selects which cases are re-evaluated)."""
    tabs = [m["src"], m["out"]] + ([m["back"]] if "back" in m else [])
    pandas = "P" in (m["a"], m["b"])
    return any((pandas and _nullable_int(x)) or _empty_with_columns(x) for x in tabs)


def _cells(a: Dict[str, Any]) -> List[Any]:
    if a["fw"] == "D":
        return [c for row in a["rows"] for _, c in row]
    return [c for _, _, cells in a.get("cols", []) for c in cells]


def replay_conv(r: Dict[str, Any]) -> None:
    """Re-run one recorded case against the current tree and re-evaluate it in Coq."""
    import json
    from lib import vlib
    a, b, src = r["a"], r["b"], r["src"]
    native = native_of(src)
    out, out_native = real_conv(a, b, native, r.get("how", "tfs"))
    print("source :", json.dumps(src, ensure_ascii=True)[:1500])
    print("real   :", json.dumps(out, ensure_ascii=True)[:1500])
    names = ["forward leg"]
    cases = [leg_case(a, b, src, out)]
    if out_native is not None:
        back, _ = real_conv(b, a, out_native, r.get("how", "tfs"))
        print("back   :", json.dumps(back, ensure_ascii=True)[:1500])
        cases += [leg_case(b, a, out, back), trip_case(a, b, src, back)]
        names += ["back leg", "round trip preserved"]
    bad, _ = vlib.run_cases("C14", "conv_replay", REQ, "chk_conv", cases, case_type=CASE_TY, extra_defs=EXTRA)
    model = vlib.coq_eval("C14", "conv_replay_eval", REQ, EXTRA + f"\nEval vm_compute in (conv {FW_COQ[a]} {FW_COQ[b]} {term(src)}).")
    print("model  :", " ".join(model.split())[:2000])
    print("now:", "model and implementation agree" if not bad else "DISAGREE on " + ", ".join(names[i] for i in bad))
