"""Correspondence between the real planner and its Coq model for Stage B1 (coq/Model/PlannerB.v), and the Coq classifier
of the three known planner-defect domains on exported plans (coq/Model/PlanDefects.v).

Fragment B1: every feature group has ONE explicit compute framework, the groups of a request may use several frameworks
(2-3 among PyArrowTable, PandasDataFrame, PythonDictFramework); no Links, no global filter, no declared data types,
default options only.  Here the real planner inserts TransformFrameworkSteps (ExecutionPlan.add_tfs).

For each such spec (harness/universe.py format) the REAL mloda.prepare is run and observed without source hooks, in this
process and in fresh subprocesses under several PYTHONHASHSEED values:
    engine.feature_link_parents (dict order, set orders)      -> the model's input graph, in the engine's own orders
    graph.queue, graph.parent_to_children_mapping             -> intermediate results
    per FeatureGroupStep: features.any_uuid and list(graph.parent_to_children_mapping[any_uuid])
                                                              -> the order oracle of the model (PlannerB.ord_obs): which
                                                                 feature represents the step, and in which order add_tfs
                                                                 iterated its parents
    the execution plan in plan order: FeatureGroupSteps (uuids, required_uuids, requested, children_if_root, framework,
    group, any_uuid, tfs_ids) and TransformFrameworkSteps (from/to framework, from/to group, required_uuids)
and compared inside Coq (vm_compute, vlib.run_cases) with the model evaluated on the observed graph UNDER THE OBSERVED
ORDERS - so the model has to reproduce the real plan exactly, defects included:
    chkB_request  the engine's graph = request_graph(definitions, request) up to node / input order
    chkB_graph    the hypotheses of the theorems (graph_okb, group_cfwb)
    chkB_queue / chkB_closure / chkB_ptab   the DFS queue exactly, parent_to_children_mapping as sets, the observed parent
                  orders are orders of the model's closure sets
    chkB_plan     the plan, step by step IN PLAN ORDER (kind, every field; lists inside a step as sets), and the accept /
                  reject decision of the validation
Uuids are renamed canonically: features 2*name_index (+1 for the requested copy); kept transform steps tbase + 2k in plan
order, dangling tfs_ids (uuids of transform steps that were constructed and dropped) tbase + 2j + 1 in plan order of their
consumers - exactly the numbering of the model.

check_plans(specs, rep_prefix, run_accepted=0, hash_seeds=(1, 2)) -> list of disagreements (dicts: spec, stage, what, hash_seed)
classify(plans, adjs=None) -> per exported plan (harness.universe.export_plan) the set of known-finding keys, evaluated in Coq
`python3 -m harness.planner_b [n] [seed]` self test;  `python3 -m harness.planner_b compare [n] [seed]` compares classify
with the three Python predicates of harness/universe.py.
"""
from __future__ import annotations

import json
import logging
import os
import random
import subprocess
import sys
from typing import Any, Dict, List, Optional, Sequence, Set, Tuple

from lib import vlib
from lib.vlib import cq_bool, cq_list, cq_nat
from harness import planner_a
from harness.planner_a import Tables

REQ = ["MV.Model.Orch", "MV.Model.OrchCheck", "MV.Model.PlannerA", "MV.Model.PlannerB"]
REQ_D = REQ + ["MV.Model.PlanDefects"]
STAGES = ["chkB_request", "chkB_graph", "chkB_queue", "chkB_closure", "chkB_ptab", "chkB_plan"]
LAST_INFO: Dict[str, Any] = {}
OUTCOME = planner_a.OUTCOME
CFWS = ["PyArrowTable", "PandasDataFrame", "PythonDictFramework"]


# ------------------------------------------------------------------------------------------------------------
# fragment and generators
# ------------------------------------------------------------------------------------------------------------

def in_fragment(spec: Dict[str, Any]) -> bool:
    """Stage B1: link-free, every group has one explicit framework, default options, no declared types, unique names."""
    if spec.get("links") or spec.get("api_frameworks"):
        return False
    cfws = {g.get("cfw") for g in spec["groups"]}
    if None in cfws or not cfws:
        return False
    for g in spec["groups"]:
        if g["kind"] not in ("root", "derived") or g.get("index") or g.get("cols_by_opt"):
            return False
        if g["kind"] == "derived":
            for d in g["features"].values():
                if d.get("opt") or d.get("input_opt"):
                    return False
    for r in spec["request"]:
        if not isinstance(r, str) and (r.get("opt") or r.get("type")):
            return False
    names = [n for g in spec["groups"] for n in (g["cols"] if g["kind"] == "root" else g["features"])]
    return len(names) == len(set(names))


def multi_framework(spec: Dict[str, Any]) -> bool:
    return len({g.get("cfw") for g in spec["groups"]}) > 1


def _feat(ins: Sequence[str], rng: Optional[random.Random] = None) -> Dict[str, Any]:
    return {"inputs": list(ins), "c0": (rng.randrange(-3, 4) if rng else 0), "coefs": [(rng.choice([1, 1, 2, -1]) if rng else 1) for _ in ins]}


def _root(cfw: str, cols: Sequence[str], name: str = "R0") -> Dict[str, Any]:
    return {"name": name, "kind": "root", "cfw": cfw, "cols": {c: [i + 1, i + 2, i + 4] for i, c in enumerate(cols)}}


def gen_chain(rng: random.Random, n_cfw: int = 2) -> Dict[str, Any]:
    """A chain of 2-5 single-feature groups over a root, frameworks alternating among n_cfw (round trips included)."""
    cf = rng.sample(CFWS, n_cfw)
    k = rng.randrange(2, 6)
    groups = [_root(rng.choice(cf), ["a"])]
    prev = "a"
    for i in range(k):
        extra = ["a"] if (i > 0 and rng.random() < 0.3) else []
        groups.append({"name": f"D{i + 1}", "kind": "derived", "cfw": rng.choice(cf), "features": {f"f{i + 1}": _feat([prev] + extra, rng)}})
        prev = f"f{i + 1}"
    req = [prev] + ([f"f{rng.randrange(1, k + 1)}"] if rng.random() < 0.4 else [])
    return {"groups": groups, "request": sorted(set(req), key=req.index)}


def gen_fanin(rng: random.Random, n_cfw: int = 2) -> Dict[str, Any]:
    """Producer groups on several frameworks (over one root), some with two dependency levels; one or two consumer groups
    whose features take 1-3 inputs from ANY producer feature / root column: several parents per consumer (which parent
    the transform step waits for, which equal transform step is dropped), several features per consumer step (any_uuid)."""
    cf = rng.sample(CFWS, n_cfw)
    cols = ["a", "b"][: rng.randrange(1, 3)]
    groups = [_root(rng.choice(cf), cols)]
    pool: List[str] = list(cols)
    fid = 0
    for gi in range(rng.randrange(1, 4)):
        feats: Dict[str, Any] = {}
        for _ in range(rng.randrange(1, 4)):
            fid += 1
            src = pool + list(feats) if rng.random() < 0.6 else list(cols) + list(feats)
            feats[f"p{fid}"] = _feat(rng.sample(src, rng.randrange(1, min(2, len(src)) + 1)), rng)
        groups.append({"name": f"P{gi + 1}", "kind": "derived", "cfw": rng.choice(cf), "features": feats})
        pool += list(feats)
    cons: List[str] = []
    for gi in range(rng.randrange(1, 3)):
        feats = {}
        for _ in range(rng.randrange(1, 4)):
            fid += 1
            src = pool + list(feats)
            feats[f"c{fid}"] = _feat(rng.sample(src, rng.randrange(1, min(3, len(src)) + 1)), rng)
        groups.append({"name": f"C{gi + 1}", "kind": "derived", "cfw": rng.choice(cf), "features": feats})
        cons += list(feats)
        if rng.random() < 0.5:
            pool += list(feats)
    req = rng.sample(cons, rng.randrange(1, min(3, len(cons)) + 1))
    if rng.random() < 0.3:
        req.append(rng.choice(pool))
    return {"groups": groups, "request": sorted(set(req), key=req.index)}


def gen_shared(rng: random.Random, n_cfw: int = 2) -> Dict[str, Any]:
    """One producer group whose feature is requested itself (on its own framework) AND consumed by groups on one or two
    other frameworks (the same source converted for two group pairs / into two classes), optionally with a diamond on top."""
    cf = rng.sample(CFWS, n_cfw)
    groups = [_root(cf[0], ["a", "b"])]
    groups.append({"name": "P1", "kind": "derived", "cfw": rng.choice(cf), "features": {"p1": _feat(["a"], rng), "p2": _feat(["p1", "b"] if rng.random() < 0.5 else ["b"], rng)}})
    cons = []
    for i in range(rng.randrange(2, 4)):
        ins = rng.sample(["p1", "p2", "a"], rng.randrange(1, 3))
        groups.append({"name": f"C{i + 1}", "kind": "derived", "cfw": rng.choice(cf), "features": {f"c{i + 1}": _feat(ins, rng)}})
        cons.append(f"c{i + 1}")
    req = [rng.choice(["p1", "p2"])] + rng.sample(cons, rng.randrange(1, len(cons) + 1))
    if rng.random() < 0.5:
        groups.append({"name": "T1", "kind": "derived", "cfw": rng.choice(cf), "features": {"t1": _feat(rng.sample(cons, 2), rng)}})
        req.append("t1")
    return {"groups": groups, "request": req}


def gen_multi(rng: random.Random, n_cfw: Optional[int] = None, max_groups: int = 4, max_feats: int = 9) -> Dict[str, Any]:
    """planner_a.gen_strict (random interleaving of features over groups: intra-group chains, diamonds, group cycles) with a
    framework per group."""
    n_cfw = n_cfw or rng.randrange(2, 4)
    cf = rng.sample(CFWS, n_cfw)
    spec = planner_a.gen_strict(rng, max_groups=max_groups, max_feats=max_feats)
    for g in spec["groups"]:
        g["cfw"] = rng.choice(cf)
    return spec


def gen_cross_multi(rng: random.Random, n_cfw: int = 2) -> Dict[str, Any]:
    """planner_a.gen_cross (groups whose steps may require each other: rejected with the cycle error, or resolved by the
    level split) with a framework per group: the decision must not depend on the transform steps."""
    cf = rng.sample(CFWS, n_cfw)
    spec = planner_a.gen_cross(rng)
    for g in spec["groups"]:
        g["cfw"] = rng.choice(cf)
    return spec


def gen_any(rng: random.Random) -> Dict[str, Any]:
    from harness import daggen
    r = rng.random()
    n_cfw = 2 if rng.random() < 0.6 else 3
    if r < 0.2:
        return gen_chain(rng, n_cfw)
    if r < 0.45:
        return gen_fanin(rng, n_cfw)
    if r < 0.6:
        return gen_shared(rng, n_cfw)
    if r < 0.77:
        return gen_multi(rng, n_cfw)
    if r < 0.87:
        return gen_cross_multi(rng, n_cfw)
    return daggen.gen_single_root(rng)


def witness_specs() -> List[Dict[str, Any]]:
    """The witnesses of known_findings.json (C01-tfs-partial-requirement, C01-tfs-missing, C01-framework-roundtrip-wrong-object
    twice, C04-nondet-tfs-required-parent) and the smallest members of each generator family."""
    PD, PA, PN = "PythonDictFramework", "PyArrowTable", "PandasDataFrame"
    w = []
    w.append({"groups": [_root(PD, ["a", "b"]),
                         {"name": "D1", "kind": "derived", "cfw": PD, "features": {"f1": _feat(["b"]), "f2": _feat(["f1", "a"]), "f3": _feat(["f2", "f1"])}},
                         {"name": "D2", "kind": "derived", "cfw": PA, "features": {"f4": _feat(["f1"]), "f5": _feat(["f3", "f1", "f4"])}}],
              "request": ["f5"]})
    w.append({"groups": [_root(PD, ["a", "b"]),
                         {"name": "D1", "kind": "derived", "cfw": PN, "features": {"f2": _feat(["b"])}},
                         {"name": "D2", "kind": "derived", "cfw": PD, "features": {"f3": _feat(["b", "f2"]), "f4": _feat(["a"])}}],
              "request": ["f4", "f3"]})
    w.append({"groups": [_root(PD, ["a"]),
                         {"name": "D1", "kind": "derived", "cfw": PN, "features": {"f1": _feat(["a"])}},
                         {"name": "D2", "kind": "derived", "cfw": PD, "features": {"f4": _feat(["f1"])}}],
              "request": ["f4"]})
    w.append({"groups": [_root(PA, ["a", "b", "c"]),
                         {"name": "D1", "kind": "derived", "cfw": PA, "features": {"f1": _feat(["a"]), "f2": _feat(["b"])}},
                         {"name": "D2", "kind": "derived", "cfw": PN, "features": {"f4": _feat(["f2"])}},
                         {"name": "D4", "kind": "derived", "cfw": PN, "features": {"f7": _feat(["a"])}}],
              "request": ["f4", "f7"]})
    w.append({"groups": [_root(PD, ["a", "b"]),
                         {"name": "D1", "kind": "derived", "cfw": PA, "features": {"f1": _feat(["a", "b"]), "f2": _feat(["f1"]), "f3": _feat(["f2", "a", "f1"])}}],
              "request": ["f2", "f1", "f3"]})
    # two-framework chain, fan-in from two frameworks, three frameworks in a row, one feature consumed on two frameworks
    w.append({"groups": [_root(PA, ["a"]), {"name": "D1", "kind": "derived", "cfw": PN, "features": {"f1": _feat(["a"])}}], "request": ["f1"]})
    w.append({"groups": [_root(PA, ["a"]), {"name": "P1", "kind": "derived", "cfw": PN, "features": {"p1": _feat(["a"])}},
                         {"name": "P2", "kind": "derived", "cfw": PD, "features": {"p2": _feat(["a"])}},
                         {"name": "C1", "kind": "derived", "cfw": PA, "features": {"c1": _feat(["p1", "p2"])}}], "request": ["c1"]})
    w.append({"groups": [_root(PA, ["a"]), {"name": "D1", "kind": "derived", "cfw": PN, "features": {"f1": _feat(["a"])}},
                         {"name": "D2", "kind": "derived", "cfw": PD, "features": {"f2": _feat(["f1"])}}], "request": ["f2"]})
    w.append({"groups": [_root(PA, ["a"]), {"name": "P1", "kind": "derived", "cfw": PA, "features": {"p1": _feat(["a"])}},
                         {"name": "C1", "kind": "derived", "cfw": PN, "features": {"c1": _feat(["p1"])}},
                         {"name": "C2", "kind": "derived", "cfw": PD, "features": {"c2": _feat(["p1"])}}], "request": ["p1", "c1", "c2"]})
    # steps of two groups on two frameworks that require each other: rejected at prepare (cycle), transform steps or not
    cyc = planner_a.spec_cross_cycle()
    cyc["groups"][1]["cfw"] = PN
    w.append(cyc)
    return w


# ------------------------------------------------------------------------------------------------------------
# observation of one real preparation (JSON-serialisable, so that it can be made in a subprocess)
# ------------------------------------------------------------------------------------------------------------

def observe(spec: Dict[str, Any], keep_session: bool = False) -> Dict[str, Any]:
    """Run the real prepare and return the observation in canonical ids, or {"error": ...}."""
    from harness.universe import Universe
    from harness.orch import LAST
    from mloda.core.core.step.feature_group_step import FeatureGroupStep
    from mloda.core.core.step.transform_frame_work_step import TransformFrameworkStep
    planner_a.install_capture()
    CAP = planner_a.CAP
    LAST.pop("graph", None)
    CAP.clear()
    t = Tables(spec)
    uni = Universe(spec)
    try:
        sess = None
        outcome = 0
        try:
            sess = uni.prepare()
        except Exception as e:  # noqa: BLE001
            code = planner_a.classify_rejection(e)
            if code is None:
                return {"error": f"prepare raised {type(e).__name__}: {str(e)[:200]}"}
            outcome = code
        graph = LAST.get("graph")
        eng = CAP.get("engine")
        ep = CAP.get("ep")
        if graph is None or eng is None or ep is None or not hasattr(ep, "execution_plan"):
            return {"error": "feature graph / execution plan of the preparation not observed"}
        ren: Dict[Any, int] = {}
        nodes = graph.get_nodes()
        for u in list(eng.feature_link_parents.keys()):
            f = nodes[u].feature
            ren[u] = 2 * t.name_idx[f.get_name()] + (1 if f.child_options is None else 0)
        if len(set(ren.values())) != len(ren):
            return {"error": "two features of the graph have the same (name, requested-copy) identity"}
        g = []
        for u, parents in eng.feature_link_parents.items():
            np_ = nodes[u]
            cf = np_.feature.compute_frameworks
            if cf is None or len(cf) != 1:
                return {"error": f"feature {np_.feature.get_name()} has compute frameworks {cf}"}
            g.append([ren[u], t.group_idx[uni.group_display(np_.feature_group_class)], [ren[p] for p in parents],
                      bool(np_.feature.initial_requested_data), t.cfw_idx[next(iter(cf)).__name__]])
        tb = max(ren.values()) + 1
        queue = [ren[u] for u in graph.queue]
        p2c = [[ren[c], sorted(ren[p] for p in ps)] for c, ps in graph.parent_to_children_mapping.items() if ps]
        steps = list(ep.execution_plan)
        k = 0
        for st in steps:
            if isinstance(st, TransformFrameworkStep):
                ren[st.uuid] = tb + 2 * k
                k += 1
            elif not isinstance(st, FeatureGroupStep):
                return {"error": f"plan contains a {type(st).__name__}"}
        nd = 0
        plan, anys, ptab = [], [], []
        for st in steps:
            unknown = [u for u in st.required_uuids if u not in ren]
            if unknown:
                return {"error": f"a {type(st).__name__} requires {len(unknown)} uuid(s) that belong to no feature and no step of the plan "
                                 f"(real prepare: {OUTCOME[outcome]})"}
            if isinstance(st, FeatureGroupStep):
                feats = list(st.features.features)
                any_u = st.features.any_uuid
                tfs = []
                for x in st.tfs_ids:
                    if x in ren:
                        tfs.append(ren[x])
                    else:
                        tfs.append(tb + 2 * nd + 1)
                        nd += 1
                anys.append(ren[any_u])
                if any_u in graph.parent_to_children_mapping:
                    ptab.append([ren[any_u], [ren[p] for p in graph.parent_to_children_mapping[any_u]]])
                plan.append({"kind": "FG", "uuids": sorted(ren[f.uuid] for f in feats), "req": sorted(ren[u] for u in st.required_uuids),
                             "requested": any(f.initial_requested_data for f in feats),
                             "cfw": t.cfw_idx[st.compute_framework.__name__], "from": 0,
                             "grp": t.group_idx[uni.group_display(st.feature_group)], "fgrp": 0,
                             "any": ren[any_u], "cir": sorted(ren[u] for u in st.children_if_root), "tfs": sorted(tfs)})
            else:
                if st.link_id is not None:
                    return {"error": "transform step with a link id in a link-free request"}
                plan.append({"kind": "TFS", "uuids": [ren[st.uuid]], "req": sorted(ren[u] for u in st.required_uuids), "requested": False,
                             "cfw": t.cfw_idx[st.to_framework.__name__], "from": t.cfw_idx[st.from_framework.__name__],
                             "grp": t.group_idx[uni.group_display(st.to_feature_group)],
                             "fgrp": t.group_idx[uni.group_display(st.from_feature_group)], "any": 0, "cir": [], "tfs": []})
        out = {"g": g, "queue": queue, "p2c": p2c, "plan": plan, "anys": anys, "ptab": ptab, "outcome": outcome}
        if keep_session:
            out["session"] = sess
            out["universe"] = uni
        return out
    finally:
        if not keep_session:
            uni.dispose()


def observe_subprocess(specs: List[Dict[str, Any]], hash_seed: int, workdir: Any) -> List[Dict[str, Any]]:
    """Observations of all specs made in ONE fresh interpreter started with PYTHONHASHSEED=hash_seed."""
    workdir.mkdir(parents=True, exist_ok=True)
    f = workdir / f"specs_{hash_seed}.json"
    f.write_text(json.dumps(specs))
    env = dict(os.environ, PYTHONHASHSEED=str(hash_seed))
    env["PYTHONPATH"] = f"{vlib.REPO}:{vlib.VERIF}"
    p = subprocess.run([vlib.PY, "-m", "harness.planner_b", "--observe", str(f)], env=env, cwd=str(vlib.VERIF),
                       stdout=subprocess.PIPE, stderr=subprocess.PIPE, text=True, timeout=3600)
    if p.returncode != 0:
        raise RuntimeError(f"observation subprocess (hash seed {hash_seed}) failed:\n{p.stderr[-2000:]}")
    return json.loads(p.stdout)


# ------------------------------------------------------------------------------------------------------------
# Coq terms
# ------------------------------------------------------------------------------------------------------------

def _nl(xs: Any) -> str:
    return cq_list(cq_nat(x) for x in xs)


def cq_obstep(s: Dict[str, Any]) -> str:
    kind = {"FG": "KFG", "TFS": "KTFS"}[s["kind"]]
    return (f"(({kind}, {_nl(s['uuids'])}, {_nl(s['req'])}, {cq_bool(s['requested'])}), "
            f"({cq_nat(s['cfw'])}, {cq_nat(s['from'])}, {cq_nat(s['grp'])}, {cq_nat(s['fgrp'])}), "
            f"({cq_nat(s['any'])}, {_nl(s['cir'])}, {_nl(s['tfs'])}))")


def cq_bplan_obs(plan: List[Dict[str, Any]]) -> str:
    """an observed plan (observe()['plan']) as a PlannerB.bplan term"""
    out = []
    for i, s in enumerate(plan):
        kind = {"FG": "KFG", "TFS": "KTFS"}[s["kind"]]
        out.append(f"{{| bs := {{| sid := {cq_nat(i)}; skind := {kind}; uuids := {_nl(s['uuids'])}; req := {_nl(s['req'])}; "
                   f"requested := {cq_bool(s['requested'])} |}}; b_cfw := {cq_nat(s['cfw'])}; b_from := {cq_nat(s['from'])}; "
                   f"b_grp := {cq_nat(s['grp'])}; b_fgrp := {cq_nat(s['fgrp'])}; b_any := {cq_nat(s['any'])}; b_cir := {_nl(s['cir'])}; "
                   f"b_tfs := {_nl(s['tfs'])}; b_link := false |}}")
    return cq_list(out)


def cq_case(t: Tables, o: Dict[str, Any]) -> str:
    defs = cq_list(f"{{| dname := {cq_nat(n)}; dgrp := {cq_nat(gr)}; dins := {_nl(ins)}; dcfw := {cq_nat(cf)} |}}"
                   for n, gr, ins, cf in t.defs)
    g = cq_list(f"{{| fid := {cq_nat(u)}; fgrp := {cq_nat(gr)}; fins := {_nl(ins)}; freq := {cq_bool(rq)}; fcfw := {cq_nat(cf)} |}}"
                for u, gr, ins, rq, cf in o["g"])
    p2c = cq_list(f"({cq_nat(c)}, {_nl(ps)})" for c, ps in o["p2c"])
    ptab = cq_list(f"({cq_nat(c)}, {_nl(ps)})" for c, ps in o["ptab"])
    plan = cq_list(cq_obstep(s) for s in o["plan"])
    return (f"{{| bc_defs := {defs}; bc_req := {_nl(t.request)}; bc_g := {g}; bc_queue := {_nl(o['queue'])}; bc_p2c := {p2c}; "
            f"bc_anys := {_nl(o['anys'])}; bc_ptab := {ptab}; bc_plan := {plan}; bc_outcome := {cq_nat(o['outcome'])} |}}")


# ------------------------------------------------------------------------------------------------------------
# the check
# ------------------------------------------------------------------------------------------------------------

def plan_signature(o: Dict[str, Any]) -> str:
    """order-insensitive, uuid-free description of an observed plan (to count how many DIFFERENT plans the seeds gave)"""
    tf = {s["uuids"][0]: ("T", s["from"], s["cfw"], s["fgrp"], s["grp"], tuple(s["req"])) for s in o["plan"] if s["kind"] == "TFS"}
    out = []
    for s in o["plan"]:
        if s["kind"] == "TFS":
            out.append(tf[s["uuids"][0]])
        else:
            out.append(("F", tuple(s["uuids"]), tuple(sorted(str(tf.get(u, u)) for u in s["req"])), len(s["tfs"])))
    return json.dumps(sorted(out, key=str))


def check_plans(specs: List[Dict[str, Any]], rep_prefix: str, run_accepted: int = 0, run_timeout: float = 15.0,
                hash_seeds: Sequence[int] = (1, 2), in_process: int = 1) -> List[Dict[str, Any]]:
    """Disagreements between the real planner and the Stage-B1 model on the fragment specs among `specs`.
    Every spec is prepared `in_process` times here and once per hash seed in a fresh interpreter; every observation is
    compared with the model evaluated under the orders of THAT observation.  run_accepted > 0: additionally run up to that
    many accepted plans in SYNC under a watchdog; a run that neither returns nor raises is a disagreement (stage 'run')."""
    logging.disable(logging.CRITICAL)
    out: List[Dict[str, Any]] = []
    idx = [i for i, s in enumerate(specs) if in_fragment(s)]
    frag = [specs[i] for i in idx]
    tables = [Tables(s) for s in frag]
    runs: List[Tuple[str, List[Dict[str, Any]]]] = []
    sessions: Dict[int, Any] = {}
    for r in range(in_process):
        obs = []
        for k, s in enumerate(frag):
            o = observe(s, keep_session=(r == 0 and run_accepted > 0))
            if "session" in o:
                sessions[k] = (o.pop("session"), o.pop("universe"))
            obs.append(o)
        runs.append((f"in-process#{r}", obs))
    for hs in hash_seeds:
        runs.append((f"PYTHONHASHSEED={hs}", observe_subprocess(frag, hs, vlib.BUILD / rep_prefix / "planB_sub")))
    terms: List[str] = []
    where: List[Tuple[int, str]] = []
    for label, obs in runs:
        for k, o in enumerate(obs):
            if "error" in o:
                out.append({"spec": frag[k], "stage": "observe", "hash_seed": label,
                            "what": o["error"] + " (the model: every acyclic B1 request is planned with feature-group and "
                                                 "transform steps only and either accepted or rejected with the cycle error)"})
                continue
            terms.append(cq_case(tables[k], o))
            where.append((k, label))
    info: Dict[str, Any] = {"specs": len(specs), "in_fragment": len(frag), "multi_framework": sum(multi_framework(s) for s in frag),
                            "preparations": sum(len(o) for _, o in runs), "compared": len(terms), "hash_seeds": list(hash_seeds)}
    if terms:
        def failing(name: str, checker: str, ts: List[str] = terms) -> List[int]:
            return vlib.run_cases(rep_prefix, name, REQ, checker, ts, case_type="bcase", shard=40)[0]
        bad, ci = vlib.run_cases(rep_prefix, "planB_all", REQ, "chkB_planner", terms, case_type="bcase", shard=40)
        info["coq"] = ci
        bad_skel = failing("planB_skel", "chkB_skeleton")

        def failing_d(name: str, checker: str) -> List[int]:
            return vlib.run_cases(rep_prefix, name, REQ_D, checker, terms, case_type="bcase", shard=40)[0]
        bad_struct = failing_d("planB_struct", "chkB_struct")
        bad_choice = failing_d("planB_choice", "chkB_choice_free")
        plan_only_diff = failing_d("planB_planonly", "chkB_plan_only")
        codes = _eval_nat_lists(rep_prefix, "planB_codes", "", terms, "bcase", "modelB_code", shard=60)
        choice = _eval_nat_lists(rep_prefix, "planB_choicebit", "", terms, "bcase", "modelB_choice", shard=60)
        info["model_plans_by_domain"] = {KF_KEYS[b]: sum(1 for c in codes if c & b) for b in KF_KEYS}
        info["model_plans_outside_domains"] = sum(1 for c in codes if c == 0)
        info["model_plans_choice_free"] = sum(1 for c in choice if c == 0)
        info["plan_only_classification_differs"] = len(plan_only_diff)
        stage_of: Dict[int, str] = {}
        if bad:
            sub = [terms[j] for j in bad]
            for stage in STAGES:
                for j in failing("planB_diag", stage, sub):
                    stage_of.setdefault(bad[j], stage)
        obs_of = {(k, label): o for label, obs in runs for k, o in enumerate(obs)}
        for j in bad:
            k, label = where[j]
            o = obs_of[(k, label)]
            out.append({"spec": frag[k], "stage": stage_of.get(j, "chkB_planner"), "hash_seed": label,
                        "what": f"real planner and Stage-B1 model differ at {stage_of.get(j, '?')} (real prepare: {OUTCOME[o['outcome']]})",
                        "observed": {kk: o[kk] for kk in ("g", "queue", "p2c", "plan", "anys", "ptab", "outcome")}})
        for j in bad_skel:
            if j not in bad:
                k, label = where[j]
                out.append({"spec": frag[k], "stage": "chkB_skeleton", "hash_seed": label,
                            "what": "the feature-group steps of the model plan are not the Stage-A plan of the framework-erased graph "
                                    "(contradicts theorem PlannerB_fg_skeleton)"})
        for j in bad_struct:
            k, label = where[j]
            out.append({"spec": frag[k], "stage": "chkB_struct", "hash_seed": label,
                        "what": "the model plan fails wf_struct / validate_A / req_covers (contradicts theorems PlannerB_plan_struct, "
                                "PlannerB_plan_req_covers)"})
        for j in bad_choice:
            k, label = where[j]
            out.append({"spec": frag[k], "stage": "chkB_choice_free", "hash_seed": label,
                        "what": "kf_tfs_choice is false but the plan lies in kf_tfs_missing / kf_tfs_partial (contradicts theorem "
                                "PlannerB_choice_free_direct)"})
        tfs_specs, nondet = 0, 0
        for k in range(len(frag)):
            sigs = {plan_signature(obs[k]) for _, obs in runs if "error" not in obs[k]}
            outs = {obs[k]["outcome"] for _, obs in runs if "error" not in obs[k]}
            tfs_specs += any(any(s["kind"] == "TFS" for s in obs[k].get("plan", [])) for _, obs in runs)
            nondet += len(sigs) > 1
            if len(sigs) > 1 and not any(choice[j] for j, (kk, _l) in enumerate(where) if kk == k):
                out.append({"spec": frag[k], "stage": "determinism", "hash_seed": "all",
                            "what": "two preparations gave different plans although kf_tfs_choice is false for every one of them "
                                    "(contradicts theorem PlannerB_plan_deterministic_partial)"})
            if len(outs) > 1:
                out.append({"spec": frag[k], "stage": "decision", "hash_seed": "all",
                            "what": f"the accept / reject decision differs between preparations: {sorted(outs)} (theorem "
                                    "PlannerB_decision_deterministic says it cannot)"})
        info["specs_with_transform_steps"] = tfs_specs
        info["specs_with_different_plans_between_preparations"] = nondet
        first = runs[0][1]
        info["accepted"] = sum(1 for o in first if o.get("outcome") == 0)
        info["rejected_cycle"] = sum(1 for o in first if o.get("outcome") == 2)
        info["steps_hist"] = {}
        for o in first:
            n = len(o.get("plan", []))
            info["steps_hist"][n] = info["steps_hist"].get(n, 0) + 1
        n_run = 0
        info["run"] = {}
        route_terms: List[str] = []
        route_where: List[int] = []
        for k, (sess, uni) in sorted(sessions.items()):
            if sess is None or n_run >= run_accepted:
                uni.dispose()
                continue
            from harness.orch import run_observed
            n_run += 1
            r = run_observed(sess, timeout=run_timeout)
            info["run"][r["status"]] = info["run"].get(r["status"], 0) + 1
            if r["status"] == "ok":
                route_terms.append(f"({cq_bplan_obs(runs[0][1][k]['plan'])}, "
                                   f"{cq_list(f'({cq_nat(a)}, {cq_nat(w - 1)})' for a, (w, _r) in sorted(r['foot'].items()) if a >= 0)})")
                route_where.append(k)
            if r["status"] == "hang":
                out.append({"spec": frag[k], "stage": "run", "hash_seed": "in-process#0",
                            "what": f"SYNC run of an ACCEPTED B1 plan did not return or raise within {run_timeout}s "
                                    f"({r['scans']} loop iterations); theorem PlannerB_plan_wf + C04_terminates_sync say it ends"})
            uni.dispose()
        info["runs"] = n_run
        if route_terms:
            bad_route = vlib.run_cases(rep_prefix, "planB_route", REQ_D, "chk_route", route_terms, case_type="bplan * list (nat * nat)", shard=60)[0]
            info["routes_compared"] = len(route_terms)
            for j in bad_route:
                out.append({"spec": frag[route_where[j]], "stage": "chk_route", "hash_seed": "in-process#0",
                            "what": "the objects the steps of the SYNC run wrote on are not those of PlanDefects.route_sync "
                                    "(model of CfwManager.get_cfw_uuid / prepare_execute_step)"})
    info["disagreements"] = len(out)
    LAST_INFO.clear()
    LAST_INFO.update(info)
    return out


# ------------------------------------------------------------------------------------------------------------
# the known planner-defect domains on EXPORTED plans, evaluated in Coq (coq/Model/PlanDefects.v)
# ------------------------------------------------------------------------------------------------------------
KF_KEYS = {1: "C01-tfs-missing", 2: "C01-tfs-partial-requirement", 4: "C01-framework-roundtrip-wrong-object"}


def cq_xplan(p: Dict[str, Any]) -> str:
    """harness.universe.export_plan dict -> PlannerB.bplan term (frameworks and groups numbered per plan, 0 = none)."""
    cf: Dict[str, int] = {}
    gr: Dict[str, int] = {}

    def num(d: Dict[str, int], k: Optional[str]) -> int:
        if k is None:
            return 0
        if k not in d:
            d[k] = len(d) + 1
        return d[k]
    out = []
    for s in p["steps"]:
        kind = {"FG": "KFG", "TFS": "KTFS", "JOIN": "KJOIN"}[s["kind"]]
        step = (f"{{| sid := {cq_nat(s['sid'])}; skind := {kind}; uuids := {_nl(s['uuids'])}; req := {_nl(s['req'])}; "
                f"requested := {cq_bool(bool(s.get('requested')))} |}}")
        if s["kind"] == "FG":
            f = (num(cf, s["cfw"]), 0, num(gr, s["group"]), 0, s["any_uuid"] or 0, s["children_if_root"], s["tfs_ids"], False)
        elif s["kind"] == "TFS":
            f = (num(cf, s["to_cfw"]), num(cf, s["from_cfw"]), num(gr, s["to_group"]), num(gr, s["from_group"]), 0, [], [],
                 s.get("link_id") is not None)
        else:
            f = (num(cf, s["left_cfw"]), num(cf, s["right_cfw"]), 0, 0, 0, [], [], False)
        out.append(f"{{| bs := {step}; b_cfw := {cq_nat(f[0])}; b_from := {cq_nat(f[1])}; b_grp := {cq_nat(f[2])}; b_fgrp := {cq_nat(f[3])}; "
                   f"b_any := {cq_nat(f[4])}; b_cir := {_nl(f[5])}; b_tfs := {_nl(f[6])}; b_link := {cq_bool(f[7])} |}}")
    return cq_list(out)


def cq_adj(adj: Sequence[Tuple[int, Sequence[int]]]) -> str:
    return cq_list(f"({cq_nat(c)}, {_nl(ps)})" for c, ps in adj)


def _eval_nat_lists(rep_prefix: str, name: str, defs: str, terms: List[str], case_type: str, fn: str, shard: int = 150) -> List[Any]:
    """[fn t for t in terms] evaluated by vm_compute (fn : case_type -> nat), batched over coqc processes."""
    import re
    from concurrent.futures import ThreadPoolExecutor
    shards = [terms[i:i + shard] for i in range(0, len(terms), shard)]

    def one(k: int) -> List[int]:
        body = (defs + f"\nDefinition cases : list ({case_type}) := [\n" + ";\n".join(shards[k]) + "\n].\n"
                f"Eval vm_compute in map ({fn}) cases.")
        o = vlib.coq_eval(rep_prefix, f"{name}_{k}", REQ_D, body)
        m = re.search(r"=\s*\[(.*?)\]\s*:\s*list nat", o, re.S)
        if not m:
            raise RuntimeError("cannot parse coqc output:\n" + o[-1500:])
        vals = [int(x) for x in re.findall(r"\d+", m.group(1))]
        if len(vals) != len(shards[k]):
            raise RuntimeError(f"{len(vals)} results for {len(shards[k])} cases")
        return vals
    with ThreadPoolExecutor(max_workers=vlib.NCPU) as ex:
        res = list(ex.map(one, range(len(shards))))
    return [v for r in res for v in r]


def classify(plans: List[Dict[str, Any]], adjs: Optional[List[Any]] = None, rep_prefix: str = "PlanDefects") -> List[Set[str]]:
    """Per exported plan (harness.universe.export_plan) the set of known-finding keys whose domain (coq/Model/PlanDefects.v)
    contains it.  adjs[i] = harness.orch.export_adj(plan) taken right after the prepare (precise); None: the feature graph
    is approximated from the required sets of the plan (PlanDefects.adj_from_plan)."""
    if not plans:
        return []
    terms = []
    for i, p in enumerate(plans):
        a = adjs[i] if adjs is not None and adjs[i] is not None else None
        terms.append(f"({cq_xplan(p)}, {cq_adj(a)})" if a is not None else f"(let xp := {cq_xplan(p)} in (xp, adj_from_plan xp))")
    codes = _eval_nat_lists(rep_prefix, "classify", "", terms, "bplan * xadj", "classify_plan")
    return [{k for b, k in KF_KEYS.items() if c & b} for c in codes]


_CLS_CACHE: Dict[str, Set[str]] = {}


def _plan_key(p: Dict[str, Any]) -> str:
    import json as _json
    return _json.dumps({k: v for k, v in p.items() if k != "_ren"}, sort_keys=True, default=str)


def classify_prefetch(plans: List[Dict[str, Any]], rep_prefix: str = "PlanDefects") -> None:
    """Evaluate classify_plan for all these plans in one coqc batch and remember the answers (see classify_cached)."""
    todo, seen = [], set()
    for p in plans:
        k = _plan_key(p)
        if k not in _CLS_CACHE and k not in seen:
            seen.add(k)
            todo.append(p)
    for p, c in zip(todo, classify(todo, rep_prefix=rep_prefix)):
        _CLS_CACHE[_plan_key(p)] = c


def classify_cached(p: Dict[str, Any], rep_prefix: str = "PlanDefects") -> Set[str]:
    """The known-finding domains (decided in Coq) of one exported plan; one coqc call per plan not seen before."""
    k = _plan_key(p)
    if k not in _CLS_CACHE:
        _CLS_CACHE[k] = classify([p], rep_prefix=rep_prefix)[0]
    return _CLS_CACHE[k]


def python_classify(p: Dict[str, Any]) -> Set[str]:
    from harness.universe import kf_tfs_partial_requirement, kf_framework_roundtrip, kf_tfs_missing
    out = set()
    if kf_tfs_missing(p):
        out.add(KF_KEYS[1])
    if kf_tfs_partial_requirement(p):
        out.add(KF_KEYS[2])
    if kf_framework_roundtrip(p):
        out.add(KF_KEYS[4])
    return out


def explain(key: str, coq: bool, py: bool, run_failed: Optional[bool]) -> str:
    """Which side is right when the Coq and the Python predicate disagree on one plan (see NOTES_planB.md, section 4)."""
    if key == KF_KEYS[1]:
        if py and not coq:
            return ("Python too broad: it counts EVERY required feature on another framework (also ancestors that are not inputs, e.g. the "
                    "first framework of a chain A -> B -> C, and inputs reached through a same-framework parent) and only looks at the "
                    "DIRECT required_uuids (a later level of a consumer group waits for the transform step through the earlier level)")
        return ("Coq right: a maximal input of a non-representative feature has no transform step with the right from/to GROUPS among "
                "the steps the consumer waits for; Python accepts any transform step from that framework")
    if key == KF_KEYS[2]:
        if py and not coq:
            return ("Python too broad: it ignores the from_group of the transform step (any feature-group step on the source framework "
                    "counts) and takes every required ancestor, not only the maximal inputs")
        return ("Coq right: the consumer waits for the transform step only through an earlier step of its group (Python looks at consumers "
                "of the same to_group but requires cfw equality with to_cfw; here the served input is produced by a step the kept "
                "transform step does not wait for)")
    if py and not coq:
        return ("Python too broad: its first clause takes ANY earlier feature-group step of the consumer's framework whose children contain "
                "the lookup uuid - also the earlier level of the consumer's own group, which computes on the very object the consumer "
                "expects - and it fires for dangling tfs_ids")
    return ("Coq right: the children of a transform step's object are those of the object's CREATOR (usually the root step), not of the "
            "producer of the required uuid as Python assumes; a second transform step into the same class is a rival even when the "
            "consumer does not descend from the feature that step requires")


def compare_predicates(n: int = 320, seed: int = 0, rep_prefix: str = "PlanDefects") -> Dict[str, Any]:
    """classify (Coq) against the three Python predicates on >= n accepted plans of the mix of generators the properties
    use (C01's: two linked roots / typed mix / merge-free multi-framework DAGs) plus the B1 generators; every plan is also
    RUN in SYNC: on the merge-free part a failing run outside all Coq domains means the Coq domains are too narrow."""
    from harness import daggen
    from harness.c01 import judge_trace
    from harness.universe import Universe, export_plan
    from harness.orch import install, export_adj, GateListener, run_observed
    logging.disable(logging.CRITICAL)
    install()
    rng = random.Random(seed * 7919 + 11)
    recs: List[Dict[str, Any]] = []
    tries = 0
    while len(recs) < n and tries < 20 * n:
        tries += 1
        r0 = rng.random()
        if r0 < 0.10:
            spec, fam = daggen.gen_two_roots_inner(rng), "two_roots_inner"
        elif r0 < 0.25:
            spec, fam = daggen.gen_typed_mix(rng), "typed_mix"
        elif r0 < 0.70:
            spec, fam = daggen.gen_single_root(rng), "single_root"
        else:
            spec, fam = gen_any(rng), "b1"
        gl = GateListener()
        uni = Universe(spec, gl)
        try:
            sess = uni.prepare()
        except Exception:  # noqa: BLE001
            continue
        plan = export_plan(sess, uni)
        adj = export_adj(plan)
        o = run_observed(sess, timeout=20.0)
        judge = judge_trace(spec, gl.events, plan, o["begin_order"], o["status"], gl.calls)
        foot = sorted((sid, w - 1) for sid, (w, _r) in o["foot"].items() if sid >= 0)
        recs.append({"spec": spec, "family": fam, "plan": {k: v for k, v in plan.items() if k != "_ren"}, "adj": adj,
                     "status": o["status"], "judge": judge, "failed": o["status"] != "ok" or judge is not None,
                     "exc": str(o.get("exc"))[-160:] if o["status"] == "raised" else None, "foot": foot,
                     "merge_free": fam in ("single_root", "typed_mix")})
        uni.dispose()
    plans = [r["plan"] for r in recs]
    coq = classify(plans, [r["adj"] for r in recs], rep_prefix)
    coq_plan_only = classify(plans, None, rep_prefix + "_po")
    py = [python_classify(p) for p in plans]
    # routing of the SYNC run against PlanDefects.route_sync (link-free plans that ran to the end)
    ridx = [i for i, r in enumerate(recs) if r["status"] == "ok" and not any(s["kind"] == "JOIN" for s in r["plan"]["steps"])]
    rterms = [f"({cq_xplan(recs[i]['plan'])}, {cq_list(f'({cq_nat(a)}, {cq_nat(b)})' for a, b in recs[i]['foot'])})" for i in ridx]
    bad_route = [ridx[j] for j in vlib.run_cases(rep_prefix, "route", REQ_D, "chk_route", rterms, case_type="bplan * list (nat * nat)", shard=100)[0]] if rterms else []
    res: Dict[str, Any] = {"plans": len(recs), "families": {}, "with_tfs": sum(any(s["kind"] == "TFS" for s in p["steps"]) for p in plans),
                           "runs_failed": sum(r["failed"] for r in recs), "per_key": {}, "disagreements": [], "too_narrow": [],
                           "plan_only_differs": 0, "route_compared": len(rterms), "route_mismatch": len(bad_route)}
    for r in recs:
        res["families"][r["family"]] = res["families"].get(r["family"], 0) + 1
    for key in KF_KEYS.values():
        res["per_key"][key] = {"both": 0, "coq_only": 0, "python_only": 0, "neither": 0}
    for i, r in enumerate(recs):
        if coq[i] != coq_plan_only[i]:
            res["plan_only_differs"] += 1
        for key in KF_KEYS.values():
            a, b = key in coq[i], key in py[i]
            res["per_key"][key]["both" if a and b else "coq_only" if a else "python_only" if b else "neither"] += 1
            if a != b:
                res["disagreements"].append({"key": key, "coq": a, "python": b, "run_failed": r["failed"], "family": r["family"],
                                             "coq_all": sorted(coq[i]), "python_all": sorted(py[i]), "explanation": explain(key, a, b, r["failed"]),
                                             "spec": r["spec"]})
        if r["failed"] and r["merge_free"] and not coq[i]:
            res["too_narrow"].append({"spec": r["spec"], "status": r["status"], "judge": r["judge"], "exc": r["exc"], "python": sorted(py[i])})
    res["any_domain"] = {"coq": sum(bool(c) for c in coq), "python": sum(bool(c) for c in py),
                         "coq_not_python": sum(bool(c) and not p for c, p in zip(coq, py)),
                         "python_not_coq": sum(bool(p) and not c for c, p in zip(coq, py))}
    res["failed_runs_in_merge_free"] = sum(r["failed"] and r["merge_free"] for r in recs)
    res["failed_but_python_empty"] = sum(1 for i, r in enumerate(recs) if r["failed"] and r["merge_free"] and not py[i])
    res["route_mismatch_specs"] = [recs[i]["spec"] for i in bad_route[:5]]
    return res


def main(argv: List[str]) -> int:
    if len(argv) > 2 and argv[1] == "--observe":
        logging.disable(logging.CRITICAL)
        specs = json.load(open(argv[2]))
        print(json.dumps([observe(s) for s in specs]))
        return 0
    if len(argv) > 1 and argv[1] == "compare":
        res = compare_predicates(int(argv[2]) if len(argv) > 2 else 320, int(argv[3]) if len(argv) > 3 else 0)
        print(json.dumps({k: v for k, v in res.items() if k not in ("disagreements", "too_narrow", "route_mismatch_specs")}, indent=1))
        seen = set()
        for d in res["disagreements"]:
            sig = (d["key"], d["coq"], d["python"])
            print("DISAGREE", d["key"], "coq" if d["coq"] else "python", "only; run failed:", d["run_failed"], d["family"], "|", d["explanation"][:110],
                  "|", json.dumps(d["spec"])[:300] if sig not in seen else "")
            seen.add(sig)
        for d in res["too_narrow"]:
            print("TOO-NARROW (failing merge-free run outside every Coq domain):", json.dumps(d)[:900])
        for sp in res["route_mismatch_specs"]:
            print("ROUTE-MISMATCH", json.dumps(sp)[:600])
        return 1 if (res["too_narrow"] or res["route_mismatch"]) else 0
    n = int(argv[1]) if len(argv) > 1 else 120
    seed = int(argv[2]) if len(argv) > 2 else 0
    n_run = int(argv[3]) if len(argv) > 3 else 30
    rng = random.Random(seed)
    specs = witness_specs() + [gen_any(rng) for _ in range(n)]
    pr = vlib.build_props("PlannerB")
    print("Props/PlannerB.v:", "ok" if pr.ok else "BROKEN", f"{pr.discharged}/{pr.obligations} statements,", sorted(set(pr.assumptions)))
    dis = check_plans(specs, "PlannerB", run_accepted=n_run, run_timeout=8.0, hash_seeds=(1, 2, 3))
    info = dict(LAST_INFO)
    print({k: v for k, v in info.items() if k != "coq"})
    print(info.get("coq"))
    for d in dis[:10]:
        print("DISAGREEMENT", d["stage"], d.get("hash_seed"), d["what"], json.dumps(d["spec"])[:400])
    return 1 if (dis or not pr.ok) else 0


if __name__ == "__main__":
    sys.exit(main(sys.argv))
