"""C01 — every feature is computed once, and only after all of its inputs.

Theorems: coq/Props/C01.v over Model/Orch.v (all plans, all back ends, all event traces).
Ties, on generated request DAGs run on the real mloda:
  T3  exported plan: wf_plan_auto (distinct ids, disjoint non-empty produced sets, every requirement produced, acyclic)
      and req_covers (each FG step requires the whole ancestor closure of its features in the real feature graph);
  T2  SYNC: order in which step executions begin, number of loop iterations and outcome = model (chk_sync);
      THREADING under the gating scheduler: at every quiescent point the set of started-but-unfinished steps = model,
      for PRNG-chosen release orders (chk_gated replays the observed history inside Coq);
  judge (the property itself on the observed trace): every FG step's calculation is entered exactly once and the
      columns of all inputs of the features it computes are present in the data it receives.
"""
from __future__ import annotations

import json
import logging
import random
from typing import Any, Dict, List, Optional, Tuple

from lib import vlib
from lib.vlib import cq_bool, cq_list, cq_nat
from harness import daggen
from harness import routing
from harness.universe import Universe, export_plan, table_rows, kf_tfs_partial_requirement, kf_framework_roundtrip, kf_tfs_missing
from harness.orch import (GateListener, FileListener, run_observed, run_gated, cq_plan, export_adj, install, flight_server, stop_flight_server)

LEVEL = "proof"
logging.disable(logging.CRITICAL)
REQ = ["MV.Model.Orch", "MV.Model.OrchCheck"]

EXTRA = """
Definition chk_wf (c : plan * list (nat * list nat)) := wf_plan_auto (fst c) && req_covers (fst c) (snd c).
Definition chk_cf (c : plan * foot) := conflict_free (fst c) (snd c).
Definition chk_cfip (c : plan * foot * styles * colsig) :=
  let '(p, f, y, k) := c in conflict_free_ip p f y && ip_cols_ok p f y k.
"""
CFIP_TYPE = "plan * foot * styles * colsig"


def inputs_of(spec: Dict[str, Any]) -> Dict[str, List[str]]:
    out = {}
    for g in spec["groups"]:
        if g["kind"] == "derived":
            for n, d in g["features"].items():
                out[n] = d["inputs"]
    return out


def judge_trace(spec: Dict[str, Any], events: List[tuple], plan: Dict[str, Any], begin_order: List[int], status: str,
                calls: Optional[List[List[str]]] = None) -> Optional[str]:
    """The property on one observed trace.  Returns a description of the failure or None."""
    ins = inputs_of(spec)
    fg_sids = [s["sid"] for s in plan["steps"] if s["kind"] == "FG"]
    if status == "ok":
        for sid in fg_sids:
            n = begin_order.count(sid)
            if n != 1:
                return f"FG step {sid} executed {n} times"
        seen: Dict[str, int] = {}
        for c in calls or []:
            for fu in c:
                seen[fu] = seen.get(fu, 0) + 1
        twice = sorted(k for k, v in seen.items() if v > 1)
        if twice:
            return f"feature objects handed to calculate_feature more than once: {[t.split(':')[0] for t in twice]}"
    for kind, group, names, cols in events:
        if kind != "enter":
            continue
        for n in names:
            for i in ins.get(n, []):
                if i not in cols:
                    return f"calculation of {group}.{n} received data without input column {i!r} (columns {list(cols)})"
    return None


def canon_result(res: Any) -> Any:
    return sorted(json.dumps(sorted((json.dumps(r, sort_keys=True, default=str) for r in table_rows(t)))) for t in res)


def cq_adj(adj: List[Tuple[int, List[int]]]) -> str:
    return cq_list(f"({cq_nat(c)}, {cq_list(cq_nat(x) for x in ps)})" for c, ps in adj)


def cq_foot(foot: Dict[int, Tuple[int, List[int]]]) -> str:
    return cq_list(f"({cq_nat(s)}, ({cq_nat(w)}, {cq_list(cq_nat(x) for x in r)}))" for s, (w, r) in sorted(foot.items()))


def cq_styles(style: Dict[Any, bool]) -> str:
    """observed result style per step (sid -> the calculation was in place), Model/OrchCheck.styles"""
    return cq_list(f"({cq_nat(int(s))}, {cq_bool(bool(v))})" for s, v in sorted((int(k), v) for k, v in style.items()))


def cq_cols(spec: Dict[str, Any], plan: Dict[str, Any]) -> str:
    """columns written / read per feature-group step (Model/OrchCheck.colsig): the names of the features the step computes and
    the inputs of these features according to the spec, numbered over all column names of the spec"""
    names: List[str] = []
    for g in spec["groups"]:
        for n in (g["cols"] if g["kind"] in ("root", "api") else g["features"]):
            if n not in names:
                names.append(n)
    ids = {n: i for i, n in enumerate(sorted(names))}
    ins = inputs_of(spec)
    out = []
    for st in plan["steps"]:
        if st["kind"] != "FG":
            continue
        # a requested feature and the equally named input of a consumer are two Feature objects of one step: ONE column
        w = sorted({ids[n] for n in st["names"] if n in ids})
        r = sorted({ids[i] for n in st["names"] for i in ins.get(n, []) if i in ids})
        out.append(f"({cq_nat(st['sid'])}, ({cq_list(cq_nat(x) for x in w)}, {cq_list(cq_nat(x) for x in r)}))")
    return cq_list(out)


def cfip_term(r: Dict[str, Any]) -> str:
    return f"({cq_plan(r['plan'])}, {cq_foot(r['sync']['foot'])}, {cq_styles(r['sync'].get('style') or {})}, {cq_cols(r['spec'], r['plan'])})"


def cq_status(s: str) -> str:
    return {"ok": "OOk", "raised": "ORaised"}.get(s, "OHang")


def gen_specs(rng: random.Random, n: int) -> Tuple[List[Dict[str, Any]], Dict[str, int]]:
    """Merge-free single-root DAGs (always plannable and runnable) + 20% two-root requests with an inner link."""
    specs, stats = [], {"generated": 0, "prepare_rejected": 0}
    while len(specs) < n and stats["generated"] < 20 * n:
        stats["generated"] += 1
        r0 = rng.random()
        spec = (daggen.gen_two_roots_inner(rng) if r0 < 0.15 else daggen.gen_typed_mix(rng) if r0 < 0.35
                else daggen.gen_ladder(rng) if r0 < 0.45 else daggen.gen_single_root(rng))
        uni = Universe(spec, GateListener())
        try:
            uni.prepare()
        except Exception as e:  # noqa: BLE001
            stats["prepare_rejected"] += 1
            stats.setdefault("reject_samples", []).append(str(e)[:120])  # type: ignore[union-attr]
            continue
        specs.append(spec)
    return specs, stats


def one_spec(spec: Dict[str, Any], rng: random.Random, n_sched: int) -> Dict[str, Any]:
    gl = GateListener()
    uni = Universe(spec, gl)
    sess = uni.prepare()
    plan = export_plan(sess, uni)
    adj = export_adj(plan)
    o = run_observed(sess, ren=plan["_ren"])
    rec: Dict[str, Any] = {"spec": spec, "plan": {k: v for k, v in plan.items() if k != "_ren"}, "adj": adj,
                           "sync": {"begin": o["begin_order"], "scans": o["scans"], "status": o["status"], "foot": o["foot"],
                                    "orders": o.get("orders"), "style": o.get("style") or {}},
                           "gated": []}
    rec["sync"]["judge"] = judge_trace(spec, gl.events, plan, o["begin_order"], o["status"], gl.calls)
    rec["sync"]["raised"] = o["raised_steps"]
    rec["sync"]["exc"] = str(o.get("exc"))[-300:] if o["status"] == "raised" else None
    base = canon_result(o["result"]) if o["status"] == "ok" else None
    prefs: List[Optional[List[int]]] = [None] * n_sched
    if n_sched and spec.get("family") == "inplace_siblings":
        # the unordered siblings are few: EVERY order in which they can finish is run (not a PRNG sample)
        import itertools
        sib = sorted({str(s_["group"]) for s_ in plan["steps"] if s_["kind"] == "FG" and str(s_["group"]).startswith("S")})
        prefs = [list(p_) for p_ in itertools.permutations(sib)]        # by group NAME: step numbers belong to one preparation
    for k, pref in enumerate(prefs):
        gl2 = GateListener()
        uni2 = Universe(spec, gl2)
        sess2 = uni2.prepare()
        plan2 = export_plan(sess2, uni2)
        chooser = None
        if pref is not None:
            sid_of = {str(s_["group"]): s_["sid"] for s_ in plan2["steps"] if s_["kind"] == "FG"}
            pref_sids = [sid_of[gn] for gn in pref if gn in sid_of]

            def chooser(expected: List[int], _p: List[int] = pref_sids) -> int:
                return next((x for x in _p if x in expected), expected[0])
        g = run_gated(uni2, sess2, plan2, random.Random(rng.random()), choose=chooser)
        jr = judge_trace(spec, gl2.events, plan2, g["begin_order"], g["status"], gl2.calls)
        same = None
        if g["status"] == "ok" and base is not None:
            same = canon_result(g["result"]) == base
        rec["gated"].append({"plan": {k: v for k, v in plan2.items() if k != "_ren"}, "rounds": g["rounds"],
                             "status": g["status"], "problem": g["problem"], "judge": jr, "same_as_sync": same,
                             "exc": (" ".join(str(g.get("exc")).split())[:220] if g["status"] == "raised" else None)})
    return rec


def run(rep: vlib.Reporter, tier: str, seed: int) -> None:
    rng = random.Random(seed * 1009 + 1)
    install()
    pr = vlib.build_props("C01", extra_targets=["Model/OrchCheck.vo"])
    rep.proof(pr)
    rep.coverage["trusted_base"] += [
        "hand-written model Model/Orch.v of ExecutionOrchestrator.compute/compute_stream, _can_run_step, "
        "_mark_step_as_finished, currently_running_step and of the start/complete protocol of the three back ends "
        "(run.py, compute_framework_executor.py, worker/thread_worker.py), tied by SYNC traces and gated THREADING histories",
        "the gating scheduler and the step/iterator wrappers of harness/orch.py (Python, harness process only)",
        "real preemption inside a calculation and OS process scheduling are not modelled: gates sit at calculation "
        "entry (after the step has read its object's data) and at transform/merge entry",
        "planner: not modelled here; every exported plan is checked by the verified-by-definition checkers wf_plan_auto "
        "and req_covers (T3)"]
    big = tier == "thorough"
    n_specs = 400 if big else 50
    n_gated_specs = 120 if big else 14
    n_sched = 8 if big else 4
    specs, gstats = gen_specs(rng, n_specs)
    # unordered IN-PLACE siblings on one pandas / python-dict object + a consumer of all of them; every finish order of the
    # siblings is run under the gating scheduler (one in four families has a replacing sibling: the recorded hazard)
    n_fam = 24 if big else 4
    fam = [daggen.gen_inplace_siblings(rng, all_inplace=(k % 4 != 3)) for k in range(n_fam)]
    specs = fam + specs
    n_gated_specs += n_fam
    gstats["inplace_sibling_families"] = n_fam
    recs = []
    for i, spec in enumerate(specs):
        recs.append(one_spec(spec, rng, n_sched if i < n_gated_specs else 0))
    found = False
    from harness import srctie      # source-text tie (Props/SrcTie.v): thread_worker / CfwManager.set_error regenerated from the source text = the completion events of Orch.worker_done
    found = (not srctie.check(rep)) or found

    # T3
    wf_terms = [f"({cq_plan(r['plan'])}, {cq_adj(r['adj'])})" for r in recs]
    bad_wf, _ = vlib.run_cases("C01", "wf", REQ, "chk_wf", wf_terms, extra_defs=EXTRA, case_type="plan * list (nat * list nat)", shard=60)
    # T2 sync
    sync_terms = [f"({cq_plan(r['plan'])}, ({cq_list(cq_nat(x) for x in r['sync']['begin'])}, {cq_nat(r['sync']['scans'])}, "
                  f"{cq_status(r['sync']['status'])}, {cq_list(cq_nat(x) for x in r['sync']['raised'])}))" for r in recs]
    bad_sync, _ = vlib.run_cases("C01", "sync", REQ, "chk_sync", sync_terms, extra_defs=EXTRA,
                                 case_type="plan * (list nat * nat * ostatus * list nat)", shard=60)
    # conflicts (known-finding domain classifier)
    cf_terms = [f"({cq_plan(r['plan'])}, {cq_foot(r['sync']['foot'])})" for r in recs]
    has_conflict = set(vlib.run_cases("C01", "cf", REQ, "chk_cf", cf_terms, extra_defs=EXTRA, case_type="plan * foot", shard=60)[0])
    # ... weakened by Props/C06inplace.v: unordered steps that are BOTH in place (observed) on one object and touch different
    # columns are no hazard.  not_ip = plans the weakened classifier does not clear either.
    pr_ip = vlib.build_props("C06inplace")
    rep.proof(pr_ip)
    not_ip = set(vlib.run_cases("C01", "cfip", REQ, "chk_cfip", [cfip_term(r) for r in recs], extra_defs=EXTRA, case_type=CFIP_TYPE, shard=60)[0])
    cleared_by_ip = has_conflict - not_ip
    # T2 routing: which object every begun step worked on (Model/Routing.v) = observed footprints (plans without JoinStep)
    rt_idx = []
    rt_items = []
    for i, r in enumerate(recs):
        t = routing.terms(routing.with_run_orders(r["plan"], r["sync"].get("orders")), r["sync"]["begin"],
                          {int(k): v for k, v in r["sync"]["foot"].items()})
        if t is not None:
            rt_idx.append(i)
            rt_items.append(t)
    pr_rt = vlib.build_props("Routing")
    rep.proof(pr_rt)
    bad_rt, amb_rt, info_rt = routing.check("C01", "route", rt_items)
    amb_set = set(rt_idx[k] for k in amb_rt)
    rep.add("routing_model", {**info_rt, "cases": len(rt_items), "disagreements": len(bad_rt), "runs_with_ambiguous_lookup": len(amb_set)})
    # T2 gated
    gated_idx, gated_terms = [], []
    for i, r in enumerate(recs):
        for j, g in enumerate(r["gated"]):
            if g["problem"] in (None,) and all("released" in rd and rd.get("ok") is not None for rd in g["rounds"]):
                rounds = cq_list(f"({cq_list(cq_nat(x) for x in rd['blocked'])}, {cq_nat(rd['released'])}, {cq_bool(bool(rd['ok']))})"
                                 for rd in g["rounds"])
                gated_idx.append((i, j))
                gated_terms.append(f"({cq_plan(g['plan'])}, ({rounds}, {cq_status(g['status'])}))")
    bad_gated, _ = vlib.run_cases("C01", "gated", REQ, "chk_gated", gated_terms, extra_defs=EXTRA,
                                  case_type="plan * (list (list nat * nat * bool) * ostatus)", shard=60) if gated_terms else ([], {})

    n_runs = len(recs) + sum(len(r["gated"]) for r in recs)
    rep.count(n_runs)
    dist = {"specs": len(recs), "generator": gstats, "steps_hist": {}, "with_tfs": 0, "with_join": 0,
            "plans_with_unordered_conflicts": len(has_conflict), "of_them_in_place_only (conflict_free_ip)": len(cleared_by_ip),
            "observed_in_place_steps": sum(1 for r in recs for v in (r["sync"].get("style") or {}).values() if v),
            "gated_histories": len(gated_terms),
            "gated_rounds_with_choice": 0, "gated_failures": 0}
    for i, r in enumerate(recs):
        n = len(r["plan"]["steps"])
        dist["steps_hist"][n] = dist["steps_hist"].get(n, 0) + 1
        kinds = {s["kind"] for s in r["plan"]["steps"]}
        dist["with_tfs"] += "TFS" in kinds
        dist["with_join"] += "JOIN" in kinds
        levels = len({tuple(s["names"]) for s in r["plan"]["steps"] if s["kind"] == "FG"}) > len({s["group"] for s in r["plan"]["steps"] if s["kind"] == "FG"})
        concurrent = any(len(rd["blocked"]) > 1 for g in r["gated"] for rd in g["rounds"])
        dist["gated_rounds_with_choice"] += sum(1 for g in r["gated"] for rd in g["rounds"] if len(rd["blocked"]) > 1)
        if levels or concurrent:
            rep.nontrivial(("spec", r["spec"]))
    rep.add("distribution", dist)
    rep.add("rule", "PRNG request DAGs: one root group (1-3 columns) and 1-4 derived groups (1-3 integer features each, inputs "
                    "from earlier groups or earlier features of the same group => intra-group levels), frameworks from "
                    "{PyArrow, Pandas, PythonDict} possibly changing between groups; 20% two roots with an inner link; kept "
                    "when the SYNC run succeeds. Each spec: SYNC run + up to n gated THREADING runs with PRNG release order. "
                    "Plus families of 2-3 unordered in-place siblings (pandas mutate / Series, python-dict rows) under one consumer, "
                    "run under EVERY finish order of the siblings. "
                    "non-trivial = the plan has an intra-group level split or a gated run had >= 2 concurrently enabled steps")
    rep.add("traces_validated_against_impl", len(recs) + len(gated_terms))

    # the three planner-defect domains are decided in Coq (Model/PlanDefects.v classify_plan, related to the planner model by
    # PlannerB_defects_sound_partial) on every exported plan - the SYNC preparation and each gated preparation; the Python
    # predicates of harness/universe.py are only counted next to them
    from harness import planner_b
    all_plans = [r["plan"] for r in recs] + [g["plan"] for r in recs for g in r["gated"]]
    coq_domains = {id(p_): c_ for p_, c_ in zip(all_plans, planner_b.classify(all_plans, rep_prefix="C01"))}

    def classify(i: int, plan: Dict[str, Any], what: str, replay: Dict[str, Any], gated: bool, vkey: str) -> bool:
        """Route a failure to a known-finding domain (narrow, decidable on the plan) or report it as a violation."""
        dom = coq_domains.get(id(plan))
        if dom is None:
            dom = planner_b.classify([plan], rep_prefix="C01")[0]
        for key_ in ("C01-tfs-partial-requirement", "C01-tfs-missing", "C01-framework-roundtrip-wrong-object"):
            if key_ in dom:
                rep.finding(key_, what, replay)
                return False
        if gated and i in has_conflict and i in not_ip:
            rep.finding("C01-unordered-conflicting-steps", what, replay)
            return False
        rep.finding(vkey, what, replay)
        return True

    for k in bad_rt[:5]:
        i = rt_idx[k]
        rep.finding(f"route:{json.dumps(recs[i]['spec'], sort_keys=True)}",
                    "SYNC: the objects the steps worked on (observed footprints) are not the ones Model/Routing.v computes from the "
                    "plan and the begin order", {"kind": "sync", **recs[i]})
        found = True
    for i in bad_wf[:5]:
        rep.finding(f"wf:{json.dumps(recs[i]['spec'], sort_keys=True)}",
                    "exported plan violates well-formedness (duplicate/empty produced sets, dangling or cyclic requirement) or "
                    "a step's required set misses an ancestor of its features", {"kind": "plan", **recs[i]})
        found = True
    for i, r in enumerate(recs):
        key = json.dumps(r["spec"], sort_keys=True)
        if r["sync"]["judge"]:
            found |= classify(i, r["plan"], "SYNC: " + r["sync"]["judge"], {"kind": "sync", **r}, False, f"judge-sync:{key}")
        elif r["sync"]["status"] != "ok":
            found |= classify(i, r["plan"], f"SYNC run of an accepted merge-free request {r['sync']['status']}: {r['sync'].get('exc')}",
                              {"kind": "sync", **r}, False, f"sync-run:{key}")
        elif i in bad_sync:
            rep.finding(f"sync:{key}", f"SYNC run: observed begin order {r['sync']['begin']} / iterations {r['sync']['scans']} / status "
                        f"{r['sync']['status']} differ from the orchestrator model", {"kind": "sync", **r})
            found = True
    for i in bad_sync:
        r = recs[i]
        if r["sync"]["status"] == "raised" and not r["sync"]["raised"] and not r["sync"]["judge"]:
            pass  # exception raised by the main thread outside a step (result collection): classified above as sync-run
        elif r["sync"]["status"] == "raised" and (r["sync"]["judge"] is None):
            rep.finding(f"sync:{json.dumps(r['spec'], sort_keys=True)}",
                        f"failing SYNC run: observed begin order {r['sync']['begin']} / raised steps {r['sync']['raised']} differ from the model",
                        {"kind": "sync", **r})
            found = True
    for k in bad_gated[:5]:
        i, j = gated_idx[k]
        rep.finding(f"gated:{json.dumps(recs[i]['spec'], sort_keys=True)}:{j}",
                    "gated THREADING history is not a history of the orchestrator model (enabled sets / outcome differ)",
                    {"kind": "gated", "spec": recs[i]["spec"], **recs[i]["gated"][j]})
        found = True
    for i, r in enumerate(recs):
        for j, g in enumerate(r["gated"]):
            failure = None
            if g["problem"]:
                failure = f"scheduler: {g['problem']} in round {len(g['rounds'])} ({g['rounds'][-1] if g['rounds'] else None})"
            elif g["judge"]:
                failure = g["judge"]
            elif g["status"] != "ok":
                failure = f"run {g['status']}: {g['exc']}"
            elif g["same_as_sync"] is False:
                failure = "result differs from the SYNC result"
            if failure is None:
                continue
            dist["gated_failures"] += 1
            schedule = [rd.get("released") for rd in g["rounds"]]
            replay = {"kind": "gated", "spec": r["spec"], "schedule": schedule, "failure": failure}
            if g["problem"]:
                rep.finding(f"threading-sched:{json.dumps(r['spec'], sort_keys=True)}:{schedule}", failure, replay)
                found = True
            else:
                found |= classify(i, g["plan"], f"THREADING schedule {schedule}: {failure}", replay, True,
                                  f"threading:{json.dumps(r['spec'], sort_keys=True)}:{schedule}")
    # a worker FAILS in the middle of a pass of the loop (deterministic schedule: harness/c01_midpass.py, Model/OrchMid.v)
    from harness import c01_midpass
    elig = [i for i, r in enumerate(recs) if r["sync"]["status"] == "ok" and not r["sync"]["judge"] and i not in has_conflict
            and not coq_domains.get(id(r["plan"])) and i not in bad_wf]
    f_mid, _ = c01_midpass.family(rep, "C01", recs, elig, random.Random(seed * 31 + 7), 40 if big else 8)
    found |= f_mid
    found |= c01_midpass.family_once(rep, "C01", recs, elig, random.Random(seed * 43 + 11), 12 if big else 4)
    # one polymorphic Link used by two concrete pairs: two JoinSteps produce the link's uuid (harness/polylink.py; recorded finding)
    from harness import polylink
    found |= polylink.check(rep, "C01")
    # MULTIPROCESSING (sampled schedules): the same judge on traces written by the worker processes
    from mloda.user import ParallelizationMode
    n_mp = 40 if big else 5
    dist["mp_runs"] = 0
    dist["mp_failures"] = 0
    for i, r in enumerate(recs):
        if dist["mp_runs"] >= n_mp:
            break
        if r["sync"]["status"] != "ok" or coq_domains.get(id(r["plan"])):
            continue
        fl = FileListener(str(vlib.BUILD / "C01" / f"mp_trace_{i}.jsonl"))
        uni = Universe(r["spec"], fl)
        sess = uni.prepare()
        plan = export_plan(sess, uni)
        o = run_observed(sess, modes={ParallelizationMode.MULTIPROCESSING}, flight_server=flight_server(), timeout=60)
        dist["mp_runs"] += 1
        rep.count(1)
        events, calls = fl.read()
        fg_sids = [s_["sid"] for s_ in plan["steps"] if s_["kind"] == "FG"]
        # Step.execute runs in the worker process: begin order is not observable here, the per-call trace is
        jr = judge_trace(r["spec"], events, {"steps": []}, [], o["status"], calls)
        if o["status"] == "ok" and jr is None:
            n_calls = len([e for e in events if e[0] == "enter"])
            if n_calls != len(fg_sids):
                jr = f"{n_calls} calculation calls for {len(fg_sids)} feature-group steps"
        failure = jr or (None if o["status"] == "ok" else f"run {o['status']}: {str(o.get('exc'))[-160:]}")
        if failure:
            dist["mp_failures"] += 1
            replay = {"kind": "mp", "spec": r["spec"], "failure": failure}
            rep.finding(f"mp:{json.dumps(r['spec'], sort_keys=True)}", f"MULTIPROCESSING: {failure}", replay)
            found = True
    stop_flight_server()
    dist["plans_in_kf_tfs_partial"] = sum(1 for r in recs if kf_tfs_partial_requirement(r["plan"]))
    dist["plans_in_kf_tfs_missing"] = sum(1 for r in recs if kf_tfs_missing(r["plan"]))
    dist["plans_in_kf_roundtrip"] = sum(1 for r in recs if kf_framework_roundtrip(r["plan"]))
    dist["plans_in_coq_domains"] = sum(1 for r in recs if coq_domains.get(id(r["plan"])))
    rep.sample({"spec": recs[0]["spec"], "plan_steps": [(s["kind"], s["uuids"], s["req"]) for s in recs[0]["plan"]["steps"]],
                "sync_begin_order": recs[0]["sync"]["begin"],
                "gated_rounds": recs[0]["gated"][0]["rounds"] if recs[0]["gated"] else None})
    if not (pr.ok and pr_ip.ok) and not found:
        rep.finding("proof-broken", "Props/C01.v / Props/C06inplace.v no longer checks",
                    {"failed_files": pr.failed_files + pr_ip.failed_files, "forbidden": pr.forbidden + pr_ip.forbidden,
                     "log_tail": (pr.log if not pr.ok else pr_ip.log)[-3000:]}, found_input=False)


def replay(path: str) -> int:
    r = json.load(open(path))["replay"]
    if r.get("kind") == "srctie":
        from harness import srctie
        srctie.replay(r, show=True)
        return 0
    install()
    if r.get("kind") == "once":
        import builtins
        from mloda.user import ParallelizationMode
        uni = Universe(r["spec"], GateListener())
        uni.fail_exc = getattr(builtins, r["exc"])
        key_ = (r["fail"][0], sorted(r["fail"][1])[0])
        uni.fail_once.add(key_)
        o = run_observed(uni.prepare(), modes={getattr(ParallelizationMode, r["mode"])}, timeout=30)
        print("status:", o["status"], "executions of the failing calculation:", uni.fail_once_hits.get(key_, 0))
        return 1 if uni.fail_once_hits.get(key_, 0) > 1 or o["status"] != "raised" else 0
    if r.get("kind") == "polylink":
        from harness import polylink
        return polylink.replay(r)
    if r.get("kind") == "midpass":
        from harness import c01_midpass
        return c01_midpass.replay(r)
    spec = r["spec"]
    gl = GateListener()
    uni = Universe(spec, gl)
    sess = uni.prepare()
    plan = export_plan(sess, uni)
    if r.get("kind") == "gated" and r.get("schedule"):
        sched = list(r["schedule"])

        def choose(expected: List[int]) -> int:
            while sched:
                x = sched.pop(0)
                if x in expected:
                    return x
            return expected[0]
        gl0 = GateListener()
        uni0 = Universe(spec, gl0)
        o0 = run_observed(uni0.prepare())
        g = run_gated(uni, sess, plan, random.Random(0), choose=choose)
        print("status:", g["status"], "problem:", g["problem"], "rounds:", g["rounds"])
        print("SYNC:", o0["status"], "observed in-place steps (SYNC):", sorted(k for k, v in (o0.get("style") or {}).items() if v),
              "same result as SYNC:", g["status"] == "ok" and o0["status"] == "ok" and canon_result(g["result"]) == canon_result(o0["result"]))
        print("judge:", judge_trace(spec, gl.events, plan, g["begin_order"], g["status"], gl.calls))
        if g["status"] == "raised":
            print(str(g.get("exc"))[-400:])
    else:
        o = run_observed(sess)
        print("status:", o["status"], "begin:", o["begin_order"], "scans:", o["scans"])
        print("judge:", judge_trace(spec, gl.events, plan, o["begin_order"], o["status"], gl.calls))
    return 0
