"""api_data + MULTIPROCESSING: does run_all return?"""
import logging, sys, threading, time
logging.disable(logging.CRITICAL)
import pyarrow as pa
from mloda.user import mloda, PluginCollector, ParallelizationMode
from mloda.provider import FeatureGroup, ApiData
from mloda.core.runtime.flight.runner_flight_server import ParallelRunnerFlightServer
from mloda_plugins.compute_framework.base_implementations.pyarrow.table import PyArrowTable

class A(FeatureGroup):
    @classmethod
    def input_data(cls): return ApiData()
    @classmethod
    def calculate_feature(cls, data, features): return pa.table({k: list(v) for k, v in data.items()})

def run(mode, fs=None):
    return [t.to_pydict() for t in mloda.run_all(["a"], compute_frameworks={PyArrowTable}, api_data={"K": {"a": [1, 2]}},
            plugin_collector=PluginCollector.enabled_feature_groups({A}), parallelization_modes={mode}, flight_server=fs)]

if __name__ == "__main__":
    fs = ParallelRunnerFlightServer(); fs.start_flight_server_process()
    print("SYNC ->", run(ParallelizationMode.SYNC))
    print("THREADING ->", run(ParallelizationMode.THREADING))
    box = {}
    th = threading.Thread(target=lambda: box.setdefault("r", run(ParallelizationMode.MULTIPROCESSING, fs)), daemon=True)
    th.start(); th.join(20)
    print("MULTIPROCESSING ->", box.get("r", "NO RETURN AFTER 20 s"))
    import multiprocessing, os
    for p in multiprocessing.active_children(): p.terminate()
    os._exit(0)
