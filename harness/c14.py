"""C14 — moving data between compute frameworks preserves it.

Split of labour (this is the property where the proof assistant contributes least):
  PROVED in Coq (Props/C14.v): the routing logic -- registry built by `add`, chain search (direct / two hops through
    pa.Table), orientation dispatch, the TransformFrameworkStep loop -- for every list of transformer declarations, and
    round trip = identity UNDER THE HYPOTHESIS that each pairwise transformer is a bijection.
  T1 (Gen/Registry.v, regenerated here): the real declarations / transformer_map / installed frameworks of the working
    tree; chain_exists_installed etc. are re-proved over it on every run.
  T2a (Coq-evaluated correspondence): real ComputeFrameworkTransformer.add / initilize_transformer /
    get_transformation_chain, BaseTransformer.identify_orientation and TransformFrameworkStep.transform on generated
    transformer classes vs Model/Transform.v; the hop sequences the real code takes on the installed registry vs the
    model over Gen/Registry.v.
  T2b (Python only, nothing proved): the bijection hypothesis itself -- generated tables through the real pandas /
    pyarrow transformers, directly, through TransformFrameworkStep.transform, through ComputeFramework.transform, through
    upload_table -> Flight -> convert_flyserver_data_back, and end to end through mloda.run_all; compared after a
    normalisation that tolerates exactly null/NaN/pd.NA and the float widening of nullable integer columns.
  VALUES, PROVED ABOUT A MODEL (Props/C14val.v) + T2c (harness/c14_conv.py): Model/ValueConv.v models the four transformer
    functions on python-dict rows / Arrow typed columns / pandas dtyped columns with bit-exact doubles; Props/C14val.v proves
    forward and round-trip preservation for every table and every ordered pair outside the two known-loss domains, and the
    int64 -> float64 exactness characterisation.  T2c evaluates the model conversions inside Coq on the tables of T2b and
    compares them with the real conversions cell by cell (column kinds / dtypes included, floats by their bits).
"""
from __future__ import annotations

import json
import logging
import random
import re
import time
from typing import Any, Callable, Dict, List, Optional, Tuple
from uuid import uuid4

from lib import vlib
from lib.vlib import cq_bool, cq_list
from harness import c14_gen
from harness import c14_values as V
from harness import c14_conv

LEVEL = "proof"
logging.disable(logging.CRITICAL)

KF_INDEX = "C14-pandas-index-leaks-column"
KF_EMPTY = "C14-pydict-empty-table-loses-columns"
KF_PREC = "C14-nullable-int-widening-loses-precision"
KF_EMPTY_RAISE = "C14-pydict-rejects-empty-table"
EMPTY_MSGS = ("Data cannot be empty", "Data is empty or not in expected format")

REQ = ["MV.Model.Transform", "MV.Gen.Registry"]


# ------------------------------------------------------------------------------------------------------------
# real classes
# ------------------------------------------------------------------------------------------------------------

def cfw_class(name: str) -> Any:
    if name == "PyArrowTable":
        from mloda_plugins.compute_framework.base_implementations.pyarrow.table import PyArrowTable
        return PyArrowTable
    if name == "PandasDataFrame":
        from mloda_plugins.compute_framework.base_implementations.pandas.dataframe import PandasDataFrame
        return PandasDataFrame
    from mloda_plugins.compute_framework.base_implementations.python_dict.python_dict_framework import PythonDictFramework
    return PythonDictFramework


def new_cfw(name: str) -> Any:
    from mloda.user import ParallelizationMode
    return cfw_class(name)(ParallelizationMode.SYNC, frozenset(), uuid4())


_DUMMY_FG: Any = None


def dummy_fg() -> Any:
    global _DUMMY_FG
    if _DUMMY_FG is None:
        from mloda.provider import FeatureGroup
        _DUMMY_FG = type("C14DummyFG", (FeatureGroup,), {})
    return _DUMMY_FG


def new_tfs(from_cls: Any, to_cls: Any) -> Any:
    from mloda.core.core.step.transform_frame_work_step import TransformFrameworkStep
    return TransformFrameworkStep(from_cls, to_cls, set(), dummy_fg(), dummy_fg())


# ------------------------------------------------------------------------------------------------------------
# T2a-1: generated transformer classes vs the model
# ------------------------------------------------------------------------------------------------------------

class _Pool:
    """A fixed pool of BaseTransformer subclasses over fake framework types; inert (not importable) unless ACTIVE, so
    that every ComputeFrameworkTransformer() mloda creates on its own skips them."""
    ACTIVE = False
    classes: List[Any] = []
    fws: List[Any] = []          # index 0 is the real pa.Table (the hub literal in get_transformation_chain)
    cfws: List[Any] = []         # ComputeFramework subclasses whose expected_data_framework() is fws[i]

    @classmethod
    def ensure(cls, n_classes: int = 6, n_fws: int = 5) -> None:
        if cls.classes:
            return
        import pyarrow as pa
        from mloda.provider import BaseTransformer, ComputeFramework
        cls.fws = [pa.Table] + [type(f"C14Fw{i}", (), {}) for i in range(1, n_fws)]
        for i, f in enumerate(cls.fws):
            cls.cfws.append(type(f"C14Cfw{i}", (ComputeFramework,), {
                "expected_data_framework": classmethod(lambda c, _f=f: _f),
                "is_available": staticmethod(lambda: False)}))
        for k in range(n_classes):
            def framework(c: Any) -> Any:
                return c._fw

            def other_framework(c: Any) -> Any:
                return c._other

            def import_fw(c: Any) -> None:
                if not (_Pool.ACTIVE and c._imp_fw):
                    raise ImportError("C14 pool: framework not importable")

            def import_other_fw(c: Any) -> None:
                if not (_Pool.ACTIVE and c._imp_other):
                    raise ImportError("C14 pool: other framework not importable")

            def fwd(c: Any, data: Any) -> Any:
                return data + [(c._k, "L")]

            def bwd(c: Any, data: Any, framework_connection_object: Any = None) -> Any:
                return data + [(c._k, "R")]

            cls.classes.append(type(f"C14T{k}", (BaseTransformer,), {
                "_k": k, "_fw": NotImplementedError, "_other": NotImplementedError, "_imp_fw": False, "_imp_other": False,
                "framework": classmethod(framework), "other_framework": classmethod(other_framework),
                "import_fw": classmethod(import_fw), "import_other_fw": classmethod(import_other_fw),
                "transform_fw_to_other_fw": classmethod(fwd), "transform_other_fw_to_fw": classmethod(bwd)}))


def gen_registry_case(rng: random.Random) -> Dict[str, Any]:
    nf = rng.choice([2, 3, 3, 4, 4, 5])
    ncls = rng.choice([1, 2, 3, 3, 4, 5, 6])
    hub = rng.random() < 0.85
    cfg = []
    for k in range(ncls):
        # most pairs touch the hub so that two-hop chains are common
        def pick() -> Optional[int]:
            r = rng.random()
            if r < 0.08:
                return None
            if r < 0.40:
                return 0
            return rng.randrange(nf)
        f, o = pick(), pick()
        cfg.append({"k": k, "fw": f, "other": o, "imp_fw": rng.random() < 0.9, "imp_other": rng.random() < 0.9})
    order = [rng.randrange(ncls) for _ in range(rng.choice([ncls, ncls, ncls + 1, ncls + 2]))]
    return {"nf": nf, "hub": hub, "cfg": cfg, "order": order}


def run_registry_case(c: Dict[str, Any]) -> Dict[str, Any]:
    """Drive the real registry code on the generated classes; everything observed is plain data."""
    from mloda.core.abstract_plugins.components.framework_transformer import cfw_transformer as cfwt
    _Pool.ensure()
    P = _Pool
    nf = c["nf"]
    used = [P.classes[d["k"]] for d in c["cfg"]]
    for d in c["cfg"]:
        t = P.classes[d["k"]]
        t._fw = NotImplementedError if d["fw"] is None else P.fws[d["fw"]]
        t._other = NotImplementedError if d["other"] is None else P.fws[d["other"]]
        t._imp_fw, t._imp_other = d["imp_fw"], d["imp_other"]
    num = {f: i for i, f in enumerate(P.fws)}
    kid = {t: t._k for t in P.classes}
    obs: Dict[str, Any] = {}
    saved_pa, saved_gas = cfwt.pa, cfwt.get_all_subclasses
    # steps and compute frameworks are created while the pool is inert
    steps = {(a, b): new_tfs(P.cfws[a], P.cfws[b]) for a in range(nf) for b in range(nf)}
    cfw_obj = new_cfw("PythonDictFramework")
    try:
        P.ACTIVE = True
        if not c["hub"]:
            cfwt.pa = None
        # (1) add, one by one, continuing after a ValueError (as a caller with try/except would)
        reg = cfwt.ComputeFrameworkTransformer.__new__(cfwt.ComputeFrameworkTransformer)
        reg.transformer_map = {}
        adds = []
        for k in c["order"]:
            try:
                adds.append("T" if reg.add(P.classes[k]) is True else "F")
            except ValueError:
                adds.append("E")
            except Exception as e:  # noqa: BLE001
                adds.append("X:" + type(e).__name__)
        obs["adds"] = adds
        obs["map"] = [[num[a], num[b], kid[t]] for (a, b), t in reg.transformer_map.items()]
        # (2) the constructor over exactly these classes in this order (get_all_subclasses is a set in reality)
        cfwt.get_all_subclasses = lambda _base, _l=[P.classes[k] for k in c["order"]]: list(_l)
        try:
            built = cfwt.ComputeFrameworkTransformer()
            obs["built"] = [[num[a], num[b], kid[t]] for (a, b), t in built.transformer_map.items()]
        except ValueError:
            obs["built"] = None
        except Exception as e:  # noqa: BLE001
            obs["built"] = "X:" + type(e).__name__
        finally:
            cfwt.get_all_subclasses = saved_gas
        # (3) chains and the step loop for every ordered pair
        pairs = []
        for a in range(nf):
            for b in range(nf):
                try:
                    ch = reg.get_transformation_chain(P.fws[a], P.fws[b])
                    chain: Any = None if ch is None else [kid[t] for t in ch]
                except Exception as e:  # noqa: BLE001
                    chain = "X:" + type(e).__name__
                st = steps[(a, b)]
                st.transformer = reg
                try:
                    out = st.transform(cfw_obj, [], set())
                    tfs: Any = ["ok", [[k, d] for k, d in out]]
                except KeyError:
                    tfs = ["nopath"]
                except (ValueError, UnboundLocalError, NameError) as e:
                    tfs = ["raise", type(e).__name__]
                except Exception as e:  # noqa: BLE001
                    tfs = ["X:" + type(e).__name__]
                pairs.append({"a": a, "b": b, "chain": chain, "tfs": tfs})
        obs["pairs"] = pairs
        # (4) orientation of every configured class on every ordered pair
        ori = []
        for t in used:
            for a in range(nf):
                for b in range(nf):
                    try:
                        r = t.identify_orientation(P.fws[a], P.fws[b])
                        o = {"left": "L", "right": "R", None: "N"}.get(r, "X:" + repr(r))
                    except ValueError as e:
                        o = "S" if "are the same" in str(e) else "U"
                    except Exception as e:  # noqa: BLE001
                        o = "X:" + type(e).__name__
                    ori.append([t._k, a, b, o])
        obs["ori"] = ori
    finally:
        P.ACTIVE = False
        cfwt.pa = saved_pa
        cfwt.get_all_subclasses = saved_gas
    return obs


def cq_ofw(x: Optional[int]) -> str:
    return "None" if x is None else f"(Some {x})"


def cq_decl(d: Dict[str, Any]) -> str:
    return (f"{{| t_id := {d['k']}; t_fw := {cq_ofw(d['fw'])}; t_other := {cq_ofw(d['other'])}; "
            f"t_imp := {cq_bool(d['imp_fw'] and d['imp_other'])} |}}")


def cq_trace(tr: List[List[Any]]) -> str:
    return cq_list(f"({k}, {'OLeft' if d == 'L' else 'ORight'})" for k, d in tr)


def cq_map(m: Any) -> str:
    return cq_list(f"(({a}, {b}), {k})" for a, b, k in m)


def registry_term(c: Dict[str, Any], o: Dict[str, Any]) -> Optional[str]:
    """None when the observation contains something the case type cannot express (reported separately)."""
    txt = json.dumps(o)
    if '"X:' in txt:
        return None
    decl = {d["k"]: cq_decl(d) for d in c["cfg"]}
    ds = cq_list(decl[k] for k in c["order"])
    adds = cq_list({"T": "ObsTrue", "F": "ObsFalse", "E": "ObsError"}[a] for a in o["adds"])
    built = "None" if o["built"] is None else f"(Some {cq_map(o['built'])})"
    pairs = []
    for p in o["pairs"]:
        ch = "None" if p["chain"] is None else f"(Some {cq_list(str(k) for k in p['chain'])})"
        t = p["tfs"]
        tfs = (f"(TOk trace {cq_trace(t[1])})" if t[0] == "ok" else "(TNoPath trace)" if t[0] == "nopath" else "(TRaise trace)")
        pairs.append(f"(({p['a']}, {p['b']}), ({ch}, {tfs}))")
    ori = []
    for k, a, b, r in o["ori"]:
        rr = {"L": "ODir OLeft", "R": "ODir ORight", "N": "ONotMine", "S": "OSame", "U": "OUnsupported"}[r]
        ori.append(f"(({decl[k]}, {a}, {b}), {rr})")
    hub = "(Some 0)" if c["hub"] else "None"
    return (f"(({ds}, {hub}), (({adds}, {cq_map(o['map'])}, {built}), {cq_list(pairs)}, {cq_list(ori)}))")


REG_TY = ("(list tdecl * option fw) * ((list addobs * list (key * nat) * option (list (key * nat))) * "
          "list ((fw * fw) * (option (list nat) * tres trace)) * list ((tdecl * fw * fw) * ores))")

EXTRA = """
Inductive addobs := ObsTrue | ObsFalse | ObsError.
Definition addobs_eqb (a b : addobs) := match a, b with ObsTrue, ObsTrue | ObsFalse, ObsFalse | ObsError, ObsError => true | _, _ => false end.
Fixpoint list_eqb {A} (e : A -> A -> bool) (x y : list A) : bool :=
  match x, y with [] , [] => true | a :: x', b :: y' => e a b && list_eqb e x' y' | _, _ => false end.
Definition opt_eqb {A} (e : A -> A -> bool) (x y : option A) : bool :=
  match x, y with Some a, Some b => e a b | None, None => true | _, _ => false end.
Definition orient_eqb (a b : orient) := match a, b with OLeft, OLeft | ORight, ORight => true | _, _ => false end.
Definition ores_eqb (a b : ores) := match a, b with
  | OSame, OSame | ONotMine, ONotMine | OUnsupported, OUnsupported => true | ODir x, ODir y => orient_eqb x y | _, _ => false end.
Definition step_eqb (a b : nat * orient) := Nat.eqb (fst a) (fst b) && orient_eqb (snd a) (snd b).
Definition tres_eqb (a b : tres trace) := match a, b with
  | TOk _ x, TOk _ y => list_eqb step_eqb x y | TNoPath _, TNoPath _ | TRaise _, TRaise _ => true | _, _ => false end.
Definition entry_eqb (a b : key * nat) := key_eqb (fst a) (fst b) && Nat.eqb (snd a) (snd b).
Definition ids (r : registry) : list (key * nat) := map (fun e => (fst e, t_id (snd e))) r.
(* `add` one by one, a ValueError leaves the map as it was and the caller continues *)
Fixpoint add_all (r : registry) (ds : list tdecl) : list addobs * registry :=
  match ds with
  | [] => ([], r)
  | d :: ds' => match add r d with
                | AddSkipped => let (o, r') := add_all r ds' in (ObsFalse :: o, r')
                | AddOk r1 => let (o, r') := add_all r1 ds' in (ObsTrue :: o, r')
                | AddConflict => let (o, r') := add_all r ds' in (ObsError :: o, r')
                end
  end.
Definition chk_registry (c : """ + REG_TY + """) : bool :=
  let '((ds, hub), ((adds, m, built), pairs, ori)) := c in
  let (oa, r) := add_all [] ds in
  list_eqb addobs_eqb oa adds && list_eqb entry_eqb (ids r) m
  && opt_eqb (list_eqb entry_eqb) (option_map ids (build ds)) built
  && forallb (fun p : (fw * fw) * (option (list nat) * tres trace) =>
       let '((a, b), (ch, t)) := p in
       opt_eqb (list_eqb Nat.eqb) (option_map (map t_id) (get_chain hub r a b)) ch && tres_eqb (tfs_trace hub r a b) t) pairs
  && forallb (fun p : (tdecl * fw * fw) * ores => let '((d, a, b), o) := p in ores_eqb (identify_orientation d a b) o) ori.

(* hop sequences observed on the installed registry: kind 0 = TransformFrameworkStep.transform,
   kind 1 = transformer_map.get((a, b)) + transform (cfw.transform / the transformer called directly),
   kind 2 = upload_table from a (to pa.Table unless the data already is one) then convert_flyserver_data_back to b
            (nothing if b expects pa.Table) *)
Definition direct_trace (r : registry) (a b : fw) (x : trace) : option (option trace) := direct_transform trace tr_fwd tr_bwd r a b x.
Definition upload_trace (r : registry) (pa a b : fw) : option trace :=
  let up := if Nat.eqb a pa then Some [] else match direct_trace r a pa [] with Some (Some x) => Some x | _ => None end in
  match up with
  | None => None
  | Some x => if Nat.eqb b pa then Some x else match direct_trace r pa b x with Some (Some y) => Some y | _ => None end
  end.
Definition chk_installed (c : (nat * fw * fw) * option (list (nat * orient))) : bool :=
  let '((kind, a, b), o) := c in
  match kind with
  | 0 => match tfs_trace gen_hub gen_registry a b, o with TOk _ x, Some y => list_eqb step_eqb x y | TNoPath _, None => true | _, _ => false end
  | 1 => match direct_trace gen_registry a b [], o with
         | Some (Some x), Some y => list_eqb step_eqb x y | None, None => true | _, _ => false end
  | _ => match gen_hub with
         | Some pa => opt_eqb (list_eqb step_eqb) (upload_trace gen_registry pa a b) o
         | None => false
         end
  end.
"""


# ------------------------------------------------------------------------------------------------------------
# T2b: values through the real transformers
# ------------------------------------------------------------------------------------------------------------

class Spy:
    """Records which conversion functions of the registered transformer classes run (harness-side wrapping of the
    classes in this process; /repo is untouched)."""
    log: List[Tuple[str, str]] = []
    installed = False

    @classmethod
    def install(cls) -> None:
        if cls.installed:
            return
        from mloda.core.abstract_plugins.components.framework_transformer.cfw_transformer import ComputeFrameworkTransformer
        for t in set(ComputeFrameworkTransformer().transformer_map.values()):
            f0 = t.transform_fw_to_other_fw.__func__
            b0 = t.transform_other_fw_to_fw.__func__

            def f(c: Any, data: Any, _f: Any = f0) -> Any:
                Spy.log.append((c.__name__, "L"))
                return _f(c, data)

            def b(c: Any, data: Any, framework_connection_object: Any = None, _b: Any = b0) -> Any:
                Spy.log.append((c.__name__, "R"))
                return _b(c, data, framework_connection_object)

            t.transform_fw_to_other_fw = classmethod(f)
            t.transform_other_fw_to_fw = classmethod(b)
        cls.installed = True


class Flight:
    server: Any = None
    location: Optional[str] = None
    error: Optional[str] = None

    @classmethod
    def start(cls) -> bool:
        if cls.server is not None:
            return True
        try:
            from mloda.core.runtime.flight.runner_flight_server import ParallelRunnerFlightServer
            from mloda.core.runtime.flight.flight_server import FlightServer
            s = ParallelRunnerFlightServer()
            s.start_flight_server_process()
            loc = s.get_location()
            last: Any = None
            for _ in range(150):
                try:
                    FlightServer.list_flight_infos(loc)
                    cls.server, cls.location = s, loc
                    return True
                except Exception as e:  # noqa: BLE001
                    last = e
                    time.sleep(0.1)
            s.end_flight_server_process()
            cls.error = f"flight server did not answer within 15 s: {type(last).__name__}"
        except Exception as e:  # noqa: BLE001
            cls.error = f"flight server could not be started: {type(e).__name__}: {str(e)[:100]}"
        return False

    @classmethod
    def stop(cls) -> None:
        if cls.server is not None:
            try:
                cls.server.end_flight_server_process()
            except Exception:  # noqa: BLE001
                pass
            cls.server = None


MODES = ["direct", "cfw_transform", "chained", "upload"]


def exc_text(e: BaseException) -> str:
    """Last `SomethingError: ...` line of an exception text (mloda wraps worker tracebacks into the message)."""
    import re
    s = str(e).replace("\\n", "\n")
    lines = [ln.strip() for ln in s.splitlines() if re.match(r"^\s*[A-Za-z_.]*(Error|Exception)\b", ln)]
    last = lines[-1] if lines else (s.strip().splitlines()[-1] if s.strip() else "")
    return f"{type(e).__name__}: {last[:200]}"


def convert(mode: str, f1: str, f2: str, native: Any, names: List[str]) -> Tuple[str, Any]:
    """One conversion f1 -> f2 of the real code.  Returns ("ok", data) | ("skip", reason) | ("raise", text)."""
    from mloda.core.abstract_plugins.components.framework_transformer.cfw_transformer import ComputeFrameworkTransformer
    c1, c2 = cfw_class(f1), cfw_class(f2)
    e1, e2 = c1.expected_data_framework(), c2.expected_data_framework()
    try:
        if mode == "direct":
            t = ComputeFrameworkTransformer().transformer_map.get((e1, e2))
            if t is None:
                return "skip", "no direct transformer"
            return "ok", t.transform(e1, e2, native, None)
        if mode == "cfw_transform":
            obj = new_cfw(f2)
            if (e1, e2) not in obj.transformer.transformer_map:
                return "skip", "no direct transformer"
            return "ok", obj.transform(native, set(names))
        if mode == "chained":
            return "ok", new_tfs(c1, c2).transform(new_cfw(f2), native, set(names))
        if mode == "upload":
            from mloda.core.runtime.flight.flight_server import FlightServer
            src = new_cfw(f1)
            src.set_data(native)
            oid = src.upload_table(Flight.location)
            try:
                tbl = FlightServer.download_table(Flight.location, oid)
            finally:
                FlightServer.drop_tables(Flight.location, {oid})
            return "ok", c2.convert_flyserver_data_back(tbl, ComputeFrameworkTransformer())
    except Exception as e:  # noqa: BLE001
        return "raise", exc_text(e)
    raise ValueError(mode)


def check_one(t: Dict[str, Any], f1: str, variant: str, f2: str, mode: str) -> Dict[str, Any]:
    """Build the table natively in f1, convert to f2, convert back; compare both with the source observation."""
    names = [c["name"] for c in t["cols"]]
    native = V.build(f1, t, variant)
    src = V.to_rows(native)
    rec: Dict[str, Any] = {"f1": f1, "variant": variant, "f2": f2, "mode": mode, "devs": [], "status": "ok"}
    Spy.log.clear()
    st, out = convert(mode, f1, f2, native, names)
    rec["trace_fwd"] = list(Spy.log)
    if st == "skip":
        rec["status"] = "skip"
        return rec
    if st == "raise":
        rec["devs"].append({"kind": "raise", "leg": "forward", "detail": out})
        return rec
    want = cfw_class(f2).expected_data_framework()
    if not isinstance(out, want):
        rec["devs"].append({"kind": "shape", "leg": "forward", "detail": f"got {type(out).__name__}"})
        return rec
    o = V.to_rows(out)
    for d in V.compare(src, o):
        rec["devs"].append({**d, "leg": "forward"})
    if f1 == f2 and mode != "upload":
        return rec
    Spy.log.clear()
    st, back = convert(mode, f2, f1, out, o["names"] or names)
    rec["trace_back"] = list(Spy.log)
    if st == "raise":
        rec["devs"].append({"kind": "raise", "leg": "back", "detail": back})
        return rec
    if st == "ok":
        if not isinstance(back, cfw_class(f1).expected_data_framework()):
            rec["devs"].append({"kind": "shape", "leg": "back", "detail": f"got {type(back).__name__}"})
            return rec
        for d in V.compare(src, V.to_rows(back)):
            rec["devs"].append({**d, "leg": "roundtrip"})
    return rec


def run_witness(w: Dict[str, Any]) -> Dict[str, Any]:
    if w["mode"].startswith("e2e:"):
        return e2e_run(w["table"], w["f1"], w["variant"], w["f2"], w["mode"].split(":")[1])
    return check_one(w["table"], w["f1"], w["variant"], w["f2"], w["mode"])


def classify(t: Dict[str, Any], rec: Dict[str, Any], d: Dict[str, Any]) -> Optional[str]:
    """Known-finding key if the deviation lies inside one of the narrow known-defect domains, else None (= violation)."""
    pandas_in_path = "PandasDataFrame" in (rec["f1"], rec["f2"])
    pydict_in_path = "PythonDictFramework" in (rec["f1"], rec["f2"])
    if d["kind"] == "names:index_leak":
        # only a pandas SOURCE that carries a non-RangeIndex, converted pandas -> Arrow
        if rec["f1"] == "PandasDataFrame" and rec["variant"].endswith("+index"):
            return KF_INDEX
        return None
    if d["kind"] == "names:lost_on_empty":
        # zero rows, at least one column, a list of dicts on the way
        if t["n"] == 0 and len(t["cols"]) > 0 and pydict_in_path:
            return KF_EMPTY
        return None
    if d["kind"] == "raise":
        # zero rows, a list of dicts on the way, and the framework's own "empty data" ValueError
        if t["n"] == 0 and pydict_in_path and any(m in str(d["detail"]) for m in EMPTY_MSGS):
            return KF_EMPTY_RAISE
        return None
    if d["kind"] == "widen:precision":
        # integer column containing a null, |value| > 2**53, pandas on the way
        n = d["detail"]["src"][1]
        if pandas_in_path and abs(n) > 2 ** 53:
            return KF_PREC
        return None
    return None


# ------------------------------------------------------------------------------------------------------------
# end to end
# ------------------------------------------------------------------------------------------------------------

_E2E_SEEN: List[Any] = []
_E2E_N = [0]


def e2e_run(t: Dict[str, Any], f1: str, variant: str, f2: str, mode: str = "SYNC") -> Dict[str, Any]:
    """mloda.run_all: a root group on f1 returns the table, a consumer on f2 records what it is handed."""
    import pyarrow as pa
    import pandas as pd
    from mloda.user import mloda, Feature, PluginCollector, ParallelizationMode
    from mloda.provider import FeatureGroup, DataCreator
    names = [c["name"] for c in t["cols"]]
    native = V.build(f1, t, variant)
    src = V.to_rows(native)
    c1, c2 = cfw_class(f1), cfw_class(f2)
    _E2E_N[0] += 1
    tag = _E2E_N[0]

    def r_input_data(cls: Any) -> Any:
        return DataCreator(set(names))

    def r_calc(cls: Any, data: Any, features: Any) -> Any:
        return native

    Root = type(f"C14Root{tag}", (FeatureGroup,), {
        "input_data": classmethod(r_input_data), "calculate_feature": classmethod(r_calc),
        "compute_framework_rule": classmethod(lambda cls: {c1})})

    def c_inputs(self: Any, options: Any, feature_name: Any) -> Any:
        return {Feature(n) for n in names}

    def c_match(cls: Any, feature_name: Any, options: Any, data_access_collection: Any = None) -> bool:
        return str(feature_name) == "c14_consumer"

    def c_calc(cls: Any, data: Any, features: Any) -> Any:
        _E2E_SEEN.append(data)
        if isinstance(data, pa.Table):
            return pa.table({"c14_consumer": pa.array([0] * data.num_rows, pa.int64())})
        if isinstance(data, pd.DataFrame):
            return pd.DataFrame({"c14_consumer": [0] * len(data)})
        return [{"c14_consumer": 0} for _ in data]

    Cons = type(f"C14Cons{tag}", (FeatureGroup,), {
        "input_features": c_inputs, "match_feature_group_criteria": classmethod(c_match),
        "calculate_feature": classmethod(c_calc), "compute_framework_rule": classmethod(lambda cls: {c2})})
    _E2E_SEEN.clear()
    rec: Dict[str, Any] = {"f1": f1, "variant": variant, "f2": f2, "mode": "e2e:" + mode, "devs": [], "status": "ok"}
    try:
        mloda.run_all([Feature("c14_consumer")], compute_frameworks={c1, c2},
                      plugin_collector=PluginCollector.enabled_feature_groups({Root, Cons}),
                      parallelization_modes={ParallelizationMode[mode]})
    except Exception as e:  # noqa: BLE001
        rec["devs"].append({"kind": "raise", "leg": "e2e", "detail": exc_text(e)})
        return rec
    if len(_E2E_SEEN) != 1:
        rec["devs"].append({"kind": "shape", "leg": "e2e", "detail": f"consumer called {len(_E2E_SEEN)} times"})
        return rec
    got = _E2E_SEEN[0]
    rec["seen_type"] = type(got).__name__
    if not isinstance(got, c2.expected_data_framework()):
        rec["devs"].append({"kind": "shape", "leg": "e2e", "detail": f"consumer got {type(got).__name__}"})
        return rec
    o = V.to_rows(got)
    rec["seen_names"] = o["names"]
    for d in V.compare(src, o):
        rec["devs"].append({**d, "leg": "e2e"})
    return rec


# fixed API-level witnesses of the known findings (run in every tier, replayed by key)
WITNESSES = [
    {"key": KF_INDEX, "f1": "PandasDataFrame", "variant": "infer+index", "f2": "PyArrowTable", "mode": "e2e:SYNC",
     "table": {"cols": [{"name": "a", "kind": "int", "vals": [1, 5, 2]}, {"name": "b", "kind": "str", "vals": ["w", "x", "y"]}], "n": 3}},
    {"key": KF_PREC, "f1": "PyArrowTable", "variant": "typed", "f2": "PandasDataFrame", "mode": "e2e:SYNC",
     "table": {"cols": [{"name": "a", "kind": "int", "vals": [2**53 + 1, None]}], "n": 2}},
    {"key": KF_EMPTY, "f1": "PyArrowTable", "variant": "typed", "f2": "PythonDictFramework", "mode": "chained",
     "table": {"cols": [{"name": "a", "kind": "int", "vals": []}, {"name": "b", "kind": "str", "vals": []}], "n": 0}},
    {"key": KF_EMPTY_RAISE, "f1": "PyArrowTable", "variant": "typed", "f2": "PythonDictFramework", "mode": "e2e:SYNC",
     "table": {"cols": [{"name": "a", "kind": "int", "vals": []}], "n": 0}},
]


# ------------------------------------------------------------------------------------------------------------
# run
# ------------------------------------------------------------------------------------------------------------

def recount_after_failure(pr: vlib.ProofResult) -> List[str]:
    """vlib counts a file as discharged when a .vo newer than its .v exists.  When a theorem over the regenerated
    Gen/Registry.v fails, the .vo of the failing file and of everything that requires it are left over from the last
    good build: take them out of the count (and off the disk) so the evidence never reports stale proofs."""
    if pr.ok:
        return []
    failed = set(re.findall(r'File "\./([A-Za-z0-9_/]+\.v)", line \d+, characters [\d-]+:\s*\n\s*Error', pr.log))
    deps = vlib.dep_files("Props/C14.v")
    rel = {p: str(p.relative_to(vlib.COQ)) for p in deps}
    req = {p: {f"{a}/{b}.v" for a, b in re.findall(r"MV\.([A-Za-z0-9_]+)\.([A-Za-z0-9_]+)", vlib.strip_coq_comments(p.read_text()))}
           for p in deps}
    bad = set(failed)
    grew = True
    while grew:
        grew = False
        for p in deps:
            if rel[p] not in bad and req[p] & bad:
                bad.add(rel[p])
                grew = True
    for p in deps:
        if rel[p] in bad and rel[p] not in pr.failed_files:
            n = len([m for m in vlib.THEOREM_RE.finditer(vlib.strip_coq_comments(p.read_text()))])
            if not (rel[p] == "Props/C14.v" and "Props/C14.v" in pr.failed_files):
                pr.discharged -= n
            pr.failed_files.append(rel[p])
            for suf in (".vo", ".vok", ".vos", ".glob"):
                q = p.with_suffix(suf)
                if q.exists():
                    q.unlink()
    pr.discharged = max(pr.discharged, 0)
    return sorted(bad)


def short(t: Dict[str, Any]) -> str:
    return json.dumps(t, ensure_ascii=True)[:400]


def _ver(mod: str) -> str:
    try:
        return str(__import__(mod).__version__)
    except Exception:  # noqa: BLE001
        return "?"


_LAST_TABLES: List[Any] = []


def run(rep: vlib.Reporter, tier: str, seed: int) -> None:
    t_start = time.time()
    big = tier == "thorough"
    rng = random.Random(seed * 7919 + 14)
    changed, snap = c14_gen.generate()                  # T1 (before any harness class exists)
    pr = vlib.build_props("C14")
    stale = recount_after_failure(pr)
    rep.proof(pr)
    pr_val = vlib.build_props("C14val")                 # value-level model: preservation for every table, every ordered pair
    rep.proof(pr_val)
    if stale:
        rep.add("proof_files_failing_on_this_tree", stale)
    rep.add("gen_registry", {"rewritten": changed, **{k: snap[k] for k in ("ok", "problems", "fw_names", "hub", "installed")},
                             "declarations": [d["name"] for d in snap["decls"]],
                             "registry_pairs": [[e["from"], e["to"], e["name"]] for e in snap["registry"]]})
    rep.coverage["trusted_base"] += [
        "value preservation is PROVED ABOUT A MODEL (Model/ValueConv.v, Props/C14val.v), not about pandas / pyarrow: the library "
        "facts L1-L7 in the header of Model/ValueConv.v (from_pylist looks cells up by name and infers one kind per column; "
        "to_pylist; to_pandas dtype mapping incl. nullable int64 -> float64 by round-to-nearest-even; from_pandas("
        "preserve_index=False) dtype mapping with NaN -> null; one NaN; strings copied) are ASSUMED and tied to pandas "
        f"{_ver('pandas')} / pyarrow {_ver('pyarrow')} / numpy {_ver('numpy')} by the correspondence chk_conv on every run (bit-exact, all six directions, "
        "both legs and the round trip); the exact bijection hypothesis `bijective_registry` of C14_roundtrip_under_bijection "
        "is NOT discharged literally (it is false: null comes back as NaN) -- the quotient statement is proved instead",
        "abstraction function of the value tie harness/c14_conv.py `abstract` (reads a real pa.Table / pd.DataFrame / list of "
        "dicts, writes the model term incl. Arrow type / pandas dtype per column, doubles by their IEEE bits); outside it: "
        "pandas nullable extension dtypes, chunk layout, string vs large_string, NaN payloads, Arrow Flight transport",
        "int64 -> binary64 is SpecFloat.binary_normalize 53 1024 (stdlib, pure Gallina); additionally compared with the kernel "
        "primitive PrimFloat.of_uint63 (hardware rounding) on every integer of every correspondence case (evaluation only)",
        "T1 translator harness/c14_gen.py: imports every module below mloda_plugins/compute_framework/base_implementations, "
        "evaluates framework()/other_framework()/check_*_import() of every BaseTransformer subclass, the transformer_map of a "
        "fresh ComputeFrameworkTransformer(), expected_data_framework() of every available ComputeFramework",
        "hand-written model Model/Transform.v of ComputeFrameworkTransformer.add/initilize_transformer/"
        "get_transformation_chain, BaseTransformer.identify_orientation/transform, TransformFrameworkStep.transform/"
        "equal_frameworks and the map.get+transform idiom of upload_table/convert_flyserver_data_back/"
        "apply_compute_framework_transformer; tied by correspondence (T2a) on generated transformer classes",
        "class identity of transformers = record equality in the model; framework() of a class is constant",
        "harness normaliser/comparator harness/c14_values.py (ordinary Python): decides what counts as the two tolerated "
        "representation changes"]
    found = False

    # ---------------- T2a-1: generated registries vs model ----------------
    n_reg = 6000 if big else 700
    rcases = [gen_registry_case(rng) for _ in range(n_reg)]
    robs = [run_registry_case(c) for c in rcases]
    terms, idx = [], []
    for i, (c, o) in enumerate(zip(rcases, robs)):
        tm = registry_term(c, o)
        if tm is None:
            rep.finding(f"registry-unexpected:{json.dumps(c)[:200]}", f"unexpected exception kind in registry code on {c}: {o}",
                        {"kind": "registry", "case": c, "obs": o})
            found = True
        else:
            terms.append(tm)
            idx.append(i)
    bad, info = vlib.run_cases("C14", "registry", REQ, "chk_registry", terms, case_type=REG_TY, extra_defs=EXTRA, shard=150)
    rep.count(len(rcases))
    stat = {"cases": len(rcases), "disagreements": len(bad), "add_true": 0, "add_false": 0, "add_valueerror": 0,
            "constructor_valueerror": 0, "pairs": 0, "chain_direct": 0, "chain_two_hop": 0, "chain_none": 0,
            "tfs_ok": 0, "tfs_nopath": 0, "tfs_raise": 0, "without_hub": sum(1 for c in rcases if not c["hub"]),
            "orientation": {}}
    for c, o in zip(rcases, robs):
        for a in o["adds"]:
            stat[{"T": "add_true", "F": "add_false", "E": "add_valueerror"}.get(a, "add_false")] += 1
        stat["constructor_valueerror"] += o["built"] is None
        two = False
        for p in o["pairs"]:
            stat["pairs"] += 1
            ch = p["chain"]
            stat["chain_none" if ch is None else "chain_direct" if len(ch) == 1 else "chain_two_hop"] += 1
            two = two or (ch is not None and len(ch) == 2)
            stat["tfs_" + (p["tfs"][0] if p["tfs"][0] in ("ok", "nopath", "raise") else "raise")] += 1
        for _, _, _, r in o["ori"]:
            stat["orientation"][r] = stat["orientation"].get(r, 0) + 1
        if two:
            rep.nontrivial(("reg", c))
    rep.add("registry_correspondence", {**info, **stat})
    for c, o in zip(rcases, robs):
        if any(p["chain"] is not None and len(p["chain"]) == 2 for p in o["pairs"]):
            rep.sample({"registry_case": c, "observed": {"adds": o["adds"], "map": o["map"], "built": o["built"],
                                                         "two_hop_pairs": [p for p in o["pairs"] if p["chain"] and len(p["chain"]) == 2][:2]}})
            break
    t_reg = time.time()
    for i in bad[:5]:
        c, o = rcases[idx[i]], robs[idx[i]]
        rep.finding(f"registry:{json.dumps(c)[:300]}",
                    f"real registry/chain/orientation/step-loop behaviour differs from Model/Transform.v on declarations {c}: observed {json.dumps(o)[:600]}",
                    {"kind": "registry", "case": c, "obs": o})
        found = True

    # ---------------- T2b: values ----------------
    Spy.install()
    flight_ok = Flight.start()
    if not flight_ok:
        rep.notes.append("upload path skipped: " + str(Flight.error))
    rep.add("flight_server", {"started": flight_ok, "error": Flight.error})
    try:
        found = values_part(rep, rng, big, flight_ok, snap) or found
    finally:
        Flight.stop()
    t_val = time.time()

    # ---------------- the Flight round trip follows the CURRENT data of the uploading object (harness/c14_flight.py) ----------------
    try:
        from harness import c14_flight
        from harness.orch import stop_flight_server
        fl_probs, fl_info = c14_flight.check(seed, 240 if big else 45)
        stop_flight_server()
        rep.add("flight_round_trip_histories", {**fl_info, "problems": len(fl_probs)})
        rep.count(fl_info["round_trips"])
        rep.nontrivial(("flight_hist", fl_info["histories"]))
        for p_ in fl_probs[:8]:
            rep.finding(f"flight-roundtrip:{p_['framework']}:{p_['reader']}:{json.dumps(p_['history'])[:160]}",
                        "moving a dataset through the Flight store (upload_table -> download_table -> convert_flyserver_data_back): " + p_["what"], p_)
            found = True
    except Exception as e:  # noqa: BLE001
        rep.notes.append(f"flight round-trip histories not run: {type(e).__name__}: {str(e)[:160]}")

    # ---------------- T2c: the value MODEL (Model/ValueConv.v) against the real conversions, inside Coq ----------------
    found = c14_conv.run_tie(rep, seed, big, _LAST_TABLES) or found

    rep.add("rule", "registry: PRNG lists of 1-8 add() calls over 1-6 generated transformer classes on 2-5 frameworks (hub present in "
                    "85%), classes possibly unimplemented / not importable / degenerate (fw = other) / conflicting; every ordered pair "
                    "queried; non-trivial = the case contains a two-hop chain. values: fixed corpus (every value class alone and with a "
                    "null, empty tables, all column names) + PRNG tables 0-5 rows x 1-4 columns over ints (incl. 2**53+1, 2**63-1), "
                    "floats (dyadic, NaN, +-0.0, inf, 2**1023, subnormal), strings (empty, unicode, non-BMP, NUL, look-alikes of "
                    "null), booleans, nulls; x source framework x native variant (Arrow typed/chunked, pandas inferred/nullable "
                    "dtypes with Range/non-Range index, list plain/shuffled keys) x every other framework x {direct, "
                    "ComputeFramework.transform, TransformFrameworkStep.transform, upload/download}; each forward and round trip. "
                    "non-trivial = table with >= 1 row and >= 1 null or special value (distinct by table, pair, variant, mode). "
                    "value model (T2c): the same tables (quick: the corpus + the first 220 generated; thorough: + 4000), every source framework x one "
                    "native variant (corpus: all; extension-dtype variants excluded) x both other frameworks, real forward and back "
                    "conversion through TransformFrameworkStep.transform (corpus also through the transformer classes directly), plus "
                    "python-dict tables with one row's keys dropped / added / renamed / reordered (schema check); checked in Coq: "
                    "model = real for both legs bit for bit, routing model over Gen/Registry = the six conversions, pres on the real "
                    "round trip outside the loss domains; non-trivial = source with a null, a non-integer cell or |int| >= 2**53")
    rep.add("wall_s_by_part", {"proof_and_registry": round(t_reg - t_start, 1), "values_e2e_traces": round(t_val - t_reg, 1),
                               "value_model_tie": round(time.time() - t_val, 1)})
    if not pr.ok and not found:
        rep.finding("proof-broken", "Props/C14.v no longer checks",
                    {"failed_files": pr.failed_files, "forbidden": pr.forbidden, "log_tail": pr.log[-3000:],
                     "gen_registry": snap}, found_input=False)
    if not pr_val.ok and not found:
        rep.finding("proof-broken-values", "Props/C14val.v no longer checks (value model over the regenerated registry)",
                    {"failed_files": pr_val.failed_files, "forbidden": pr_val.forbidden, "log_tail": pr_val.log[-3000:],
                     "gen_registry": snap}, found_input=False)


def special(t: Dict[str, Any]) -> bool:
    if t["n"] == 0:
        return False
    for c in t["cols"]:
        for v in c["vals"]:
            if v is None:
                return True
            if c["kind"] == "float" and v in ("nan", "-0x0.0p+0", "inf", "-inf"):
                return True
            if c["kind"] == "int" and abs(v) >= 2 ** 53:
                return True
            if c["kind"] == "str" and (v == "" or any(ord(ch) > 127 for ch in v)):
                return True
    return False


def values_part(rep: vlib.Reporter, rng: random.Random, big: bool, flight_ok: bool, snap: Dict[str, Any]) -> bool:
    found = False
    n_tables = 10000 if big else 400
    n_upload = 1000 if big else 60
    n_e2e = 400 if big else 40
    fixed = V.fixed_tables()
    tables = [(t, True) for t in fixed] + [(V.gen_table(rng), False) for _ in range(n_tables)]
    _LAST_TABLES[:] = tables                              # the value-model tie (T2c) runs on the same tables
    dist: Dict[str, Any] = {"tables": len(tables), "fixed_corpus": len(fixed), "rows": {}, "kinds": {}, "checks_by_mode": {},
                            "skipped_no_direct": 0, "by_pair": {}, "deviations_by_kind": {}, "source_not_representable": 0}
    kf_first: Dict[str, Dict[str, Any]] = {}
    kf_count: Dict[str, int] = {KF_INDEX: 0, KF_EMPTY: 0, KF_PREC: 0, KF_EMPTY_RAISE: 0}
    viol = 0
    n_samples = [0]
    traces: Dict[Tuple[int, str, str], set] = {}          # (kind, from, to) -> distinct observed hop sequences
    fwnum = {e["name"]: e["fw"] for e in snap["installed"]}
    declid = {d["name"]: d["id"] for d in snap["decls"]}

    def note_trace(kind: int, a: str, b: str, tr: Optional[List[Tuple[str, str]]]) -> None:
        traces.setdefault((kind, a, b), set()).add("none" if tr is None else tuple((declid.get(n, 999), d) for n, d in tr))

    def handle(t: Dict[str, Any], rec: Dict[str, Any]) -> None:
        nonlocal viol, found
        for d in rec["devs"]:
            dist["deviations_by_kind"][d["kind"]] = dist["deviations_by_kind"].get(d["kind"], 0) + 1
            key = classify(t, rec, d)
            if key is not None:
                kf_count[key] += 1
                if key not in kf_first:
                    kf_first[key] = {"kind": "value", "table": t, **{k: rec[k] for k in ("f1", "variant", "f2", "mode")}, "deviation": d}
            else:
                viol += 1
                found = True
                if viol <= 8:
                    rep.finding(f"value:{d['kind']}:{rec['f1']}:{rec['variant']}:{rec['f2']}:{rec['mode']}:{short(t)[:120]}",
                                f"{rec['f1']}[{rec['variant']}] -> {rec['f2']} via {rec['mode']} ({d.get('leg')}): {d['kind']} "
                                f"{json.dumps(d['detail'], ensure_ascii=True)[:300]} on table {short(t)}",
                                {"kind": "value", "table": t, **{k: rec[k] for k in ("f1", "variant", "f2", "mode")}, "deviation": d})

    # known-finding witnesses first: still present (known finding) or repaired (nothing to report) -- anything else
    # they show is an ordinary violation
    wstat = {}
    for w in WITNESSES:
        if w["mode"] == "upload" and not flight_ok:
            continue
        rec = run_witness(w)
        rep.count(1)
        wstat[w["key"]] = sorted({d["kind"] for d in rec["devs"]}) or ["preserved (defect no longer present)"]
        handle(w["table"], rec)
    dist["witnesses"] = wstat

    for ti, (t, is_fixed) in enumerate(tables):
        dist["rows"][t["n"]] = dist["rows"].get(t["n"], 0) + 1
        for c in t["cols"]:
            dist["kinds"][c["kind"]] = dist["kinds"].get(c["kind"], 0) + 1
        do_upload = flight_ok and (is_fixed or ti < len(fixed) + n_upload)
        for f1 in V.FWS:
            vs = V.variants(f1, t)
            vs = vs if is_fixed else [rng.choice(vs)]
            for variant in vs:
                if not V.source_faithful(t, V.to_rows(V.build(f1, t, variant))):
                    dist["source_not_representable"] += 1
                for f2 in V.FWS:
                    for mode in MODES:
                        if mode == "upload" and not do_upload:
                            continue
                        if f1 == f2 and mode != "upload":
                            continue
                        rec = check_one(t, f1, variant, f2, mode)
                        if rec["status"] == "skip":
                            dist["skipped_no_direct"] += 1
                            if mode == "direct":
                                note_trace(1, f1, f2, None)
                            continue
                        rep.count(1)
                        dist["checks_by_mode"][mode] = dist["checks_by_mode"].get(mode, 0) + 1
                        pk = f"{f1}->{f2}"
                        dist["by_pair"][pk] = dist["by_pair"].get(pk, 0) + 1
                        if special(t):
                            rep.nontrivial(("v", t, f1, variant, f2, mode))
                        if not any(d["kind"] == "raise" for d in rec["devs"]):
                            if mode == "chained":
                                note_trace(0, f1, f2, rec["trace_fwd"])
                                if "trace_back" in rec:
                                    note_trace(0, f2, f1, rec["trace_back"])
                            elif mode in ("direct", "cfw_transform"):
                                note_trace(1, f1, f2, rec["trace_fwd"])
                            elif mode == "upload":
                                note_trace(2, f1, f2, rec["trace_fwd"])
                        handle(t, rec)
        if special(t) and not is_fixed and n_samples[0] < 3 and t["n"] >= 3:
            n_samples[0] += 1
            rep.sample({"table": t, "last_check": {k: v for k, v in rec.items() if k != "devs"}, "deviations": rec["devs"][:2]})

    # ---------------- end to end ----------------
    e2e_stat = {"runs": 0, "deviating_runs": 0, "modes": {}}
    e_tables = fixed[1:12] + [V.gen_table(rng) for _ in range(n_e2e)]
    for ei, t in enumerate(e_tables):
        # "~" is mloda's sub-column separator: a feature called "x~y" is resolved differently (C03/C16), not a C14 matter
        if not t["cols"] or any("~" in c["name"] for c in t["cols"]):
            continue
        f1 = rng.choice(V.FWS)
        f2 = rng.choice([f for f in V.FWS if f != f1])
        variant = rng.choice(V.variants(f1, t))
        mode = "THREADING" if ei % 4 == 3 else "SYNC"
        rec = e2e_run(t, f1, variant, f2, mode)
        rep.count(1)
        e2e_stat["runs"] += 1
        e2e_stat["modes"][mode] = e2e_stat["modes"].get(mode, 0) + 1
        e2e_stat["deviating_runs"] += bool(rec["devs"])
        if special(t):
            rep.nontrivial(("e", t, f1, variant, f2, mode))
        handle(t, rec)
    rep.add("e2e", e2e_stat)

    # ---------------- hop sequences on the installed registry vs the model over Gen ----------------
    tcases, tmeta = [], []
    for (kind, a, b), trs in sorted(traces.items()):
        for tr in sorted(trs, key=str):
            term_obs = "None" if tr == "none" else f"(Some {cq_trace([[k, d] for k, d in tr])})"
            tcases.append(f"(({kind}, {fwnum[a]}, {fwnum[b]}), {term_obs})")
            tmeta.append({"kind": ["tfs", "direct", "upload"][kind], "from": a, "to": b, "trace": None if term_obs == "None" else list(tr)})
    if tcases:
        bad, info = vlib.run_cases("C14", "installed", REQ, "chk_installed", tcases, extra_defs=EXTRA,
                                   case_type="(nat * fw * fw) * option (list (nat * orient))")
        rep.add("installed_hop_sequences", {**info, "distinct": tmeta, "disagreements": len(bad)})
        rep.coverage["traces_validated_against_impl"] = len(tcases)
        for i in bad[:5]:
            rep.finding(f"installed-trace:{json.dumps(tmeta[i])}",
                        f"conversions run by the real code {tmeta[i]} differ from the model over the regenerated registry",
                        {"kind": "trace", **tmeta[i]})
            found = True

    for key, w1 in kf_first.items():
        rep.finding(key, f"{key}: {json.dumps(w1.get('deviation'), ensure_ascii=True)[:200]}", w1)
    dist["known_finding_hits"] = kf_count
    dist["violations"] = viol
    rep.add("values", dist)
    return found


def replay(path: str) -> int:
    r = json.load(open(path))["replay"]
    print(json.dumps(r, indent=1, ensure_ascii=True)[:3000])
    c14_gen.import_implementations()
    if r.get("kind") == "flight_roundtrip":
        from harness import c14_flight
        from harness.orch import stop_flight_server
        probs, info = c14_flight.check(0, 60)
        stop_flight_server()
        print(info, [p_["what"] for p_ in probs[:3]])
        return 1 if probs else 0
    if r.get("kind") == "value":
        if r["mode"].startswith("e2e:"):
            rec = e2e_run(r["table"], r["f1"], r["variant"], r["f2"], r["mode"].split(":")[1])
        else:
            Spy.install()
            if r["mode"] == "upload" and not Flight.start():
                print("flight server unavailable:", Flight.error)
                return 1
            try:
                rec = check_one(r["table"], r["f1"], r["variant"], r["f2"], r["mode"])
            finally:
                Flight.stop()
        print("now:", json.dumps(rec["devs"], ensure_ascii=True, indent=1)[:2000] if rec["devs"] else "no deviation (preserved)")
    elif r.get("kind") == "conv":
        c14_gen.generate()
        c14_conv.replay_conv(r)
    elif r.get("kind") == "registry":
        print("now:", json.dumps(run_registry_case(r["case"]))[:2000])
        print("recorded:", json.dumps(r["obs"])[:2000])
    return 0
