"""C10, third family — compute frameworks have an IDENTITY (the class object) and a NAME (__name__), and the two differ.

Model: coq/Model/Resolve.v (apient = AName | AClass, entry_selects, api_set, feature_fw_of_name, resolve_named), rule:
coq/Spec/ResolveRule.v (entry_allows, api_allows, kf_ffw_name_twins), theorems: coq/Props/C10.v
(C10_api_class_entry_selects_exactly_that_class, C10_api_name_entry_selects_all_of_that_name,
C10_framework_admissible_by_identity, C10_class_entries_by_name_admit_twin_refuted, C10_feature_framework_name_*).

A *universe* contains
  fws    : real ComputeFramework subclasses created with type(name, (Base,), {...}) where SEVERAL classes carry ONE __name__
           ("twins": a class factory called twice / a notebook cell run twice), twins derived from DIFFERENT installed
           frameworks under one name, twins that shadow the name of an installed framework (a plug-in shipping its own
           "PandasDataFrame"), twins whose is_available() is overridden or inherited from a framework that is not installed
  groups : real FeatureGroup subclasses whose compute_framework_rule is True or a set of class OBJECTS (one twin, both, an
           installed class ...), some of them subclasses of each other
  reqs   : one feature; the API list mixes strings and class objects (list[str] / set[str | type]); the feature's framework is
           given by NAME (parameter or options), possibly the name of twins; collector = the generated groups
Every universe is realised in several creation orders (with allocator noise in between: the iteration order of a set of class
objects follows their addresses).  Observation, BY IDENTITY: the class chosen by mloda.prepare, the class objects in
accessible_plugins[group] and in feature.compute_frameworks, the compute-framework class INSTANTIATED by session.run() (every
generated framework records its instantiation), the python type of the returned table, which calculate_feature ran; or the
exception skeleton.  Compared inside Coq with `resolve_named` evaluated on the same environment (the list `existing` is the
iteration order of get_all_subclasses(ComputeFramework) observed in the same process state).
Direct judge (no model): every class object in feature.compute_frameworks / instantiated by the run is admitted by the API list
BY THE ENTRY'S KIND (string: same name; class object: the same object), is available, lies in the chosen group's rule set and
carries the name the feature asked for.
Known finding (open) C10-feature-framework-name-picks-first-same-named-class: Feature(compute_framework="N") with several
classes named N takes whichever comes first in set iteration order; reported when two realisations of one universe that differ
only in creation order / addresses give different outcomes (decided by kf_ffw_name_twins in Coq).
"""
from __future__ import annotations

import gc
import json
import logging
import random
import re
from typing import Any, Dict, List, Optional, Tuple

logging.disable(logging.CRITICAL)
REQ = ["MV.Model.Resolve", "MV.Spec.ResolveRule"]
INSTALLED = ["PyArrowTable", "PandasDataFrame", "PythonDictFramework", "PolarsDataFrame"]
FW_ID = {n: i for i, n in enumerate(INSTALLED)}
NO_SUCH = "NoSuchFw10"
NO_SUCH_NAME_ID = 99
KF_TWIN = "C10-feature-framework-name-picks-first-same-named-class"

EXTRA = """
Inductive tobs := TChosen (n : nat) (gf ff runfw tabs ran : list nat) | TErr (e : err) (names : list nat) | TOther.
Definition terr_eqb (a b : err) : bool :=
  match a, b with
  | EFwUnknown, EFwUnknown | ENoApiFramework, ENoApiFramework | EFeatureFwNotInApi, EFeatureFwNotInApi
  | ENoAccessible, ENoAccessible | ENoGroup, ENoGroup | EMultiple, EMultiple | ENoFramework, ENoFramework
  | EFwUnsupported, EFwUnsupported => true
  | _, _ => false
  end.
Definition assoc (l : list (nat * nat)) (d x : nat) : nat :=
  match find (fun p => Nat.eqb (fst p) x) l with Some p => snd p | None => d end.
Definition one_is (l : list nat) (n : nat) := match l with [x] => Nat.eqb x n | _ => false end.
Definition tcase := (((env * list fgclass) * (request * option fwname)) * (list (nat * nat) * tobs))%type.
(* the request after Feature(...) has put a class object into feature.compute_frameworks *)
Definition bound (e : env) (rq : request) (fn : option fwname) : request :=
  with_ffw rq (match fn with Some m => feature_fw_of_name e m | None => None end).
Definition obs_matches (e : env) (u : list fgclass) (rq' : request) (roots : list (nat * nat)) (r : result) (o : tobs) : bool :=
  match r, o with
  | Chosen n gf, TChosen n' gf' ff' runfw tabs ran =>
      Nat.eqb n n' && set_eqb gf gf' && set_eqb (feature_fws rq' gf) ff'
      && nonempty runfw && forallb (fun x => mem x (feature_fws rq' gf)) runfw
      && nonempty tabs && forallb (fun t => mem t (map (assoc roots 50) (feature_fws rq' gf))) tabs
      && one_is ran n
  | Rejected er, TErr er' names =>
      terr_eqb er er' && (match er with
                          | EMultiple => set_eqb (map (fun p => cid (fst p)) (survivors e rq' u)) names
                          | _ => true end)
  | _, _ => false
  end.
(* faithful: the model on the observed iteration order of the set of framework classes *)
Definition chk_tw (c : tcase) : bool :=
  match c with (((e, u), (rq, fn)), (roots, o)) => obs_matches e u (bound e rq fn) roots (resolve_named e u rq fn) o end.
(* the same with ANY class of the requested name taken by Feature(...) (another iteration order of the same set) *)
Definition chk_tw_any (c : tcase) : bool :=
  match c with (((e, u), (rq, fn)), (roots, o)) =>
    match fn with
    | Some m => existsb (fun x => obs_matches e u (with_ffw rq (Some x)) roots (resolve e u (with_ffw rq (Some x))) o) (named e m)
    | None => false
    end
  end.
Definition not_in_kf_tw (c : tcase) : bool :=
  match c with (((e, u), (rq, fn)), _) => negb (kf_ffw_name_twins e fn) end.
(* classification only: the answer of the model changes with the class Feature(...) takes *)
Definition res_eqb (a b : result) : bool :=
  match a, b with
  | Chosen n gf, Chosen n' gf' => Nat.eqb n n' && set_eqb gf gf'
  | Rejected x, Rejected y => terr_eqb x y
  | _, _ => false
  end.
Definition pick_irrelevant (c : tcase) : bool :=
  match c with (((e, u), (rq, fn)), _) =>
    match fn with
    | Some m => forallb (fun x => forallb (fun y => res_eqb (resolve e u (with_ffw rq (Some x))) (resolve e u (with_ffw rq (Some y))))
                                          (named e m)) (named e m)
    | None => true
    end
  end.
(* the contrast model of Props/C10.v (class entries selected BY NAME) would answer differently *)
Definition by_name_same (c : tcase) : bool :=
  match c with (((e, u), (rq, fn)), _) => res_eqb (resolve_named e u rq fn) (resolve_named e u (names_only e rq) fn) end.
"""
CASE_TY = "tcase"


# ------------------------------------------------------------------------------------------------------------
# generation (plain JSON)
# ------------------------------------------------------------------------------------------------------------
def gen_universe(rng: random.Random, uid: int, n_orders: int, n_req: int) -> dict:
    n_names = rng.choice([1, 1, 2, 2, 2, 3])
    names: List[Any] = []
    for j in range(n_names):
        if rng.random() < 0.2:
            nm: Any = {"installed": rng.choice(INSTALLED[:3])}         # twins that shadow the name of an installed framework
        else:
            nm = {"own": j}
        if nm not in names:
            names.append(nm)
    fws: List[dict] = []
    for j, nm in enumerate(names):
        k = rng.choice([1, 2, 2, 2, 2, 3]) if "own" in nm else rng.choice([1, 1, 2])
        same_base = rng.random() < 0.5
        base0 = rng.choice(INSTALLED[:3])
        for _ in range(k):
            r = rng.random()
            base = base0 if same_base else rng.choice(INSTALLED[:3])
            if r < 0.07:
                base = "PolarsDataFrame"                                # exists, is not installed: the twin inherits is_available() = False
            avail = False if (base != "PolarsDataFrame" and rng.random() < 0.08) else None
            fws.append({"name": j, "base": base, "avail": avail})
    refs = [f"t{i}" for i in range(len(fws))]
    groups: List[dict] = []
    for i in range(rng.choice([2, 3, 3, 4, 4, 5])):
        acc = [x for x, p in (("a", 0.6), ("b", 0.45), ("x", 0.5)) if rng.random() < p] or [rng.choice(["a", "b", "x"])]
        r = rng.random()
        if r < 0.25:
            rule: Any = True
        elif r < 0.80:
            rule = [rng.choice(refs)]                                    # exactly one twin
        else:
            rule = sorted(set(rng.sample(refs + ["i:" + x for x in INSTALLED[:3]], rng.choice([1, 2, 2, 3]))))
        parent = rng.randrange(i) if (i and rng.random() < 0.2) else None
        groups.append({"accepts": acc, "rule": rule, "parent": parent})
    u = {"uid": uid, "names": names, "fws": fws, "groups": groups}
    u["orders"] = [list(range(len(fws)))] + [rng.sample(range(len(fws)), len(fws)) for _ in range(n_orders - 1)]
    u["noise"] = [0] + [rng.randrange(1, 40) for _ in range(n_orders - 1)]
    u["requests"] = [gen_request(rng, u) for _ in range(n_req)]
    return u


def gen_request(rng: random.Random, u: dict) -> dict:
    refs = [f"t{i}" for i in range(len(u["fws"]))]
    name_refs = [f"n{j}" for j in range(len(u["names"]))]
    r = rng.random()
    if r < 0.2:
        api: Any = None
    else:
        api = []
        for _ in range(rng.choice([1, 1, 1, 2, 2, 3])):
            q = rng.random()
            if q < 0.55:
                e: Any = {"c": rng.choice(refs)}                          # a class object: one twin
            elif q < 0.65:
                e = {"c": "i:" + rng.choice(INSTALLED[:3])}
            elif q < 0.85:
                e = {"n": rng.choice(name_refs)}                          # a string: the name of twins
            elif q < 0.97:
                e = {"n": "i:" + rng.choice(INSTALLED)}
            else:
                e = {"n": NO_SUCH}
            if e not in api:
                api.append(e)
    r = rng.random()
    if r < 0.62:
        ffw: Any = None
    elif r < 0.90:
        ffw = rng.choice(name_refs)
    elif r < 0.98:
        ffw = "i:" + rng.choice(INSTALLED)
    else:
        ffw = NO_SUCH
    dis = [rng.randrange(len(u["groups"]))] if rng.random() < 0.1 else []
    return {"name": rng.choice(["a", "a", "b", "x", "x", "zz"] if rng.random() < 0.3 else ["a", "b", "x"]), "api": api, "ffw": ffw,
            "via_options": rng.random() < 0.3, "api_as_list": rng.random() < 0.5, "dis": dis}


# ------------------------------------------------------------------------------------------------------------
# real classes
# ------------------------------------------------------------------------------------------------------------
INST: List[type] = []
RAN: List[str] = []
_junk: List[Any] = []


def installed_classes() -> Dict[str, type]:
    from harness.c10 import fw_classes
    return fw_classes()


def class_name(u: dict, k: int, j: int) -> str:
    nm = u["names"][j]
    return nm["installed"] if "installed" in nm else f"T10u{u['uid']}o{k}n{nm['own']}"


def feat_name(u: dict, k: int, a: str) -> str:
    return f"q10t{u['uid']}o{k}{a}"


def make_fw(name: str, base: type, avail: Optional[bool]) -> type:
    def __init__(self: Any, *a: Any, **kw: Any) -> None:
        INST.append(type(self))
        base.__init__(self, *a, **kw)

    d: Dict[str, Any] = {"__init__": __init__, "__module__": __name__}
    if avail is not None:
        d["is_available"] = staticmethod(lambda _v=avail: _v)
    return type(name, (base,), d)


def realize(u: dict, k: int) -> Dict[str, Any]:
    """Create the framework classes of u in creation order u['orders'][k] (with allocator noise), then the groups."""
    from mloda.provider import FeatureGroup, DataCreator
    inst = installed_classes()
    fws: List[Optional[type]] = [None] * len(u["fws"])
    for i in u["orders"][k]:
        f = u["fws"][i]
        _junk.append([object() for _ in range(u["noise"][k] * (i + 1) % 53)])
        fws[i] = make_fw(class_name(u, k, f["name"]), inst[f["base"]], f["avail"])
    del _junk[:]

    def ref(x: str) -> type:
        return inst[x[2:]] if x.startswith("i:") else fws[int(x[1:])]      # type: ignore[return-value]

    groups: List[type] = []
    for i, g in enumerate(u["groups"]):
        base = FeatureGroup if g["parent"] is None else groups[g["parent"]]
        names = {feat_name(u, k, a) for a in g["accepts"]}
        rule = True if g["rule"] is True else {ref(x) for x in g["rule"]}

        def calculate_feature(cls: Any, data: Any, features: Any) -> Any:
            RAN.append(cls.__name__)
            return {n: [1, 2] for n in features.get_all_names()}

        d = {"calculate_feature": classmethod(calculate_feature),
             "input_data": classmethod(lambda cls, _n=names: DataCreator(set(_n))),
             "compute_framework_rule": classmethod(lambda cls, _r=rule: _r if _r is True else set(_r))}
        groups.append(type(f"K10t{u['uid']}o{k}g{i}", (base,), d))
    return {"fws": fws, "groups": groups, "ref": ref}


def observe(u: dict, k: int, real: Dict[str, Any], req: dict, rng: random.Random) -> dict:
    """One request against the real implementation; everything by identity."""
    from mloda.user import mloda, Feature, PluginCollector
    from mloda.core.abstract_plugins.compute_framework import ComputeFramework
    from mloda.core.abstract_plugins.components.utils import get_all_subclasses
    from harness.c10 import classify, table_fw, _has_column
    inst = installed_classes()
    ref = real["ref"]
    allfw = list(get_all_subclasses(ComputeFramework))        # iteration order of the set the code iterates in this process state
    ids: Dict[type, int] = {}
    for n, c in inst.items():
        ids[c] = FW_ID[n]
    for i, c in enumerate(real["fws"]):
        ids[c] = 20 + i
    nfor = 0
    for c in allfw:
        if c not in ids:
            ids[c] = 50 + nfor
            nfor += 1
    name_ids: Dict[str, int] = {n: i for n, i in FW_ID.items()}
    for j in range(len(u["names"])):
        name_ids.setdefault(class_name(u, k, j), 20 + j)
    name_ids[NO_SUCH] = NO_SUCH_NAME_ID
    for c in allfw:
        name_ids.setdefault(c.__name__, 100 + len(name_ids))

    def root(c: type) -> int:
        for b in c.__mro__:
            if b.__name__ in FW_ID and b is inst[b.__name__]:
                return FW_ID[b.__name__]
        return 50

    env = {"existing": [ids[c] for c in allfw], "available": sorted(ids[c] for c in allfw if c.is_available()),
           "names": sorted((ids[c], name_ids[c.__name__]) for c in allfw), "roots": sorted((ids[c], root(c)) for c in allfw)}

    def name_of(x: str) -> str:
        return x[2:] if x.startswith("i:") else (NO_SUCH if x == NO_SUCH else class_name(u, k, int(x[1:])))

    api_m: List[Tuple[str, int]] = []            # the API list as the model sees it
    api: Any = None
    if req["api"] is not None:
        entries: List[Any] = []
        for e in req["api"]:
            if "n" in e:
                entries.append(name_of(e["n"]))
                api_m.append(("AName", name_ids[name_of(e["n"])]))
            else:
                entries.append(ref(e["c"]))
                api_m.append(("AClass", ids[ref(e["c"])]))
        rng.shuffle(entries)
        api = entries if req["api_as_list"] else set(entries)
    ffw_name = None if req["ffw"] is None else name_of(req["ffw"])
    out = {"env": env, "api": api_m, "ffw": None if ffw_name is None else name_ids[ffw_name]}
    name = feat_name(u, k, req["name"])
    gidx = {c.__name__: i for i, c in enumerate(real["groups"])}
    pc = PluginCollector()
    pc.add_enabled_feature_group_classes(set(real["groups"]))
    if req["dis"]:
        pc.add_disabled_feature_group_classes({real["groups"][i] for i in req["dis"]})
    phase = "feature"
    try:
        if ffw_name is None:
            feat = Feature(name)
        elif req["via_options"]:
            feat = Feature(name, options={"compute_framework": ffw_name})
        else:
            feat = Feature(name, compute_framework=ffw_name)
        phase = "prepare"
        session = mloda.prepare([feat], compute_frameworks=api, plugin_collector=pc)
    except Exception as e:  # noqa: BLE001
        kind, names = classify(e)
        if kind.startswith("Other") or any(n not in gidx for n in names):
            return {**out, "obs": {"other": f"{kind} {names}"}}
        return {**out, "obs": {"err": kind, "names": sorted(gidx[n] for n in names), "phase": phase}}
    try:
        coll = session.engine.feature_group_collection
        chosen = [(c, f) for c, fs in coll.items() for f in fs]
        if len(chosen) != 1 or chosen[0][0].__name__ not in gidx:
            return {**out, "obs": {"other": f"Other:planned groups {[c.__name__ for c, _ in chosen]}"}}
        ccls, f = chosen[0]
        gf_cls = list(session.engine.accessible_plugins[ccls])
        ff_cls = list(f.compute_frameworks or [])
        del INST[:]
        RAN.clear()
        res = session.run()
        run_cls = list(dict.fromkeys(INST))
        tabs = sorted(table_fw(t) for t in res)
        if not all(_has_column(t, name) for t in res):
            return {**out, "obs": {"other": "Other:result lacks the requested column"}}
        if not run_cls:            # no generated framework was instantiated: an installed class ran, the table type says which
            run_cls = [inst[INSTALLED[t]] for t in tabs if t < 3]
        judge = judge_admissible(ccls, ff_cls + run_cls, api, ffw_name)
        return {**out, "obs": {"chosen": gidx[ccls.__name__], "gf": sorted(ids.get(x, 98) for x in gf_cls),
                               "ff": sorted(ids.get(x, 98) for x in ff_cls), "runfw": sorted(ids.get(x, 98) for x in run_cls),
                               "tabs": tabs, "ran": [gidx.get(n, 98) for n in RAN], "judge": judge}}
    except Exception as e:  # noqa: BLE001
        return {**out, "obs": {"other": f"Other:run:{type(e).__name__}:{str(e)[:120]}"}}


def judge_admissible(group: type, used: List[type], api: Any, ffw_name: Optional[str]) -> List[str]:
    """The property's sentence evaluated directly on class objects: -> list of complaints (empty = fine)."""
    bad: List[str] = []
    rule = group.compute_framework_rule()
    for c in dict.fromkeys(used):
        if api and not any((isinstance(e, str) and e == c.__name__) or (e is c) for e in api):
            bad.append(f"{c.__name__}@{'twin' if c.__name__ not in FW_ID else 'installed'} is not admitted by any entry of the API list")
        if not c.is_available():
            bad.append(f"{c.__name__} is not available")
        if rule is not True and c not in rule:
            bad.append(f"{c.__name__} is not in the rule set of {group.__name__}")
        if ffw_name is not None and c.__name__ != ffw_name:
            bad.append(f"{c.__name__} does not carry the name {ffw_name} the feature asked for")
    return bad


def run_universe(u: dict, seed: int) -> List[dict]:
    out = []
    for k in range(len(u["orders"])):
        real = realize(u, k)
        for ri, req in enumerate(u["requests"]):
            rng = random.Random(seed * 1000003 + u["uid"] * 131 + k * 19 + ri)
            o = observe(u, k, real, req, rng)
            out.append({"uid": u["uid"], "k": k, "ri": ri, **o})
        real.clear()
        del real
        gc.collect()            # the classes of this realisation die here (twins that shadow an installed name share it across orders)
    return out


# ------------------------------------------------------------------------------------------------------------
# Coq terms
# ------------------------------------------------------------------------------------------------------------
def nl(xs: Any) -> str:
    from lib.vlib import cq_list, cq_nat
    return cq_list(cq_nat(int(x)) for x in xs)


def pl(xs: Any) -> str:
    from lib.vlib import cq_list, cq_nat
    return cq_list(f"({cq_nat(int(a))}, {cq_nat(int(b))})" for a, b in xs)


def effective(u: dict, k: int) -> List[dict]:
    out: List[dict] = []
    for i, g in enumerate(u["groups"]):
        sup = [] if g["parent"] is None else [g["parent"]] + out[g["parent"]]["supers"]
        rule = None if g["rule"] is True else [FW_ID[x[2:]] if x.startswith("i:") else 20 + int(x[1:]) for x in g["rule"]]
        out.append({"cid": i, "supers": sup, "accepts": [feat_name(u, k, a) for a in g["accepts"]], "rule": rule})
    return out


def case_term(u: dict, c: dict) -> str:
    from lib.vlib import cq_list, cq_str, cq_nat
    k, req = c["k"], u["requests"][c["ri"]]
    e = c["env"]
    env = (f"{{| existing := {nl(e['existing'])}; available := {nl(e['available'])}; "
           f"cname := assoc {pl(e['names'])} 0 |}}")
    cls = []
    for g in effective(u, k):
        rule = "None" if g["rule"] is None else f"(Some {nl(g['rule'])})"
        cls.append(f"{{| cid := {cq_nat(g['cid'])}; supers := {nl(g['supers'])}; accepts := {cq_list(cq_str(a) for a in g['accepts'])}; "
                   f"dom := \"default_domain\"; rule := {rule}; idxcols := None |}}")
    api = cq_list(f"{kind} {cq_nat(n)}" for kind, n in c["api"])
    col = f"(Some ({nl(range(len(u['groups'])))}, {nl(req['dis'])}))"
    rq = (f"{{| api := {api}; collector := {col}; fname := {cq_str(feat_name(u, k, req['name']))}; fdom := None; "
          f"ffw := None; links := None |}}")
    fn = "None" if c["ffw"] is None else f"(Some {cq_nat(c['ffw'])})"
    o = c["obs"]
    if "other" in o:
        obs = "TOther"
    elif "err" in o:
        obs = f"(TErr {o['err']} {nl(o['names'])})"
    else:
        obs = f"(TChosen {cq_nat(o['chosen'])} {nl(o['gf'])} {nl(o['ff'])} {nl(o['runfw'])} {nl(o['tabs'])} {nl(o['ran'])})"
    return f"((({env}, {cq_list(cls)}), ({rq}, {fn})), ({pl(e['roots'])}, {obs}))"


def model_says(term: str) -> str:
    from lib import vlib
    try:
        out = vlib.coq_eval("C10", "twin_says", REQ, EXTRA + f"\nDefinition the_case : {CASE_TY} := {term}.\n"
                            "Eval vm_compute in (match the_case with (((e, u), (rq, fn)), _) => "
                            "(resolve_named e u rq fn, api_set e rq, map (fun p => cid (fst p)) (survivors e (bound e rq fn) u)) end).")
        m = re.search(r"=\s*(.*?)\s*:\s*\(?result", out, re.S)
        return " ".join(m.group(1).split()) if m else " ".join(out.split())[-300:]
    except Exception as e:  # noqa: BLE001
        return f"(model evaluation failed: {e})"


def canon(c: dict) -> Any:
    """What must not depend on creation order / addresses: everything except which admissible class ran; classes of other
    universes that are still alive (ids >= 50) are left out."""
    o = c["obs"]
    if "chosen" in o:
        return ("chosen", o["chosen"], tuple(x for x in o["gf"] if x < 50), tuple(x for x in o["ff"] if x < 50), tuple(o["ran"]))
    if "err" in o:
        return ("err", o["err"], tuple(o["names"]))
    return ("other", o["other"])


def describe(u: dict, req: dict) -> str:
    return (f"framework classes {json.dumps(u['fws'])} with names {json.dumps(u['names'])} (classes listing the same name index are "
            f"same-named twins), groups {json.dumps(u['groups'])}, request {json.dumps(req)}")


# ------------------------------------------------------------------------------------------------------------
def run(rep: Any, tier: str, seed: int) -> bool:
    """Returns True when a failing input was reported."""
    from lib import vlib
    big = tier == "thorough"
    rng = random.Random(seed * 15485863 + 1020)
    n_univ, n_orders, n_req = (500, 3, 6) if big else (50, 3, 6)
    universes = [gen_universe(rng, uid, n_orders, n_req) for uid in range(n_univ)]
    cases: List[Tuple[dict, dict]] = []
    for u in universes:
        for c in run_universe(u, seed):
            cases.append((u, c))
    found = False
    terms = [case_term(u, c) for u, c in cases]
    from concurrent.futures import ThreadPoolExecutor
    # creation order / addresses, directly on the observations
    by_req: Dict[Tuple[int, int], Dict[Any, List[int]]] = {}
    idx_of: Dict[Tuple[int, int], List[int]] = {}
    for i, (u, c) in enumerate(cases):
        by_req.setdefault((c["uid"], c["ri"]), {}).setdefault(canon(c), []).append(c["k"])
        idx_of.setdefault((c["uid"], c["ri"]), []).append(i)
    unstable = [(key, v) for key, v in by_req.items() if len(v) > 1]
    first = [i for i, (u, c) in enumerate(cases) if c["k"] == 0]          # classification for the evidence: one order is enough
    to_classify = sorted({i for i in first if cases[i][1]["ffw"] is not None} | {i for key, _ in unstable for i in idx_of[key]})

    def rc(name: str, checker: str, idx: List[int]) -> Tuple[List[int], Dict[str, Any]]:
        if not idx:
            return [], {}
        b, inf = vlib.run_cases("C10", name, REQ, checker, [terms[i] for i in idx], case_type=CASE_TY, extra_defs=EXTRA, shard=100)
        return [idx[i] for i in b], inf

    with ThreadPoolExecutor(max_workers=3) as ex:
        f1 = ex.submit(rc, "twin", "chk_tw", list(range(len(terms))))
        f2 = ex.submit(rc, "twin_kf", "not_in_kf_tw", to_classify)
        f3 = ex.submit(rc, "twin_sens", "by_name_same", first)
        bad, info = f1.result()
        inkf = set(f2.result()[0])
        sens_rel = f3.result()[0]
    kf_first = [i for i in first if i in inkf]
    more = [i for i in bad if cases[i][1]["ffw"] is not None and i not in set(to_classify)]
    inkf |= set(rc("twin_kf2", "not_in_kf_tw", more)[0])
    bad_in = [i for i in bad if i in inkf]
    with ThreadPoolExecutor(max_workers=2) as ex:
        f1 = ex.submit(rc, "twin_dep", "pick_irrelevant", kf_first)
        f2 = ex.submit(rc, "twin_any", "chk_tw_any", bad_in)
        pick_matters = set(f1.result()[0])
        any_ok = set(bad_in) - set(f2.result()[0])
    rep.count(len(cases))
    reported = 0

    def simple_first(i: int) -> Tuple[int, int, int, int]:
        u, c = cases[i]
        return (c["ffw"] is not None, len(c["api"]), len(u["fws"]) + len(u["groups"]), i)

    for i in sorted(bad, key=simple_first):
        u, c = cases[i]
        req = u["requests"][c["ri"]]
        if i in inkf and i in any_ok:
            continue        # inside the known-defect domain: as the model with another class of that name taken by Feature(...)
        if reported < 8:
            reported += 1
            rep.finding(f"twin:{json.dumps([u['fws'], u['names'], u['groups'], u['orders'][c['k']], req], sort_keys=True)}",
                        f"resolution with same-named compute-framework classes observed through mloda.prepare/run as {c['obs']} "
                        f"(class objects numbered 0-3 = installed, 20+i = i-th generated class) differs from the modelled rule "
                        f"(a string entry of the API list selects by class name, a class-object entry selects exactly that class; "
                        f"rule sets and feature.compute_frameworks compare class objects); model (outcome, frameworks the API list "
                        f"selects, groups left): {model_says(terms[i])}; API list as the model sees it {c['api']}, feature framework "
                        f"name {c['ffw']}; {describe(u, req)}; creation order {u['orders'][c['k']]}",
                        {"kind": "twin", "universe": u, "k": c["k"], "ri": c["ri"], "obs": c["obs"], "api": c["api"], "env": c["env"]})
        found = True
    # ---- direct judge of the property's sentence (no model)
    nj = 0
    for i, (u, c) in enumerate(cases):
        j = c["obs"].get("judge")
        if j and nj < 5:
            nj += 1
            req = u["requests"][c["ri"]]
            rep.finding(f"twin-judge:{json.dumps([u['fws'], u['names'], u['groups'], u['orders'][c['k']], req], sort_keys=True)}",
                        f"a feature was computed on a compute-framework class that is not admissible for it: {j}; observation "
                        f"{c['obs']}; {describe(u, req)}",
                        {"kind": "twin", "universe": u, "k": c["k"], "ri": c["ri"], "obs": c["obs"], "api": c["api"], "env": c["env"]})
            found = True
    # ---- creation order / addresses: a request whose outcome differs between realisations
    kf_seen = n_unst_out = 0
    for (uid, ri), v in unstable:
        u = universes[uid]
        req = u["requests"][ri]
        replay = {"kind": "twin-order", "universe": u, "ri": ri, "outcomes": [[str(k), w] for k, w in v.items()]}
        if all(i in inkf for i in idx_of[(uid, ri)]):
            kf_seen += 1
            rep.finding(KF_TWIN, f"{describe(u, req)}: {[(str(k), w) for k, w in v.items()]}", replay)
            continue
        if n_unst_out < 5:
            n_unst_out += 1
            rep.finding(f"twin-order:{json.dumps([u['fws'], u['names'], u['groups'], req], sort_keys=True)}",
                        f"the outcome of one request depends on the creation order / addresses of compute-framework classes: "
                        f"{[(str(k), w) for k, w in v.items()]}; {describe(u, req)}", replay)
        found = True
    # ---- evidence
    outcome: Dict[str, int] = {}
    for u, c in cases:
        o = c["obs"]
        key = "chosen" if "chosen" in o else o.get("err") or "other"
        outcome[key] = outcome.get(key, 0) + 1
    reqs = [(u, r) for u in universes for r in u["requests"]]

    def has(r: dict, kind: str) -> bool:
        return bool(r["api"]) and any(kind in e for e in r["api"])

    twin_names = sum(1 for u in universes for j in range(len(u["names"])) if sum(1 for f in u["fws"] if f["name"] == j) >= 2
                     or "installed" in u["names"][j])
    sens = set(sens_rel)
    for i, (u, c) in enumerate(cases):
        if c["k"] == 0 and (i in sens or i in inkf):
            rep.nontrivial(("twin", u["fws"], u["names"], u["groups"], u["requests"][c["ri"]]))
    rep.add("twins", {**info, "universes": n_univ, "orders_per_universe": n_orders, "requests_per_universe": n_req,
                      "cases": len(cases), "disagreements_with_model": len([i for i in bad if not (i in inkf and i in any_ok)]),
                      "framework_classes_generated": sum(len(u["fws"]) for u in universes),
                      "class_names_carried_by_several_classes": twin_names,
                      "names_shadowing_an_installed_framework": sum(1 for u in universes for n in u["names"] if "installed" in n),
                      "twins_of_one_name_from_different_installed_frameworks": sum(
                          1 for u in universes for j in range(len(u["names"]))
                          if len({f["base"] for f in u["fws"] if f["name"] == j}) >= 2),
                      "requests_with_class_object_entries": sum(1 for _, r in reqs if has(r, "c")),
                      "requests_with_string_entries": sum(1 for _, r in reqs if has(r, "n")),
                      "requests_mixing_strings_and_class_objects": sum(1 for _, r in reqs if has(r, "c") and has(r, "n")),
                      "requests_with_feature_framework_by_name": sum(1 for _, r in reqs if r["ffw"] is not None),
                      "requests_where_selecting_class_entries_by_name_would_change_the_answer": len(sens_rel),
                      "outcomes": outcome,
                      "direct_judge_complaints": sum(1 for _, c in cases if c["obs"].get("judge")),
                      "requests_compared_across_creation_orders": len(by_req), "unstable_outside_known_domain": n_unst_out,
                      "kf_ffw_name_twins": {"requests_in_domain": len(kf_first),
                                            "of_those_requests_the_class_taken_changes_the_answer": len(pick_matters),
                                            "requests_observed_with_different_outcomes_across_orders": kf_seen,
                                            "observed_as_the_model_with_another_class_of_that_name": len(any_ok)}})
    for u, c in cases[:2]:
        rep.sample({"fws": u["fws"], "names": u["names"], "groups": u["groups"], "order": u["orders"][c["k"]],
                    "request": u["requests"][c["ri"]], "obs": c["obs"]})
    return found


def replay(r: dict) -> None:
    u = r["universe"]
    print("framework classes:", json.dumps(u["fws"]), "names:", json.dumps(u["names"]))
    print("groups:", json.dumps(u["groups"]))
    ks = [r["k"]] if "k" in r else range(len(u["orders"]))
    for k in ks:
        real = realize(u, k)
        c = {"uid": u["uid"], "k": k, "ri": r["ri"], **observe(u, k, real, u["requests"][r["ri"]], random.Random(0))}
        print(f"order {u['orders'][k]}: request {json.dumps(u['requests'][r['ri']])}")
        print("  now     :", c["obs"])
        if "obs" in r:
            print("  recorded:", r["obs"])
        print("  model case term:\n ", case_term(u, c))
        print("  model:", model_says(case_term(u, c)))
