"""C07 — a prepared session and its arguments can be reused; runs are independent.

Theorems: coq/Props/C07.v over Model/Session.v (session object: frozen plan + step_is_done flags, self.api_data,
self.runner; a run = Model/Orch.v started on a fresh orchestrator) and Model/Args.v (heap of Feature / Options objects,
links set, GlobalFilter.collection and what planning writes into them).

Ties on the real mloda:
  A  histories (PRNG, length <= 8) over {run(api_data_k), stream_run(api_data_k), run with injected failure, stream
     abandoned after j items, get_result} on ONE prepared session, SYNC and THREADING mixed, api-data-backed roots:
       - every result is compared with a FRESH mloda.run_all of the same request, that run's effective api_data, the same
         injected fault and mode (multisets of tables / both raise);
       - the observed (status, result keys, self.runner reassigned?, step_is_done flags on the session's own plan,
         self.api_data identity, api data that reached the root) is replayed through Model/Session.exec in vm_compute
         (chk_hist);
       - structural snapshot of session.engine.execution_planner and of every api_data dict before/after each operation.
  B  sequences of prepare / run_all calls that share Feature, Options, Link set, GlobalFilter and api_data objects:
       - structural snapshot (deep canonical dump of EVERY attribute) of every argument object before/after each call;
         fields that changed must be fields of the heap model, and their new values are checked against
         Model/Args.plan_call in vm_compute (chk_args);
       - the outcome (plan: per step attached filters / error kind; run: tables) is compared with the same call on fresh
         equal objects: as long as every earlier call used copy_features=True any difference is a violation (also inside
         chk_args, mirroring theorem args_reuse); any write to the caller's links set or GlobalFilter is a violation;
         the plan of an earlier prepared session must not change when its argument objects are passed to a later call.
         (The two former known findings C07-filter-collection-accumulates / C07-links-set-grows are fixed in /repo; their
         witnesses are run first as regression cases.)
  B-dom  the same machinery on a universe WITH DOMAINS (gen_dom_case): two roots with the same columns in the domains sales /
         finance, a pandas root in the default domain, a root whose group has a domain while its features are requested
         without one, derived groups whose input features inherit the requested feature's domain / carry their own; ONE
         GlobalFilter (filter features without / with own domain, compute framework, options) re-used by 3-6 calls whose
         requested features belong to different domains and frameworks; 4-row tables with values on both sides of the filter
         bound.  Everything planning could write into a shared filter object (filter_feature.options / .domain /
         .compute_frameworks) is in the heap model; the caller's filter objects after each call are part of the Coq replay
         (co_filters), and the returned ROWS are compared with the same call on fresh equal objects.
"""
from __future__ import annotations

import copy
import gc
import json
import logging
import random
import threading
import time
from typing import Any, Dict, List, Optional, Set, Tuple

from lib import vlib
from lib.vlib import cq_bool, cq_list, cq_nat, cq_opt, cq_str
from harness import daggen
from harness.universe import export_plan, table_rows, kf_tfs_partial_requirement, kf_framework_roundtrip, kf_tfs_missing
from harness.orch import GateListener, cq_plan, install, uuid_to_sid, REC, run_observed
from harness.c07_lib import (Uni7, Renamer, dump, diff_paths, cq_api, cq_cols, cq_opts, cq_link, cq_flt, cq_fobj, cq_oobj,
                             cq_coll, cq_onat, CFW_IDS, DT_IDS, JT_IDS, DOM_IDS)
from harness import mp_obs

LEVEL = "proof"
logging.disable(logging.CRITICAL)
REQ_A = ["MV.Model.Modes", "MV.Model.Orch", "MV.Model.Session"]
MODES3 = ["SYNC", "THREADING", "MULTIPROCESSING"]
CQ_MODE = {"SYNC": "MSync", "THREADING": "MThreading", "MULTIPROCESSING": "MMultiprocessing"}
REQ_B = ["MV.Model.Args"]



def canon_tables(res: Any) -> List[str]:
    return sorted(json.dumps(sorted(json.dumps(r, sort_keys=True, default=str) for r in table_rows(t))) for t in res)


def mode_of(name: str) -> Any:
    from mloda.user import ParallelizationMode
    return {"SYNC": {ParallelizationMode.SYNC}, "THREADING": {ParallelizationMode.THREADING},
            "MULTIPROCESSING": {ParallelizationMode.MULTIPROCESSING}}[name]


KF_MP_API = "C07-mp-run-with-api-data-never-returns"
HANG_S = 60.0        # watchdog of a MULTIPROCESSING operation
KF_FRESH_NONDET = "C07-fresh-run-all-not-a-function-in-planner-defect-domain"
HANG_S_KF = 8.0      # the same inside the known-defect domain kf_mp_api (such a run takes < 1 s when it returns at all)


def kf_mp_api(plan: Dict[str, Any], case: Dict[str, Any]) -> bool:
    """Known-defect domain (decided on the request): a MULTIPROCESSING run of a session one of whose feature-group steps is
    served through api_data.  The step carries an instance of a class created at prepare time (DynamicApiCls_<key>), the
    command queue's feeder thread cannot pickle it, the step never reaches its worker process and the run spins forever."""
    api_groups = {g["name"] for g in case["spec"]["groups"] if g["kind"] == "api"}
    return any(s["kind"] == "FG" and s["group"] in api_groups for s in plan["steps"])


_SINK: List[Any] = []


def sink7() -> Any:
    """File through which worker PROCESSES of a MULTIPROCESSING run report (step begin/end/raise, api data received)."""
    import os
    if not _SINK:
        _SINK.append(mp_obs.Sink(str(vlib.BUILD / "C07" / "mp" / f"child_{os.getpid()}.jsonl")))
    return _SINK[0]


def mp_kw(mode: str) -> Dict[str, Any]:
    if mode != "MULTIPROCESSING":
        return {}
    from harness.orch import flight_server
    return {"flight_server": flight_server()}


# ============================================================================================================
# Part A — histories on one prepared session
# ============================================================================================================

def gen_session_case(rng: random.Random, api_prob: float = 0.75) -> Dict[str, Any]:
    spec = daggen.gen_two_roots_inner(rng) if rng.random() < 0.2 else daggen.gen_single_root(rng, n_rows=3)
    spec = json.loads(json.dumps(spec))
    api = rng.random() < api_prob
    if api:
        g = spec["groups"][0]
        g.update(kind="api", key="K0", features={c: {} for c in g["cols"]})
    variants: List[Optional[Dict[str, Any]]] = [None]
    if api:
        g = spec["groups"][0]
        for _ in range(3):
            n = rng.randrange(1, 4)
            variants.append({"K0": {c: (rng.sample([1, 2, 3], n) if c == "k" else [rng.randrange(-9, 30) for _ in range(n)])
                                    for c in g["cols"]}})
    return {"spec": spec, "api": api, "variants": variants, "seed": rng.randrange(1 << 30)}


def gen_ops(rng: random.Random, case: Dict[str, Any], plan: Dict[str, Any], threading_ok: bool, n_max: int = 8,
            mix: Optional[List[str]] = None) -> List[Dict[str, Any]]:
    """mix = None: the SYNC / THREADING histories of family A.  mix = list of admissible modes: every operation draws its
    mode from it (family A-modes: SYNC, THREADING and MULTIPROCESSING operations interleaved on ONE session)."""
    fg = [s for s in plan["steps"] if s["kind"] == "FG"]
    n_req = sum(1 for s in fg if s["requested"])
    ops = []
    for _ in range(rng.randrange(3 if mix else 2, n_max + 1)):
        r = rng.random()
        kind = "run" if r < 0.35 else "stream" if r < 0.55 else "fail" if r < 0.75 else "abandon" if r < 0.92 else "get"
        if mix:
            mode = rng.choice(mix)
        else:
            mode = "THREADING" if (threading_ok and rng.random() < 0.4) else "SYNC"
        op: Dict[str, Any] = {"kind": kind, "api": rng.randrange(len(case["variants"])),
                              "mode": mode, "fail": [], "j": 0}
        if kind == "fail":
            s = rng.choice(fg)
            op["fail"] = [[s["group"], rng.choice(s["names"])]]
            op["stream"] = rng.random() < 0.3
        if kind == "abandon":
            op["j"] = rng.randrange(0, n_req + 2)
            if rng.random() < 0.2:
                s = rng.choice(fg)
                op["fail"] = [[s["group"], rng.choice(s["names"])]]
        ops.append(op)
    if mix and "MULTIPROCESSING" in mix and not any(o["mode"] == "MULTIPROCESSING" and o["kind"] != "get" for o in ops):
        cand = [o for o in ops if o["kind"] != "get"]
        if cand:
            rng.choice(cand)["mode"] = "MULTIPROCESSING"
    return ops


def fail_sids(plan: Dict[str, Any], fail: List[List[str]]) -> List[int]:
    return sorted({s["sid"] for s in plan["steps"] if s["kind"] == "FG"
                   for g, n in fail if s["group"] == g and n in s["names"]})


def plan_snapshot(sess: Any) -> Any:
    return dump(sess.engine.execution_planner)


def flags_of(sess: Any) -> List[int]:
    return [i for i, st in enumerate(sess.engine.execution_planner) if st.step_is_done]


def run_session_case(case: Dict[str, Any], rep_ops: Optional[List[Dict[str, Any]]] = None) -> Dict[str, Any]:
    """Executes one history; returns observations + problems (property failures found by direct comparison)."""
    from mloda.user import mloda
    rng = random.Random(case["seed"])
    spec = case["spec"]
    uni = Uni7(spec, GateListener())
    d0 = uni.api_default()
    d0_snapshot = copy.deepcopy(d0)
    rec: Dict[str, Any] = {"case": case, "problems": [], "obs": []}
    try:
        sess = uni.prepare(api_data=d0) if d0 is not None else uni.prepare()
    except Exception as e:  # noqa: BLE001
        rec["prepare_error"] = str(e)[-200:]
        return rec
    plan = export_plan(sess, uni)
    rec["plan"] = {k: v for k, v in plan.items() if k != "_ren"}
    from harness import planner_b      # defect domains decided in Coq (Model/PlanDefects.v classify_plan), cached per plan
    in_kf = bool(planner_b.classify_cached(plan, rep_prefix="C07"))
    rec["in_kf"] = in_kf
    threading_ok = (not in_kf) and case.get("threading_ok", True)
    mix = None
    if case.get("mix"):
        # family A-modes: THREADING only on plans without unordered conflicting steps, MULTIPROCESSING only if moreover no
        # two unordered steps touch each other's objects and no transform step starts from a non-Arrow framework
        # (known findings of C01 / C06); decided by probe_conflicts in Coq
        # and only on sessions without api_data-backed roots: with api_data a MULTIPROCESSING run never returns (known
        # finding KF_MP_API; exercised by the explicit witness histories of mp_api_witnesses())
        mp_ok = threading_ok and case.get("mp_ok", False) and not case["api"] and not any(
            s["kind"] == "TFS" and s["from_cfw"] != "PyArrowTable" for s in plan["steps"])
        mix = ["SYNC"] + (["THREADING"] if threading_ok else []) + (["MULTIPROCESSING", "MULTIPROCESSING"] if mp_ok else [])
        rec["mix"] = mix
        mp_obs.install_step_events()
    ops = rep_ops if rep_ops is not None else case.get("ops") or gen_ops(rng, case, plan, threading_ok, n_max=6 if mix else 8, mix=mix)
    rec["ops"] = ops
    u2s = uuid_to_sid(sess)
    s2s = {str(u): i for u, i in u2s.items()}
    variants = [copy.deepcopy(v) for v in case["variants"]]
    var_snap = copy.deepcopy(variants)
    fresh_memo: Dict[str, Any] = {}
    base_threads = set(threading.enumerate())

    def fresh(eff: Optional[Dict[str, Any]], fail: List[List[str]], mode: str) -> Tuple[str, Any]:
        key = json.dumps([eff, fail, mode], sort_keys=True)
        if key not in fresh_memo:
            u2 = Uni7(spec, GateListener())
            u2.fail = {tuple(x) for x in fail}
            kw = {"api_data": copy.deepcopy(eff)} if eff is not None else {}
            kw.update(mp_kw(mode))
            mp_obs.CUR["sink"] = None
            st, val = mp_obs.watchdog(lambda: canon_tables(u2.run_all(mode_of(mode), **kw)), 60.0)
            if st == "ok":
                fresh_memo[key] = ("ok", val)
            elif st == "raised":
                fresh_memo[key] = ("raised", "VERIF-FAULT" in str(val))
            else:
                mp_obs.kill_stray_children()
                fresh_memo[key] = ("hang", None)
            u2.dispose()
        return fresh_memo[key]

    for i, op in enumerate(ops):
        given = variants[op["api"]]
        eff = given if given is not None else d0
        before_plan = plan_snapshot(sess)
        prev_runner = sess.runner
        uni.api_seen.clear()
        REC.reset()
        uni.fail = {tuple(x) for x in op["fail"]}
        kw: Dict[str, Any] = {"parallelization_modes": mode_of(op["mode"])}
        kw.update(mp_kw(op["mode"]))
        if given is not None:
            kw["api_data"] = given
        o: Dict[str, Any] = {"status": None, "items": [], "tables": None}
        kind = op["kind"]
        streamed = kind in ("stream", "abandon") or (kind == "fail" and op.get("stream"))
        sink = None
        if op["mode"] == "MULTIPROCESSING" and kind != "get":
            sink = sink7()
            sink.reset()
        mp_obs.CUR["sink"] = sink

        def body(o: Dict[str, Any] = o, kind: str = kind, kw: Dict[str, Any] = kw, streamed: bool = streamed, op: Dict[str, Any] = op) -> None:
            try:
                if kind == "get":
                    res = sess.get_result()
                    o["status"], o["tables"] = "ok", canon_tables(res)
                    o["items"] = [u2s.get(u, -1) for u in sess.runner.data_lifecycle_manager.result_data_collection]  # type: ignore[union-attr]
                elif kind == "abandon":
                    g = sess.stream_run(**kw)
                    got = []
                    o["status"] = "abandoned"
                    for _ in range(op["j"]):
                        try:
                            got.append(next(g))
                        except StopIteration:
                            o["status"] = "ok"
                            break
                    g.close()
                    del g
                    gc.collect()
                    o["tables"] = canon_tables(got)
                    o["items"] = [u2s.get(u, -1) for u in REC.yields]
                elif streamed:
                    got = list(sess.stream_run(**kw))
                    o["status"], o["tables"] = "ok", canon_tables(got)
                    o["items"] = [u2s.get(u, -1) for u in REC.yields]
                else:
                    res = sess.run(**kw)
                    o["status"], o["tables"] = "ok", canon_tables(res)
                    o["items"] = [u2s.get(u, -1) for u in sess.runner.data_lifecycle_manager.result_data_collection]  # type: ignore[union-attr]
            except Exception as e:  # noqa: BLE001
                msg = str(e)
                if kind == "get":
                    o["status"] = "norunner" if "run any run function beforehand" in msg else "raised"
                else:
                    o["status"] = "raised"
                o["fault"] = "VERIF-FAULT" in msg
                o["msg"] = msg[-160:]
                if streamed:
                    o["items"] = [u2s.get(u, -1) for u in REC.yields]
        in_api_mp_domain = op["mode"] == "MULTIPROCESSING" and kind != "get" and kf_mp_api(rec["plan"], case)
        import io
        import sys
        err_buf = io.StringIO()
        old_err = sys.stderr
        if in_api_mp_domain:
            sys.stderr = err_buf         # the queue feeder thread reports its PicklingError with traceback.print_exc() only
        try:
            if op["mode"] == "MULTIPROCESSING":
                st, _v = mp_obs.watchdog(body, HANG_S_KF if in_api_mp_domain else HANG_S)
                if st != "ok" and not in_api_mp_domain:
                    # an unreproducible stall: abandon the run (its processes are killed), repeat the operation once on the
                    # same session -- itself a history the property speaks about -- and count it
                    mp_obs.kill_stray_children()
                    rec["timeouts_retried"] = rec.get("timeouts_retried", 0) + 1
                    o = {"status": None, "items": [], "tables": None}
                    REC.reset()
                    sink.reset() if sink is not None else None
                    uni.api_seen.clear()
                    st, _v = mp_obs.watchdog(lambda: body(o=o), HANG_S)
                if st != "ok":
                    o = dict(o, status="hang")        # the abandoned thread keeps its own dict
            else:
                body()
        finally:
            sys.stderr = old_err
            uni.fail = set()
            mp_obs.CUR["sink"] = None
        if in_api_mp_domain:
            o["feeder_thread_pickling_error"] = "PicklingError" in err_buf.getvalue()
        child_lines = sink.read() if sink is not None else []
        if o["status"] == "hang":
            mp_obs.kill_stray_children()       # also ends the abandoned thread: its manager connection breaks
            rec["obs"].append(dict(o, raised_steps=[], runner_changed=sess.runner is not prev_runner, flags=flags_of(sess),
                                   api_kept=sess.api_data is d0, seen=None, has_seen=False))
            if in_api_mp_domain:
                rec.setdefault("kf", []).append((KF_MP_API, i))
                if plan_snapshot(sess) != before_plan:
                    rec["problems"].append(f"op {i} ({kind}, hung MULTIPROCESSING run): the session's own execution plan object changed")
                continue
            rec["problems"].append(f"op {i} ({kind}, {op['mode']}): did not return within {HANG_S} s")
            rec["ops"] = ops[:i + 1]
            break
        o["raised_steps"] = sorted(({u2s.get(u, -1) for k, u in REC.events if k == "raise"}
                                    | {s2s.get(l["uuid"], -1) for l in child_lines if l["ev"] == "raise"}) - {-1})
        o["child_steps"] = sorted({s2s.get(l["uuid"], -1) for l in child_lines if l["ev"] == "begin" and l.get("child")})
        o["worker_processes"] = len({l["pid"] for l in child_lines if l.get("child")})
        o["runner_changed"] = sess.runner is not prev_runner
        o["flags"] = flags_of(sess)
        o["api_kept"] = sess.api_data is d0
        seen = uni.api_seen[-1] if uni.api_seen else None
        child_seen = [l["data"] for l in child_lines if l["ev"] == "api_seen"]
        if seen is None and child_seen:
            seen = child_seen[-1]          # MULTIPROCESSING: the api-backed root ran in a worker process
        o["seen"] = {"K0": {k: list(v) for k, v in seen.items()}} if seen is not None else None
        o["has_seen"] = seen is not None
        rec["obs"].append(o)
        # ---- the property, judged directly ----
        if plan_snapshot(sess) != before_plan:
            rec["problems"].append(f"op {i} ({kind}): the session's own execution plan object changed: "
                                   f"{diff_paths(before_plan, plan_snapshot(sess))[:3]}")
        if variants != var_snap or d0 != d0_snapshot:
            rec["problems"].append(f"op {i} ({kind}): an api_data dictionary of the caller was modified")
            variants, d0 = copy.deepcopy(var_snap), copy.deepcopy(d0_snapshot)
        if kind == "get":
            continue
        if op["fail"] and o["status"] == "raised" and not set(fail_sids(rec["plan"], op["fail"])) & set(o["raised_steps"]) \
                and not o["raised_steps"]:
            o["unmodelled_raise"] = True
        if o["status"] == "raised" and not o["raised_steps"]:
            o["unmodelled_raise"] = True      # raised by the main thread outside a step (e.g. result collection)
        def versus_fresh(f_status: str, f_val: Any, o: Dict[str, Any] = o, op: Dict[str, Any] = op, kind: str = kind, i: int = i) -> List[str]:
            out: List[str] = []
            if o["status"] == "raised":
                if f_status != "raised":
                    out.append(f"op {i} ({kind}, {op['mode']}): raised ({o.get('msg')}) but a fresh run_all succeeds")
                elif bool(o["fault"]) != bool(f_val):
                    out.append(f"op {i} ({kind}): the injected fault is reported by one of session / fresh run_all only "
                               f"(session {o['fault']}, fresh {f_val})")
            elif o["status"] == "ok":
                if f_status != "ok":
                    out.append(f"op {i} ({kind}, {op['mode']}): succeeded but a fresh run_all raises")
                elif o["tables"] != f_val:
                    out.append(f"op {i} ({kind}, {op['mode']}): result differs from a fresh run_all with the same api_data")
            elif o["status"] == "abandoned":
                if f_status == "ok":
                    rest = list(f_val)
                    for t in o["tables"]:
                        if t in rest:
                            rest.remove(t)
                        else:
                            out.append(f"op {i} (abandon after {op['j']}): a streamed table is not a table of the fresh run_all")
                            break
                    if len(o["tables"]) != op["j"]:
                        out.append(f"op {i}: abandoned stream handed out {len(o['tables'])} items, asked {op['j']}")
            return out
        probs = versus_fresh(*fresh(eff, op["fail"], op["mode"]))
        if probs and in_kf and op["mode"] == "SYNC":
            # Inside the planner defect domains the PLAN of a request depends on the uuids of the preparation (known findings
            # C04-nondet-*): a fresh run_all is then itself not a function of its arguments.  The difference is attributed to that
            # finding only if repeating the fresh call (new preparations, same arguments) gives DIFFERENT outcomes, one of which is
            # the session's; otherwise it stays a violation.
            key = json.dumps([eff, op["fail"], op["mode"]], sort_keys=True)
            first = fresh_memo[key]
            for _ in range(12):
                del fresh_memo[key]
                again = fresh(eff, op["fail"], op["mode"])
                if again != first and not versus_fresh(*again):
                    rec.setdefault("kf", []).append((KF_FRESH_NONDET, i))
                    probs = []
                    break
            fresh_memo[key] = first
        rec["problems"] += probs
    deadline = time.time() + 5
    while time.time() < deadline and (set(threading.enumerate()) - base_threads):
        time.sleep(0.01)
    left = [t.name for t in set(threading.enumerate()) - base_threads]
    if left:
        rec["problems"].append(f"threads left behind after the history: {left[:3]}")
    if any(op["mode"] == "MULTIPROCESSING" for op in rec["ops"]):
        procs = mp_obs.stray_children()
        if procs:
            rec["problems"].append(f"worker / manager processes left behind after the history: pids {procs[:4]}")
            mp_obs.kill_stray_children()
    uni.dispose()
    return rec


RSTAT = {"ok": "ROk", "raised": "RRaised", "abandoned": "RAbandoned", "norunner": "RNoRunner"}


def cq_obs(rec: Dict[str, Any], op: Dict[str, Any], o: Dict[str, Any]) -> str:
    kind = op["kind"]
    streamed = kind == "stream" or (kind == "fail" and op.get("stream"))
    k = "KGet" if kind == "get" else f"(KAbandon {cq_nat(op['j'])})" if kind == "abandon" else "KStream" if streamed else "KRun"
    given = rec["case"]["variants"][op["api"]]
    seen = f"(Some {cq_api(o['seen'])})" if o["has_seen"] else "None"
    return (f"{{| ob_kind := {k}; ob_api := {cq_api(given)}; ob_inline := inline_of {CQ_MODE[op['mode']]}; "
            f"ob_fails := {cq_list(cq_nat(x) for x in o.get('raised_steps', []))}; ob_status := {RSTAT[o['status']]}; "
            f"ob_items := {cq_list(cq_nat(x) for x in o['items'] if x >= 0)}; ob_runner_changed := {cq_bool(o['runner_changed'])}; "
            f"ob_flags := {cq_list(cq_nat(x) for x in o['flags'])}; ob_api_kept := {cq_bool(o['api_kept'])}; ob_seen := {seen} |}}")


def cq_session_case(rec: Dict[str, Any]) -> str:
    uni_api = None
    for g in rec["case"]["spec"]["groups"]:
        if g["kind"] == "api":
            uni_api = {g["key"]: g["cols"]}
    return (f"({cq_plan(rec['plan'])}, {cq_api(uni_api)}, "
            f"{cq_list(cq_obs(rec, op, o) for op, o in zip(rec['ops'], rec['obs']))})")


def probe_conflicts(cases: List[Dict[str, Any]], with_mp: bool = False) -> None:
    """THREADING is used only on requests whose plan has no two unordered steps working on one compute-framework object
    (known findings of C01: such plans are schedule dependent).  Decided by conflict_free (Model/OrchCheck.v) on the
    plan and object footprint of a probe session."""
    from harness.c01 import cq_foot, EXTRA as C01_EXTRA
    terms, idx = [], []
    for i, case in enumerate(cases):
        uni = Uni7(case["spec"], GateListener())
        d0 = uni.api_default()
        try:
            sess = uni.prepare(api_data=d0) if d0 is not None else uni.prepare()
            plan = export_plan(sess, uni)
            o = run_observed(sess, **({"api_data": d0} if d0 is not None else {}))
            terms.append(f"({cq_plan(plan)}, {cq_foot(o['foot'])})")
            idx.append(i)
        except Exception:  # noqa: BLE001
            case["threading_ok"] = False
        uni.dispose()
    bad = set(vlib.run_cases("C07", "cf", ["MV.Model.Orch", "MV.Model.OrchCheck"], "chk_cf", terms, extra_defs=C01_EXTRA,
                             case_type="plan * foot", shard=80)[0])
    badx: set = set()
    if with_mp:
        badx = set(vlib.run_cases("C07", "cfx", ["MV.Model.Orch", "MV.Model.OrchCheck"], "chk_cfx", terms, case_type="plan * foot", shard=80,
                                  extra_defs=C01_EXTRA + "\nDefinition chk_cfx (c : plan * foot) := conflict_free_x (fst c) (snd c).\n")[0])
    for k, i in enumerate(idx):
        cases[i]["threading_ok"] = k not in bad
        cases[i]["mp_ok"] = with_mp and k not in bad and k not in badx


def mp_api_witnesses(big: bool) -> List[Dict[str, Any]]:
    """Explicit histories on an api_data-backed session that contain MULTIPROCESSING operations (known-defect domain kf_mp_api:
    such an operation never returns; accepted there: no return within HANG_S_KF, or the fresh run_all's result).  What C07
    asks of them is still checked: the operations AFTER the hung one return what a fresh run_all returns, the session's plan
    and the caller's api_data dictionaries are untouched."""
    def case(cols: Dict[str, List[int]], ops: List[Dict[str, Any]], seed: int) -> Dict[str, Any]:
        spec = {"groups": [{"name": "A0", "kind": "api", "cfw": "PyArrowTable", "key": "K0", "cols": cols, "features": {c: {} for c in cols}},
                           {"name": "D0", "kind": "derived", "cfw": "PyArrowTable",
                            "features": {"f": {"inputs": ["a", "b"], "c0": 1, "coefs": [1, 2]}}}],
                "request": ["f", "a"]}
        variants: List[Any] = [None, {"K0": {"a": [5, 6], "b": [1, 1], "k": [1, 2]}}, {"K0": {"a": [7], "b": [2], "k": [3]}}]
        return {"spec": spec, "api": True, "variants": variants, "seed": seed, "mix": True, "threading_ok": True, "mp_ok": False,
                "ops": ops, "witness": True}

    def op(kind: str, mode: str, api: int, **kw: Any) -> Dict[str, Any]:
        return dict({"kind": kind, "api": api, "mode": mode, "fail": [], "j": 0}, **kw)
    cols = {"a": [1, 2, 3], "b": [10, 20, 30], "k": [1, 2, 3]}
    out = [case(cols, [op("run", "SYNC", 1), op("run", "MULTIPROCESSING", 2), op("stream", "THREADING", 0), op("run", "SYNC", 2),
                       op("get", "SYNC", 0)], 1)]
    if big:
        out.append(case(cols, [op("stream", "MULTIPROCESSING", 1), op("run", "THREADING", 1), op("abandon", "MULTIPROCESSING", 2, j=1),
                               op("run", "SYNC", 0)], 2))
        out.append(case(cols, [op("run", "THREADING", 0), op("fail", "MULTIPROCESSING", 1, fail=[["D0", "f"]]),
                               op("fail", "SYNC", 1, fail=[["D0", "f"]]), op("run", "THREADING", 2)], 3))
    return out


def part_a(rep: vlib.Reporter, tier: str, rng: random.Random, modes: bool = False) -> bool:
    """modes = False: family A (SYNC / THREADING histories).  modes = True: family A-modes -- histories whose operations run
    in SYNC, THREADING and MULTIPROCESSING interleaved on ONE session (run SYNC, failing run in MULTIPROCESSING, THREADING
    stream abandoned after j items, MULTIPROCESSING run with other api data, ...), every result compared with a FRESH run_all in
    the operation's own mode, the observed history replayed through the same checker chk_hist (inline_of mode)."""
    big = tier == "thorough"
    fam = "A-modes" if modes else "A"
    n = (150 if big else 10) if modes else (1000 if big else 60)
    recs: List[Dict[str, Any]] = []
    dist: Dict[str, Any] = {"histories": 0, "prepare_rejected": 0, "ops": {}, "modes": {}, "status": {}, "api_backed": 0,
                            "in_planner_kf_domain": 0, "len_hist": {}}
    t0 = time.time()
    if modes:
        cand = [gen_session_case(rng, api_prob=0.3) for _ in range(3 * n)]
        probe_conflicts(cand, with_mp=True)
        dist["candidates"] = len(cand)
        dist["multiprocessing_allowed_candidates"] = sum(1 for c in cand if c.get("mp_ok") and not c["api"])
        cases = ([c for c in cand if c.get("mp_ok") and not c["api"]] + [c for c in cand if not (c.get("mp_ok") and not c["api"])])[:n]
        for c in cases:
            c["mix"] = True
        cases = mp_api_witnesses(big) + cases
    else:
        cases = [gen_session_case(rng) for _ in range(n)]
        probe_conflicts(cases)
    dist["threading_allowed"] = sum(1 for c in cases if c.get("threading_ok"))
    for case in cases:
        rec = run_session_case(case)
        if "prepare_error" in rec:
            dist["prepare_rejected"] += 1
            continue
        recs.append(rec)
    found = False
    per_mode: Dict[str, Dict[str, Any]] = {m: {"ops": 0, "by_kind": {}, "status": {}, "worker_processes_max": 0,
                                               "steps_executed_in_worker_processes": 0, "failing_step_reported_from_child": 0,
                                               "api_data_seen_in_child": 0, "preceded_by_other_mode": 0} for m in MODES3}
    for rec in recs:
        dist["histories"] += 1
        dist["api_backed"] += int(rec["case"]["api"])
        dist["in_planner_kf_domain"] += int(rec["in_kf"])
        L = len(rec["ops"])
        dist["len_hist"][L] = dist["len_hist"].get(L, 0) + 1
        kinds = set()
        seen_modes: set = set()
        for op, o in zip(rec["ops"], rec["obs"]):
            dist["ops"][op["kind"]] = dist["ops"].get(op["kind"], 0) + 1
            dist["modes"][op["mode"]] = dist["modes"].get(op["mode"], 0) + 1
            dist["status"][o["status"]] = dist["status"].get(o["status"], 0) + 1
            kinds.add(op["kind"])
            rep.count(2 if op["kind"] != "get" else 1)
            if op["kind"] != "get":
                pm = per_mode[op["mode"]]
                pm["ops"] += 1
                pm["by_kind"][op["kind"]] = pm["by_kind"].get(op["kind"], 0) + 1
                pm["status"][o["status"]] = pm["status"].get(o["status"], 0) + 1
                pm["worker_processes_max"] = max(pm["worker_processes_max"], o.get("worker_processes", 0))
                pm["steps_executed_in_worker_processes"] += len(o.get("child_steps", []))
                pm["failing_step_reported_from_child"] += int(op["mode"] == "MULTIPROCESSING" and bool(o.get("raised_steps")))
                pm["api_data_seen_in_child"] += int(op["mode"] == "MULTIPROCESSING" and bool(o.get("has_seen")))
                pm["preceded_by_other_mode"] += int(bool(seen_modes - {op["mode"]}))
                seen_modes.add(op["mode"])
        if modes:
            if len({op["mode"] for op in rec["ops"] if op["kind"] != "get"}) >= 2 and len(kinds) >= 2:
                rep.nontrivial((fam, rec["case"]["spec"], rec["ops"]))
        elif len(kinds) >= 3 and any(o["status"] == "raised" for o in rec["obs"]) and any(o["status"] == "ok" for o in rec["obs"]):
            rep.nontrivial(("A", rec["case"]["spec"], rec["ops"]))
        for p in rec["problems"]:
            found = True
            rep.finding("session:" + p[:60] + ":" + json.dumps(rec["case"]["spec"], sort_keys=True)[:200], f"session history ({fam}): " + p,
                        {"kind": "session", "case": rec["case"], "ops": rec["ops"], "problem": p})
        for key, i in rec.get("kf", []):
            if key == KF_FRESH_NONDET:
                dist["ops_differing_from_a_fresh_call_whose_own_outcome_varies"] = dist.get("ops_differing_from_a_fresh_call_whose_own_outcome_varies", 0) + 1
                rep.finding(key, f"op {i} of {rec['ops']} differs from a fresh run_all whose own outcome varies between calls",
                            {"kind": "session", "case": rec["case"], "ops": rec["ops"]})
                continue
            dist["ops_in_known_defect_domain_not_returning"] = dist.get("ops_in_known_defect_domain_not_returning", 0) + 1
            rep.finding(key, f"op {i} of {rec['ops']} did not return", {"kind": "session", "case": rec["case"], "ops": rec["ops"]})
    modelled = [r for r in recs if not any(o.get("unmodelled_raise") for o in r["obs"]) and not any(o["status"] == "hang" for o in r["obs"])]
    dist["histories_replayed_in_model"] = len(modelled)
    terms = [cq_session_case(r) for r in modelled]
    bad, info = vlib.run_cases("C07", "hist_modes" if modes else "hist", REQ_A, "chk_hist", terms,
                               case_type="plan * option api_data * list obs", shard=80) if terms else ([], {})
    for i in bad[:5]:
        r = modelled[i]
        found = True
        rep.finding("session-model:" + json.dumps(r["case"]["spec"], sort_keys=True)[:200],
                    f"observed session history ({fam}) is not the model's (Model/Session.exec): " +
                    json.dumps([{k: o[k] for k in ('status', 'items', 'runner_changed', 'flags', 'api_kept')} for o in r["obs"]])[:400],
                    {"kind": "session", "case": r["case"], "ops": r["ops"], "obs": r["obs"]})
    if modes:
        dist["per_mode"] = per_mode
        dist["histories_with_two_or_more_modes"] = sum(1 for r in recs if len({op["mode"] for op in r["ops"] if op["kind"] != "get"}) >= 2)
        dist["histories_with_multiprocessing"] = sum(1 for r in recs if any(op["mode"] == "MULTIPROCESSING" for op in r["ops"]))
        dist["process_start_method"] = mp_obs.start_method()
        dist["multiprocessing_timeouts_not_reproduced_on_retry"] = sum(r.get("timeouts_retried", 0) for r in recs)
        dist["wall_s"] = round(time.time() - t0, 1)
        rep.add("session_histories_modes", dist)
        rep.add("session_model_modes", {**info, "disagreements": len(bad)})
        rep.coverage["traces_validated_against_impl"] = rep.coverage.get("traces_validated_against_impl", 0) + len(recs)
        if mp_obs.start_method() != "fork":
            found = True
            rep.finding("modes-start-method", f"worker processes start with {mp_obs.start_method()!r}: harness wrappers are not inherited",
                        {"kind": "session"}, found_input=False)
    else:
        rep.add("session_histories", dist)
        rep.add("session_model", {**info, "disagreements": len(bad)})
        rep.add("traces_validated_against_impl", len(recs))
    if recs:
        r0 = recs[0]
        rep.sample({"part": fam, "request": r0["case"]["spec"]["request"], "ops": r0["ops"],
                    "obs": [{k: o[k] for k in ("status", "items", "runner_changed")} for o in r0["obs"]]})
    return found


# ============================================================================================================
# Part B — sequences of prepare / run_all calls sharing argument objects
# ============================================================================================================

LINK_POOL = [{"jt": "INNER", "l": 0, "r": 1, "li": ["k"], "ri": ["j"]},
             {"jt": "LEFT", "l": 0, "r": 1, "li": ["k"], "ri": ["j"]},
             {"jt": "INNER", "l": 1, "r": 0, "li": ["j"], "ri": ["k"]}]
API_DEP = {"a", "b", "k", "f1", "f2", "g1"}     # names that need R0's data


def gen_args_case(rng: random.Random) -> Dict[str, Any]:
    api = rng.random() < 0.4
    r0: Dict[str, Any] = {"name": "R0", "kind": "root", "cfw": "PyArrowTable",
                          "cols": {"a": [rng.randrange(0, 9) for _ in range(3)], "b": [rng.randrange(0, 40) for _ in range(3)], "k": [1, 2, 3]}}
    if api:
        r0.update(kind="api", key="K0", features={c: {} for c in r0["cols"]})
    r1: Dict[str, Any] = {"name": "R1", "kind": "root", "cfw": "PyArrowTable",
                          "cols": {"c": [rng.randrange(0, 9) for _ in range(3)], "d": [rng.randrange(0, 40) for _ in range(3)], "j": [1, 2, 3]}}
    if rng.random() < 0.2:
        r1["dtype_rule"] = "INT64"
    d1 = {"name": "D1", "kind": "derived", "cfw": "PyArrowTable",
          "features": {"f1": {"inputs": ["a", "b"], "c0": 0, "coefs": [1, 1]}, "f2": {"inputs": ["f1", "a"], "c0": 1, "coefs": [1, 2]}}}
    g1: Dict[str, Any] = {"inputs": ["a", "c"], "c0": 0, "coefs": [1, 1]}
    if rng.random() < 0.5:
        g1["input_link"] = {rng.choice(["a", "c"]): rng.choice([0, 0, 1])}
    d2 = {"name": "D2", "kind": "derived", "cfw": "PyArrowTable", "features": {"g1": g1}}
    spec = {"groups": [r0, r1, d1, d2], "request": []}
    n_opt = rng.randrange(2, 5)
    options = []
    for _ in range(n_opt):
        grp: Dict[str, Any] = {}
        if rng.random() < 0.6:
            grp["x"] = rng.choice([1, 2])
        if rng.random() < 0.25:
            grp["y"] = rng.choice(["u", "v"])
        ctx = {"cx": 5} if rng.random() < 0.15 else {}
        options.append({"group": grp, "context": ctx})
    feats = []
    for _ in range(rng.randrange(3, 7)):
        name = rng.choice(["a", "a", "b", "b", "c", "d", "f1", "f2", "g1", "k", "zz"] if rng.random() < 0.15 else
                          ["a", "a", "b", "b", "c", "d", "f1", "f2", "g1", "k"])
        feats.append({"name": name, "opt": rng.randrange(n_opt),
                      "dtype": ("INT64" if rng.random() < 0.7 else "INT32") if rng.random() < 0.2 else None,
                      "link": rng.choice([0, 0, 0, 0, 1, 2]) if rng.random() < 0.25 else None})
    links_set = rng.choice([[0, 1], [0, 2]]) if rng.random() < 0.06 else rng.choice([None, [], [], [0], [0], [0], [1]])
    filters = []
    for _ in range(rng.choice([0, 1, 1, 1, 2])):
        filters.append({"name": rng.choice(["b", "b", "a", "d"]), "type": rng.choice(["min", "max"]),
                        "param": {"value": rng.randrange(0, 30)}, "opts": ({"x": 1} if rng.random() < 0.15 else {})})
    all_copy = rng.random() < 0.7
    calls = []
    for _ in range(rng.randrange(2, 6)):
        use_filter = bool(filters) and rng.random() < 0.85
        use_api = (2 if rng.random() < 0.25 else 1) if (api and rng.random() < 0.9) else 0      # 2: api data with an extra column
        idx = list(range(len(feats)))
        rng.shuffle(idx)
        chosen: List[int] = []
        for i in idx:
            f = feats[i]
            if use_filter and f["dtype"] is not None:
                continue
            if api and not use_api and f["name"] in API_DEP:
                continue
            sig = (f["name"], json.dumps(options[f["opt"]]["group"], sort_keys=True), f["dtype"])
            if any(sig == (feats[c]["name"], json.dumps(options[feats[c]["opt"]]["group"], sort_keys=True), feats[c]["dtype"]) for c in chosen):
                continue
            chosen.append(i)
            if len(chosen) >= rng.randrange(1, 4):
                break
        if not chosen:
            continue
        calls.append({"feats": chosen, "copy": True if all_copy else rng.random() < 0.5, "strict": rng.random() < 0.15,
                      "api": use_api, "links": links_set is not None and rng.random() < 0.85, "filter": use_filter,
                      "kind": rng.choice(["prepare", "run_all"])})
    return {"spec": spec, "options": options, "features": feats, "links_set": links_set, "filters": filters, "calls": calls}


# ---- family B-dom: the argument objects WITH DOMAINS ------------------------------------------------------------------
DOM_FEATS = [("v", "sales"), ("v", "sales"), ("v", "finance"), ("v", "finance"), ("p", "sales"), ("p", None), ("q", "finance"),
             ("q", None), ("k", "sales"), ("k", "finance"), ("k", "default_domain"), ("w", None), ("w", "default_domain"),
             ("x", None), ("y", None), ("x", "geo"), ("t1", "sales"), ("t2", None), ("t3", None)]
DOM_FEATS_ODD = [("v", None), ("t1", None), ("p", "finance"), ("k", None), ("w", "sales")]     # ambiguous / no group
DOM_OF_NAME = {"p": "sales", "q": "finance", "w": "default_domain", "x": "geo", "y": "geo", "t1": "sales", "t2": "geo", "t3": "finance"}


def gen_dom_case(rng: random.Random) -> Dict[str, Any]:
    """Universe with DOMAINS: two roots providing the same columns in the domains sales / finance, a pandas root in the default
    domain, a root whose group has a domain (geo) while its features are requested without one, derived groups whose input
    features inherit the requested feature's domain / carry an explicit domain.  Every table has 4 rows with values on both
    sides of the filter bound, so "filter applied or not" shows in the rows.  ONE GlobalFilter (1-2 filters; filter features
    without / with own domain, compute framework, options) is re-used by 3-6 calls whose requested features belong to
    different domains."""
    def col(lo: int, hi: int) -> List[int]:
        return sorted(rng.sample(range(lo, hi), 4))
    S = {"name": "S", "kind": "root", "cfw": "PyArrowTable", "domain": "sales", "cols": {"v": col(0, 40), "p": col(0, 40), "k": [1, 2, 3, 4]}}
    F = {"name": "F", "kind": "root", "cfw": "PyArrowTable", "domain": "finance", "cols": {"v": col(0, 40), "q": col(0, 40), "k": [1, 2, 3, 4]}}
    W = {"name": "W", "kind": "root", "cfw": "PandasDataFrame", "cols": {"w": col(0, 40), "k": [1, 2, 3, 4]}}
    G = {"name": "G", "kind": "root", "cfw": "PyArrowTable", "domain": "geo", "cols": {"x": col(0, 40), "y": col(0, 40)}}
    DS = {"name": "DS", "kind": "derived", "cfw": "PyArrowTable", "domain": "sales",
          "features": {"t1": {"inputs": ["v", "p"], "c0": 0, "coefs": [1, 1]}}}
    DX = {"name": "DX", "kind": "derived", "cfw": "PyArrowTable",
          "features": {"t2": {"inputs": ["x", "y"], "c0": 0, "coefs": [1, 2]},
                       "t3": {"inputs": ["v"], "c0": 1, "coefs": [1], "input_dom": {"v": "finance"}}}}
    spec = {"groups": [S, F, W, G, DS, DX], "request": []}
    n_opt = rng.randrange(1, 4)
    options = []
    for i in range(n_opt):
        grp: Dict[str, Any] = {}
        if i and rng.random() < 0.6:
            grp["x"] = rng.choice([1, 2])
        if rng.random() < 0.08:
            grp["y"] = "u"
        options.append({"group": grp, "context": {"cx": 5} if rng.random() < 0.1 else {}})
    feats = []
    for _ in range(rng.randrange(5, 10)):
        name, dom = rng.choice(DOM_FEATS_ODD) if rng.random() < 0.08 else rng.choice(DOM_FEATS)
        cfw = rng.choice(["PyArrowTable", "PandasDataFrame"]) if rng.random() < 0.08 else None
        feats.append({"name": name, "opt": rng.randrange(n_opt), "dtype": None, "link": None, "dom": dom, "cfw": cfw})
    filters = []
    cols_by = {g["name"]: g["cols"] for g in (S, F, W, G)}
    for _ in range(rng.choice([1, 1, 1, 2])):
        name = rng.choice(["v", "v", "v", "k", "k", "p", "x", "w", "q"])
        vals = sorted(v for g in cols_by.values() if name in g for v in g[name])
        r = rng.random()
        fdom = None if r < 0.65 else rng.choice(["sales", "finance"]) if r < 0.9 else rng.choice(["geo", "default_domain"])
        if fdom is None and rng.random() < 0.15 and name in DOM_OF_NAME:
            fdom = DOM_OF_NAME[name]
        fcfw = rng.choice(["PyArrowTable", "PandasDataFrame"]) if rng.random() < 0.12 else None
        filters.append({"name": name, "type": rng.choice(["min", "max"]), "param": {"value": rng.choice(vals[2:-2] or vals)},
                        "opts": ({"x": 1} if (rng.random() < 0.08 and not filters) else {}), "dom": fdom, "cfw": fcfw})
    all_copy = rng.random() < 0.8
    calls = []
    for _ in range(rng.randrange(3, 7)):
        idx = list(range(len(feats)))
        rng.shuffle(idx)
        chosen: List[int] = []
        want = rng.choice([1, 1, 2, 2, 3])
        for i in idx:
            f = feats[i]
            key = (f["name"], json.dumps(options[f["opt"]]["group"], sort_keys=True))
            clash = False
            for c in chosen:
                g = feats[c]
                if key == (g["name"], json.dumps(options[g["opt"]]["group"], sort_keys=True)) and \
                        (f["dom"] is None or g["dom"] is None or f["dom"] == g["dom"]):
                    clash = True       # Features([...]) compares them (Feature.__eq__ / Domain.__eq__ with None): outside the model
            if {f["name"]} | {feats[c]["name"] for c in chosen} >= {"t2", "t3"}:
                clash = True           # one step of DX fed by two roots: needs a Link (join planning is outside the model)
            if clash:
                continue
            chosen.append(i)
            if len(chosen) >= want:
                break
        calls.append({"feats": chosen, "copy": True if all_copy else rng.random() < 0.5, "strict": False, "api": 0, "links": False,
                      "filter": rng.random() < 0.92, "kind": "run_all" if rng.random() < 0.7 else "prepare"})
    return {"spec": spec, "options": options, "features": feats, "links_set": None, "filters": filters, "calls": calls, "family": "dom"}


def dom_witness_cases() -> List[Dict[str, Any]]:
    """Fixed sequences run first in family B-dom: the domain-less filter shared across sales -> finance -> default domain ->
    geo; both domains in one call; filter features with own domain / framework."""
    base = gen_dom_case(random.Random(12345))
    spec = json.loads(json.dumps(base["spec"]))
    spec["groups"][0]["cols"].update(v=[10, 20, 30, 40], p=[1, 12, 23, 34])
    spec["groups"][1]["cols"].update(v=[11, 21, 31, 41], q=[2, 13, 24, 35])
    spec["groups"][2]["cols"].update(w=[5, 15, 25, 35])
    spec["groups"][3]["cols"].update(x=[3, 13, 23, 33], y=[4, 14, 24, 34])
    opts = [{"group": {}, "context": {}}, {"group": {"x": 1}, "context": {}}]

    def feat(name: str, dom: Optional[str], opt: int = 0, cfw: Optional[str] = None) -> Dict[str, Any]:
        return {"name": name, "opt": opt, "dtype": None, "link": None, "dom": dom, "cfw": cfw}

    def flt(name: str, value: int, dom: Optional[str] = None, cfw: Optional[str] = None, typ: str = "min") -> Dict[str, Any]:
        return {"name": name, "type": typ, "param": {"value": value}, "opts": {}, "dom": dom, "cfw": cfw}

    def call(feats: List[int], kind: str = "run_all", copy_: bool = True) -> Dict[str, Any]:
        return {"feats": feats, "copy": copy_, "strict": False, "api": 0, "links": False, "filter": True, "kind": kind}
    F6 = [feat("v", "sales"), feat("v", "finance"), feat("k", "default_domain"), feat("x", None), feat("t1", "sales"),
          feat("w", None), feat("q", None, 1), feat("t3", None)]
    return [
        {"spec": spec, "options": opts, "features": F6, "links_set": None, "filters": [flt("v", 20)], "family": "dom",
         "calls": [call([0]), call([1]), call([2]), call([3]), call([1, 0]), call([4], "prepare"), call([7])]},
        {"spec": spec, "options": opts, "features": F6, "links_set": None, "filters": [flt("k", 2)], "family": "dom",
         "calls": [call([5]), call([0]), call([1, 6]), call([2], "prepare"), call([0, 5])]},
        {"spec": spec, "options": opts, "features": F6, "links_set": None, "filters": [flt("v", 30, dom="sales", typ="max")], "family": "dom",
         "calls": [call([1]), call([0]), call([4]), call([1, 0])]},
        {"spec": spec, "options": opts, "features": F6, "links_set": None, "filters": [flt("k", 3, cfw="PyArrowTable", typ="max")], "family": "dom",
         "calls": [call([2]), call([0], copy_=False), call([1]), call([0], copy_=False)]},
        {"spec": spec, "options": opts, "features": F6, "links_set": None, "filters": [flt("x", 13, dom="sales")], "family": "dom",
         "calls": [call([3]), call([0]), call([3])]},
    ]


def witness_cases() -> List[Dict[str, Any]]:
    """The witnesses of the two repaired findings (C07-filter-collection-accumulates, C07-links-set-grows): regression
    cases, run first on every check."""
    spec = {"groups": [
        {"name": "R0", "kind": "root", "cfw": "PyArrowTable", "cols": {"a": [1, 2, 3], "b": [10, 20, 30], "k": [1, 2, 3]}},
        {"name": "R1", "kind": "root", "cfw": "PyArrowTable", "cols": {"c": [5, 6, 7], "d": [1, 1, 1], "j": [1, 2, 3]}},
        {"name": "D1", "kind": "derived", "cfw": "PyArrowTable",
         "features": {"f1": {"inputs": ["a", "b"], "c0": 0, "coefs": [1, 1]}, "f2": {"inputs": ["f1", "a"], "c0": 1, "coefs": [1, 2]}}},
        {"name": "D2", "kind": "derived", "cfw": "PyArrowTable", "features": {"g1": {"inputs": ["a", "c"], "c0": 0, "coefs": [1, 1]}}}],
        "request": []}

    def call(feats: List[int], links: bool, flt: bool) -> Dict[str, Any]:
        return {"feats": feats, "copy": True, "strict": False, "api": 0, "links": links, "filter": flt, "kind": "run_all"}
    opts = [{"group": {"x": 1}, "context": {}}, {"group": {"x": 2}, "context": {}}, {"group": {}, "context": {}}]
    fb = [{"name": "b", "type": "min", "param": {"value": 20}, "opts": {}}]

    def feat(name: str, opt: int, link: Optional[int] = None) -> Dict[str, Any]:
        return {"name": name, "opt": opt, "dtype": None, "link": link}
    return [
        # call 1 [b{x:1}], call 2 [a{x:2}] with the same GlobalFilter (filter_reuse_refuted)
        {"spec": spec, "options": opts, "features": [feat("b", 0), feat("a", 1)], "links_set": None, "filters": fb,
         "calls": [call([0], False, True), call([1], False, True)]},
        # design witness: [a{x:1}], then [a{x:2}, b{x:2}]; and a third call that makes the first session's plan change
        {"spec": spec, "options": opts, "features": [feat("a", 0), feat("a", 1), feat("b", 1)], "links_set": None, "filters": fb,
         "calls": [call([0], False, True), call([1, 2], False, True), call([1], False, True)]},
        # a requested feature carries a Link; the caller's (empty) set grows; g1 then joins only with the shared set
        {"spec": spec, "options": opts, "features": [feat("a", 2, 0), feat("g1", 2)], "links_set": [], "filters": [],
         "calls": [call([0], True, False), call([1], True, False)]},
        # S = {inner}; a feature carrying left(R0,R1): later calls with S are rejected by LinkValidator
        {"spec": spec, "options": opts, "features": [feat("a", 2, 1), feat("g1", 2)], "links_set": [0], "filters": [],
         "calls": [call([0], True, False), call([1], True, False)]},
    ]


class Pool:
    """The caller's argument objects, built from the case description."""

    def __init__(self, case: Dict[str, Any], uni: Uni7) -> None:
        from mloda.user import Feature, Options, Link, JoinSpec, GlobalFilter
        from mloda.core.abstract_plugins.components.link import JoinType
        from mloda.core.abstract_plugins.components.data_types import DataType
        from harness.universe import cfw_class
        for n in CFW_IDS:         # Feature(compute_framework="...") resolves the name among the LOADED framework classes
            cfw_class(n)
        names = [g["name"] for g in case["spec"]["groups"]]

        def mk_link(l: Dict[str, Any]) -> Any:
            return Link(JoinType[l["jt"]], JoinSpec(uni.classes[names[l["l"]]], tuple(l["li"])),
                        JoinSpec(uni.classes[names[l["r"]]], tuple(l["ri"])))
        self.link_objs = [mk_link(l) for l in LINK_POOL]
        self.options = [Options(group=dict(o["group"]), context=dict(o["context"])) for o in case["options"]]
        self.features = [Feature(f["name"], options=self.options[f["opt"]],
                                 data_type=DataType[f["dtype"]] if f["dtype"] else None,
                                 link=self.link_objs[f["link"]] if f["link"] is not None else None,
                                 domain=f.get("dom"), compute_framework=f.get("cfw")) for f in case["features"]]
        self.links_set = None if case["links_set"] is None else {mk_link(LINK_POOL[i]) for i in case["links_set"]}
        self.filter = None
        if case["filters"]:
            self.filter = GlobalFilter()
            for f in case["filters"]:
                if f["opts"] or f.get("dom") or f.get("cfw"):       # a filter feature of the caller's own
                    ff: Any = Feature(f["name"], options=dict(f["opts"]), domain=f.get("dom"), compute_framework=f.get("cfw"))
                else:
                    ff = f["name"]                                  # the normal add_filter("col", ...)
                self.filter.add_filter(ff, f["type"], dict(f["param"]))
        self.api = uni.api_default()
        self.api2 = None
        if self.api is not None:
            self.api2 = {k: dict(v, z=[0] * len(next(iter(v.values())))) for k, v in uni.api_default().items()}  # type: ignore[union-attr]

    def objects(self) -> Dict[str, Any]:
        return {"features": self.features, "options": self.options, "links_set": self.links_set, "filter": self.filter,
                "api": self.api, "api2": self.api2}


def val_of(v: Any) -> Any:
    if hasattr(v, "data") and type(v).__name__ == "HashableDict":
        return {"__cols__": [(k, list(cs)) for k, cs in v.data.items()]}
    return v


def link_val(uni: Uni7, l: Any) -> Dict[str, Any]:
    return {"jt": l.jointype.name, "l": uni.gid(l.left_feature_group), "r": uni.gid(l.right_feature_group),
            "li": list(l.left_index.index), "ri": list(l.right_index.index)}


def flt_val(sf: Any) -> Dict[str, Any]:
    ff = sf.filter_feature
    if ff.options.context:
        raise ValueError("filter feature with context options: outside the model")
    return {"name": str(ff.name), "opts": {k: val_of(v) for k, v in ff.options.group.items()}, "type": sf.filter_type,
            "param": {k: int(v) for k, v in sf.parameter._raw},
            "dom": None if ff.domain is None else DOM_IDS[ff.domain.name],
            "cfw": None if ff.compute_frameworks is None else sorted(CFW_IDS[c.__name__] for c in ff.compute_frameworks)}


def model_world(uni: Uni7, pool: Pool, ren: Renamer) -> Dict[str, Any]:
    """The modelled fields of the caller's objects."""
    F = []
    for f in pool.features:
        F.append({"name": str(f.name), "opt": next(i for i, o in enumerate(pool.options) if o is f.options),
                  "cfw": None if f.compute_frameworks is None else sorted(CFW_IDS[c.__name__] for c in f.compute_frameworks),
                  "flag": bool(f.initial_requested_data), "dtype": DT_IDS[f.data_type.name] if f.data_type else None,
                  "uuid": int(ren(f.uuid).split("#")[1]), "link": link_val(uni, f.link) if f.link is not None else None,
                  "dom": None if f.domain is None else DOM_IDS[f.domain.name]})
    Oo = [{"group": {k: val_of(v) for k, v in o.group.items()}, "context": {k: val_of(v) for k, v in o.context.items()}}
          for o in pool.options]
    links = [] if pool.links_set is None else sorted((link_val(uni, l) for l in pool.links_set), key=json.dumps)
    coll: List[Any] = []
    filters: List[Any] = []
    if pool.filter is not None:
        for (g, n), fs in pool.filter.collection.items():
            coll.append(((uni.gid(g), str(n)), sorted((flt_val(x) for x in fs), key=lambda d: json.dumps(d, sort_keys=True))))
        coll.sort(key=lambda kv: json.dumps(kv[0]))
        filters = sorted((flt_val(x) for x in pool.filter.filters), key=lambda d: json.dumps(d, sort_keys=True))
    return {"F": F, "O": Oo, "links": links, "coll": coll, "filters": filters}


def classify_error(e: Exception) -> str:
    m = str(e)
    if "already exists in group options" in m or "already exists in context options" in m:
        return "EAddConflict"
    if "No feature groups found" in m:
        return "ENoGroup"
    if "Multiple feature groups found" in m:
        return "EMulti"
    if "Cannot compare Domain with" in m:
        return "EDomCmp"
    if "different filters for different features" in m:
        return "ERejected"
    if "different defined joins" in m or "different join types" in m or "multiple right joins" in m:
        return "ELinks"
    if "should only have one compute framework" in m:
        return "ECfw"
    if "data type mismatch" in m:
        return "EDtype"
    return "other:" + type(e).__name__ + ":" + m[:80]


def plan_outcome(uni: Uni7, sess: Any) -> List[Any]:
    from mloda.core.core.step.feature_group_step import FeatureGroupStep
    out = []
    for st in sess.engine.execution_planner:
        if isinstance(st, FeatureGroupStep):
            f0 = next(iter(st.features.features))
            out.append((uni.gid(st.feature_group), {k: val_of(v) for k, v in f0.options.group.items()},
                        sorted((flt_val(x) for x in (st.features.filters or [])), key=lambda d: json.dumps(d, sort_keys=True))))
    return out


def canon_steps(steps: List[Any]) -> List[str]:
    return sorted({json.dumps([g, sorted(o.items(), key=str), fs], sort_keys=True, default=str) for g, o, fs in steps})


_captured: List[Any] = []
_cap_installed = [False]


def install_capture() -> None:
    if _cap_installed[0]:
        return
    _cap_installed[0] = True
    from mloda.core.api.request import mlodaAPI
    orig = mlodaAPI.__init__

    def init(self: Any, *a: Any, **kw: Any) -> None:
        _captured.append(self)          # also when __init__ raises half way (engine stays None)
        orig(self, *a, **kw)
    mlodaAPI.__init__ = init  # type: ignore[method-assign]


def do_call(uni: Uni7, pool: Pool, call: Dict[str, Any]) -> Dict[str, Any]:
    """One prepare / run_all with the pool's objects. Returns the planning outcome and, for run_all, the run outcome."""
    from mloda.user import mloda
    from harness.universe import load_transformers
    load_transformers()
    uni.input_links = {i: l for i, l in enumerate(pool.link_objs)}
    kw: Dict[str, Any] = dict(compute_frameworks=uni.frameworks(), plugin_collector=uni.collector(),
                              links=pool.links_set if call["links"] else None,
                              global_filter=pool.filter if call["filter"] else None,
                              copy_features=call["copy"], strict_type_enforcement=call["strict"])
    if call["api"]:
        kw["api_data"] = pool.api2 if call["api"] == 2 else pool.api
    feats = [pool.features[i] for i in call["feats"]]
    res: Dict[str, Any] = {"plan": None, "err": None, "run": None}
    _captured.clear()
    mode = call.get("mode", "SYNC")
    try:
        if call["kind"] == "prepare":
            mloda.prepare(feats, **kw)
        elif mode == "SYNC":
            out = mloda.run_all(feats, **kw)
            res["run"] = ("ok", canon_tables(out))
        else:
            kw2 = dict(kw, parallelization_modes=mode_of(mode), **mp_kw(mode))
            mp_obs.CUR["sink"] = None
            st, out = mp_obs.watchdog(lambda: mloda.run_all(feats, **kw2), HANG_S)
            if st == "raised":
                raise out
            if st == "hang":
                mp_obs.kill_stray_children()
                res["run"] = ("hang", None)
            else:
                res["run"] = ("ok", canon_tables(out))
    except Exception as e:  # noqa: BLE001
        sess = _captured[-1] if _captured else None
        if sess is not None and getattr(sess, "engine", None) is not None:
            res["run"] = ("raised", type(e).__name__)          # planning succeeded, the run failed
        else:
            res["err"] = classify_error(e)
    sess = _captured[-1] if _captured else None
    if res["err"] is None and sess is not None and sess.engine is not None:
        res["plan"] = plan_outcome(uni, sess)
        res["session"] = sess
    return res


ALLOWED_PATHS = ("compute_frameworks", "initial_requested_data", "data_type")


def unmodelled_changes(before: Any, after: Any) -> List[str]:
    bad = []
    for p in diff_paths(before, after):
        if p.startswith(".features["):
            rest = p.split("]", 1)[1]
            if any(rest == "." + a for a in ALLOWED_PATHS) or rest.startswith(".options.group"):
                continue
        if p.startswith(".options[") and p.split("]", 1)[1].startswith(".group"):
            continue
        bad.append(p)
    return bad


def gen_args_case_modes(rng: random.Random) -> Dict[str, Any]:
    """gen_args_case with most calls being run_all and every run_all drawing an execution mode: the shared Feature / Options /
    Link / GlobalFilter / api_data objects are handed to SYNC, THREADING and MULTIPROCESSING runs in turn (outside SYNC the
    api_data and the function extenders are pickled into a manager process; in MULTIPROCESSING every step -- features, options,
    filters -- is pickled into a worker process)."""
    case = gen_dom_case(rng) if rng.random() < 0.3 else gen_args_case(rng)     # 30 %: the universe with domains
    for c in case["calls"]:
        if rng.random() < 0.8:
            c["kind"] = "run_all"
        if c["kind"] == "run_all":
            c["mode"] = rng.choice(["SYNC", "THREADING", "MULTIPROCESSING", "MULTIPROCESSING"])
    return case


def admit_mode(uni: Uni7, case: Dict[str, Any], call: Dict[str, Any], rec: Dict[str, Any]) -> Dict[str, Any]:
    """THREADING / MULTIPROCESSING are used only where the outcome of a run is a function of its arguments: the plan (probed with
    FRESH equal objects: prepare + SYNC run) must have no two unordered steps on one object (conflict_free, resp.
    conflict_free_x for MULTIPROCESSING; python mirror, re-validated in Coq afterwards), lie outside the planner defect domains,
    and for MULTIPROCESSING have no transform step from a non-Arrow framework and no api_data (known findings of C01 / C06 /
    KF_MP_API).  Otherwise the call is made in SYNC (recorded as downgraded)."""
    want = call["mode"]
    probe = do_call(uni, Pool(case, uni), dict(call, kind="prepare", mode="SYNC"))
    sess = probe.get("session")
    if sess is None:
        return call                          # planning fails: nothing runs in any mode
    plan = export_plan(sess, uni)
    o = run_observed(sess)
    if o["status"] != "ok":
        return dict(call, mode="SYNC", downgraded=want, why="SYNC run of the request fails")
    foot = {int(k): (v[0], list(v[1])) for k, v in o["foot"].items()}
    cf = mp_obs.conflict_free_py(plan, foot)
    cfx = mp_obs.conflict_free_py(plan, foot, across_objects_only=True)
    rec.setdefault("cf_decisions", []).append(({k: v for k, v in plan.items() if k != "_ren"}, foot, cf, cfx))
    why = None
    from harness import planner_b
    if planner_b.classify_cached(plan, rep_prefix="C07"):
        why = "planner defect domain"
    elif not cf:
        why = "unordered steps on one object"
    elif want == "MULTIPROCESSING":
        if not cfx:
            why = "unordered steps across objects"
        elif any(st["kind"] == "TFS" and st["from_cfw"] != "PyArrowTable" for st in plan["steps"]):
            why = "transform from a non-Arrow framework"
        elif call["api"]:
            why = "api_data in MULTIPROCESSING never returns"
    if why:
        return dict(call, mode="SYNC", downgraded=want, why=why)
    return call


def run_args_case(case: Dict[str, Any]) -> Dict[str, Any]:
    install_capture()
    uni = Uni7(case["spec"], GateListener())
    pool = Pool(case, uni)
    ren = Renamer()
    rec: Dict[str, Any] = {"case": case, "problems": [], "calls": []}
    rec["w0"] = model_world(uni, pool, ren)
    all_copy = True
    sessions: List[Tuple[Any, Any]] = []      # earlier prepared sessions and the dump of their plan's filters
    for ci, call in enumerate(case["calls"]):
        objs = {k: v for k, v in pool.objects().items()}
        before = {k: dump(v, ren) for k, v in pool.objects().items()}
        before_feat = {"features": dump(pool.features, ren), "options": dump(pool.options, ren)}
        entry = model_world(uni, pool, ren)
        if call.get("mode", "SYNC") != "SYNC" and call["kind"] == "run_all":
            call = admit_mode(uni, case, call, rec)
        got = do_call(uni, pool, call)
        after = {k: dump(v, ren) for k, v in pool.objects().items()}
        world = model_world(uni, pool, ren)
        # fresh equal objects, same call
        fpool = Pool(case, uni)
        fgot = do_call(uni, fpool, call)
        fworld = model_world(uni, fpool, Renamer())
        c: Dict[str, Any] = {"call": call, "world": world, "err": got["err"], "plan": got["plan"], "run": got["run"],
                             "mutated": sorted({p.split("[")[0].split(".")[1] for p in diff_paths(before, after)})}
        # -- safety net: everything that changed must be a modelled field
        um = unmodelled_changes(before, after)
        if um:
            rec["problems"].append(f"call {ci}: argument objects changed at paths outside the heap model: {um[:4]}")
        after_feat = {"features": dump(pool.features, ren), "options": dump(pool.options, ren)}
        if call["copy"] and after_feat != before_feat:
            rec["problems"].append(f"call {ci}: copy_features=True but the caller's Feature/Options objects were modified: "
                                   f"{diff_paths(before_feat, after_feat)[:4]}")
        if dump(pool.api) != dump(uni.api_default()) or dump(pool.api2) != dump(fpool.api2) or dump(fpool.api) != dump(uni.api_default()):
            rec["problems"].append(f"call {ci}: the caller's api_data was modified")
        # -- reuse = fresh ?
        same_plan = (got["err"] == fgot["err"]) and ((got["plan"] is None) == (fgot["plan"] is None)) and \
                    (got["plan"] is None or canon_steps(got["plan"]) == canon_steps(fgot["plan"]))
        same_run = got["run"] == fgot["run"]
        c["same"] = bool(same_plan)
        c["same_run"] = bool(same_run)
        c["all_copy_before"] = all_copy
        if world["links"] != entry["links"] or world["coll"] != entry["coll"] or world["filters"] != entry["filters"]:
            fdiff = ""
            if world["filters"] != entry["filters"]:
                fdiff = f", filter objects {entry['filters']} -> {world['filters']}"
            rec["problems"].append(f"call {ci} {call}: the caller's links set / GlobalFilter was written: links {entry['links']} -> "
                                   f"{world['links']}, collection keys {[k for k, _ in entry['coll']]} -> {[k for k, _ in world['coll']]}{fdiff}")
        if all_copy and not (same_plan and same_run):
            # is the request itself deterministic?  (fresh equal objects, same call, several times)
            outs = set()
            for _ in range(8):
                g2 = do_call(uni, Pool(case, uni), call)
                g2.pop("session", None)
                outs.add(json.dumps([g2["err"], g2["plan"] and canon_steps(g2["plan"]), g2["run"]], default=str))
            if len(outs) > 1:
                c["nondet"] = True
                rec["nondet"] = True
        if all_copy and not (same_plan and same_run) and not c.get("nondet"):
            detail = ""
            if not same_plan and got["plan"] is not None and fgot["plan"] is not None:
                detail += (f"; filters attached per step: shared {[(g, fs) for g, _o, fs in got['plan']]} / "
                           f"fresh {[(g, fs) for g, _o, fs in fgot['plan']]}")
            if not same_run and got["run"] and fgot["run"] and got["run"][0] == "ok" and fgot["run"][0] == "ok":
                detail += f"; rows returned: shared {got['run'][1]} / fresh {fgot['run'][1]}"
            rec["problems"].append(
                f"call {ci} {call}: outcome with the shared objects ({got['err'] or 'planned'}, run {got['run'] and got['run'][0]}) differs "
                f"from the outcome with fresh equal objects ({fgot['err'] or 'planned'}, run {fgot['run'] and fgot['run'][0]}){detail[:900]}")
        # -- earlier sessions: their frozen plan must not change when the shared filter object is used again
        for sj, (s_old, snap_old) in enumerate(sessions):
            now = dump(s_old.engine.execution_planner)
            if now != snap_old:
                rec["problems"].append(f"call {ci}: the plan of the session prepared by call {sj} changed: "
                                       f"{diff_paths(snap_old, now)[:2]}")
                sessions[sj] = (s_old, now)
        if got.get("session") is not None and call["copy"]:      # with copy_features=False the plan shares the caller's features
            sessions.append((got["session"], dump(got["session"].engine.execution_planner)))
        got.pop("session", None)
        rec["calls"].append(c)
        all_copy = all_copy and call["copy"]
    uni.dispose()
    return rec


def cq_universe(case: Dict[str, Any]) -> str:
    names = [g["name"] for g in case["spec"]["groups"]]
    ents = []
    for gi, g in enumerate(case["spec"]["groups"]):
        dt = f"(Some {cq_nat(DT_IDS[g['dtype_rule']])})" if g.get("dtype_rule") else "None"
        feats = g["cols"] if g["kind"] in ("root", "api") else g["features"]
        for n in feats:
            ins = []
            if g["kind"] == "derived":
                d = g["features"][n]
                for i in d["inputs"]:
                    li = (d.get("input_link") or {}).get(i)
                    dm = (d.get("input_dom") or {}).get(i)
                    ins.append(f"{{| i_name := {cq_str(i)}; i_link := {'None' if li is None else '(Some ' + cq_link(LINK_POOL[li]) + ')'}; "
                               f"i_dom := {cq_onat(None if dm is None else DOM_IDS[dm])} |}}")
            ents.append(f"({cq_str(n)}, {{| gi_id := {cq_nat(gi)}; gi_cfw := [{cq_nat(CFW_IDS[g['cfw']])}]; "
                        f"gi_api := {cq_bool(g['kind'] == 'api')}; gi_dtype := {dt}; gi_inputs := {cq_list(ins)}; "
                        f"gi_dom := {cq_nat(DOM_IDS[g.get('domain') or 'default_domain'])} |}})")
    return cq_list(ents)


def cq_world(w: Dict[str, Any]) -> str:
    return (f"{{| hF := {cq_list(cq_fobj(f) for f in w['F'])}; hO := {cq_list(cq_oobj(o) for o in w['O'])}; "
            f"w_links := {cq_list(cq_link(l) for l in w['links'])}; w_filters := {cq_list(cq_flt(f) for f in w['filters'])}; "
            f"w_coll := {cq_coll(w['coll'])} |}}")


def cq_call(case: Dict[str, Any], call: Dict[str, Any]) -> str:
    api = "None"
    if call["api"]:
        g = case["spec"]["groups"][0]
        api = f"(Some {cq_cols([(g['key'], list(g['cols']) + (['z'] if call['api'] == 2 else []))])})"
    return (f"{{| c_feats := {cq_list(cq_nat(i) for i in call['feats'])}; c_copy := {cq_bool(call['copy'])}; "
            f"c_strict := {cq_bool(call['strict'])}; c_api := {api}; c_links := {cq_bool(call['links'])}; "
            f"c_filter := {cq_bool(call['filter'])}; c_hz := 100%nat |}}")


def cq_cobs(case: Dict[str, Any], c: Dict[str, Any]) -> str:
    w = c["world"]
    if c["err"] is not None:
        out = f"(OFailed {c['err']})" if not c["err"].startswith("other:") else "OOther"
    elif c["plan"] is not None:
        out = "(OAccepted " + cq_list(f"({cq_nat(g)}, {cq_opts(o)}, {cq_list(cq_flt(x) for x in fs)})" for g, o, fs in c["plan"]) + ")"
    else:
        out = "OOther"
    return (f"{{| co_call := {cq_call(case, c['call'])}; co_F := {cq_list(cq_fobj(f) for f in w['F'])}; "
            f"co_O := {cq_list(cq_oobj(o) for o in w['O'])}; co_links := {cq_list(cq_link(l) for l in w['links'])}; "
            f"co_coll := {cq_coll(w['coll'])}; co_out := {out}; co_same := {cq_bool(c['same'])}; "
            f"co_filters := {cq_list(cq_flt(f) for f in w['filters'])} |}}")


def cq_args_case(rec: Dict[str, Any]) -> str:
    case = rec["case"]
    return f"({cq_universe(case)}, {cq_world(rec['w0'])}, {cq_list(cq_cobs(case, c) for c in rec['calls'])})"


def call_domains(case: Dict[str, Any], call: Dict[str, Any]) -> List[str]:
    """The domains a call's requested features belong to (own domain, else the domain of the group providing the name)."""
    out = set()
    for i in call["feats"]:
        f = case["features"][i]
        d = f.get("dom") or DOM_OF_NAME.get(f["name"])
        if d:
            out.add(d)
    return sorted(out)


def dom_stats(dist: Dict[str, Any], rec: Dict[str, Any]) -> None:
    """Evidence counters of the sequences with domains."""
    case = rec["case"]
    d = dist.setdefault("domains", {"sequences": 0, "calls_with_domains": 0, "calls_over_two_or_more_domains": 0,
                                    "sequences_reusing_one_filter_across_domains": 0, "sequences_with_filter_in_3_or_more_calls": 0,
                                    "filter_feature": {"without_domain": 0, "with_own_domain": 0, "with_compute_framework": 0, "with_options": 0},
                                    "features_with_compute_framework": 0, "features_with_domain": 0,
                                    "filtered_calls": {"filter_attached_to_a_step": 0, "no_filter_attached": 0, "planning_failed": 0,
                                                       "run_returned_fewer_rows_than_the_source": 0, "run_returned_all_rows": 0},
                                    "domain_sets_of_filtered_calls": {}})
    d["sequences"] += 1
    for f in case["filters"]:
        d["filter_feature"]["with_own_domain" if f.get("dom") else "without_domain"] += 1
        d["filter_feature"]["with_compute_framework"] += int(bool(f.get("cfw")))
        d["filter_feature"]["with_options"] += int(bool(f.get("opts")))
    d["features_with_compute_framework"] += sum(1 for f in case["features"] if f.get("cfw"))
    d["features_with_domain"] += sum(1 for f in case["features"] if f.get("dom"))
    seen_doms = []
    for c in rec["calls"]:
        doms = call_domains(case, c["call"])
        d["calls_with_domains"] += int(bool(doms))
        d["calls_over_two_or_more_domains"] += int(len(doms) >= 2)
        if not c["call"]["filter"]:
            continue
        seen_doms.append(tuple(doms))
        k = "+".join(doms) or "none"
        d["domain_sets_of_filtered_calls"][k] = d["domain_sets_of_filtered_calls"].get(k, 0) + 1
        fc = d["filtered_calls"]
        if c["plan"] is None:
            fc["planning_failed"] += 1
            continue
        fc["filter_attached_to_a_step" if any(fs for _g, _o, fs in c["plan"]) else "no_filter_attached"] += 1
        if c["run"] and c["run"][0] == "ok":
            short = any(len(json.loads(t)) < 4 for t in c["run"][1])
            fc["run_returned_fewer_rows_than_the_source" if short else "run_returned_all_rows"] += 1
    d["sequences_reusing_one_filter_across_domains"] += int(len({x for x in seen_doms if x}) >= 2)
    d["sequences_with_filter_in_3_or_more_calls"] += int(len(seen_doms) >= 3)


def part_b(rep: vlib.Reporter, tier: str, rng: random.Random, modes: bool = False, dom: bool = False) -> bool:
    """modes = True: family B-modes -- the run_all calls of a sequence draw their execution mode (gen_args_case_modes).
    dom = True: family B-dom -- the universe with domains (gen_dom_case), one GlobalFilter re-used across domains."""
    big = tier == "thorough"
    n = (300 if big else 20) if modes else (1500 if big else 150) if dom else (1000 if big else 70)
    t0 = time.time()
    recs = []
    dist: Dict[str, Any] = {"sequences": 0, "calls": 0, "copy_false_calls": 0, "outcomes": {}, "shared_differs_from_fresh": 0, "shared_differs_from_fresh_after_copy_only": 0,
                            "api_universes": 0, "with_filter": 0, "with_links": 0,
                            "objects_mutated_calls": 0}
    found = False
    wit = [] if modes else dom_witness_cases() if dom else witness_cases()
    per_mode: Dict[str, Dict[str, Any]] = {m: {"run_all_calls": 0, "requested": 0, "made_in_sync_instead": {}, "run_outcomes": {},
                                               "with_filter": 0, "with_links": 0, "with_api_data": 0, "copy_false": 0,
                                               "shared_differs_from_fresh": 0, "objects_mutated_calls": 0} for m in MODES3}
    for k in range(n + len(wit)):
        case = wit[k] if k < len(wit) else (gen_args_case_modes(rng) if modes else gen_dom_case(rng) if dom else gen_args_case(rng))
        if len(case["calls"]) < 2:
            continue
        rec = run_args_case(case)
        recs.append(rec)
        dist["sequences"] += 1
        if case.get("family") == "dom":
            dom_stats(dist, rec)
        dist["api_universes"] += int(case["spec"]["groups"][0]["kind"] == "api")
        for c in rec["calls"]:
            dist["calls"] += 1
            rep.count(2)
            if modes and c["call"]["kind"] == "run_all":
                cm = c["call"].get("mode", "SYNC")
                if c["call"].get("downgraded"):
                    d_ = per_mode[c["call"]["downgraded"]]
                    d_["requested"] += 1
                    d_["made_in_sync_instead"][c["call"]["why"]] = d_["made_in_sync_instead"].get(c["call"]["why"], 0) + 1
                else:
                    per_mode[cm]["requested"] += 1
                pm = per_mode[cm]
                pm["run_all_calls"] += 1
                ro = c["err"] or (c["run"][0] if c["run"] else "none")
                pm["run_outcomes"][ro.split(":")[0]] = pm["run_outcomes"].get(ro.split(":")[0], 0) + 1
                pm["with_filter"] += int(c["call"]["filter"])
                pm["with_links"] += int(c["call"]["links"])
                pm["with_api_data"] += int(bool(c["call"]["api"]))
                pm["copy_false"] += int(not c["call"]["copy"])
                pm["shared_differs_from_fresh"] += int(not (c["same"] and c["same_run"]))
                pm["objects_mutated_calls"] += int(bool(c["mutated"]))
                if c["run"] and c["run"][0] == "hang":
                    found = True
                    rep.finding("args-hang:" + json.dumps(case, sort_keys=True)[:160], f"run_all in {cm} did not return within {HANG_S} s: {c['call']}",
                                {"kind": "args", "case": case})
            dist["copy_false_calls"] += int(not c["call"]["copy"])
            k = c["err"] or ("planned+" + (c["run"][0] if c["run"] else "prepare-only"))
            k = k.split(":")[0]
            dist["outcomes"][k] = dist["outcomes"].get(k, 0) + 1
            dist["shared_differs_from_fresh"] += int(not (c["same"] and c["same_run"]))
            dist["shared_differs_from_fresh_after_copy_only"] += int(c["all_copy_before"] and not (c["same"] and c["same_run"]))
            dist["with_filter"] += int(c["call"]["filter"])
            dist["with_links"] += int(c["call"]["links"])
            dist["objects_mutated_calls"] += int(bool(c["mutated"]))
            for m in c["mutated"]:
                dist.setdefault("mutated_objects", {})
                dist["mutated_objects"][m] = dist["mutated_objects"].get(m, 0) + 1
        if modes:
            if len({c["call"].get("mode", "SYNC") for c in rec["calls"] if c["call"]["kind"] == "run_all"}) >= 2:
                rep.nontrivial(("B-modes", case))
        elif dom:
            if len({tuple(call_domains(case, c["call"])) for c in rec["calls"] if c["call"]["filter"]} - {()}) >= 2:
                rep.nontrivial(("B-dom", case))
        elif (any(c["call"]["filter"] for c in rec["calls"][:-1]) and rec["calls"][-1]["call"]["filter"]) or \
                any(f["link"] is not None for f in case["features"]) or any(not c["call"]["copy"] for c in rec["calls"]):
            rep.nontrivial(("B", case))
        for p in rec["problems"]:
            found = True
            rep.finding("args:" + p[:80] + json.dumps(case, sort_keys=True)[:120], "argument reuse: " + p,
                        {"kind": "args", "case": case, "problem": p})
    # sequences containing a request whose outcome is not a function of its arguments (it varies between identical calls
    # on fresh objects: planning-determinism, property C04) cannot be judged against a fresh oracle
    dist["sequences_with_nondeterministic_request"] = sum(1 for r in recs if r.get("nondet"))
    recs = [r for r in recs if not r.get("nondet")]
    terms = [cq_args_case(r) for r in recs]
    bad, info = vlib.run_cases("C07", "args_modes" if modes else "args_dom" if dom else "args", REQ_B, "chk_args", terms,
                               case_type="universe * world * list cobs", shard=60) if terms else ([], {})
    for i in bad[:6]:
        r = recs[i]
        found = True
        rep.finding("args-model:" + json.dumps(r["case"], sort_keys=True)[:200],
                    "observed effect of prepare/run_all on the caller's objects (or its planning outcome) is not the model's "
                    "(Model/Args.plan_call): " + json.dumps([{"err": c["err"], "plan": c["plan"], "world": c["world"]} for c in r["calls"]], default=str)[:600],
                    {"kind": "args", "case": r["case"]})
    if modes:
        # the online decisions of the python mirror of conflict_free / conflict_free_x, re-validated by the Coq definitions
        from harness.c01 import cq_foot, EXTRA as C01_EXTRA
        decs = [d for r in recs for d in r.get("cf_decisions", [])]
        dterms = [f"(({cq_plan(pl)}, {cq_foot(ft)}), ({cq_bool(cf)}, {cq_bool(cfx)}))" for pl, ft, cf, cfx in decs]
        dbad = vlib.run_cases("C07", "cf_mirror", ["MV.Model.Orch", "MV.Model.OrchCheck"], "chk_mirror", dterms, shard=80,
                              case_type="(plan * foot) * (bool * bool)",
                              extra_defs=C01_EXTRA + "\nDefinition chk_mirror (c : (plan * foot) * (bool * bool)) := "
                                         "Bool.eqb (conflict_free (fst (fst c)) (snd (fst c))) (fst (snd c)) && "
                                         "Bool.eqb (conflict_free_x (fst (fst c)) (snd (fst c))) (snd (snd c)).\n")[0] if dterms else []
        for i in dbad[:3]:
            found = True
            rep.finding(f"cf-mirror:{dterms[i][:160]}", "harness/mp_obs.conflict_free_py disagrees with Model/OrchCheck.conflict_free(_x): "
                        + dterms[i][:400], {"kind": "cf-mirror", "term": dterms[i]}, found_input=False)
        dist["per_mode"] = per_mode
        dist["mode_admission_decisions_revalidated_in_coq"] = {"decisions": len(dterms), "disagreements": len(dbad)}
        dist["wall_s"] = round(time.time() - t0, 1)
        rep.add("argument_sequences_modes", dist)
        rep.add("args_model_modes", {**info, "disagreements": len(bad)})
    elif dom:
        dist["wall_s"] = round(time.time() - t0, 1)
        rep.add("argument_sequences_domains", dist)
        rep.add("args_model_domains", {**info, "disagreements": len(bad)})
    else:
        rep.add("argument_sequences", dist)
        rep.add("args_model", {**info, "disagreements": len(bad)})
    if recs:
        r0 = recs[len(wit)] if len(recs) > len(wit) else recs[0]
        rep.sample({"part": "B-modes" if modes else "B-dom" if dom else "B", "features": r0["case"]["features"], "filters": r0["case"]["filters"], "links_set": r0["case"]["links_set"],
                    "calls": r0["case"]["calls"], "outcomes": [(c["err"], c["run"] and c["run"][0], c["same"], c["same_run"]) for c in r0["calls"]]})
    return found


# ============================================================================================================
# Part C — Feature objects nested in option values (in_features) next to values that cannot be deep-copied
# ============================================================================================================
# Outside Model/Args.v (its option values are not Feature objects): judged directly.  mlodaAPI relies on
# deepcopy(requested_features) -> Options.__deepcopy__ (per value, with a fallback to sharing for values that cannot be
# copied) to keep planning -- which writes compute_frameworks, child_options, merged group options, domain, name and
# data_type of INPUT features -- away from the caller's nested Feature objects.

_nest_counter = [0]


class NestUniverse:
    """Root group (column "s", any compute framework) and two dependent groups whose input features are the Feature objects
    given in their options: "sc" = factor * <input>, "sc2" = factor2 * <input>."""

    def __init__(self, domain: Optional[str] = None) -> None:
        from mloda.provider import FeatureGroup, DataCreator
        from harness.universe import native_table, column_values, with_columns
        _nest_counter[0] += 1
        tag = f"N{_nest_counter[0]}"
        self.domain = domain

        def root_input_data(cls: Any) -> Any:
            return DataCreator({"s"})

        def root_calc(cls: Any, data: Any, features: Any) -> Any:
            f = next(iter(features.features))
            return native_table(f.get_compute_framework().__name__, {"s": [1, 2, 3]})
        self.root = type(f"{tag}_S", (FeatureGroup,), {"input_data": classmethod(root_input_data),
                                                       "calculate_feature": classmethod(root_calc)})

        def mk_dep(name: str, key: str) -> type:
            def match(cls: Any, feature_name: Any, options: Any, dac: Any = None) -> bool:
                return str(feature_name) == name

            def input_features(self: Any, options: Any, feature_name: Any) -> Any:
                return set(options.get_in_features())

            def calc(cls: Any, data: Any, features: Any) -> Any:
                f = next(iter(features.features))
                factor = f.options.get(key)
                src = next(iter(f.options.get_in_features())).get_name()
                return with_columns(data, {name: [factor * v for v in column_values(data, src)]})
            return type(f"{tag}_{name}", (FeatureGroup,), {"match_feature_group_criteria": classmethod(match),
                                                            "input_features": input_features, "calculate_feature": classmethod(calc)})
        self.sc = mk_dep("sc", "factor")
        self.sc2 = mk_dep("sc2", "factor2")
        if domain:
            # all three groups live in one domain: a requested feature WITH that domain hands it down to its input features
            # (Features.build_feature_collection writes feature.domain of the nested Feature objects)
            from mloda.user import Domain
            for c in (self.root, self.sc, self.sc2):
                c.get_domain = classmethod(lambda k, _d=domain: Domain(_d))  # type: ignore[attr-defined]

    def collector(self) -> Any:
        from mloda.user import PluginCollector
        return PluginCollector.enabled_feature_groups({self.root, self.sc, self.sc2})


_UNCOPYABLE: Dict[str, Any] = {}


def uncopyable(kind: Optional[str]) -> Any:
    if kind is None:
        return None
    if kind not in _UNCOPYABLE:
        if kind == "sqlite":
            import sqlite3
            _UNCOPYABLE[kind] = sqlite3.connect(":memory:", check_same_thread=False)
        elif kind == "lock":
            _UNCOPYABLE[kind] = threading.Lock()
        else:
            _UNCOPYABLE[kind] = (x for x in [1])          # a generator
    return _UNCOPYABLE[kind]


def gen_nest_case(rng: random.Random, deep_frozenset: bool = False) -> Dict[str, Any]:
    calls = []
    first_cfw = rng.choice(["PandasDataFrame", "PyArrowTable"])
    other = "PyArrowTable" if first_cfw == "PandasDataFrame" else "PandasDataFrame"
    calls.append({"cfw": first_cfw, "factor": 2, "reuse": "all", "kind": rng.choice(["run_all", "prepare_run"])})
    for _ in range(rng.randrange(1, 3)):
        v = rng.random()
        if v < 0.4:
            calls.append({"cfw": other, "factor": 2, "reuse": "all", "kind": rng.choice(["run_all", "prepare_run", "prepare_stream"])})
        elif v < 0.8:      # the same nested source objects below a NEW dependent feature with another group option
            calls.append({"cfw": rng.choice([first_cfw, other]), "factor": rng.choice([3, 5]), "reuse": "nested", "kind": "run_all"})
        else:
            calls.append({"cfw": first_cfw, "factor": 2, "reuse": "all", "kind": "run_all"})
    levels = rng.choice([1, 1, 2])
    container = rng.choice(["frozenset", "frozenset", "single", "list"])
    if levels == 2 and container == "frozenset" and not deep_frozenset:
        # two levels of frozenset-nested features take 20-40 s per call in mloda itself (deepcopy of a frozenset hashes
        # its Feature elements, Feature.__hash__ deep-copies child_options, ... until RecursionError): thorough tier only
        container = rng.choice(["single", "list"])
    domain = rng.choice([None, None, "nest_domain"])
    if domain:
        for c in calls:
            c["dom"] = rng.random() < 0.7          # this call's requested feature carries the domain
    return {"levels": levels, "container": container, "domain": domain,
            "in_where": rng.choice(["context", "context", "group"]),
            "uncopyable": rng.choice(["sqlite", "lock", "generator", "sqlite", None]),
            "unc_where": rng.choice(["same", "same", "same", "other"]), "calls": calls}


class NestPool:
    def __init__(self, case: Dict[str, Any]) -> None:
        from mloda.user import Feature
        self.case = case
        self.src = Feature("s")
        self.mid = None
        inner = self.src
        if case["levels"] == 2:
            self.mid = Feature("sc", self._opts({"factor": 4}, self.src))
            inner = self.mid
        self.inner = inner
        self.requested = self.make_requested(2, bool(case.get("domain")) and bool(case["calls"][0].get("dom")))

    def _container(self, f: Any) -> Any:
        c = self.case["container"]
        return frozenset({f}) if c == "frozenset" else [f] if c == "list" else f

    def _opts(self, group: Dict[str, Any], nested: Any) -> Any:
        from mloda.user import Options
        from mloda_plugins.feature_group.experimental.default_options_key import DefaultOptionKeys
        IN = DefaultOptionKeys.in_features
        g, c = dict(group), {}
        (c if self.case["in_where"] == "context" else g)[IN] = self._container(nested)
        unc = uncopyable(self.case["uncopyable"])
        if unc is not None:
            same = c if self.case["in_where"] == "context" else g
            oth = g if self.case["in_where"] == "context" else c
            # an uncopyable value in the group would make Options unhashable: keep it in the context
            (same if (self.case["unc_where"] == "same" and same is c) else c)["resource"] = unc
            _ = oth
        return Options(group=g, context=c)

    def make_requested(self, factor: int, with_domain: bool = False) -> Any:
        from mloda.user import Feature
        dom = self.case.get("domain") if with_domain else None
        if self.case["levels"] == 2:
            return Feature("sc2", self._opts({"factor2": factor}, self.inner), domain=dom)
        return Feature("sc", self._opts({"factor": factor}, self.inner), domain=dom)

    def objects(self) -> Dict[str, Any]:
        return {"requested": self.requested, "mid": self.mid, "src": self.src}


def nest_call(nu: NestUniverse, feats: List[Any], call: Dict[str, Any]) -> Tuple[str, Any]:
    from mloda.user import mloda
    from harness.universe import cfw_class, load_transformers
    load_transformers()
    kw = dict(compute_frameworks={cfw_class(call["cfw"])}, plugin_collector=nu.collector())
    try:
        if call["kind"] == "run_all":
            return ("ok", canon_tables(mloda.run_all(feats, **kw)))
        sess = mloda.prepare(feats, **kw)
        first = canon_tables(sess.run())
        second = canon_tables(list(sess.stream_run())) if call["kind"] == "prepare_stream" else canon_tables(sess.run())
        return ("ok", [first, second])
    except Exception as e:  # noqa: BLE001
        return ("raised", f"{type(e).__name__}: {str(e)[:90]}")


def run_nest_case(case: Dict[str, Any]) -> Dict[str, Any]:
    nu = NestUniverse(case.get("domain"))
    pool = NestPool(case)
    ren = Renamer()
    rec: Dict[str, Any] = {"case": case, "problems": [], "outcomes": []}
    for ci, call in enumerate(case["calls"]):
        # the request of this call: the shared requested feature, or a new dependent feature around the SAME nested objects
        feats = [pool.requested] if call["reuse"] == "all" else [pool.make_requested(call["factor"], bool(call.get("dom")))]
        watched = dict(pool.objects(), this_request=feats[0])
        before = {k: dump(v, ren) for k, v in watched.items()}
        got = nest_call(nu, feats, call)
        after = {k: dump(v, ren) for k, v in watched.items()}
        if before != after:
            rec["problems"].append(f"call {ci} {call}: copy_features=True but the caller's (nested) Feature objects were modified: "
                                   f"{diff_paths(before, after)[:4]}")
        fpool = NestPool(case)
        ffeats = [fpool.requested] if (call["reuse"] == "all" and call["factor"] == 2) else [fpool.make_requested(call["factor"], bool(call.get("dom")))]
        fgot = nest_call(nu, ffeats, call)
        rec["outcomes"].append((got[0], fgot[0]))
        if got != fgot:
            rec["problems"].append(f"call {ci} {call}: outcome with the re-used objects {str(got)[:160]} differs from the outcome with "
                                   f"fresh equal objects {str(fgot)[:160]}")
    return rec


def part_c(rep: vlib.Reporter, tier: str, rng: random.Random) -> bool:
    n = 400 if tier == "thorough" else 48
    dist: Dict[str, Any] = {"sequences": 0, "calls": 0, "levels": {}, "container": {}, "uncopyable": {}, "second_call": {},
                            "outcomes": {}, "uncopyable_next_to_nested_features": 0, "sequences_in_a_domain": 0,
                            "calls_whose_requested_feature_carries_the_domain": 0}
    found = False
    # fixed cases first: every container x {sqlite, lock} x {other framework, other group option}, 1 and 2 levels
    fixed = []
    for levels in (1, 2):
        for cont in ("frozenset", "single", "list"):
            if levels == 2 and cont == "frozenset" and tier != "thorough":
                continue
            for unc in ("sqlite", "lock"):
                for second in ({"cfw": "PyArrowTable", "factor": 2, "reuse": "all", "kind": "prepare_run"},
                               {"cfw": "PandasDataFrame", "factor": 5, "reuse": "nested", "kind": "run_all"}):
                    fixed.append({"levels": levels, "container": cont, "in_where": "context", "uncopyable": unc, "unc_where": "same",
                                  "calls": [{"cfw": "PandasDataFrame", "factor": 2, "reuse": "all", "kind": "run_all"}, second]})
    for k in range(len(fixed) + n):
        case = fixed[k] if k < len(fixed) else gen_nest_case(rng, deep_frozenset=(tier == "thorough" and k % 100 == 0))
        rec = run_nest_case(case)
        dist["sequences"] += 1
        dist["calls"] += len(case["calls"])
        rep.count(2 * len(case["calls"]))
        for key in ("levels", "container", "uncopyable"):
            dist[key][str(case[key])] = dist[key].get(str(case[key]), 0) + 1
        dist["uncopyable_next_to_nested_features"] += int(case["uncopyable"] is not None and case["in_where"] == "context")
        dist["sequences_in_a_domain"] += int(bool(case.get("domain")))
        dist["calls_whose_requested_feature_carries_the_domain"] += sum(1 for c in case["calls"] if case.get("domain") and c.get("dom"))
        for c in case["calls"][1:]:
            kk = "nested objects below another dependent feature" if c["reuse"] == "nested" else \
                 ("other framework" if c["cfw"] != case["calls"][0]["cfw"] else "same call again")
            dist["second_call"][kk] = dist["second_call"].get(kk, 0) + 1
        for o in rec["outcomes"]:
            dist["outcomes"][str(o)] = dist["outcomes"].get(str(o), 0) + 1
        if case["uncopyable"] is not None and len(case["calls"]) >= 2:
            rep.nontrivial(("C", case))
        for p in rec["problems"]:
            found = True
            rep.finding("nested:" + p[:90] + json.dumps(case, sort_keys=True)[:160], "nested option features: " + p,
                        {"kind": "nested", "case": case, "problem": p})
    rep.add("nested_feature_sequences", dist)
    return found


# ============================================================================================================
# run / replay
# ============================================================================================================

def run(rep: vlib.Reporter, tier: str, seed: int) -> None:
    install()
    pr = vlib.build_props("C07", extra_targets=["Model/OrchCheck.vo"])
    rep.proof(pr)
    rep.coverage["trusted_base"] += [
        "hand-written Model/Session.v (mlodaAPI.run/stream_run/_batch_run/_setup_engine_runner/_enter_runner_context, "
        "Engine.compute's deepcopy, ExecutionOrchestrator.__init__/__enter__, get_result) on top of Model/Orch.v; tied by "
        "observed histories replayed in vm_compute (chk_hist) and by the snapshot of the session's plan object",
        "result tables are not modelled (keys of result_data_collection + the api data handed to the run): equality of the "
        "tables with a fresh run_all is established by direct comparison on every generated history, not by proof",
        "THREADING histories are replayed against a canonical fair schedule (every started step completes before the next "
        "loop iteration); the theorem itself quantifies over all schedules",
        "Model/Args.v with domains: one compute framework per group; SingleFilter.name / uuid and filter_feature.uuid / data_type / "
        "link / index are not in the heap model (structural snapshot only); which of several exceptions raised inside the "
        "recursion over sets comes first, and whether the look-up of an equal stored feature meets a domain-less namesake first "
        "(Domain.__eq__ raises), is set iteration order: compared up to the class {ENoGroup, EMulti, EDomCmp} resp. for some "
        "value of the order parameter c_hz",
        "Feature objects nested in option values (in_features) and option values that cannot be deep-copied are outside "
        "Model/Args.v: Options.__deepcopy__ is covered by direct observation only (part C: deep snapshot of the nested objects "
        "before/after every call, re-used vs fresh equal objects)",
        "hand-written Model/ArgsLinks.v (Link objects as heap cells with class references, Engine's set of addresses, resolution of "
        "every visited pair by LinkSel.find_matching, write-back parameter): the pairs a request visits (parents of each child of the "
        "graph) are an input of the model, taken from a spy around ResolveLinks._find_matching_links; Link.uuid and the self-join "
        "aliases are in the structural snapshot only; join execution / result rows are compared end to end, not modelled",
    ]
    found = part_a(rep, tier, random.Random(seed * 7919 + 7))
    found = part_a(rep, tier, random.Random(seed * 7937 + 17), modes=True) or found
    found = part_b(rep, tier, random.Random(seed * 7927 + 11)) or found
    found = part_b(rep, tier, random.Random(seed * 7949 + 19), modes=True) or found
    found = part_b(rep, tier, random.Random(seed * 7951 + 23), dom=True) or found
    found = part_c(rep, tier, random.Random(seed * 7933 + 13)) or found
    from harness.c07_links import part_links
    found = part_links(rep, tier, random.Random(seed * 7963 + 29)) or found
    rep.add("rule", "A: PRNG histories on one session; non-trivial = >= 3 operation kinds incl. a failing and a successful one. "
                    "B: PRNG sequences of 2-5 prepare/run_all calls over a shared pool of Feature/Options/Link/GlobalFilter/api_data "
                    "objects; non-trivial = the GlobalFilter is passed to >= 2 calls incl. the last, or a feature carries a Link, or a "
                    "copy_features=False call. C: requests whose features carry Feature objects as in_features (1-2 levels; frozenset, "
                    "single, list) next to an option value that cannot be deep-copied (sqlite connection, lock, generator); second call "
                    "on another framework / the same nested objects below another dependent feature; non-trivial = uncopyable value present. "
                    "A-modes: histories (<= 6 operations) whose operations draw their mode from {SYNC, THREADING, MULTIPROCESSING} as far as "
                    "the plan admits (conflict_free / conflict_free_x, no api_data-backed root, no transform from a non-Arrow framework); "
                    "non-trivial = >= 2 modes and >= 2 operation kinds in one history. B-modes: the call sequences of B with every run_all "
                    "drawing its mode; non-trivial = run_all calls in >= 2 modes within one sequence. B-dom: PRNG sequences of 3-6 "
                    "prepare/run_all calls over a universe with domains sharing ONE GlobalFilter; non-trivial = the filter is passed to "
                    "calls over >= 2 different non-empty domain sets. L (shared polymorphic Link): generated hierarchies (BaseA, BaseB, "
                    "optional middle level, 2-3 concrete root pairs on one or two frameworks), ONE Link declared on the bases (optionally "
                    "next to an exact or a middle-level link) passed via links= and/or attached to the requested Feature to 2-4 calls over "
                    "different pairs; non-trivial = the shared Link was resolved polymorphically to >= 2 different concrete pairs in one sequence.")
    if not pr.ok and not found:
        rep.finding("proof-broken", "Props/C07.v no longer checks",
                    {"failed_files": pr.failed_files, "forbidden": pr.forbidden, "log_tail": pr.log[-3000:]}, found_input=False)


def replay(path: str) -> int:
    r = json.load(open(path))["replay"]
    install()
    if r.get("kind") == "session":
        rec = run_session_case(r["case"], r.get("ops"))
        print(json.dumps({"ops": rec.get("ops"), "obs": rec.get("obs"), "problems": rec.get("problems")}, indent=1, default=str))
        return 1 if rec.get("problems") else 0
    if r.get("kind") == "nested":
        rec = run_nest_case(r["case"])
        print(json.dumps({"outcomes": rec["outcomes"], "problems": rec["problems"]}, indent=1, default=str))
        return 1 if rec["problems"] else 0
    if r.get("kind") == "links":
        from harness.c07_links import run_links_case
        rec = run_links_case(r["case"])
        print(json.dumps({"calls": [{"call": c["call"], "after": c["after"], "reused": c["got"], "fresh": c["twin"]} for c in rec["calls"]],
                          "problems": rec["problems"]}, indent=1, default=str))
        return 1 if rec["problems"] else 0
    if r.get("kind") == "args":
        rec = run_args_case(r["case"])
        print(json.dumps({"calls": [{k: c[k] for k in ("call", "err", "plan", "run", "same", "same_run")}
                                    for c in rec["calls"]], "problems": rec["problems"]}, indent=1, default=str))
        return 1 if rec["problems"] else 0
    print(json.dumps(r, indent=1, default=str)[:4000])
    return 0
