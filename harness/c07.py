"""C07 — a prepared session and its arguments can be reused; runs are independent.

Theorems: coq/Props/C07.v over Model/Session.v (session object: frozen plan + step_is_done flags, self.api_data,
self.runner; a run = Model/Orch.v started on a fresh orchestrator) and Model/Args.v (heap of Feature / Options objects,
links set, GlobalFilter.collection and what planning writes into them).

Ties on the real mloda:
  A  histories (PRNG, length <= 8) over {run(api_data_k), stream_run(api_data_k), run with injected failure, stream
     abandoned after j items, get_result} on ONE prepared session, SYNC and THREADING mixed, api-data-backed roots:
       - every result is compared with a FRESH mloda.run_all of the same request, that run's effective api_data, the same
         injected fault and mode (multisets of tables / both raise);
       - the observed (status, result keys, self.runner reassigned?, step_is_done flags on the session's own plan,
         self.api_data identity, api data that reached the root) is replayed through Model/Session.exec in vm_compute
         (chk_hist);
       - structural snapshot of session.engine.execution_planner and of every api_data dict before/after each operation.
  B  sequences of prepare / run_all calls that share Feature, Options, Link set, GlobalFilter and api_data objects:
       - structural snapshot (deep canonical dump of EVERY attribute) of every argument object before/after each call;
         fields that changed must be fields of the heap model, and their new values are checked against
         Model/Args.plan_call in vm_compute (chk_args);
       - the outcome (plan: per step attached filters / error kind; run: tables) is compared with the same call on fresh
         equal objects; differences are allowed only inside the two known-defect domains (shared GlobalFilter whose
         collection went stale, shared links set that grew), decided on the objects themselves and cross-checked with
         the model's kf_filter / kf_links (chk_kf).
"""
from __future__ import annotations

import copy
import gc
import json
import logging
import random
import threading
import time
from typing import Any, Dict, List, Optional, Set, Tuple

from lib import vlib
from lib.vlib import cq_bool, cq_list, cq_nat, cq_opt, cq_str
from harness import daggen
from harness.universe import export_plan, table_rows, kf_tfs_partial_requirement, kf_framework_roundtrip, kf_tfs_missing
from harness.orch import GateListener, cq_plan, install, uuid_to_sid, REC
from harness.c07_lib import (Uni7, Renamer, dump, diff_paths, cq_api, cq_cols, cq_opts, cq_link, cq_flt, cq_fobj, cq_oobj,
                             cq_coll, CFW_IDS, DT_IDS, JT_IDS)

LEVEL = "proof"
logging.disable(logging.CRITICAL)
REQ_A = ["MV.Model.Orch", "MV.Model.Session"]
REQ_B = ["MV.Model.Args"]

KF_FILTER = "C07-filter-collection-accumulates"
KF_LINKS = "C07-links-set-grows"


def canon_tables(res: Any) -> List[str]:
    return sorted(json.dumps(sorted(json.dumps(r, sort_keys=True, default=str) for r in table_rows(t))) for t in res)


def mode_of(name: str) -> Any:
    from mloda.user import ParallelizationMode
    return {"SYNC": {ParallelizationMode.SYNC}, "THREADING": {ParallelizationMode.THREADING}}[name]


# ============================================================================================================
# Part A — histories on one prepared session
# ============================================================================================================

def gen_session_case(rng: random.Random) -> Dict[str, Any]:
    spec = daggen.gen_two_roots_inner(rng) if rng.random() < 0.2 else daggen.gen_single_root(rng, n_rows=3)
    spec = json.loads(json.dumps(spec))
    api = rng.random() < 0.75
    if api:
        g = spec["groups"][0]
        g.update(kind="api", key="K0", features={c: {} for c in g["cols"]})
    variants: List[Optional[Dict[str, Any]]] = [None]
    if api:
        g = spec["groups"][0]
        for _ in range(3):
            n = rng.randrange(1, 4)
            variants.append({"K0": {c: (rng.sample([1, 2, 3], n) if c == "k" else [rng.randrange(-9, 30) for _ in range(n)])
                                    for c in g["cols"]}})
    return {"spec": spec, "api": api, "variants": variants, "seed": rng.randrange(1 << 30)}


def gen_ops(rng: random.Random, case: Dict[str, Any], plan: Dict[str, Any], threading_ok: bool, n_max: int = 8) -> List[Dict[str, Any]]:
    fg = [s for s in plan["steps"] if s["kind"] == "FG"]
    n_req = sum(1 for s in fg if s["requested"])
    ops = []
    for _ in range(rng.randrange(2, n_max + 1)):
        r = rng.random()
        kind = "run" if r < 0.35 else "stream" if r < 0.55 else "fail" if r < 0.75 else "abandon" if r < 0.92 else "get"
        op: Dict[str, Any] = {"kind": kind, "api": rng.randrange(len(case["variants"])),
                              "mode": "THREADING" if (threading_ok and rng.random() < 0.4) else "SYNC", "fail": [], "j": 0}
        if kind == "fail":
            s = rng.choice(fg)
            op["fail"] = [[s["group"], rng.choice(s["names"])]]
            op["stream"] = rng.random() < 0.3
        if kind == "abandon":
            op["j"] = rng.randrange(0, n_req + 2)
            if rng.random() < 0.2:
                s = rng.choice(fg)
                op["fail"] = [[s["group"], rng.choice(s["names"])]]
        ops.append(op)
    return ops


def fail_sids(plan: Dict[str, Any], fail: List[List[str]]) -> List[int]:
    return sorted({s["sid"] for s in plan["steps"] if s["kind"] == "FG"
                   for g, n in fail if s["group"] == g and n in s["names"]})


def plan_snapshot(sess: Any) -> Any:
    return dump(sess.engine.execution_planner)


def flags_of(sess: Any) -> List[int]:
    return [i for i, st in enumerate(sess.engine.execution_planner) if st.step_is_done]


def run_session_case(case: Dict[str, Any], rep_ops: Optional[List[Dict[str, Any]]] = None) -> Dict[str, Any]:
    """Executes one history; returns observations + problems (property failures found by direct comparison)."""
    from mloda.user import mloda
    rng = random.Random(case["seed"])
    spec = case["spec"]
    uni = Uni7(spec, GateListener())
    d0 = uni.api_default()
    d0_snapshot = copy.deepcopy(d0)
    rec: Dict[str, Any] = {"case": case, "problems": [], "obs": []}
    try:
        sess = uni.prepare(api_data=d0) if d0 is not None else uni.prepare()
    except Exception as e:  # noqa: BLE001
        rec["prepare_error"] = str(e)[-200:]
        return rec
    plan = export_plan(sess, uni)
    rec["plan"] = {k: v for k, v in plan.items() if k != "_ren"}
    in_kf = bool(kf_tfs_partial_requirement(plan) or kf_framework_roundtrip(plan) or kf_tfs_missing(plan))
    rec["in_kf"] = in_kf
    threading_ok = (not in_kf) and case.get("threading_ok", True)
    ops = rep_ops if rep_ops is not None else case.get("ops") or gen_ops(rng, case, plan, threading_ok)
    rec["ops"] = ops
    u2s = uuid_to_sid(sess)
    variants = [copy.deepcopy(v) for v in case["variants"]]
    var_snap = copy.deepcopy(variants)
    fresh_memo: Dict[str, Any] = {}
    base_threads = set(threading.enumerate())

    def fresh(eff: Optional[Dict[str, Any]], fail: List[List[str]], mode: str) -> Tuple[str, Any]:
        key = json.dumps([eff, fail, mode], sort_keys=True)
        if key not in fresh_memo:
            u2 = Uni7(spec, GateListener())
            u2.fail = {tuple(x) for x in fail}
            try:
                kw = {"api_data": copy.deepcopy(eff)} if eff is not None else {}
                fresh_memo[key] = ("ok", canon_tables(u2.run_all(mode_of(mode), **kw)))
            except Exception as e:  # noqa: BLE001
                fresh_memo[key] = ("raised", "VERIF-FAULT" in str(e))
            u2.dispose()
        return fresh_memo[key]

    for i, op in enumerate(ops):
        given = variants[op["api"]]
        eff = given if given is not None else d0
        before_plan = plan_snapshot(sess)
        prev_runner = sess.runner
        uni.api_seen.clear()
        REC.reset()
        uni.fail = {tuple(x) for x in op["fail"]}
        kw: Dict[str, Any] = {"parallelization_modes": mode_of(op["mode"])}
        if given is not None:
            kw["api_data"] = given
        o: Dict[str, Any] = {"status": None, "items": [], "tables": None}
        kind = op["kind"]
        streamed = kind in ("stream", "abandon") or (kind == "fail" and op.get("stream"))
        try:
            if kind == "get":
                res = sess.get_result()
                o["status"], o["tables"] = "ok", canon_tables(res)
                o["items"] = [u2s.get(u, -1) for u in sess.runner.data_lifecycle_manager.result_data_collection]  # type: ignore[union-attr]
            elif kind == "abandon":
                g = sess.stream_run(**kw)
                got = []
                o["status"] = "abandoned"
                for _ in range(op["j"]):
                    try:
                        got.append(next(g))
                    except StopIteration:
                        o["status"] = "ok"
                        break
                g.close()
                del g
                gc.collect()
                o["tables"] = canon_tables(got)
                o["items"] = [u2s.get(u, -1) for u in REC.yields]
            elif streamed:
                got = list(sess.stream_run(**kw))
                o["status"], o["tables"] = "ok", canon_tables(got)
                o["items"] = [u2s.get(u, -1) for u in REC.yields]
            else:
                res = sess.run(**kw)
                o["status"], o["tables"] = "ok", canon_tables(res)
                o["items"] = [u2s.get(u, -1) for u in sess.runner.data_lifecycle_manager.result_data_collection]  # type: ignore[union-attr]
        except Exception as e:  # noqa: BLE001
            msg = str(e)
            if kind == "get":
                o["status"] = "norunner" if "run any run function beforehand" in msg else "raised"
            else:
                o["status"] = "raised"
            o["fault"] = "VERIF-FAULT" in msg
            o["msg"] = msg[-160:]
            if streamed:
                o["items"] = [u2s.get(u, -1) for u in REC.yields]
        finally:
            uni.fail = set()
        o["raised_steps"] = sorted({u2s.get(u, -1) for k, u in REC.events if k == "raise"} - {-1})
        o["runner_changed"] = sess.runner is not prev_runner
        o["flags"] = flags_of(sess)
        o["api_kept"] = sess.api_data is d0
        seen = uni.api_seen[-1] if uni.api_seen else None
        o["seen"] = {"K0": {k: list(v) for k, v in seen.items()}} if seen is not None else None
        o["has_seen"] = seen is not None
        rec["obs"].append(o)
        # ---- the property, judged directly ----
        if plan_snapshot(sess) != before_plan:
            rec["problems"].append(f"op {i} ({kind}): the session's own execution plan object changed: "
                                   f"{diff_paths(before_plan, plan_snapshot(sess))[:3]}")
        if variants != var_snap or d0 != d0_snapshot:
            rec["problems"].append(f"op {i} ({kind}): an api_data dictionary of the caller was modified")
            variants, d0 = copy.deepcopy(var_snap), copy.deepcopy(d0_snapshot)
        if kind == "get":
            continue
        if op["fail"] and o["status"] == "raised" and not set(fail_sids(rec["plan"], op["fail"])) & set(o["raised_steps"]) \
                and not o["raised_steps"]:
            o["unmodelled_raise"] = True
        if o["status"] == "raised" and not o["raised_steps"]:
            o["unmodelled_raise"] = True      # raised by the main thread outside a step (e.g. result collection)
        f_status, f_val = fresh(eff, op["fail"], op["mode"])
        if o["status"] == "raised":
            if f_status != "raised":
                rec["problems"].append(f"op {i} ({kind}, {op['mode']}): raised ({o.get('msg')}) but a fresh run_all succeeds")
            elif op["fail"] and not (o["fault"] and f_val):
                rec["problems"].append(f"op {i} ({kind}): injected fault not reported by both (session {o['fault']}, fresh {f_val})")
        elif o["status"] == "ok":
            if f_status != "ok":
                rec["problems"].append(f"op {i} ({kind}, {op['mode']}): succeeded but a fresh run_all raises")
            elif o["tables"] != f_val:
                rec["problems"].append(f"op {i} ({kind}, {op['mode']}): result differs from a fresh run_all with the same api_data")
        elif o["status"] == "abandoned":
            if f_status == "ok":
                rest = list(f_val)
                for t in o["tables"]:
                    if t in rest:
                        rest.remove(t)
                    else:
                        rec["problems"].append(f"op {i} (abandon after {op['j']}): a streamed table is not a table of the fresh run_all")
                        break
                if len(o["tables"]) != op["j"]:
                    rec["problems"].append(f"op {i}: abandoned stream handed out {len(o['tables'])} items, asked {op['j']}")
    deadline = time.time() + 5
    while time.time() < deadline and (set(threading.enumerate()) - base_threads):
        time.sleep(0.01)
    left = [t.name for t in set(threading.enumerate()) - base_threads]
    if left:
        rec["problems"].append(f"threads left behind after the history: {left[:3]}")
    uni.dispose()
    return rec


RSTAT = {"ok": "ROk", "raised": "RRaised", "abandoned": "RAbandoned", "norunner": "RNoRunner"}


def cq_obs(rec: Dict[str, Any], op: Dict[str, Any], o: Dict[str, Any]) -> str:
    kind = op["kind"]
    streamed = kind == "stream" or (kind == "fail" and op.get("stream"))
    k = "KGet" if kind == "get" else f"(KAbandon {cq_nat(op['j'])})" if kind == "abandon" else "KStream" if streamed else "KRun"
    given = rec["case"]["variants"][op["api"]]
    seen = f"(Some {cq_api(o['seen'])})" if o["has_seen"] else "None"
    return (f"{{| ob_kind := {k}; ob_api := {cq_api(given)}; ob_inline := {cq_bool(op['mode'] == 'SYNC')}; "
            f"ob_fails := {cq_list(cq_nat(x) for x in o.get('raised_steps', []))}; ob_status := {RSTAT[o['status']]}; "
            f"ob_items := {cq_list(cq_nat(x) for x in o['items'] if x >= 0)}; ob_runner_changed := {cq_bool(o['runner_changed'])}; "
            f"ob_flags := {cq_list(cq_nat(x) for x in o['flags'])}; ob_api_kept := {cq_bool(o['api_kept'])}; ob_seen := {seen} |}}")


def cq_session_case(rec: Dict[str, Any]) -> str:
    uni_api = None
    for g in rec["case"]["spec"]["groups"]:
        if g["kind"] == "api":
            uni_api = {g["key"]: g["cols"]}
    return (f"({cq_plan(rec['plan'])}, {cq_api(uni_api)}, "
            f"{cq_list(cq_obs(rec, op, o) for op, o in zip(rec['ops'], rec['obs']))})")


def part_a(rep: vlib.Reporter, tier: str, rng: random.Random) -> bool:
    n = 1000 if tier == "thorough" else 60
    recs: List[Dict[str, Any]] = []
    dist: Dict[str, Any] = {"histories": 0, "prepare_rejected": 0, "ops": {}, "modes": {}, "status": {}, "api_backed": 0,
                            "in_planner_kf_domain": 0, "len_hist": {}}
    tries = 0
    while len(recs) < n and tries < 3 * n:
        tries += 1
        case = gen_session_case(rng)
        rec = run_session_case(case)
        if "prepare_error" in rec:
            dist["prepare_rejected"] += 1
            continue
        recs.append(rec)
    found = False
    for rec in recs:
        dist["histories"] += 1
        dist["api_backed"] += int(rec["case"]["api"])
        dist["in_planner_kf_domain"] += int(rec["in_kf"])
        L = len(rec["ops"])
        dist["len_hist"][L] = dist["len_hist"].get(L, 0) + 1
        kinds = set()
        for op, o in zip(rec["ops"], rec["obs"]):
            dist["ops"][op["kind"]] = dist["ops"].get(op["kind"], 0) + 1
            dist["modes"][op["mode"]] = dist["modes"].get(op["mode"], 0) + 1
            dist["status"][o["status"]] = dist["status"].get(o["status"], 0) + 1
            kinds.add(op["kind"])
            rep.count(2 if op["kind"] != "get" else 1)
        if len(kinds) >= 3 and any(o["status"] == "raised" for o in rec["obs"]) and any(o["status"] == "ok" for o in rec["obs"]):
            rep.nontrivial(("A", rec["case"]["spec"], rec["ops"]))
        for p in rec["problems"]:
            found = True
            rep.finding("session:" + p[:60] + ":" + json.dumps(rec["case"]["spec"], sort_keys=True)[:200], "session history: " + p,
                        {"kind": "session", "case": rec["case"], "ops": rec["ops"], "problem": p})
    modelled = [r for r in recs if not any(o.get("unmodelled_raise") for o in r["obs"])]
    dist["histories_replayed_in_model"] = len(modelled)
    terms = [cq_session_case(r) for r in modelled]
    bad, info = vlib.run_cases("C07", "hist", REQ_A, "chk_hist", terms,
                               case_type="plan * option api_data * list obs", shard=80)
    for i in bad[:5]:
        r = modelled[i]
        found = True
        rep.finding("session-model:" + json.dumps(r["case"]["spec"], sort_keys=True)[:200],
                    "observed session history is not the model's (Model/Session.exec): " +
                    json.dumps([{k: o[k] for k in ('status', 'items', 'runner_changed', 'flags', 'api_kept')} for o in r["obs"]])[:400],
                    {"kind": "session", "case": r["case"], "ops": r["ops"], "obs": r["obs"]})
    rep.add("session_histories", dist)
    rep.add("session_model", {**info, "disagreements": len(bad)})
    rep.add("traces_validated_against_impl", len(recs))
    if recs:
        r0 = recs[0]
        rep.sample({"part": "A", "request": r0["case"]["spec"]["request"], "ops": r0["ops"],
                    "obs": [{k: o[k] for k in ("status", "items", "runner_changed")} for o in r0["obs"]]})
    return found


# ============================================================================================================
# run / replay
# ============================================================================================================

def run(rep: vlib.Reporter, tier: str, seed: int) -> None:
    install()
    pr = vlib.build_props("C07")
    rep.proof(pr)
    rep.coverage["trusted_base"] += [
        "hand-written Model/Session.v (mlodaAPI.run/stream_run/_batch_run/_setup_engine_runner/_enter_runner_context, "
        "Engine.compute's deepcopy, ExecutionOrchestrator.__init__/__enter__, get_result) on top of Model/Orch.v; tied by "
        "observed histories replayed in vm_compute (chk_hist) and by the snapshot of the session's plan object",
        "result tables are not modelled (keys of result_data_collection + the api data handed to the run): equality of the "
        "tables with a fresh run_all is established by direct comparison on every generated history, not by proof",
        "THREADING histories are replayed against a canonical fair schedule (every started step completes before the next "
        "loop iteration); the theorem itself quantifies over all schedules",
    ]
    found = part_a(rep, tier, random.Random(seed * 7919 + 7))
    rep.add("rule", "A: PRNG histories on one session; non-trivial = >= 3 operation kinds incl. a failing and a successful one.")
    if not pr.ok and not found:
        rep.finding("proof-broken", "Props/C07.v no longer checks",
                    {"failed_files": pr.failed_files, "forbidden": pr.forbidden, "log_tail": pr.log[-3000:]}, found_input=False)


def replay(path: str) -> int:
    r = json.load(open(path))["replay"]
    install()
    if r.get("kind") == "session":
        rec = run_session_case(r["case"], r.get("ops"))
        print(json.dumps({"ops": rec.get("ops"), "obs": rec.get("obs"), "problems": rec.get("problems")}, indent=1, default=str))
        return 1 if rec.get("problems") else 0
    print(json.dumps(r, indent=1, default=str)[:4000])
    return 0
