"""C11 — the path from GlobalFilter.add_filter(...) to the column a filter engine reads (part of harness/c11.py).

Model: coq/Model/FilterPath.v, spec: coq/Spec/FilterPath.v, theorems: coq/Props/C11path.v.

End to end (mloda.run_all(..., global_filter=...), PyArrow / Pandas / PythonDict), generated feature groups:
  A  multi-column features (base~0, base~1, ...) of groups listing the base name in feature_names_supported (default
     set_feature_name normalises base~i -> base) or not listing it (no rename): filters on one sub-column, on several
     sub-columns at once, on a single-column feature of the same group, on columns no group exposes, every filter type
  B  groups overriding set_feature_name (several names mapped to one output name; a suffix added to every name): the
     renamed column exists in the data / does not exist
  C  the same filter object matched by two feature groups that rename it differently (or not at all), also on two
     different frameworks
  D  filter features carrying a domain, groups with / without domains
Oracle: Spec/FilterPath.path_expected evaluated by vm_compute on the same table (through Spec/Filter.expected on the
exposed columns: C11path_spec_refines_filter_spec).
T2 (harness-side wrappers, no /repo change; replayed against Model/FilterPath.v by vm_compute):
  plan   : feature-set names and filters (feature-level name, SingleFilter.name, type, parameter) seen by
           BaseFilterEngine.apply_single_filters                           vs  plan_path
           (the iteration order of each identity_matched_filters result is recorded and passed in)
  gate   : for every filter of the call: did do_filter run, and WHICH COLUMN did the engine read from the data (recording
           proxies around the pandas frame / arrow table / list of dicts)     vs  gate_trace
  rows   : returned rows                                                     vs  run_path (all frameworks, fine domain)
Unit level: GlobalFilter.identity_matched_filters on generated groups / features / filter features with options, domains,
compute frameworks                                                           vs  identity_matched."""
from __future__ import annotations

import json
import random
from fractions import Fraction
from typing import Any, Dict, List, Optional, Tuple

from lib import vlib
from lib.vlib import cq_list, cq_str, cq_bool
from harness import c11 as K

REQ = K.REQ

EXTRA_PATH = r"""
Open Scope string_scope.
Definition tbl_rename (sup : list string) (o : option (list (string * string))) : options -> string -> string :=
  fun _ n => match o with
             | None => default_rename sup n
             | Some tbl => match lookup n tbl with Some x => x | None => n end
             end.
Definition p_feat (fw : string) : rfeature := {| r_opts := no_options; r_domain := None; r_cfw := fw |}.
Definition p_group (roots sup : list string) : fgroup := {| g_roots := roots; g_supported := sup; g_domain := None |}.

Definition strs_sub (a b : list string) : bool := forallb (fun x => mem x b) a.
Definition strs_same (a b : list string) : bool := strs_sub a b && strs_sub b a.
Definition ofilt_eqb (a b : string * filt) : bool := String.eqb (fst a) (fst b) && filt_eqb (snd a) (snd b).
Definition ofilts_sub (a b : list (string * filt)) : bool := forallb (fun x => existsb (ofilt_eqb x) b) a.
Definition obs_of_m (m : mfilter) : string * filt := (ff_name (m_feature m), as_filt read_column m).

(* plan: (((roots, supported), rename, framework, requested), orders of the user's filters), observed (names, filters) *)
Definition plancase := ((((list string * list string) * option (list (string * string)) * string * list string)
                         * list (list filt)) * (list string * list (string * filt)))%type.
Definition plan_agrees (names : list string) (ms : list mfilter) (onames : list string) (ofilters : list (string * filt)) : bool :=
  strs_same names onames && ofilts_sub (map obs_of_m ms) ofilters
  && ofilts_sub ofilters (map obs_of_m ms) && Nat.eqb (List.length ms) (List.length ofilters).
(* the plan with every renamed copy collected (known finding C11-renamed-filters-collapse repaired); outside kf_collapse this IS plan_path *)
Definition plan_path_all (rename : options -> string -> string) (g : fgroup) (feat : rfeature) (requested : list string)
           (gfs : list gfilter) : outcome (list string * list mfilter) :=
  match identity_matched g feat gfs with
  | Raises => Raises
  | Done ms => let ms' := map (renamed rename) ms in Done (planned_names rename feat requested ms', ms')
  end.
Definition chk_plan (c : plancase) : bool :=
  match c with
  | ((((roots, sup), rn, fw, requested), orders), (onames, ofilters)) =>
      existsb (fun fs =>
        let gfs := map plain_filter fs in
        match plan_path (tbl_rename sup rn) (p_group roots sup) (p_feat fw) requested gfs with
        | Done (names, ms) => plan_agrees names ms onames ofilters
        | Raises => false
        end
        || (kf_collapse (tbl_rename sup rn) (p_group roots sup) (p_feat fw) gfs
            && match plan_path_all (tbl_rename sup rn) (p_group roots sup) (p_feat fw) requested gfs with
               | Done (names, ms) => plan_agrees names ms onames ofilters
               | Raises => false
               end)) orders
  end.

(* gate: names of the feature set, the filters of the call in iteration order, per filter (do_filter ran?, columns read) *)
Definition mk_m (x : string * filt) : mfilter :=
  {| m_feature := {| ff_name := fst x; ff_opts := no_options; ff_domain := None; ff_cfw := None |};
     m_name := f_col (snd x); m_type := f_type (snd x); m_par := f_par (snd x) |}.
(* observed per filter: (do_filter ran?, (column names used to index the data, did the data have rows?)); a PythonDict engine
   looks at no key when the list of rows is empty *)
Definition gatecase := ((list string * list (string * filt)) * list (bool * (list string * bool)))%type.
Fixpoint trace_ok (model : list (bool * string)) (obs : list (bool * (list string * bool))) : bool :=
  match obs, model with
  | [], _ => true                                   (* the observed trace may stop early (an engine raised) *)
  | (og, (oreads, rows)) :: obs', (g, col) :: model' =>
      Bool.eqb g og
      && (if og then (if rows then strs_same oreads [col] else strs_sub oreads [col]) else match oreads with [] => true | _ => false end)
      && trace_ok model' obs'
  | _ :: _, [] => false
  end.
Definition chk_gate (c : gatecase) : bool :=
  match c with ((names, fl), obs) => trace_ok (gate_trace names (map mk_m fl)) obs end.

(* rows: the whole path in the model (filters in one of the recorded orders) against the returned rows *)
Definition rowcase := ((((list string * list string) * option (list (string * string)) * string * list string)
                        * list (list filt)) * (table * obs))%type.
Definition ids_match (o : outcome (res table)) (ob : obs) : bool :=
  match o, ob with Done (Ok t'), OOk ids => zs_eqb (ids_of t') ids | _, _ => false end.
Definition chk_rows_model (c : rowcase) : bool :=
  match c with
  | ((((roots, sup), rn, fw, requested), orders), (t, ob)) =>
      existsb (fun fs => ids_match (run_path (tbl_rename sup rn) (p_group roots sup) (p_feat fw) requested (map plain_filter fs) t) ob) orders
  end.
(* known-finding domain C11-renamed-filters-collapse (decided here), and what is accepted inside it: the faithful model under
   one of the recorded orders (defect present) or the spec (defect repaired) *)
Definition in_collapse (c : rowcase) : bool :=
  match c with
  | ((((roots, sup), rn, fw, requested), orders), _) =>
      existsb (fun fs => kf_collapse (tbl_rename sup rn) (p_group roots sup) (p_feat fw) (map plain_filter fs)) orders
  end.
Definition chk_collapse_accept (c : rowcase) : bool :=
  in_collapse c &&
  (chk_rows_model c ||
   match c with
   | ((((roots, sup), _, _, _), fs :: _), (t, OOk ids)) => zs_eqb (ids_of (path_expected (roots ++ sup) fs t)) ids
   | _ => false
   end).
Definition not_in_collapse (c : rowcase) : bool := negb (in_collapse c).
(* inside the collapse domain on PythonDict: the run failed because the filtered result (model under a recorded order, or spec) is empty *)
Definition is_nil {A : Type} (l : list A) : bool := match l with [] => true | _ => false end.
Definition chk_collapse_empty (c : rowcase) : bool :=
  in_collapse c &&
  match c with
  | ((((roots, sup), rn, fw, requested), orders), (t, OErr OEmpty)) =>
      existsb (fun fs => match run_path (tbl_rename sup rn) (p_group roots sup) (p_feat fw) requested (map plain_filter fs) t with
                         | Done (Ok t') => is_nil t' | _ => false end) orders
      || match orders with fs :: _ => is_nil (path_expected (roots ++ sup) fs t) | [] => false end
  | _ => false
  end.

(* filter features with a domain (family D): group domain, domain of the requested features, general filter features *)
Definition dcase := (((list string * option string) * option string * string * list string) * list gfilter * (table * obs))%type.
Inductive dverdict := DAgree | DKnown | DFixed | DBad.
Definition d_run (c : dcase) (featd : option string) : outcome (res table) :=
  match c with
  | (((roots, gd), _, fw, requested), gfs, (t, _)) =>
      run_path (fun _ n => n) {| g_roots := roots; g_supported := []; g_domain := gd |}
               {| r_opts := no_options; r_domain := featd; r_cfw := fw |} requested gfs t
  end.
Definition d_featd (c : dcase) : option string := match c with (((_, _), fd, _, _), _, _) => fd end.
Definition d_gd (c : dcase) : option string := match c with (((_, gd), _, _, _), _, _) => gd end.
Definition d_obs (c : dcase) : obs := match c with (_, _, (_, o)) => o end.
Definition chk_d_raises (c : dcase) : bool :=            (* the faithful model raises for this group (kf_domain_raises) *)
  match d_run c (d_featd c) with Raises => true | _ => false end.
Definition chk_d_model (c : dcase) : bool :=             (* returned rows = faithful model *)
  ids_match (d_run c (d_featd c)) (d_obs c).
Definition chk_d_fixed (c : dcase) : bool :=             (* returned rows = the model where the group's domain decides (defect repaired) *)
  match d_run c (d_featd c) with
  | Raises => ids_match (d_run c (Some (domain_name (d_gd c)))) (d_obs c)
  | o => ids_match o (d_obs c)
  end.

(* unit level: identity_matched_filters *)
Definition mobs := (string * string * (list (string * string) * list (string * string)) * (option string * option string) * (ftype * params))%type.
Inductive mobserved := MList (l : list mobs) | MRaised | MOther.
Definition mobs_of (m : mfilter) : mobs :=
  (ff_name (m_feature m), m_name m, (o_group (ff_opts (m_feature m)), o_context (ff_opts (m_feature m))),
   (ff_domain (m_feature m), ff_cfw (m_feature m)), (m_type m, m_par m)).
Definition mobs_eqb (a b : mobs) : bool :=
  match a, b with
  | (n1, c1, (g1, x1), (d1, w1), (t1, p1)), (n2, c2, (g2, x2), (d2, w2), (t2, p2)) =>
      String.eqb n1 n2 && String.eqb c1 c2 && dict_eqb g1 g2 && dict_eqb x1 x2 && ostr_eqb d1 d2 && ostr_eqb w1 w2
      && ftype_eqb t1 t2 && params_eqb p1 p2
  end.
Definition mobs_sub (a b : list mobs) : bool := forallb (fun x => existsb (mobs_eqb x) b) a.
Definition matchcase := ((fgroup * rfeature * list gfilter) * mobserved)%type.
(* the result of identity_matched_filters is a Python SET of copies: compared as sets (copies that are equal after unify_options /
   domain / framework assignment are one element there; in the model add_all drops such duplicates one step later) *)
Definition mlist_agrees (ms : list mfilter) (l : list mobs) : bool :=
  mobs_sub (map mobs_of ms) l && mobs_sub l (map mobs_of ms).
(* a filter on which GlobalFilter.domain raises (known finding C11-filter-domain-compare-raises); repaired = it simply does not match *)
Definition raising (g : fgroup) (feat : rfeature) (gf : gfilter) : bool :=
  criteria g (ff_name (gf_feature gf))
  && match domain_match (ff_domain (gf_feature gf)) (r_domain feat) (g_domain g) with MRaise => true | _ => false end.
Definition chk_match (c : matchcase) : bool :=
  match c with
  | ((g, feat, gfs), o) =>
      match identity_matched g feat gfs, o with
      | Raises, MRaised => true
      | Raises, MList l => match identity_matched g feat (filter (fun gf => negb (raising g feat gf)) gfs) with
                           | Done ms => mlist_agrees ms l | Raises => false end
      | Done ms, MList l => mlist_agrees ms l
      | _, _ => false
      end
  end.
"""

FWNAME = {"pa": "PyArrowTable", "py": "PythonDictFramework", "pd": "PandasDataFrame", "pdo": "PandasDataFrame"}


# ------------------------------------------------------------------------------------------------------------
# recording wrappers (harness process only; nothing in /repo is touched)
# ------------------------------------------------------------------------------------------------------------
class _RowProxy:
    __slots__ = ("_r", "_log")

    def __init__(self, r: Any, log: List[str]) -> None:
        self._r, self._log = r, log

    def get(self, k: Any, default: Any = None) -> Any:
        self._log.append(str(k))
        return self._r.get(k, default)

    def __getitem__(self, k: Any) -> Any:
        self._log.append(str(k))
        return self._r[k]

    def __contains__(self, k: Any) -> bool:
        self._log.append(str(k))
        return k in self._r

    def __getattr__(self, a: str) -> Any:
        return getattr(self._r, a)


class _DataProxy:
    """stands for the table handed to do_filter: records every column NAME used to index it, delegates everything else."""

    def __init__(self, d: Any, log: List[str]) -> None:
        self.__dict__["_d"] = d
        self.__dict__["_log"] = log

    def __getitem__(self, k: Any) -> Any:
        if isinstance(k, str) or type(k).__name__ == "FeatureName":
            self._log.append(str(k))
        return self._d[k]

    def column(self, k: Any) -> Any:
        self._log.append(str(k))
        return self._d.column(k)

    def __iter__(self) -> Any:
        if isinstance(self._d, list):
            return iter([_RowProxy(r, self._log) if isinstance(r, dict) else r for r in self._d])
        return iter(self._d)

    def __len__(self) -> int:
        return len(self._d)

    def __getattr__(self, a: str) -> Any:
        return getattr(self._d, a)


def _unwrap(x: Any) -> Any:
    if isinstance(x, _DataProxy):
        return x._d
    if isinstance(x, list):
        return [r._r if isinstance(r, _RowProxy) else r for r in x]
    return x


class Recorder:
    """class-level wrappers around GlobalFilter.identity_matched_filters, BaseFilterEngine.apply_single_filters and
    BaseFilterEngine.do_filter; each calls the original of the tree under test."""

    def __init__(self) -> None:
        self.matched: List[Dict[str, Any]] = []
        self.applies: List[Dict[str, Any]] = []
        self._stack: List[Dict[str, Any]] = []

    @staticmethod
    def describe(sf: Any) -> Dict[str, Any]:
        return {"feat": str(sf.filter_feature.name), "col": str(sf.name), "type": sf.filter_type,
                "raw": [[k, _canon_par(v)] for k, v in sf.parameter._raw]}

    def __enter__(self) -> "Recorder":
        from mloda.core.filter.filter_engine import BaseFilterEngine
        from mloda.core.filter.global_filter import GlobalFilter
        self.B, self.G = BaseFilterEngine, GlobalFilter
        self.o_apply = BaseFilterEngine.__dict__["apply_single_filters"]
        self.o_do = BaseFilterEngine.__dict__["do_filter"]
        self.o_id = GlobalFilter.__dict__["identity_matched_filters"]
        rec = self

        def identity_matched_filters(gf: Any, feature_group: Any, feat: Any, data_access_collection: Any = None) -> Any:
            out = rec.o_id(gf, feature_group, feat, data_access_collection)
            rec.matched.append({"group": feature_group.__name__, "feature": str(feat.name), "order": [rec.describe(m) for m in out]})
            return out

        def apply_single_filters(cls: Any, data: Any, features: Any) -> Any:
            fl = list(features.filters) if features.filters is not None else []
            entry = {"engine": cls.__name__, "names": sorted(features.get_all_names()), "filters_none": features.filters is None,
                     "filters": [rec.describe(sf) for sf in fl], "calls": [], "error": None, "_objs": fl}
            rec.applies.append(entry)
            rec._stack.append(entry)
            try:
                return rec.o_apply.__func__(cls, data, features)
            except BaseException as e:  # noqa: BLE001
                entry["error"] = K.err_name(e)
                raise
            finally:
                rec._stack.pop()

        def do_filter(cls: Any, data: Any, sf: Any) -> Any:
            reads: List[str] = []
            call: Dict[str, Any] = {"pos": None, "reads": reads, "error": None, "rows": not (isinstance(data, list) and len(data) == 0)}
            if rec._stack:
                entry = rec._stack[-1]
                call["pos"] = next((i for i, o in enumerate(entry["_objs"]) if o is sf), None)
                entry["calls"].append(call)
            try:
                out = rec.o_do.__func__(cls, _DataProxy(data, reads), sf)
            except BaseException as e:  # noqa: BLE001
                call["error"] = K.err_name(e)
                raise
            return _unwrap(out)

        GlobalFilter.identity_matched_filters = identity_matched_filters
        BaseFilterEngine.apply_single_filters = classmethod(apply_single_filters)
        BaseFilterEngine.do_filter = classmethod(do_filter)
        return self

    def __exit__(self, *a: Any) -> None:
        self.G.identity_matched_filters = self.o_id
        self.B.apply_single_filters = self.o_apply
        self.B.do_filter = self.o_do
        for e in self.applies:
            e.pop("_objs", None)


def _canon_par(v: Any) -> Any:
    if isinstance(v, (tuple, list)):
        return [_canon_par(x) for x in v]
    if isinstance(v, bool) or v is None or isinstance(v, str):
        return v
    if isinstance(v, (int, float)):
        f = Fraction(v)
        return ["q", f.numerator, f.denominator]
    return repr(v)


def _canon_real(par: Dict[str, Any]) -> List[Any]:
    return [[k, _canon_par(v)] for k, v in sorted(K.real_par(par).items())]


# ------------------------------------------------------------------------------------------------------------
# generated feature groups
# ------------------------------------------------------------------------------------------------------------
def make_group(g: Dict[str, Any]) -> type:
    from mloda.provider import FeatureGroup, DataCreator
    from mloda.user import FeatureName, Domain
    K._uid[0] += 1
    fw, table, cols, idname = g["fw"], g["table"], g["cols"], g["id"]
    roots, supported = set(g["roots"]), set(g["supported"])

    def input_data(cls: Any) -> Any:
        return DataCreator(roots)

    def feature_names_supported(cls: Any) -> Any:
        return set(supported)

    def calculate_feature(cls: Any, data: Any, features: Any) -> Any:
        return K.native(fw, table, cols, idname)

    def compute_framework_rule(cls: Any) -> Any:
        return {K.fw_class(fw)}

    ns: Dict[str, Any] = {"input_data": classmethod(input_data), "feature_names_supported": classmethod(feature_names_supported),
                          "calculate_feature": classmethod(calculate_feature), "compute_framework_rule": classmethod(compute_framework_rule)}
    if g.get("rename") is not None:
        mp = dict(g["rename"])

        def set_feature_name(self: Any, config: Any, feature_name: Any) -> Any:
            return FeatureName(mp.get(str(feature_name), str(feature_name)))
        ns["set_feature_name"] = set_feature_name
    if g.get("domain"):
        dom = g["domain"]

        def get_domain(cls: Any) -> Any:
            return Domain(dom)
        ns["get_domain"] = classmethod(get_domain)
    return type(f"K11P{K._uid[0]}x{g['name']}", (FeatureGroup,), ns)


def run_path_case(c: Dict[str, Any]) -> Dict[str, Any]:
    from mloda.user import mloda, Feature, PluginCollector, GlobalFilter
    gf = GlobalFilter()
    for f in c["filters"]:
        ff: Any = f["col"]
        if f.get("domain"):
            ff = Feature(f["col"], domain=f["domain"])
        gf.add_filter(ff, f["type"], K.real_par(f["par"]))
    classes = {g["name"]: make_group(g) for g in c["groups"]}
    feats = []
    for g in c["groups"]:
        for r in g["request"]:
            feats.append(Feature(r, domain=g["feature_domain"]) if g.get("feature_domain") else Feature(r))
    out: Dict[str, Any] = {"error": None, "ids": {}, "matched": [], "applies": []}
    with Recorder() as rec:
        try:
            res = mloda.run_all(feats, compute_frameworks={K.fw_class(g["fw"]) for g in c["groups"]}, global_filter=gf,
                                plugin_collector=PluginCollector.enabled_feature_groups(set(classes.values())))
        except BaseException as e:  # noqa: BLE001
            res = None
            msg = str(e)
            out["error"] = "Domain" if "Cannot compare Domain with" in msg else K.run_error_name(e)
    by_class = {v.__name__: k for k, v in classes.items()}
    out["matched"] = [{**m, "group": by_class.get(m["group"], m["group"])} for m in rec.matched]
    out["applies"] = rec.applies
    if res is not None:
        for g in c["groups"]:
            col = K.result_column(res, g["id"])
            if col is None:
                out["ids"][g["name"]] = None
            else:
                vals = [K.canon_cell(x) for x in col]
                out["ids"][g["name"]] = [int(v) for v in vals] if all(isinstance(v, Fraction) for v in vals) else "Mutated"
    return out


# ------------------------------------------------------------------------------------------------------------
# generators
# ------------------------------------------------------------------------------------------------------------
def _cols_table(rng: random.Random, cols: Dict[str, str], lo: int = 2, hi: int = 9) -> List[Dict[str, Any]]:
    n = rng.randrange(lo, hi)
    p_null = rng.choice([0.0, 0.15, 0.3])
    return [{"id": ["i", i], **{c: K.gen_cell(rng, k, p_null) for c, k in cols.items()}} for i in range(n)]


def _pykey(f: Dict[str, Any]) -> Any:
    return (f["type"], json.dumps(_canon_real(f["par"]), sort_keys=True))


def _coqkey(f: Dict[str, Any]) -> Any:
    """type and parameter as the Coq `params` record sees them (max_exclusive absent = False, 2 and 2.0 different)."""
    return (f["type"], K.cq_filter({**f, "col": ""}))


def _filters_ok(fl: List[Dict[str, Any]]) -> bool:
    """two filters have equal parameters in Python (SingleFilter.__eq__: raw tuples, 2 == 2.0) iff they have equal `params` in
    Coq (structural); no two equal filters on one column; no empty categorical list (PyArrow known finding, covered elsewhere)."""
    for i, a in enumerate(fl):
        if a["type"] == "categorical_inclusion" and not a["par"]["values"]:
            return False
        for b in fl[i + 1:]:
            if (_pykey(a) == _pykey(b)) != (_coqkey(a) == _coqkey(b)):
                return False
            if a["col"] == b["col"] and _pykey(a) == _pykey(b):
                return False
    return True


def _gen_filters(rng: random.Random, groups: List[Dict[str, Any]], targets: List[str], extra: List[str], n: int,
                 effective: bool = True) -> List[Dict[str, Any]]:
    """n filters on the target columns (kinds taken from the first group having the column), sometimes on `extra` columns no
    group exposes; the first one keeps a proper non-empty part of some table where possible."""
    def kind_pres(col: str) -> Tuple[str, List[Any]]:
        for g in groups:
            if col in g["cols"]:
                return g["cols"][col], [v for gg in groups if col in gg["cols"] for v in K.present_values(gg["table"], col)]
        return "int", []
    for _ in range(40):
        fl = []
        for i in range(n):
            col = rng.choice(extra) if extra and rng.random() < 0.15 else rng.choice(targets)
            kind, pres = kind_pres(col)
            best = None
            for _ in range(12):
                f = K.gen_filter(rng, col, kind, pres)
                if f["type"] == "categorical_inclusion" and not f["par"]["values"]:
                    continue
                best = f
                g0 = next((g for g in groups if col in g["cols"]), None)
                if g0 is None or not effective:
                    break
                kept = K.py_expected_ids([col], [f], g0["table"])
                if 0 < len(kept) < len(g0["table"]):
                    break
            if best is not None:
                fl.append(best)
        if fl and _filters_ok(fl):
            return fl
    return [{"col": targets[0], "type": "min", "par": {"value": ["i", 0]}}]


def gen_A(rng: random.Random, fw: str) -> Dict[str, Any]:
    base = rng.choice(["emb", "vec", "e"])
    k = rng.choice([2, 3, 3])
    kinds = [rng.choice(["int", "int", "num", "str", "flt"]) for _ in range(k)]
    cols = {f"{base}~{i}": kinds[i] for i in range(k)}
    single = rng.random() < 0.5
    if single:
        cols["s"] = rng.choice(["int", "str"])
    listed = rng.random() < 0.8                       # base listed in feature_names_supported -> sub-columns are renamed
    roots = ["a_id", base] + (["s"] if single else [])
    supported = ([base] if listed else []) + (["s"] if single and rng.random() < 0.5 else [])
    g = {"name": "A", "fw": fw, "id": "a_id", "roots": roots, "supported": supported, "rename": None, "cols": cols,
         "table": _cols_table(rng, cols), "request": ["a_id"] + ([base] if rng.random() < 0.5 else [])}
    sub = [c for c in cols if c != "s"]
    mode = rng.choice(["one_sub", "one_sub", "several_sub", "several_sub", "single", "mixed", "same_par"])
    if mode == "one_sub":
        fl = _gen_filters(rng, [g], [rng.choice(sub)], ["zz", "other~1"], rng.choice([1, 1, 2]))
    elif mode == "several_sub":
        fl = _gen_filters(rng, [g], sub, ["zz~0"], rng.choice([2, 3]))
    elif mode == "single" and single:
        fl = _gen_filters(rng, [g], ["s"], ["zz"], rng.choice([1, 2]))
    elif mode == "same_par":                          # two sub-columns of one kind, equal type and parameter: collapse domain if listed
        pairs = [(a, b) for a in sub for b in sub if a < b and cols[a] == cols[b]]
        if pairs:
            a, b = rng.choice(pairs)
            f = _gen_filters(rng, [g], [a], [], 1)[0]
            fl = [f, {**f, "col": b}]
            if rng.random() < 0.4:
                fl += [x for x in _gen_filters(rng, [g], sub, [], 1) if _filters_ok(fl + [x])]
        else:
            fl = _gen_filters(rng, [g], sub, [], 2)
    else:
        fl = _gen_filters(rng, [g], list(cols), ["zz"], rng.choice([2, 3]))
    return {"kind": "path", "family": "A", "sub": mode + ("" if listed else ":unlisted"), "groups": [g], "filters": fl}


def gen_B(rng: random.Random, fw: str) -> Dict[str, Any]:
    style = rng.choice(["to_one", "to_one", "suffix", "suffix_present", "partial"])
    kinds = {"R2": rng.choice(["int", "num", "str"]), "R3": rng.choice(["int", "str"])}
    if rng.random() < 0.4:
        kinds["R3"] = kinds["R2"]
    roots = ["a_id", "R1", "R2", "R3"]
    if style == "to_one":
        rn = {"R1": "ROut", "R2": "ROut", "R3": "ROut"}
    elif style == "partial":
        rn = {"R1": "ROut", "R2": "ROut"}
    else:
        rn = {n: n + "_o" for n in ("R1", "R2", "R3")}
    cols: Dict[str, str] = {rn["R1"]: "int", **kinds}
    if style == "suffix_present":                     # the renamed filter columns exist in the data, with other values
        cols["R2_o"] = kinds["R2"]
        cols["R3_o"] = kinds["R3"]
    g = {"name": "A", "fw": fw, "id": "a_id", "roots": roots, "supported": [], "rename": rn, "cols": cols,
         "table": _cols_table(rng, cols), "request": ["a_id", "R1"]}
    mode = rng.choice(["one", "two", "same_par"])
    if mode == "one":
        fl = _gen_filters(rng, [g], [rng.choice(["R2", "R3"])], ["zz"], 1)
    elif mode == "same_par" and kinds["R2"] == kinds["R3"]:
        f = _gen_filters(rng, [g], ["R2"], [], 1)[0]
        fl = [f, {**f, "col": "R3"}]
    else:
        fl = _gen_filters(rng, [g], ["R2", "R3"], ["zz"], rng.choice([2, 3]))
    return {"kind": "path", "family": "B", "sub": style + ":" + mode, "groups": [g], "filters": fl}


def gen_C(rng: random.Random, fw: str) -> Dict[str, Any]:
    fws = [fw, fw] if rng.random() < 0.7 else rng.sample(["pa", "py", "pd"], 2)
    style = rng.choice(["multi_vs_plain", "override_vs_plain", "override_vs_override", "multi_vs_multi"])
    kind = rng.choice(["int", "num", "str"])
    if style in ("multi_vs_plain", "multi_vs_multi"):
        col = "p~1"
        g1 = {"roots": ["a_id", "p"], "supported": ["p"], "rename": None, "cols": {"p~0": "int", "p~1": kind}}
        if style == "multi_vs_plain":                  # the second group exposes the same column without listing the base: no rename there
            g2 = {"roots": ["b_id", "p"], "supported": [], "rename": None, "cols": {"p~1": kind}}
        else:
            g2 = {"roots": ["b_id", "p"], "supported": ["p"], "rename": None, "cols": {"p~1": kind, "p~2": "int"}}
    else:
        col = "c"
        g1 = {"roots": ["a_id", "c"], "supported": [], "rename": {"c": "cc"}, "cols": {"c": kind}}
        if rng.random() < 0.5:
            g1["cols"]["cc"] = kind                    # the renamed column exists as well
        if style == "override_vs_plain":
            g2 = {"roots": ["b_id", "c"], "supported": [], "rename": None, "cols": {"c": kind}}
        else:
            g2 = {"roots": ["b_id", "c"], "supported": [], "rename": {"c": "c2", "b_id": "b_id"}, "cols": {"c": kind}}
    groups = []
    for nm, gg, f, idn in (("A", g1, fws[0], "a_id"), ("B", g2, fws[1], "b_id")):
        groups.append({"name": nm, "fw": f, "id": idn, **gg, "table": _cols_table(rng, gg["cols"]), "request": [idn]})
    if rng.random() < 0.3:
        groups.reverse()                              # order in which the groups are processed
    fl = _gen_filters(rng, groups, [col], ["zz"], rng.choice([1, 1, 2]))
    return {"kind": "path", "family": "C", "sub": style + (":mixed" if fws[0] != fws[1] else ""), "groups": groups, "filters": fl}


def gen_D(rng: random.Random, fw: str) -> Dict[str, Any]:
    """filter features with a domain: groups with / without get_domain, requested features with / without a domain."""
    doms = ["A", "B"]
    kind = rng.choice(["int", "str"])
    groups = []
    for nm, idn in (("A", "a_id"), ("B", "b_id"))[:rng.choice([1, 2, 2])]:
        gd = rng.choice([None, "A", "B"])
        fd = rng.choice([None, None, gd]) if gd else None
        cols = {"c": kind}
        groups.append({"name": nm, "fw": fw, "id": idn, "roots": [idn, "c"], "supported": [], "rename": None, "cols": cols,
                       "table": _cols_table(rng, cols), "request": [idn], "domain": gd, "feature_domain": fd})
    fl = _gen_filters(rng, groups, ["c"], [], 1)
    fl[0]["domain"] = rng.choice(doms + [None])
    return {"kind": "path", "family": "D", "sub": "domain", "groups": groups, "filters": fl}


def witnesses() -> List[Dict[str, Any]]:
    """committed witnesses (run first on every run): the seeded regression's demo shapes on three frameworks, the two known
    findings of this path."""
    out = []
    for fw in ("pa", "pd", "py"):
        t = [{"id": ["i", i], "emb~0": ["i", i], "emb~1": (["i", v] if v is not None else None), "emb~2": ["i", w]}
             for i, (v, w) in enumerate(zip([10, 20, 30, 40, None], [5, 4, 3, 2, 1]))]
        gA = {"name": "A", "fw": fw, "id": "a_id", "roots": ["a_id", "emb"], "supported": ["emb"], "rename": None,
              "cols": {"emb~0": "int", "emb~1": "int", "emb~2": "int"}, "table": t, "request": ["a_id", "emb"]}
        out.append({"kind": "path", "family": "A", "sub": "witness:range_on_sub_column", "groups": [gA], "witness": True,
                    "filters": [{"col": "emb~1", "type": "range", "par": {"min": ["i", 20], "max": ["i", 40], "max_exclusive": True}}]})
        tc = [{"id": ["i", i], "emb~0": ["i", i], "emb~1": (["i", v] if v is not None else None), "emb~2": ["i", w]}
              for i, (v, w) in enumerate(zip([10, 1, 30, 40, None], [5, 4, 1, 2, 3]))]      # whichever filter survives, rows differ from [0]
        out.append({"kind": "path", "family": "A", "sub": "witness:collapse", "groups": [{**gA, "table": tc}], "witness": True,
                    "filters": [{"col": "emb~1", "type": "min", "par": {"value": ["i", 3]}},
                                {"col": "emb~2", "type": "min", "par": {"value": ["i", 3]}}]})
        tb = [{"id": ["i", i], "ROut": ["i", a], "R2": ["i", b]} for i, (a, b) in enumerate(zip([1, 2, 3], [3, 2, 1]))]
        gB = {"name": "A", "fw": fw, "id": "a_id", "roots": ["a_id", "R1", "R2"], "supported": [], "rename": {"R1": "ROut", "R2": "ROut"},
              "cols": {"ROut": "int", "R2": "int"}, "table": tb, "request": ["a_id", "R1"]}
        out.append({"kind": "path", "family": "B", "sub": "witness:override_equal", "groups": [gB], "witness": True,
                    "filters": [{"col": "R2", "type": "equal", "par": {"value": ["i", 1]}}]})
        td = [{"id": ["i", i], "c": ["i", v]} for i, v in enumerate([1, 2, 3, 4])]
        gD1 = {"name": "A", "fw": fw, "id": "a_id", "roots": ["a_id", "c"], "supported": [], "rename": None, "cols": {"c": "int"},
               "table": td, "request": ["a_id"], "domain": "A", "feature_domain": None}
        gD2 = {"name": "B", "fw": fw, "id": "b_id", "roots": ["b_id", "c"], "supported": [], "rename": None, "cols": {"c": "int"},
               "table": td[:3], "request": ["b_id"], "domain": "B", "feature_domain": None}
        out.append({"kind": "path", "family": "D", "sub": "witness:domain", "groups": [gD1, gD2], "witness": True,
                    "filters": [{"col": "c", "type": "min", "par": {"value": ["i", 2]}, "domain": "A"}]})
    return out


def _leaves_rows(c: Dict[str, Any]) -> bool:
    """every PythonDict group keeps at least one row (an empty PythonDict result is the known finding C11-pydict-empty-result-raises,
    witnessed elsewhere: do not spend the PythonDict runs on it)."""
    for g in c["groups"]:
        if g["fw"] == "py":
            D = g["roots"] + g["supported"]
            exposed = [f["col"] for f in c["filters"] if any(f["col"] == b or f["col"].startswith(b + "~") for b in D)]
            if not K.py_expected_ids(exposed, user_filters(c), g["table"]):
                return False
    return True


def path_cases(rng: random.Random, per_fw: Dict[str, int]) -> List[Dict[str, Any]]:
    out = witnesses()
    gens = {"A": gen_A, "B": gen_B, "C": gen_C, "D": gen_D}
    for fam, n in per_fw.items():
        for fw in ("pa", "pd", "py"):
            for i in range(n):
                f = "pdo" if fw == "pd" and i % 3 == 2 else fw
                for _ in range(8):
                    c = gens[fam](rng, f)
                    if fam == "D" or _leaves_rows(c):
                        break
                out.append(c)
    for c in out:
        c["result"] = run_path_case(c)
    return out


# ------------------------------------------------------------------------------------------------------------
# Coq terms
# ------------------------------------------------------------------------------------------------------------
def cq_strs(l: Any) -> str:
    return cq_list(cq_str(x) for x in l)


def cq_rename(g: Dict[str, Any]) -> str:
    if g.get("rename") is None:
        return "None"
    return "(Some " + cq_list(f"({cq_str(a)}, {cq_str(b)})" for a, b in g["rename"].items()) + ")"


def user_filters(c: Dict[str, Any]) -> List[Dict[str, Any]]:
    return [{"col": f["col"], "type": f["type"], "par": f["par"]} for f in c["filters"]]


def filter_index(c: Dict[str, Any], d: Dict[str, Any]) -> Optional[int]:
    """which of the case's filters a recorded SingleFilter is: by SingleFilter.name, type, parameter; when SingleFilter.name is
    not a column the user named (that is what the plan correspondence then reports), by type and parameter if that is unique."""
    for i, f in enumerate(c["filters"]):
        if f["col"] == d["col"] and f["type"] == d["type"] and _canon_real(f["par"]) == d["raw"]:
            return i
    cand = [i for i, f in enumerate(c["filters"]) if f["type"] == d["type"] and _canon_real(f["par"]) == d["raw"]]
    return cand[0] if len(cand) == 1 else None


def orders_for(c: Dict[str, Any], g: Dict[str, Any]) -> List[List[Dict[str, Any]]]:
    """the user's filters arranged in each recorded iteration order of identity_matched_filters for this group (filters that
    were not matched follow in the order given); at least the order given."""
    fl = user_filters(c)
    out = []
    for m in c["result"]["matched"]:
        if m["group"] != g["name"]:
            continue
        idx = [filter_index(c, d) for d in m["order"]]
        if any(i is None for i in idx):
            continue
        rest = [i for i in range(len(fl)) if i not in idx]
        o = [fl[i] for i in idx + rest]
        if o not in out:
            out.append(o)
    return out or [fl]


def head_term(g: Dict[str, Any]) -> str:
    return (f"(({cq_strs(g['roots'])}, {cq_strs(g['supported'])}), {cq_rename(g)}, {cq_str(FWNAME[g['fw']])}, {cq_strs(g['request'])})")


def orders_term(c: Dict[str, Any], g: Dict[str, Any]) -> str:
    return cq_list(cq_list(K.cq_filter(f) for f in o) for o in orders_for(c, g))


def group_apply(c: Dict[str, Any], g: Dict[str, Any]) -> Optional[Dict[str, Any]]:
    """the apply_single_filters call of this group's step (the feature set that holds the group's id feature)."""
    idn = (g.get("rename") or {}).get(g["id"], g["id"])
    for a in c["result"]["applies"]:
        if idn in a["names"]:
            return a
    return None


def ofilter_term(c: Dict[str, Any], d: Dict[str, Any]) -> Optional[str]:
    i = filter_index(c, d)
    if i is None:
        return None
    f = c["filters"][i]
    return f"({cq_str(d['feat'])}, {K.cq_filter({'col': d['col'], 'type': f['type'], 'par': f['par']})})"


def group_obs(c: Dict[str, Any], g: Dict[str, Any]) -> Any:
    res = c["result"]
    if res["error"]:
        return res["error"]
    o = res["ids"].get(g["name"])
    return "Missing" if o is None else o


def cq_obs(o: Any) -> str:
    if o == "Domain":
        return "(OErr ODomain)"
    return K.cq_obs(o)


def pcase(c: Dict[str, Any], g: Dict[str, Any]) -> Dict[str, Any]:
    """one spec case per group: D = roots + supported; the names handed to Spec/Filter.expected are computed inside Coq."""
    D = g["roots"] + g["supported"]
    fl = user_filters(c)
    exposed = [f["col"] for f in fl if any(f["col"] == b or f["col"].startswith(b + "~") for b in D)]   # labels / KF routing only
    return {"fw": g["fw"], "names": exposed, "names_term": f"(exposed_columns {cq_strs(D)} {cq_list(K.cq_filter(f) for f in fl)})",
            "filters": fl, "table": g["table"], "obs": group_obs(c, g), "kinds": g["cols"], "e2e": True, "group": g["name"]}


def gfilter_term(f: Dict[str, Any]) -> str:
    ft = K.FTYPES.get(f["type"], "FCustom")
    par = K.cq_filter(f).split("f_par := ", 1)[1].rsplit(" |}", 1)[0]
    dom = f"(Some {cq_str(f['domain'])})" if f.get("domain") else "None"
    return (f"(single_filter {{| ff_name := {cq_str(f['col'])}; ff_opts := no_options; ff_domain := {dom}; ff_cfw := None |}} {ft} {par})")


# ------------------------------------------------------------------------------------------------------------
# unit level: identity_matched_filters
# ------------------------------------------------------------------------------------------------------------
OPT_KEYS = ["k", "j", "own", "cx"]


def gen_match_case(rng: random.Random) -> Dict[str, Any]:
    def opts(p: float) -> Dict[str, Dict[str, int]]:
        keys = [k for k in OPT_KEYS if rng.random() < p]
        grp, ctx = {}, {}
        for k in keys:
            (ctx if k == "cx" or rng.random() < 0.2 else grp)[k] = rng.choice([1, 2])
        return {"group": grp, "context": ctx}
    base = rng.choice(["c", "emb"])
    g = {"roots": ["x"] + ([base] if rng.random() < 0.8 else []), "supported": [base] if rng.random() < 0.4 else [],
         "domain": rng.choice([None, None, "A", "B"])}
    feat = {"opts": opts(0.35), "domain": rng.choice([None, None, "A", "B"]), "cfw": rng.choice(["pa", "pd"])}
    fl = []
    for _ in range(rng.choice([1, 2, 3])):
        col = rng.choice([base, base, base + "~1", base + "~2", "zz", "zz~1", base + "x"])
        fl.append({"col": col, "opts": opts(0.3), "domain": rng.choice([None, None, None, "A", "B", "default_domain"]),
                   "cfw": rng.choice([None, None, None, "pa", "pd"]), "type": rng.choice(["min", "max", "equal"]),
                   "par": {"value": ["i", rng.choice([1, 2, 3])]}})
    uniq, seen = [], set()
    for f in fl:
        k = json.dumps(f, sort_keys=True)
        if k not in seen:
            seen.add(k)
            uniq.append(f)
    c = {"kind": "match", "group": g, "feat": feat, "filters": uniq}
    c["obs"] = run_match_case(c)
    return c


def run_match_case(c: Dict[str, Any]) -> Any:
    from mloda.user import Feature, GlobalFilter, Options, Domain
    from mloda.provider import FeatureGroup, DataCreator
    g, ft = c["group"], c["feat"]
    K._uid[0] += 1
    roots, supported = set(g["roots"]), set(g["supported"])
    ns: Dict[str, Any] = {"input_data": classmethod(lambda cls: DataCreator(roots)),
                          "feature_names_supported": classmethod(lambda cls: set(supported))}
    if g["domain"]:
        ns["get_domain"] = classmethod(lambda cls: Domain(g["domain"]))
    cls = type(f"K11U{K._uid[0]}", (FeatureGroup,), ns)

    def mkopts(o: Dict[str, Any]) -> Any:
        return Options(group=dict(o["group"]), context=dict(o["context"]))
    feat = Feature("x", options=mkopts(ft["opts"]), domain=ft["domain"]) if ft["domain"] else Feature("x", options=mkopts(ft["opts"]))
    feat.compute_frameworks = {K.fw_class(ft["cfw"])}
    gf = GlobalFilter()
    for f in c["filters"]:
        kw: Dict[str, Any] = {"options": mkopts(f["opts"])}
        if f["domain"]:
            kw["domain"] = f["domain"]
        if f["cfw"]:
            kw["compute_framework"] = FWNAME[f["cfw"]]
        gf.add_filter(Feature(f["col"], **kw), f["type"], K.real_par(f["par"]))
    try:
        ms = gf.identity_matched_filters(cls, feat)
    except ValueError as e:
        return "Raised" if "Cannot compare Domain with" in str(e) else "Other:ValueError:" + str(e)[:80]
    except BaseException as e:  # noqa: BLE001
        return "Other:" + type(e).__name__ + ":" + str(e)[:80]
    out = []
    for m in ms:
        ff = m.filter_feature
        cf = sorted(x.__name__ for x in (ff.compute_frameworks or []))
        out.append({"feat": str(ff.name), "col": str(m.name), "group": {k: json.dumps(v) for k, v in ff.options.group.items()},
                    "context": {k: json.dumps(v) for k, v in ff.options.context.items()},
                    "domain": ff.domain.name if ff.domain else None, "cfw": cf[0] if len(cf) == 1 else ("|".join(cf) or None),
                    "type": m.filter_type, "raw": [[k, _canon_par(v)] for k, v in m.parameter._raw]})
    return sorted(out, key=lambda d: json.dumps(d, sort_keys=True))


def cq_dict(d: Dict[str, Any], dumped: bool = False) -> str:
    return cq_list(f"({cq_str(k)}, {cq_str(v if dumped else json.dumps(v))})" for k, v in d.items())


def cq_ostr(s: Optional[str]) -> str:
    return "None" if s is None else f"(Some {cq_str(s)})"


def match_term(c: Dict[str, Any]) -> str:
    g, ft = c["group"], c["feat"]
    def options(o: Dict[str, Any], dumped: bool = False) -> str:
        return f"{{| o_group := {cq_dict(o['group'], dumped)}; o_context := {cq_dict(o['context'], dumped)} |}}"
    grp = f"{{| g_roots := {cq_strs(g['roots'])}; g_supported := {cq_strs(g['supported'])}; g_domain := {cq_ostr(g['domain'])} |}}"
    feat = f"{{| r_opts := {options(ft['opts'])}; r_domain := {cq_ostr(ft['domain'])}; r_cfw := {cq_str(FWNAME[ft['cfw']])} |}}"
    gfs = []
    for f in c["filters"]:
        par = K.cq_filter(f).split("f_par := ", 1)[1].rsplit(" |}", 1)[0]
        gfs.append(f"(single_filter {{| ff_name := {cq_str(f['col'])}; ff_opts := {options(f['opts'])}; ff_domain := {cq_ostr(f['domain'])}; "
                   f"ff_cfw := {cq_ostr(FWNAME[f['cfw']] if f['cfw'] else None)} |}} {K.FTYPES[f['type']]} {par})")
    o = c["obs"]
    if o == "Raised":
        ob = "MRaised"
    elif isinstance(o, list):
        items = []
        for d in o:
            src = next((f for f in c["filters"] if f["col"] == d["col"] and f["type"] == d["type"] and _canon_real(f["par"]) == d["raw"]), None)
            if src is None:
                return f"(({grp}, {feat}, {cq_list(gfs)}), MOther)"
            par = K.cq_filter(src).split("f_par := ", 1)[1].rsplit(" |}", 1)[0]
            items.append(f"({cq_str(d['feat'])}, {cq_str(d['col'])}, ({cq_dict(d['group'], True)}, {cq_dict(d['context'], True)}), "
                         f"({cq_ostr(d['domain'])}, {cq_ostr(d['cfw'])}), ({K.FTYPES[d['type']]}, {par}))")
        ob = f"(MList {cq_list(items)})"
    else:
        ob = "MOther"
    return f"(({grp}, {feat}, {cq_list(gfs)}), {ob})"


# ------------------------------------------------------------------------------------------------------------
def coq_bad(name: str, fn: str, terms: List[str], ty: str) -> set:
    if not terms:
        return set()
    bad, _ = vlib.run_cases("C11", "path_" + name, REQ, fn, terms, extra_defs=K.EXTRA + EXTRA_PATH, case_type=ty, shard=200)
    return set(bad)


def _dterm(c: Dict[str, Any], g: Dict[str, Any]) -> str:
    return (f"((({cq_strs(g['roots'])}, {cq_ostr(g.get('domain'))}), {cq_ostr(g.get('feature_domain'))}, "
            f"{cq_str(FWNAME[g['fw']])}, {cq_strs(g['request'])}), {cq_list(gfilter_term(f) for f in c['filters'])}, "
            f"({K.cq_table(g['table'])}, {cq_obs(group_obs(c, g))}))")


def _describe_group(g: Dict[str, Any]) -> str:
    return (f"{g['name']} ({g['fw']}, DataCreator {g['roots']}, feature_names_supported {g['supported']}, "
            f"set_feature_name override {g.get('rename')}, requested {g['request']})")


def run(rep: vlib.Reporter, rng: random.Random, big: bool) -> bool:
    """the path families; returns True when a failing input was reported."""
    found = False
    pc = path_cases(rng, {"A": 260, "B": 140, "C": 140, "D": 40} if big else {"A": 20, "B": 10, "C": 10, "D": 4})
    rep.count(len(pc))
    cnt: Dict[str, Any] = {"runs": len(pc), "families": {}, "frameworks": {}, "sub_families": {}, "filter_types": {},
                           "filters_per_run": {}, "filters_on_renamed_feature": 0, "filters_not_renamed": 0,
                           "filters_on_unexposed_column": 0, "run_errors": {},
                           "plan_compared": 0, "plan_disagreements": 0, "gate_calls_compared": 0, "gate_filters_compared": 0,
                           "gate_disagreements": 0, "do_filter_calls_observed": 0, "columns_read_observed": 0,
                           "reads_on_user_column_where_feature_was_renamed": 0,
                           "rows_vs_model_compared": 0, "rows_vs_model_disagreements": 0, "groups_judged_vs_spec": 0,
                           "kf_collapse_domain": 0, "kf_collapse_defect_observed": 0, "kf_domain_raises_runs": 0,
                           "domain_groups_judged": 0, "same_filter_two_groups_runs": 0, "violations": 0}

    per_kind: Dict[str, int] = {}

    def violation(key: str, what: str, c: Dict[str, Any]) -> None:
        nonlocal found
        cnt["violations"] += 1
        found = True
        kind = key.split(":", 1)[0]
        per_kind[kind] = per_kind.get(kind, 0) + 1
        if per_kind[kind] <= (1 if kind == "path-foreign-filter" else 3):
            rep.finding(key, what, c)

    plan_t, plan_x, gate_t, gate_x, row_t, row_x = [], [], [], [], [], []
    d_runs: List[Tuple[Dict[str, Any], List[int]]] = []
    d_t: List[str] = []
    for c in pc:
        res = c["result"]
        for key, val in (("families", c["family"]), ("sub_families", c["family"] + ":" + c["sub"]), ("filters_per_run", str(len(c["filters"])))):
            cnt[key][val] = cnt[key].get(val, 0) + 1
        for g in c["groups"]:
            cnt["frameworks"][g["fw"]] = cnt["frameworks"].get(g["fw"], 0) + 1
        for f in c["filters"]:
            cnt["filter_types"][f["type"]] = cnt["filter_types"].get(f["type"], 0) + 1
        if res["error"]:
            k = c["groups"][0]["fw"] + ":" + res["error"][:40]
            cnt["run_errors"][k] = cnt["run_errors"].get(k, 0) + 1
        if c["family"] == "C":
            cnt["same_filter_two_groups_runs"] += 1
        if c["family"] == "D":        # judged against the model only (filter features with a domain are outside Spec/FilterPath.v)
            idx = []
            for g in c["groups"]:
                idx.append(len(d_t))
                d_t.append(_dterm(c, g))
            d_runs.append((c, idx))
            continue
        D_all = [b for g in c["groups"] for b in g["roots"] + g["supported"]]
        cnt["filters_on_unexposed_column"] += sum(1 for f in c["filters"] if not any(f["col"] == b or f["col"].startswith(b + "~") for b in D_all))
        for g in c["groups"]:
            a = group_apply(c, g)
            if a is not None:
                ofl = [ofilter_term(c, d) for d in a["filters"]]
                if any(x is None for x in ofl):
                    violation(f"path-foreign-filter:{c['family']}:{json.dumps(a['filters'])[:300]}",
                              f"the feature set of group {_describe_group(g)} carries a filter that is none of the global filters "
                              f"{json.dumps(c['filters'])}: {json.dumps(a['filters'])}", c)
                    continue
                plan_t.append(f"(({head_term(g)}, {orders_term(c, g)}), ({cq_strs(a['names'])}, {cq_list(ofl)}))")
                plan_x.append((c, g, a))
                fired = {cl["pos"]: cl for cl in a["calls"]}
                upto = len(a["filters"])
                if a["error"] and a["calls"]:
                    upto = (a["calls"][-1]["pos"] or 0) + 1     # the engine raised inside that call: later filters were never looked at
                trace = []
                for i in range(upto):
                    cl = fired.get(i)
                    trace.append(f"({cq_bool(cl is not None)}, ({cq_strs(sorted(set(cl['reads'])) if cl else [])}, {cq_bool(cl['rows'] if cl else True)}))")
                    d = a["filters"][i]
                    cnt["filters_on_renamed_feature" if d["feat"] != d["col"] else "filters_not_renamed"] += 1
                    if cl is not None:
                        cnt["do_filter_calls_observed"] += 1
                        cnt["columns_read_observed"] += len(set(cl["reads"]))
                        if d["feat"] != d["col"] and set(cl["reads"]) == {d["col"]}:
                            cnt["reads_on_user_column_where_feature_was_renamed"] += 1
                gate_t.append(f"(({cq_strs(a['names'])}, {cq_list(ofl)}), {cq_list(trace)})")
                gate_x.append((c, g, a))
                cnt["gate_filters_compared"] += upto
            row_t.append(f"(({head_term(g)}, {orders_term(c, g)}), ({K.cq_table(g['table'])}, {cq_obs(group_obs(c, g))}))")
            row_x.append((c, g))

    # ---- the collapse domain is decided inside Coq (kf_collapse under one of the recorded orders)
    inside = sorted(coq_bad("in_collapse", "not_in_collapse", row_t, "rowcase"))
    sub = [row_t[i] for i in inside]
    rejected = coq_bad("collapse_accept", "chk_collapse_accept", sub, "rowcase")
    empty_ok = set(range(len(sub))) - coq_bad("collapse_empty", "chk_collapse_empty", sub, "rowcase")
    for j, i in enumerate(inside):
        c, g = row_x[i]
        cnt["kf_collapse_domain"] += 1
        o = group_obs(c, g)
        if j not in rejected:
            want = K.py_expected_ids([f["col"] for f in c["filters"] if f["col"] in g["cols"]], user_filters(c), g["table"])
            if o != want:
                cnt["kf_collapse_defect_observed"] += 1
                rep.finding("C11-renamed-filters-collapse", "one of two filters that became equal by the rename was not applied", c)
        elif g["fw"] == "py" and o == "Empty" and j in empty_ok:
            rep.finding("C11-pydict-empty-result-raises", "PythonDict run failed because a filtered result is empty", c)
        else:
            violation(f"path-collapse:{g['fw']}:{json.dumps(c['filters'])[:300]}:{o}",
                      f"filters {json.dumps(c['filters'])} on group {_describe_group(g)}: returned {o}; inside the collapse domain (two "
                      "filters equal after the rename) neither the faithful model under a recorded set order nor the spec gives this", c)
    inside_set = set(inside)

    # ---- rows against the spec (and the model) outside the collapse domain
    spec_cases, spec_ctx, ok_rows = [], [], []
    err_runs: List[Tuple[Dict[str, Any], List[Dict[str, Any]]]] = []
    seen_err = set()
    for i, (c, g) in enumerate(row_x):
        if i in inside_set:
            continue
        if c["result"]["error"]:
            if id(c) not in seen_err:
                seen_err.add(id(c))
                err_runs.append((c, [pcase(c, gg) for gg in c["groups"]]))
        else:
            spec_cases.append(pcase(c, g))
            spec_ctx.append(c)
            ok_rows.append(i)
    nv, scnt = K.classify_spec_cases(rep, "path", spec_cases, spec_ctx)
    found = found or nv > 0
    cnt["groups_judged_vs_spec"] = len(spec_cases)
    cnt["violations"] += nv
    flat = [g for _, gcs in err_runs for g in gcs]
    ok_empty = set(range(len(flat))) - K.coq_bad("path_err_empty", "chk_py_empty", [K.ecase_term(g) for g in flat])[0]
    ok_untyped = set(range(len(flat))) - K.coq_bad("path_err_untyped", "chk_pa_untyped", [K.ecase_term(g) for g in flat])[0]
    pos = 0
    for c, gcs in err_runs:
        idxs = range(pos, pos + len(gcs))
        pos += len(gcs)
        err = c["result"]["error"]
        if err == "ArrowType" and any(i in ok_untyped and flat[i]["fw"] == "pa" and K.untyped_on_string_column(flat[i]) for i in idxs):
            scnt["kf_arrow_untyped_values"] += 1
            rep.finding("C11-pyarrow-isin-untyped-values", "PyArrow is_in raised ArrowTypeError for an empty / all-None value list", c)
        elif err == "Empty" and any(i in ok_empty and flat[i]["fw"] == "py" for i in idxs):
            scnt["kf_pydict_empty"] += 1
            rep.finding("C11-pydict-empty-result-raises", "PythonDict run failed because a filtered result is empty", c)
        else:
            violation(f"path-error:{c['family']}:{c['groups'][0]['fw']}:{json.dumps(c['filters'])[:300]}:{err[:60]}",
                      f"run_all with global filters {json.dumps(c['filters'])} on group(s) {[_describe_group(g) for g in c['groups']]} "
                      f"failed with {err}; every filter names an existing column of an exposed feature or a column no group exposes", c)
    bad_rows = coq_bad("rows_model", "chk_rows_model", [row_t[i] for i in ok_rows], "rowcase")
    cnt["rows_vs_model_compared"] = len(ok_rows)
    for j in sorted(bad_rows):
        c, g = row_x[ok_rows[j]]
        cnt["rows_vs_model_disagreements"] += 1
        violation(f"path-rows-model:{g['fw']}:{json.dumps(c['filters'])[:300]}:{group_obs(c, g)}",
                  f"filters {json.dumps(c['filters'])} on group {_describe_group(g)} returned rows {group_obs(c, g)}; "
                  "Model/FilterPath.run_path (filter evaluated on the column the user named) gives other rows", c)

    # ---- T2: plan and gate
    bad_plan = coq_bad("plan", "chk_plan", plan_t, "plancase")
    cnt["plan_compared"] = len(plan_t)
    for i in sorted(bad_plan):
        c, g, a = plan_x[i]
        cnt["plan_disagreements"] += 1
        violation(f"path-plan:{c['family']}:{g['fw']}:{json.dumps(c['filters'])[:200]}:{json.dumps(a['filters'])[:200]}",
                  f"group {_describe_group(g)} with global filters {json.dumps(c['filters'])}: apply_single_filters saw feature names "
                  f"{a['names']} and filters {json.dumps(a['filters'])} (feat = filter_feature.name, col = SingleFilter.name); "
                  "Model/FilterPath.plan_path plans other names / filters", c)
    bad_gate = coq_bad("gate", "chk_gate", gate_t, "gatecase")
    cnt["gate_calls_compared"] = len(gate_t)
    for i in sorted(bad_gate):
        c, g, a = gate_x[i]
        cnt["gate_disagreements"] += 1
        reads = [(a["filters"][cl["pos"]]["col"] if cl["pos"] is not None else None, sorted(set(cl["reads"]))) for cl in a["calls"]]
        violation(f"path-gate:{c['family']}:{g['fw']}:{json.dumps(a['filters'])[:200]}:{json.dumps(reads)[:200]}",
                  f"{a['engine']}.apply_single_filters on feature names {a['names']} with filters {json.dumps(a['filters'])} "
                  f"(feat = filter_feature.name, col = SingleFilter.name): do_filter ran for (user column, columns read from the data) = {reads}; "
                  "the model gates on the feature-level name and reads exactly the column the user named", c)

    # ---- family D (run level: one raising group fails the whole run)
    raises = set(range(len(d_t))) - coq_bad("d_raises", "chk_d_raises", d_t, "dcase")
    model_ok = set(range(len(d_t))) - coq_bad("d_model", "chk_d_model", d_t, "dcase")
    fixed_ok = set(range(len(d_t))) - coq_bad("d_fixed", "chk_d_fixed", d_t, "dcase")
    cnt["domain_groups_judged"] = len(d_t)
    for c, idx in d_runs:
        err = c["result"]["error"]
        in_kf = any(i in raises for i in idx)
        if err == "Domain" and in_kf:
            cnt["kf_domain_raises_runs"] += 1
            rep.finding("C11-filter-domain-compare-raises", "a filter feature with a domain made planning fail with ValueError", c)
        elif err is None and all(i in model_ok for i in idx):
            pass
        elif err is None and in_kf and all(i in fixed_ok for i in idx):
            pass                                        # repaired: the group's domain decides
        elif err == "Empty" and any(g["fw"] == "py" for g in c["groups"]) and not in_kf:
            rep.finding("C11-pydict-empty-result-raises", "PythonDict run failed because a filtered result is empty", c)
        else:
            violation(f"path-domain:{c['groups'][0]['fw']}:{json.dumps(c['filters'])[:200]}:{err}:{json.dumps(c['result']['ids'])[:100]}",
                      f"filter {json.dumps(c['filters'])} (filter feature with a domain) on groups "
                      f"{[(g['name'], 'domain', g.get('domain'), 'requested feature domain', g.get('feature_domain')) for g in c['groups']]}: "
                      f"error {err}, rows {c['result']['ids']}; Model/FilterPath.run_path gives another outcome", c)
        for g in c["groups"]:
            o = group_obs(c, g)
            if isinstance(o, list) and 0 < len(o) < len(g["table"]):
                rep.nontrivial(("pd", g["fw"], g.get("domain"), g.get("feature_domain"), c["filters"], g["table"]))
    for c, g in row_x:
        o = group_obs(c, g)
        if isinstance(o, list) and 0 < len(o) < len(g["table"]):
            rep.nontrivial(("p", c["family"], g["fw"], g["roots"], g["supported"], g["rename"], c["filters"], g["table"]))
    cnt.update({("spec_" + k): v for k, v in scnt.items()})
    rep.add("path_e2e", cnt)
    slim = lambda c: {**{k: v for k, v in c.items() if k != "result"}, "result": {k: c["result"][k] for k in ("error", "ids")}}  # noqa: E731
    for c in (next((c for c in pc if c["family"] == "A" and not c.get("witness") and len(c["filters"]) > 1), pc[0]),
              next((c for c in pc if c["family"] == "B" and not c.get("witness")), pc[0])):
        rep.sample(slim(c), cap=10)

    # ---- unit level: identity_matched_filters
    mc = [gen_match_case(rng) for _ in range(6000 if big else 400)]
    rep.count(len(mc))
    bad_m = coq_bad("match", "chk_match", [match_term(c) for c in mc], "matchcase")
    mcnt = {"cases": len(mc), "raised": sum(1 for c in mc if c["obs"] == "Raised"),
            "matched_nonempty": sum(1 for c in mc if isinstance(c["obs"], list) and c["obs"]),
            "with_own_options": sum(1 for c in mc if any(f["opts"]["group"] or f["opts"]["context"] for f in c["filters"])),
            "with_feature_context_options": sum(1 for c in mc if c["feat"]["opts"]["context"]),
            "with_filter_domain": sum(1 for c in mc if any(f["domain"] for f in c["filters"])),
            "with_filter_framework": sum(1 for c in mc if any(f["cfw"] for f in c["filters"])),
            "sub_column_filters": sum(1 for c in mc if any("~" in f["col"] for f in c["filters"])), "disagreements": 0}
    for i, c in enumerate(mc):
        if c["obs"] == "Raised" and i not in bad_m:
            rep.finding("C11-filter-domain-compare-raises", "identity_matched_filters raised ValueError comparing a Domain with None", c)
        if isinstance(c["obs"], list) and c["obs"]:
            rep.nontrivial(("u", c["group"], c["feat"], c["filters"]))
    for i in sorted(bad_m):
        c = mc[i]
        mcnt["disagreements"] += 1
        if mcnt["disagreements"] <= 3:
            found = True
            rep.finding(f"path-match:{json.dumps([c['group'], c['feat'], c['filters']], sort_keys=True)[:400]}",
                        f"identity_matched_filters for group {c['group']}, feature {c['feat']}, filter features {json.dumps(c['filters'])} returned "
                        f"{json.dumps(c['obs'])[:600]}; Model/FilterPath.identity_matched gives another set (criteria / domain / framework / "
                        "unify_options)", c)
    rep.add("path_identity_matched", mcnt)
    rep.sample(next((c for c in mc if isinstance(c["obs"], list) and c["obs"]), mc[0]), cap=11)
    return found


def replay(r: Dict[str, Any]) -> None:
    if r.get("kind") == "match":
        print("identity_matched_filters: group", r["group"], "feature", r["feat"])
        for f in r["filters"]:
            print("  filter feature", json.dumps(f))
        print(" now:", json.dumps(run_match_case(dict(r))))
        print(" recorded:", json.dumps(r.get("obs")))
        return
    print("path family", r.get("family"), r.get("sub"), "global filters", json.dumps(r["filters"]))
    for g in r["groups"]:
        print(" group", g["name"], g["fw"], "roots", g["roots"], "supported", g["supported"], "set_feature_name override", g.get("rename"),
              "domain", g.get("domain"), "requested", g["request"])
        print("   table", json.dumps(g["table"]))
        exposed = [f["col"] for f in r["filters"] if any(f["col"] == b or f["col"].startswith(b + "~") for b in g["roots"] + g["supported"])]
        print("   rows satisfying every filter on an exposed column (filter evaluated on the column the user named):",
              K.py_expected_ids(exposed, user_filters(r), g["table"]))
    now = run_path_case(dict(r))
    print(" now: error", now["error"], "rows", now["ids"])
    for a in now["applies"]:
        print("   apply_single_filters", a["engine"], "feature names", a["names"], "filters", json.dumps(a["filters"]))
        for cl in a["calls"]:
            print("      do_filter #", cl["pos"], "read columns", sorted(set(cl["reads"])), "error", cl["error"])
    rec = r.get("result", {})
    print(" recorded: error", rec.get("error"), "rows", rec.get("ids"))
