"""C05 family `derived_side`: the consumer depends on a source AND on a feature derived from that source in place.

  R0 (left source, framework A)   R1 (right source, framework B)   Link(R0.k, R1.k)
  E  derived group on the framework of ONE of the sources (side = right | left), computing g from that source's value
     column in place (g = c0 + coef * value)
  D1 consumer on framework A over: the other side's value column, g, and (optionally) the own side's value column
The table the consumer must receive is the join its Link describes of the two source tables, the derived side's table being
the source table EXTENDED by g (the derived step runs on the source's object before its data is transformed / merged).
Oracle: c05.term on the `oracle` spec (the derived columns folded into the source table), evaluated with rel_join in Coq.
Across frameworks the transform step that copies the right table must wait for E - a plan that copies earlier joins a
stale table (missing column g).  Only INNER / LEFT-with-consumer-on-the-left / OUTER on equal key names and unique keys are
generated (the domains in which the unchanged planner honours the Link, see c05.kf_domain); frameworks: all ordered pairs.
"""
from __future__ import annotations

import json
import random
from typing import Any, Dict, List, Tuple

CF = ["PyArrowTable", "PandasDataFrame", "PythonDictFramework"]


def gen(rng: random.Random, jt: str, ca: str, cb: str, side: str) -> Tuple[Dict[str, Any], Dict[str, Any]]:
    n0, n1 = rng.randrange(2, 5), rng.randrange(2, 5)
    keys0 = rng.sample(range(1, 9), n0)
    keys1 = rng.sample(range(1, 9), n1)
    if not set(keys0) & set(keys1):
        keys1[0] = keys0[0]
    a = [rng.randrange(0, 30) for _ in keys0]
    b = [rng.randrange(0, 30) for _ in keys1]
    c0, coef = rng.randrange(-3, 4), rng.choice([1, 2, 3])
    src, val, cfw_e = ("R1", "b", cb) if side == "right" else ("R0", "a", ca)
    other = "a" if side == "right" else "b"
    ins = [other, "g"] + ([val] if rng.random() < 0.5 else [])
    groups: List[Dict[str, Any]] = [
        {"name": "R0", "kind": "root", "cfw": ca, "cols": {"a": a, "k": keys0}},
        {"name": "R1", "kind": "root", "cfw": cb, "cols": {"b": b, "k": keys1}},
        {"name": "E", "kind": "derived", "cfw": cfw_e, "features": {"g": {"inputs": [val], "c0": c0, "coefs": [coef]}}},
        {"name": "D1", "kind": "derived", "cfw": ca, "features": {"f1": {"inputs": ins, "c0": 0, "coefs": [1] * len(ins)}}}]
    links = [{"jt": jt, "l": "R0", "r": "R1", "li": ["k"], "ri": ["k"]}]
    spec = {"groups": groups, "request": ["f1"], "links": links, "inplace": rng.random() < 0.5}
    oracle = json.loads(json.dumps(spec))
    og = [g for g in oracle["groups"] if g["name"] != "E"]
    for g in og:
        if g["name"] == src:
            g["cols"]["g"] = [c0 + coef * v for v in g["cols"][val]]
    oracle["groups"] = og
    return spec, oracle


def family(rng: random.Random, big: bool) -> List[Tuple[Dict[str, Any], Dict[str, Any]]]:
    out = []
    for jt in ("INNER", "LEFT", "OUTER"):
        for ca in CF:
            for cb in CF:
                for side in ("right", "left"):
                    for _ in range(3 if big else 1):
                        out.append(gen(rng, jt, ca, cb, side))
    return out
