"""Observation of THREADING / MULTIPROCESSING runs of the real mloda for the C03 / C07 / C20 checks (no change to /repo).

What differs from a SYNC run, as far as observation goes (mloda/core/runtime/*.py, core/cfw_manager.py):
  * every mode other than {SYNC} puts the CfwManager into a multiprocessing.managers.BaseManager server process: the
    function_extender set and the api_data are pickled into it, and every compute-framework object receives an
    UNPICKLED COPY of the extender set (get_function_extender() through the proxy);
  * MULTIPROCESSING: one worker process per compute-framework object, created with multiprocessing.Process (default
    context: start method `fork` on this platform, checked by start_method()); the compute-framework object travels in
    the process arguments (fork: not pickled), every STEP (FeatureGroupStep with its FeatureSet, Feature objects,
    Options, filters, the feature group CLASS by reference) is pickled through the command queue; results are uploaded
    by the child to the Arrow Flight server, downloaded by the parent and only THEN cut down to the requested columns
    (DataLifecycleManager.get_result_data -> select_data_by_column_names).
Consequences for a harness: in-memory recorders of the parent see nothing of what happens inside a child.  Class-level
wrappers installed before the run are inherited by forked children; they append JSON lines to a file (`Sink`, the
FileListener pattern of harness/orch.py) which the parent reads after the run.  Dynamically created classes must be
reachable as module attributes (register_class) or the queue feeder thread fails to pickle the step and the run hangs.
"""
from __future__ import annotations

import json
import multiprocessing
import os
import sys
import threading
import time
import types
from typing import Any, Callable, Dict, List, Optional, Set, Tuple

MODES = ("SYNC", "THREADING", "MULTIPROCESSING")
MAIN_PID = os.getpid()          # forked children inherit this value: in_child() is true exactly there


def in_child() -> bool:
    return os.getpid() != MAIN_PID


def start_method() -> str:
    """The start method mloda's worker processes and its manager process get (they use the default context)."""
    return multiprocessing.get_start_method(allow_none=False)


def mode_set(name: str) -> Set[Any]:
    from mloda.user import ParallelizationMode
    return {ParallelizationMode[name]}


# ------------------------------------------------------------------------------------------------------------
# JSON-lines sink shared by parent and forked children
# ------------------------------------------------------------------------------------------------------------
class Sink:
    """Append-only JSON-lines file.  One os.write of a short line on an O_APPEND descriptor is atomic on Linux, so
    lines of several processes do not interleave and keep their chronological order."""

    def __init__(self, path: str) -> None:
        self.path = path
        os.makedirs(os.path.dirname(path), exist_ok=True)
        self.reset()

    def reset(self) -> None:
        if os.path.exists(self.path):
            os.unlink(self.path)

    def write(self, obj: Dict[str, Any]) -> None:
        obj = dict(obj, pid=os.getpid(), child=in_child())
        fd = os.open(self.path, os.O_WRONLY | os.O_APPEND | os.O_CREAT, 0o644)
        try:
            os.write(fd, (json.dumps(obj, default=str) + "\n").encode())
        finally:
            os.close(fd)

    def read(self) -> List[Dict[str, Any]]:
        if not os.path.exists(self.path):
            return []
        out = []
        with open(self.path) as f:
            for line in f:
                line = line.strip()
                if line:
                    out.append(json.loads(line))
        return out


CUR: Dict[str, Optional[Sink]] = {"sink": None}     # the sink of the run in progress (set before the run: inherited by fork)


def emit(obj: Dict[str, Any], children_only: bool = False) -> None:
    s = CUR["sink"]
    if s is not None and (in_child() or not children_only):
        s.write(obj)


# ------------------------------------------------------------------------------------------------------------
# classes that must survive pickling by reference
# ------------------------------------------------------------------------------------------------------------
def _dyn_module() -> Any:
    m = sys.modules.get("harness.dynclasses")
    if m is None:
        m = types.ModuleType("harness.dynclasses")
        sys.modules["harness.dynclasses"] = m
    return m


def register_class(cls: type, name: Optional[str] = None) -> type:
    """Make a class created with type(...) picklable by reference (module attribute harness.dynclasses.<name>)."""
    name = name or cls.__name__
    cls.__module__ = "harness.dynclasses"
    cls.__qualname__ = name
    cls.__name__ = name
    setattr(_dyn_module(), name, cls)
    return cls


def picklable_by_reference(cls: type) -> bool:
    import pickle
    try:
        return pickle.loads(pickle.dumps(cls)) is cls
    except Exception:  # noqa: BLE001
        return False


# ------------------------------------------------------------------------------------------------------------
# a Flight server started by another process (subprocess workers of one check share the parent's server)
# ------------------------------------------------------------------------------------------------------------
class FlightHandle:
    """Stand-in for ParallelRunnerFlightServer in a process that did not start the server: ExecutionOrchestrator only
    reads `flight_server_process` (truthy = already running) and get_location()."""

    def __init__(self, location: str) -> None:
        self.location = location
        self.flight_server_process = "started-by-parent"

    def get_location(self) -> str:
        return self.location

    def start_flight_server_process(self) -> None:  # pragma: no cover - never needed
        raise RuntimeError("the shared flight server is owned by the parent process")


# ------------------------------------------------------------------------------------------------------------
# watchdog and process hygiene
# ------------------------------------------------------------------------------------------------------------
def watchdog(fn: Callable[[], Any], timeout: float) -> Tuple[str, Any]:
    """('ok', value) | ('raised', exception) | ('hang', None).  A hung MP run leaves its thread behind (daemon)."""
    box: Dict[str, Any] = {}

    def target() -> None:
        try:
            box["v"] = fn()
            box["s"] = "ok"
        except BaseException as e:  # noqa: BLE001
            box["v"] = e
            box["s"] = "raised"
    th = threading.Thread(target=target, daemon=True)
    th.start()
    th.join(timeout)
    if th.is_alive():
        return "hang", None
    return box["s"], box["v"]


def watchdog_retry(fn: Callable[[], Any], timeout: float, before_retry: Optional[Callable[[], None]] = None) -> Tuple[str, Any, int]:
    """watchdog; a run that does not return in time is abandoned (its worker / manager processes are killed) and tried ONCE
    more.  Returns (status, value, number of timeouts).  A timeout that is not reproduced is counted by the callers in their
    evidence (an unreproducible stall of a MULTIPROCESSING run under load says nothing about the property under check); two
    timeouts in a row are reported as a hang."""
    st, v = watchdog(fn, timeout)
    if st != "hang":
        return st, v, 0
    kill_stray_children()
    if before_retry is not None:
        before_retry()
    st, v = watchdog(fn, timeout)
    if st == "hang":
        kill_stray_children()
        return st, v, 2
    return st, v, 1


def flight_pid() -> Optional[int]:
    from harness import orch
    if orch._FLIGHT and orch._FLIGHT[0].flight_server_process is not None:
        return int(orch._FLIGHT[0].flight_server_process.pid)
    return None


def stray_children(wait_s: float = 2.0) -> List[int]:
    """Child processes of this process other than the long-lived Flight server that are still alive after a run."""
    keep = flight_pid()
    deadline = time.time() + wait_s
    while True:
        left = [p.pid for p in multiprocessing.active_children() if p.pid != keep]
        if not left or time.time() > deadline:
            return [int(x) for x in left if x is not None]
        time.sleep(0.02)


def kill_stray_children() -> int:
    keep = flight_pid()
    n = 0
    for p in multiprocessing.active_children():
        if p.pid != keep:
            try:
                p.terminate()
                p.join(2)
                n += 1
            except Exception:  # noqa: BLE001
                pass
    return n


# ------------------------------------------------------------------------------------------------------------
# class-level wrappers whose records are shipped back from the children
# ------------------------------------------------------------------------------------------------------------
_installed: Dict[str, bool] = {}


def install_step_events() -> None:
    """begin / end / raise of Step.execute, written to the current sink by whatever process executes the step (the
    in-memory recorder of harness/orch.py only sees the parent)."""
    if _installed.get("steps"):
        return
    _installed["steps"] = True
    from mloda.core.core.step.feature_group_step import FeatureGroupStep
    from mloda.core.core.step.join_step import JoinStep
    from mloda.core.core.step.transform_frame_work_step import TransformFrameworkStep

    def wrap(cls: Any) -> None:
        orig = cls.execute

        def execute(self: Any, *a: Any, **kw: Any) -> Any:
            emit({"ev": "begin", "uuid": str(self.uuid)})
            try:
                r = orig(self, *a, **kw)
            except BaseException:
                emit({"ev": "raise", "uuid": str(self.uuid)})
                raise
            emit({"ev": "end", "uuid": str(self.uuid)})
            return r
        cls.execute = execute
    for c in (FeatureGroupStep, TransformFrameworkStep, JoinStep):
        wrap(c)


def install_upload_events(columns_of: Callable[[Any], List[str]]) -> None:
    """MULTIPROCESSING: what a child uploads to the Flight store (the whole object, all columns) -- the selection of
    the requested columns happens in the parent after the download."""
    if _installed.get("upload"):
        return
    _installed["upload"] = True
    from mloda.core.abstract_plugins.compute_framework import ComputeFramework
    orig = ComputeFramework.upload_finished_data

    def upload_finished_data(self: Any, location: str) -> str:
        r = orig(self, location)
        try:
            emit({"ev": "upload", "cfw": str(self.uuid), "cols": sorted(columns_of(self.data))})
        except Exception as e:  # noqa: BLE001
            emit({"ev": "upload", "cfw": str(self.uuid), "cols": None, "err": str(e)[:80]})
        return r
    ComputeFramework.upload_finished_data = upload_finished_data  # type: ignore[method-assign]


# ------------------------------------------------------------------------------------------------------------
# python mirror of conflict_free / conflict_free_x (Model/OrchCheck.v), used to decide ONLINE whether a request may be run
# in THREADING / MULTIPROCESSING (plans with two unordered steps on one object are schedule dependent: known findings of
# C01 / C06).  Every decision is re-validated afterwards by the Coq definitions (cf_terms -> chk_cf / chk_cfx).
# ------------------------------------------------------------------------------------------------------------
def conflict_free_py(plan: Dict[str, Any], foot: Dict[int, Tuple[int, List[int]]], across_objects_only: bool = False) -> bool:
    steps = plan["steps"]
    prod = {u: s["sid"] for s in steps for u in s["uuids"]}
    direct = {s["sid"]: {prod[u] for u in s["req"] if u in prod} for s in steps}

    def waits_for(i: int) -> Set[int]:
        acc: Set[int] = set()
        todo = [i]
        while todo:
            x = todo.pop()
            for y in direct.get(x, ()):
                if y not in acc:
                    acc.add(y)
                    todo.append(y)
        return acc
    w = {s["sid"]: waits_for(s["sid"]) for s in steps}
    for a in steps:
        for b in steps:
            i, j = a["sid"], b["sid"]
            if not (i < j) or i in w[j] or j in w[i] or i not in foot or j not in foot:
                continue
            (wa, ra), (wb, rb) = foot[i], foot[j]
            if across_objects_only:
                if wa != wb and (wa in rb or wb in ra):
                    return False
            elif wa == wb or wa in rb or wb in ra:
                return False
    return True
