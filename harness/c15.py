"""C15 — group options split computations, context never does; identities (eq/hash) are consistent.

Models: coq/Model/Options.v (values, ==, _make_hashable, Options operations), coq/Model/Identity.v (eq / hash keys of
Feature, Link, Index, SingleFilter), coq/Model/Grouping.v (group_features_by_compute_framework_and_options).
Theorems: coq/Props/C15.v.
T2 (correspondence, evaluated by vm_compute on the same inputs):
  ops      : Options(...) followed by <= 12 add/add_to_group/add_to_context/set/update_with_protected_keys/merge_options
             calls; state and exception after every call vs o_trace
  values   : pairs of option values: Python == vs py_eq, _make_hashable vs canon, hash() definedness vs hash_key
  ident    : pairs of real Feature / Link / Index / SingleFilter objects: == and hash() vs the modelled keys
  grouping : ExecutionPlan.group_features_by_compute_framework_and_options on sets of real Features vs group_features
  e2e      : mloda.run_all on generated feature groups, calculation calls recorded inside calculate_feature
Property-level checks on the implementation itself (no model involved): group/context key disjointness after every call,
`a == b -> hash(a) == hash(b)` on every generated pair, context variations never change the number of calls.
"""
from __future__ import annotations

import enum
import itertools
import json
import logging
import random
from typing import Any, Dict, List, Optional, Sequence, Tuple

from lib import vlib
from lib.vlib import cq_list, cq_str, cq_nat, cq_bool, cq_z

LEVEL = "proof"
logging.disable(logging.CRITICAL)
P = "C15"
REQ = ["MV.Model.Options"]


# ------------------------------------------------------------------------------------------------------------
# value universe.  JSON description (replayable) <-> real Python value <-> Coq term
#   atoms: None, True/False, ints, strs, ["E", i] hashable opaque (plain Enum member), ["U", i] unhashable opaque,
#          ["K", name] a DefaultOptionKeys member (str-Enum)
#   ["L", [..]] list, ["T", [..]] tuple, ["S", [..]] set, ["F", [..]] frozenset, ["D", [[k, v], ..]] dict
# ------------------------------------------------------------------------------------------------------------
class _E(enum.Enum):
    E0 = "e0"
    E1 = "e1"
    E2 = "e2"


class _U:
    """unhashable object with identity equality"""
    __hash__ = None  # type: ignore[assignment]

    def __init__(self, i: int) -> None:
        self.i = i

    def __eq__(self, other: Any) -> bool:
        return self is other

    def __deepcopy__(self, memo: Any) -> "_U":
        return self

    def __repr__(self) -> str:
        return f"U{self.i}"


_EPOOL = [_E.E0, _E.E1, _E.E2]
_UPOOL = [_U(0), _U(1)]


def to_py(d: Any) -> Any:
    if d is None or isinstance(d, (bool, int, str)):
        return d
    tag, x = d
    if tag == "E":
        return _EPOOL[x]
    if tag == "U":
        return _UPOOL[x]
    if tag == "K":
        from mloda_plugins.feature_group.experimental.default_options_key import DefaultOptionKeys
        return DefaultOptionKeys[x]
    if tag == "L":
        return [to_py(e) for e in x]
    if tag == "T":
        return tuple(to_py(e) for e in x)
    if tag == "S":
        return {to_py(e) for e in x}
    if tag == "F":
        return frozenset(to_py(e) for e in x)
    if tag == "D":
        return {to_py(k): to_py(v) for k, v in x}
    raise ValueError(d)


class Unmodelled(Exception):
    pass


def key_term(k: Any) -> str:
    if k is None:
        return "KNone"
    if isinstance(k, bool):
        return f"(KBool {cq_bool(k)})"
    if isinstance(k, int):
        return f"(KInt {cq_z(k)})"
    if isinstance(k, str):
        return f"(KStr {cq_str(str.__str__(k) if not isinstance(k, enum.Enum) else k.value)})"
    if isinstance(k, _E):
        return f"(KOpq {cq_nat(_EPOOL.index(k))})"
    raise Unmodelled(repr(k))


def val_term(v: Any) -> str:
    """Coq term of a real Python value (used for inputs AND observations, so both go through the same printer)."""
    if v is None:
        return "VNone"
    if isinstance(v, bool):
        return f"(VBool {cq_bool(v)})"
    if isinstance(v, int):
        return f"(VInt {cq_z(v)})"
    if isinstance(v, str):
        return f"(VStr {cq_str(v.value if isinstance(v, enum.Enum) else str.__str__(v))})"
    if isinstance(v, _E):
        return f"(VOpq {cq_nat(_EPOOL.index(v))} true)"
    if isinstance(v, _U):
        return f"(VOpq {cq_nat(10 + v.i)} false)"
    if isinstance(v, list):
        return f"(VList {cq_list(val_term(e) for e in v)})"
    if isinstance(v, tuple):
        return f"(VTuple {cq_list(val_term(e) for e in v)})"
    if isinstance(v, frozenset):
        return f"(VFSet {cq_list(sorted(val_term(e) for e in v))})"
    if isinstance(v, set):
        return f"(VSet {cq_list(sorted(val_term(e) for e in v))})"
    if isinstance(v, dict):
        return f"(VDict {pairs_term(v.items())})"
    raise Unmodelled(repr(v))


def pairs_term(items: Any) -> str:
    return cq_list(f"({key_term(k)}, {val_term(v)})" for k, v in items)


def keys_term(ks: Any) -> str:
    return cq_list(sorted(key_term(k) for k in ks))


STRS = ["a", "b", "c", "ab", ""]
KEYS: List[Any] = ["a", "b", "c", "d", "in_features", "feature_chainer_parser_key", ["K", "in_features"],
                   ["K", "feature_chainer_parser_key"], ["K", "reference_time"], "reference_time"]
ODD_KEYS: List[Any] = [1, True, 0, None, ["E", 0], ["E", 1], 2]


def gen_atom(rng: random.Random) -> Any:
    r = rng.random()
    if r < 0.12:
        return None
    if r < 0.27:
        return rng.choice([True, False])
    if r < 0.52:
        return rng.choice([0, 1, 2, 3, -1, 7])
    if r < 0.85:
        return rng.choice(STRS + ["a", "b"])
    if r < 0.95:
        return ["E", rng.randrange(3)]
    return ["U", rng.randrange(2)]


def is_hashable_desc(d: Any) -> bool:
    if d is None or isinstance(d, (bool, int, str)):
        return True
    tag, x = d
    if tag in ("E", "K", "F"):
        return True
    if tag == "T":
        return all(is_hashable_desc(e) for e in x)
    return False


def gen_key(rng: random.Random, odd: float = 0.12) -> Any:
    return rng.choice(ODD_KEYS) if rng.random() < odd else rng.choice(KEYS)


def gen_val(rng: random.Random, depth: int = 2) -> Any:
    if depth == 0 or rng.random() < 0.45:
        return gen_atom(rng)
    kind = rng.choice("LTSDDL")
    n = rng.choice([0, 1, 1, 2, 2, 3])
    if kind in "LT":
        return [kind, [gen_val(rng, depth - 1) for _ in range(n)]]
    if kind == "S":
        els = []
        for _ in range(n):
            for _try in range(5):
                e = gen_val(rng, depth - 1)
                if is_hashable_desc(e):
                    els.append(e)
                    break
        return ["S" if rng.random() < 0.85 else "F", els]
    return ["D", gen_dict(rng, depth - 1, n, odd=0.2)]


def gen_dict(rng: random.Random, depth: int, n: int, odd: float = 0.12, keys: Optional[List[Any]] = None) -> List[List[Any]]:
    out = []
    for _ in range(n):
        k = rng.choice(keys) if keys is not None and rng.random() < 0.8 else gen_key(rng, odd)
        if k in ("feature_chainer_parser_key", ["K", "feature_chainer_parser_key"]) and rng.random() < 0.8:
            v: Any = gen_chainer_value(rng)
        else:
            v = gen_val(rng, depth)
        out.append([k, v])
    return out


def gen_chainer_value(rng: random.Random) -> Any:
    r = rng.random()
    ks = [rng.choice(["a", "b", "c", "d", 1, ["E", 0], None]) for _ in range(rng.choice([0, 1, 2, 3]))]
    if r < 0.35:
        return ["L", ks]
    if r < 0.5:
        return ["T", ks]
    if r < 0.65:
        return ["S", [k for k in ks]]
    if r < 0.75:
        return rng.choice(["ab", "a", "", "cd"])
    if r < 0.85:
        return ["D", [[k, 1] for k in ks]]
    return gen_val(rng, 1)


def variant(rng: random.Random, d: Any) -> Any:
    """a value that is often == d but written differently (dict / set order, True for 1), sometimes slightly different"""
    if d is None or isinstance(d, str):
        return d if rng.random() < 0.9 else gen_atom(rng)
    if isinstance(d, bool):
        return rng.choice([d, int(d), d, gen_atom(rng)])
    if isinstance(d, int):
        return rng.choice([d, d, bool(d) if d in (0, 1) else d, gen_atom(rng)])
    tag, x = d
    if tag in ("E", "U", "K"):
        return d if rng.random() < 0.9 else gen_atom(rng)
    r = rng.random()
    if tag in ("L", "T"):
        y = [variant(rng, e) for e in x]
        if r < 0.08:
            return ["T" if tag == "L" else "L", y]
        if r < 0.14 and y:
            y = y[:-1]
        if r > 0.94 and len(y) > 1:
            y = y[::-1]
        return [tag, y]
    if tag in ("S", "F"):
        y = [variant(rng, e) if rng.random() < 0.5 else e for e in x]
        y = [e for e in y if is_hashable_desc(e)]
        rng.shuffle(y)
        if r < 0.1 and y:
            y = y[:-1]
        return ["F" if (tag == "S" and r > 0.9) else tag, y]
    y2 = [[variant(rng, k) if (isinstance(k, (bool, int)) and not isinstance(k, str)) else k, variant(rng, v)] for k, v in x]
    y2 = [[k, v] for k, v in y2 if is_hashable_desc(k) and not (isinstance(k, list) and k[0] in ("T", "F", "U"))]
    rng.shuffle(y2)
    if r < 0.1 and y2:
        y2 = y2[:-1]
    return ["D", y2]


# ------------------------------------------------------------------------------------------------------------
# Options operation sequences
# ------------------------------------------------------------------------------------------------------------
def err_code(e: Optional[BaseException]) -> int:
    if e is None:
        return 0
    if isinstance(e, ValueError):
        return 1
    if isinstance(e, TypeError):
        return 2
    return 3


def err_term(c: int) -> str:
    return {0: "Some None", 1: "Some (Some EValue)", 2: "Some (Some EType)", 3: "None"}[c]


def gen_init(rng: random.Random, keys: List[Any]) -> dict:
    g = gen_dict(rng, 2, rng.choice([0, 1, 1, 2, 3]), keys=keys)
    c = gen_dict(rng, 1, rng.choice([0, 0, 1, 1, 2]), keys=keys)
    p: List[Any] = []
    if rng.random() < 0.5:
        cand = [k for k, _ in c] or keys
        p = [rng.choice(cand) for _ in range(rng.choice([1, 1, 2]))]
        if rng.random() < 0.1:
            p.append(rng.choice(keys))
    return {"g": g, "c": c, "p": p}


def build_options(ini: dict) -> Any:
    from mloda.core.abstract_plugins.components.options import Options
    return Options(group=to_py(["D", ini["g"]]), context=to_py(["D", ini["c"]]),
                   propagate_context_keys=frozenset(to_py(k) for k in ini["p"]))


def gen_good_init(rng: random.Random, keys: List[Any]) -> dict:
    for _ in range(50):
        ini = gen_init(rng, keys)
        try:
            build_options(ini)
            return ini
        except Exception:  # noqa: BLE001
            continue
    return {"g": [], "c": [], "p": []}


def gen_sequence(rng: random.Random) -> dict:
    keys = rng.sample(KEYS, rng.choice([3, 4, 5])) + rng.sample(ODD_KEYS, rng.choice([0, 0, 1]))
    ini = gen_init(rng, keys) if rng.random() < 0.25 else gen_good_init(rng, keys)
    ops = []
    for _ in range(rng.randrange(0, 13)):
        kind = rng.choice(["add", "add_group", "add_context", "set", "update", "update", "merge", "merge", "add_context"])
        if kind in ("update", "merge"):
            o: Dict[str, Any] = {"op": kind, "other": gen_good_init(rng, keys)}
            if kind == "update":
                o["prot"] = None if rng.random() < 0.5 else [rng.choice(keys) for _ in range(rng.choice([0, 1, 2]))]
        else:
            k = rng.choice(keys)
            if k in ("feature_chainer_parser_key", ["K", "feature_chainer_parser_key"]) and rng.random() < 0.8:
                v = gen_chainer_value(rng)
            else:
                v = gen_val(rng, 2)
            o = {"op": kind, "k": k, "v": v}
        ops.append(o)
    return {"init": ini, "ops": ops}


def state_term(o: Any) -> str:
    return f"({pairs_term(o.group.items())}, {pairs_term(o.context.items())}, {keys_term(o.propagate_context_keys)})"


def disjoint_now(o: Any) -> bool:
    return not (set(o.group.keys()) & set(o.context.keys()))


def run_sequence(case: dict) -> dict:
    """run the real Options object through the sequence; returns observation (Coq terms) + property verdicts"""
    from mloda.core.abstract_plugins.components.feature_collection import Features
    obs: Dict[str, Any] = {"init_err": 0, "steps": [], "errs": [], "disjoint_ok": True, "unmodelled": False}
    try:
        o = build_options(case["init"])
    except Exception as e:  # noqa: BLE001
        obs["init_err"] = err_code(e)
        return obs
    if not disjoint_now(o):
        obs["disjoint_ok"] = False
    for op in case["ops"]:
        err: Optional[BaseException] = None
        try:
            if op["op"] in ("update", "merge"):
                other = build_options(op["other"])
                if op["op"] == "update":
                    prot = None if op["prot"] is None else {to_py(k) for k in op["prot"]}
                    o.update_with_protected_keys(other, prot)
                else:
                    Features.merge_options(None, o, other)  # type: ignore[arg-type]
            else:
                k, v = to_py(op["k"]), to_py(op["v"])
                {"add": o.add, "add_group": o.add_to_group, "add_context": o.add_to_context, "set": o.set}[op["op"]](k, v)
        except Exception as e:  # noqa: BLE001
            err = e
        if not disjoint_now(o):
            obs["disjoint_ok"] = False
        obs["errs"].append(err_code(err))
        obs["steps"].append(f"({state_term(o)}, {err_term(err_code(err))})")
    return obs


def init_term(ini: dict) -> str:
    return (f"({pairs_term((to_py(k), to_py(v)) for k, v in ini['g'])}, {pairs_term((to_py(k), to_py(v)) for k, v in ini['c'])}, "
            f"{cq_list(key_term(to_py(k)) for k in ini['p'])})")


def op_term(op: dict) -> str:
    if op["op"] in ("update", "merge"):
        other = f"(mk_other {init_term(op['other'])})"
        if op["op"] == "merge":
            return f"(OpMerge {other})"
        prot = "None" if op["prot"] is None else f"(Some {cq_list(key_term(to_py(k)) for k in op['prot'])})"
        return f"(OpUpdate {other} {prot})"
    c = {"add": "OpAdd", "add_group": "OpAddGroup", "add_context": "OpAddContext", "set": "OpSet"}[op["op"]]
    return f"({c} {key_term(to_py(op['k']))} {val_term(to_py(op['v']))})"


def seq_term(case: dict, obs: dict) -> str:
    return f"({init_term(case['init'])}, {cq_list(op_term(o) for o in case['ops'])}, ({err_term(obs['init_err'])}, {cq_list(obs['steps'])}))"


EXTRA_OPS = """
Definition ini_t := (list (pykey * pyval) * list (pykey * pyval) * list pykey)%type.
Definition mk_other (i : ini_t) : ostate :=
  match i with (g, c, p) => match o_init g c p with inl s => s | inr _ => {| og := []; oc := []; opk := [] |} end end.
Definition dict_same (a b : list (pykey * pyval)) := all2 (fun x y => key_same (fst x) (fst y) && val_same (snd x) (snd y)) a b.
Definition keys_sub (a b : list pykey) := forallb (fun k => existsb (key_same k) b) a.
Definition state_same (s : ostate) (o : ini_t) :=
  match o with (g, c, p) => dict_same (og s) g && dict_same (oc s) c && keys_sub (opk s) p && keys_sub p (opk s) end.
Definition err_same (e : option oerr) (o : option (option oerr)) :=
  match o, e with
  | Some None, None | Some (Some EValue), Some EValue | Some (Some EType), Some EType => true
  | _, _ => false
  end.
Definition case_t := (ini_t * list oop * (option (option oerr) * list (ini_t * option (option oerr))))%type.
Definition chk_ops (c : case_t) : bool :=
  match c with
  | ((g, cx, p), ops, (ie, steps)) =>
      match o_init g cx p with
      | inr e => err_same (Some e) ie && is_nil steps
      | inl s => err_same None ie &&
                 all2 (fun m o => state_same (fst m) (fst o) && err_same (snd m) (snd o)) (o_trace s ops) steps
      end
  end.
"""


def check_ops(rep: vlib.Reporter, rng: random.Random, n: int) -> bool:
    cases, obss = [], []
    dist = {"ops": {}, "errors": {0: 0, 1: 0, 2: 0, 3: 0}, "lengths": {}, "init_errors": 0, "unmodelled": 0}
    found = False
    while len(cases) < n:
        case = gen_sequence(rng)
        try:
            obs = run_sequence(case)
        except Unmodelled:
            dist["unmodelled"] += 1
            continue
        cases.append(case)
        obss.append(obs)
        dist["lengths"][len(case["ops"])] = dist["lengths"].get(len(case["ops"]), 0) + 1
        if obs["init_err"]:
            dist["init_errors"] += 1
        for op, e in zip(case["ops"], obs["errs"]):
            dist["ops"][op["op"]] = dist["ops"].get(op["op"], 0) + 1
            dist["errors"][e] += 1
        if not obs["disjoint_ok"]:
            rep.finding("disjoint:" + json.dumps(case)[:300], "a key is present in both group and context of a real Options object "
                        "after the call sequence", {"kind": "ops", "case": case})
            found = True
        if obs["init_err"] == 0 and len(case["ops"]) >= 2 and any(obs["errs"]) and not all(obs["errs"]):
            rep.nontrivial(("ops", case))
    terms = [seq_term(c, o) for c, o in zip(cases, obss)]
    bad, info = vlib.run_cases(P, "ops", REQ, "chk_ops", terms, extra_defs=EXTRA_OPS, case_type="case_t", shard=200)
    rep.count(len(cases))
    rep.add("ops", {**info, "sequences": len(cases), "operation_mix": dist["ops"],
                    "error_kinds": {"none": dist["errors"][0], "ValueError": dist["errors"][1], "TypeError": dist["errors"][2],
                                    "other": dist["errors"][3]},
                    "sequence_lengths": dict(sorted(dist["lengths"].items())), "constructor_errors": dist["init_errors"],
                    "disagreements": len(bad)})
    for i in bad[:5]:
        rep.finding("ops:" + json.dumps(cases[i])[:300],
                    "state / exception of the real Options object after a call sequence differs from the model "
                    f"(observed errors {obss[i]['errs']}, init {obss[i]['init_err']})", {"kind": "ops", "case": cases[i]})
        found = True
    rep.sample({"kind": "ops", **cases[min(3, len(cases) - 1)]})
    return found


# ------------------------------------------------------------------------------------------------------------
def run(rep: vlib.Reporter, tier: str, seed: int) -> None:
    rng = random.Random(seed * 7919 + 15)
    big = tier == "thorough"
    pr = vlib.build_props(P)
    rep.proof(pr)
    found = False
    found |= check_ops(rep, rng, 50000 if big else 3000)
    rep.add("rule", "TODO")
    if not pr.ok and not found:
        rep.finding("proof-broken", "Props/C15.v no longer checks",
                    {"failed_files": pr.failed_files, "forbidden": pr.forbidden, "log_tail": pr.log[-3000:]}, found_input=False)


def replay(path: str) -> int:
    r = json.load(open(path))["replay"]
    print(json.dumps(r, indent=1)[:4000])
    if r.get("kind") == "ops":
        obs = run_sequence(r["case"])
        print("now: init_err", obs["init_err"], "errors", obs["errs"], "disjoint", obs["disjoint_ok"])
        for s in obs["steps"]:
            print("  ", s)
    return 0
