"""C15 — group options split computations, context never does; identities (eq/hash) are consistent.

Models: coq/Model/Options.v (values, ==, _make_hashable, Options operations), coq/Model/Identity.v (eq / hash keys of
Feature, Link, Index, SingleFilter), coq/Model/Grouping.v (group_features_by_compute_framework_and_options).
Theorems: coq/Props/C15.v.
T2 (correspondence, evaluated by vm_compute on the same inputs):
  ops      : Options(...) followed by <= 12 add/add_to_group/add_to_context/set/update_with_protected_keys/merge_options
             calls; state and exception after every call vs o_trace
  values   : pairs of option values: Python == vs py_eq, _make_hashable vs canon, hash() definedness vs hash_key
  ident    : pairs of real Feature / Link / Index / SingleFilter objects: == and hash() vs the modelled keys
  grouping : ExecutionPlan.group_features_by_compute_framework_and_options on sets of real Features vs group_features
  e2e      : mloda.run_all on generated feature groups, calculation calls recorded inside calculate_feature
Property-level checks on the implementation itself (no model involved): group/context key disjointness after every call,
`a == b -> hash(a) == hash(b)` on every generated pair, context variations never change the number of calls.
"""
from __future__ import annotations

import enum
import itertools
import json
import logging
import random
from typing import Any, Dict, List, Optional, Sequence, Tuple

from lib import vlib
from lib.vlib import cq_list, cq_str, cq_nat, cq_bool, cq_z

LEVEL = "proof"
logging.disable(logging.CRITICAL)
P = "C15"
REQ = ["MV.Model.Options"]


# ------------------------------------------------------------------------------------------------------------
# value universe.  JSON description (replayable) <-> real Python value <-> Coq term
#   atoms: None, True/False, ints, strs, ["E", i] hashable opaque (plain Enum member), ["U", i] unhashable opaque,
#          ["K", name] a DefaultOptionKeys member (str-Enum)
#   ["L", [..]] list, ["T", [..]] tuple, ["S", [..]] set, ["F", [..]] frozenset, ["D", [[k, v], ..]] dict
# ------------------------------------------------------------------------------------------------------------
class _E(enum.Enum):
    E0 = "e0"
    E1 = "e1"
    E2 = "e2"


class _U:
    """unhashable object with identity equality"""
    __hash__ = None  # type: ignore[assignment]

    def __init__(self, i: int) -> None:
        self.i = i

    def __eq__(self, other: Any) -> bool:
        return self is other

    def __deepcopy__(self, memo: Any) -> "_U":
        return self

    def __repr__(self) -> str:
        return f"U{self.i}"


_EPOOL = [_E.E0, _E.E1, _E.E2]
_UPOOL = [_U(0), _U(1)]


def to_py(d: Any) -> Any:
    if d is None or isinstance(d, (bool, int, str)):
        return d
    tag, x = d
    if tag == "E":
        return _EPOOL[x]
    if tag == "U":
        return _UPOOL[x]
    if tag == "K":
        from mloda_plugins.feature_group.experimental.default_options_key import DefaultOptionKeys
        return DefaultOptionKeys[x]
    if tag == "L":
        return [to_py(e) for e in x]
    if tag == "T":
        return tuple(to_py(e) for e in x)
    if tag == "S":
        return {to_py(e) for e in x}
    if tag == "F":
        return frozenset(to_py(e) for e in x)
    if tag == "D":
        return {to_py(k): to_py(v) for k, v in x}
    raise ValueError(d)


class Unmodelled(Exception):
    pass


_reported: Dict[str, int] = {}


def report(rep: vlib.Reporter, kind: str, key: str, what: str, replay_obj: Any, cap: int = 5) -> None:
    """rep.finding, at most `cap` times per kind of failure (the total is kept under coverage['failures_by_kind'])"""
    _reported[kind] = _reported.get(kind, 0) + 1
    rep.coverage.setdefault("failures_by_kind", {})[kind] = _reported[kind]
    if _reported[kind] <= cap:
        rep.finding(key, what, replay_obj)


def key_term(k: Any) -> str:
    if k is None:
        return "KNone"
    if isinstance(k, bool):
        return f"(KBool {cq_bool(k)})"
    if isinstance(k, int):
        return f"(KInt {cq_z(k)})"
    if isinstance(k, str):
        return f"(KStr {cq_str(str.__str__(k) if not isinstance(k, enum.Enum) else k.value)})"
    if isinstance(k, _E):
        return f"(KOpq {cq_nat(_EPOOL.index(k))})"
    raise Unmodelled(repr(k))


def val_term(v: Any) -> str:
    """Coq term of a real Python value (used for inputs AND observations, so both go through the same printer)."""
    if v is None:
        return "VNone"
    if isinstance(v, bool):
        return f"(VBool {cq_bool(v)})"
    if isinstance(v, int):
        return f"(VInt {cq_z(v)})"
    if isinstance(v, str):
        return f"(VStr {cq_str(v.value if isinstance(v, enum.Enum) else str.__str__(v))})"
    if isinstance(v, _E):
        return f"(VOpq {cq_nat(_EPOOL.index(v))} true)"
    if isinstance(v, _U):
        return f"(VOpq {cq_nat(10 + v.i)} false)"
    if isinstance(v, list):
        return f"(VList {cq_list(val_term(e) for e in v)})"
    if isinstance(v, tuple):
        return f"(VTuple {cq_list(val_term(e) for e in v)})"
    if isinstance(v, frozenset):
        return f"(VFSet {cq_list(sorted(val_term(e) for e in v))})"
    if isinstance(v, set):
        return f"(VSet {cq_list(sorted(val_term(e) for e in v))})"
    if isinstance(v, dict):
        return f"(VDict {pairs_term(v.items())})"
    raise Unmodelled(repr(v))


def pairs_term(items: Any) -> str:
    return cq_list(f"({key_term(k)}, {val_term(v)})" for k, v in items)


def keys_term(ks: Any) -> str:
    return cq_list(sorted(key_term(k) for k in ks))


STRS = ["a", "b", "c", "ab", ""]
KEYS: List[Any] = ["a", "b", "c", "d", "in_features", "feature_chainer_parser_key", ["K", "in_features"],
                   ["K", "feature_chainer_parser_key"], ["K", "reference_time"], "reference_time"]
ODD_KEYS: List[Any] = [1, True, 0, None, ["E", 0], ["E", 1], 2]


def gen_atom(rng: random.Random) -> Any:
    r = rng.random()
    if r < 0.12:
        return None
    if r < 0.27:
        return rng.choice([True, False])
    if r < 0.52:
        return rng.choice([0, 1, 2, 3, -1, 7])
    if r < 0.85:
        return rng.choice(STRS + ["a", "b"])
    if r < 0.95:
        return ["E", rng.randrange(3)]
    return ["U", rng.randrange(2)]


def is_hashable_desc(d: Any) -> bool:
    if d is None or isinstance(d, (bool, int, str)):
        return True
    tag, x = d
    if tag in ("E", "K", "F"):
        return True
    if tag == "T":
        return all(is_hashable_desc(e) for e in x)
    return False


def gen_key(rng: random.Random, odd: float = 0.12) -> Any:
    return rng.choice(ODD_KEYS) if rng.random() < odd else rng.choice(KEYS)


def gen_val(rng: random.Random, depth: int = 2) -> Any:
    if depth == 0 or rng.random() < 0.45:
        return gen_atom(rng)
    kind = rng.choice("LTSDDL")
    n = rng.choice([0, 1, 1, 2, 2, 3])
    if kind in "LT":
        return [kind, [gen_val(rng, depth - 1) for _ in range(n)]]
    if kind == "S":
        els = []
        for _ in range(n):
            for _try in range(5):
                e = gen_val(rng, depth - 1)
                if is_hashable_desc(e):
                    els.append(e)
                    break
        return ["S" if rng.random() < 0.85 else "F", els]
    return ["D", gen_dict(rng, depth - 1, n, odd=0.2)]


def gen_dict(rng: random.Random, depth: int, n: int, odd: float = 0.12, keys: Optional[List[Any]] = None) -> List[List[Any]]:
    out = []
    for _ in range(n):
        k = rng.choice(keys) if keys is not None and rng.random() < 0.8 else gen_key(rng, odd)
        if k in ("feature_chainer_parser_key", ["K", "feature_chainer_parser_key"]) and rng.random() < 0.8:
            v: Any = gen_chainer_value(rng)
        else:
            v = gen_val(rng, depth)
        out.append([k, v])
    return out


def gen_chainer_value(rng: random.Random) -> Any:
    r = rng.random()
    ks = [rng.choice(["a", "b", "c", "d", 1, ["E", 0], None]) for _ in range(rng.choice([0, 1, 2, 3]))]
    if r < 0.35:
        return ["L", ks]
    if r < 0.5:
        return ["T", ks]
    if r < 0.65:
        return ["S", [k for k in ks]]
    if r < 0.75:
        return rng.choice(["ab", "a", "", "cd"])
    if r < 0.85:
        return ["D", [[k, 1] for k in ks]]
    return gen_val(rng, 1)


def variant(rng: random.Random, d: Any) -> Any:
    """a value that is often == d but written differently (dict / set order, True for 1), sometimes slightly different"""
    if d is None or isinstance(d, str):
        return d if rng.random() < 0.9 else gen_atom(rng)
    if isinstance(d, bool):
        return rng.choice([d, int(d), d, gen_atom(rng)])
    if isinstance(d, int):
        return rng.choice([d, d, bool(d) if d in (0, 1) else d, gen_atom(rng)])
    tag, x = d
    if tag in ("E", "U", "K"):
        return d if rng.random() < 0.9 else gen_atom(rng)
    r = rng.random()
    if tag in ("L", "T"):
        y = [variant(rng, e) for e in x]
        if r < 0.08:
            return ["T" if tag == "L" else "L", y]
        if r < 0.14 and y:
            y = y[:-1]
        if r > 0.94 and len(y) > 1:
            y = y[::-1]
        return [tag, y]
    if tag in ("S", "F"):
        y = [variant(rng, e) if rng.random() < 0.5 else e for e in x]
        y = [e for e in y if is_hashable_desc(e)]
        rng.shuffle(y)
        if r < 0.1 and y:
            y = y[:-1]
        return ["F" if (tag == "S" and r > 0.9) else tag, y]
    y2 = [[variant(rng, k) if (isinstance(k, (bool, int)) and not isinstance(k, str)) else k, variant(rng, v)] for k, v in x]
    y2 = [[k, v] for k, v in y2 if is_hashable_desc(k) and not (isinstance(k, list) and k[0] in ("T", "F", "U"))]
    rng.shuffle(y2)
    if r < 0.1 and y2:
        y2 = y2[:-1]
    return ["D", y2]


# ------------------------------------------------------------------------------------------------------------
# Options operation sequences
# ------------------------------------------------------------------------------------------------------------
def err_code(e: Optional[BaseException]) -> int:
    if e is None:
        return 0
    if isinstance(e, ValueError):
        return 1
    if isinstance(e, TypeError):
        return 2
    return 3


def err_term(c: int) -> str:
    return {0: "Some None", 1: "Some (Some EValue)", 2: "Some (Some EType)", 3: "None"}[c]


def gen_init(rng: random.Random, keys: List[Any]) -> dict:
    g = gen_dict(rng, 2, rng.choice([0, 1, 1, 2, 3]), keys=keys)
    c = gen_dict(rng, 1, rng.choice([0, 0, 1, 1, 2]), keys=keys)
    p: List[Any] = []
    if rng.random() < 0.5:
        cand = [k for k, _ in c] or keys
        p = [rng.choice(cand) for _ in range(rng.choice([1, 1, 2]))]
        if rng.random() < 0.1:
            p.append(rng.choice(keys))
    return {"g": g, "c": c, "p": p}


def build_options(ini: dict) -> Any:
    from mloda.core.abstract_plugins.components.options import Options
    return Options(group=to_py(["D", ini["g"]]), context=to_py(["D", ini["c"]]),
                   propagate_context_keys=frozenset(to_py(k) for k in ini["p"]))


def gen_good_init(rng: random.Random, keys: List[Any]) -> dict:
    for _ in range(50):
        ini = gen_init(rng, keys)
        try:
            build_options(ini)
            return ini
        except Exception:  # noqa: BLE001
            continue
    return {"g": [], "c": [], "p": []}


def gen_sequence(rng: random.Random) -> dict:
    keys = rng.sample(KEYS, rng.choice([3, 4, 5])) + rng.sample(ODD_KEYS, rng.choice([0, 0, 1]))
    ini = gen_init(rng, keys) if rng.random() < 0.25 else gen_good_init(rng, keys)
    ops = []
    for _ in range(rng.randrange(0, 13)):
        kind = rng.choice(["add", "add_group", "add_context", "set", "update", "update", "merge", "merge", "add_context"])
        if kind in ("update", "merge"):
            o: Dict[str, Any] = {"op": kind, "other": gen_good_init(rng, keys)}
            if kind == "update":
                o["prot"] = None if rng.random() < 0.5 else [rng.choice(keys) for _ in range(rng.choice([0, 1, 2]))]
        else:
            k = rng.choice(keys)
            if k in ("feature_chainer_parser_key", ["K", "feature_chainer_parser_key"]) and rng.random() < 0.8:
                v = gen_chainer_value(rng)
            else:
                v = gen_val(rng, 2)
            prev = [o2 for o2 in ops if "v" in o2 and o2["k"] == k] + [{"v": v0} for k0, v0 in ini["g"] + ini["c"] if k0 == k]
            if prev and rng.random() < 0.45:            # re-adding the value a key already has is allowed
                v = variant(rng, prev[-1]["v"]) if rng.random() < 0.5 else prev[-1]["v"]
            o = {"op": kind, "k": k, "v": v}
        ops.append(o)
    return {"init": ini, "ops": ops}


def state_term(o: Any) -> str:
    return f"({pairs_term(o.group.items())}, {pairs_term(o.context.items())}, {keys_term(o.propagate_context_keys)})"


def disjoint_now(o: Any) -> bool:
    return not (set(o.group.keys()) & set(o.context.keys()))


def run_sequence(case: dict) -> dict:
    """run the real Options object through the sequence; returns observation (Coq terms) + property verdicts"""
    from mloda.core.abstract_plugins.components.feature_collection import Features
    obs: Dict[str, Any] = {"init_err": 0, "steps": [], "errs": [], "disjoint_ok": True, "unmodelled": False}
    try:
        o = build_options(case["init"])
    except Exception as e:  # noqa: BLE001
        obs["init_err"] = err_code(e)
        return obs
    if not disjoint_now(o):
        obs["disjoint_ok"] = False

    def probe() -> None:
        # observations (hash, ==, repr) are made BETWEEN the operations: they must not influence what comes after
        # (a memoised hash that survives a later mutation would make equal objects hash differently)
        try:
            hash(o)
        except TypeError:
            pass
        try:
            o == o  # noqa: B015
            repr(o)
        except Exception:  # noqa: BLE001
            pass
    probe()
    for op in case["ops"]:
        err: Optional[BaseException] = None
        try:
            if op["op"] in ("update", "merge"):
                other = build_options(op["other"])
                if op["op"] == "update":
                    prot = None if op["prot"] is None else {to_py(k) for k in op["prot"]}
                    o.update_with_protected_keys(other, prot)
                else:
                    Features.merge_options(None, o, other)  # type: ignore[arg-type]
            else:
                k, v = to_py(op["k"]), to_py(op["v"])
                {"add": o.add, "add_group": o.add_to_group, "add_context": o.add_to_context, "set": o.set}[op["op"]](k, v)
        except Exception as e:  # noqa: BLE001
            err = e
        if not disjoint_now(o):
            obs["disjoint_ok"] = False
        obs["errs"].append(err_code(err))
        obs["steps"].append(f"({state_term(o)}, {err_term(err_code(err))})")
        probe()
    # identity after the history: a FRESH Options with the same content must be equal to o and hash like it
    # (Coq: equal options have equal hashes; here: the object's history, incl. the observations above, is irrelevant)
    obs["history_hash_ok"] = True
    try:
        from mloda.core.abstract_plugins.components.options import Options
        fresh = Options(group=dict(o.group), context=dict(o.context), propagate_context_keys=frozenset(o.propagate_context_keys))
        if not (fresh == o and o == fresh):
            obs["history_hash_ok"] = "a fresh Options with the same group/context is not equal to the object after its history"
        else:
            try:
                hf: Optional[int] = hash(fresh)
            except TypeError:
                hf = None
            try:
                ho: Optional[int] = hash(o)
            except TypeError:
                ho = None
            if hf != ho:
                obs["history_hash_ok"] = f"equal Options hash differently: after its history {ho}, fresh with the same content {hf}"
    except Exception as e:  # noqa: BLE001
        obs["history_hash_ok"] = f"building a fresh Options from the final content raised {type(e).__name__}: {e}"[:200]
    return obs


def init_term(ini: dict) -> str:
    return (f"({pairs_term((to_py(k), to_py(v)) for k, v in ini['g'])}, {pairs_term((to_py(k), to_py(v)) for k, v in ini['c'])}, "
            f"{cq_list(key_term(to_py(k)) for k in ini['p'])})")


def op_term(op: dict) -> str:
    if op["op"] in ("update", "merge"):
        other = f"(mk_other {init_term(op['other'])})"
        if op["op"] == "merge":
            return f"(OpMerge {other})"
        prot = "None" if op["prot"] is None else f"(Some {cq_list(key_term(to_py(k)) for k in op['prot'])})"
        return f"(OpUpdate {other} {prot})"
    c = {"add": "OpAdd", "add_group": "OpAddGroup", "add_context": "OpAddContext", "set": "OpSet"}[op["op"]]
    return f"({c} {key_term(to_py(op['k']))} {val_term(to_py(op['v']))})"


def seq_term(case: dict, obs: dict) -> str:
    return f"({init_term(case['init'])}, {cq_list(op_term(o) for o in case['ops'])}, ({err_term(obs['init_err'])}, {cq_list(obs['steps'])}))"


EXTRA_OPS = """
Definition ini_t := (list (pykey * pyval) * list (pykey * pyval) * list pykey)%type.
Definition mk_other (i : ini_t) : ostate :=
  match i with (g, c, p) => match o_init g c p with inl s => s | inr _ => {| og := []; oc := []; opk := [] |} end end.
Definition dict_same (a b : list (pykey * pyval)) := all2 (fun x y => key_same (fst x) (fst y) && val_same (snd x) (snd y)) a b.
Definition keys_sub (a b : list pykey) := forallb (fun k => existsb (key_same k) b) a.
Definition state_same (s : ostate) (o : ini_t) :=
  match o with (g, c, p) => dict_same (og s) g && dict_same (oc s) c && keys_sub (opk s) p && keys_sub p (opk s) end.
Definition err_same (e : option oerr) (o : option (option oerr)) :=
  match o, e with
  | Some None, None | Some (Some EValue), Some EValue | Some (Some EType), Some EType => true
  | _, _ => false
  end.
Definition case_t := (ini_t * list oop * (option (option oerr) * list (ini_t * option (option oerr))))%type.
Definition chk_ops (c : case_t) : bool :=
  match c with
  | ((g, cx, p), ops, (ie, steps)) =>
      match o_init g cx p with
      | inr e => err_same (Some e) ie && is_nil steps
      | inl s => err_same None ie &&
                 all2 (fun m o => state_same (fst m) (fst o) && err_same (snd m) (snd o)) (o_trace s ops) steps
      end
  end.
"""


def check_ops(rep: vlib.Reporter, rng: random.Random, n: int) -> bool:
    cases, obss = [], []
    dist = {"ops": {}, "errors": {0: 0, 1: 0, 2: 0, 3: 0}, "lengths": {}, "init_errors": 0, "unmodelled": 0}
    found = False
    corpus = [json.load(open(f))["case"] for f in sorted((vlib.CORPUS / P).glob("ops_*.json"))] if (vlib.CORPUS / P).exists() else []
    dist["corpus_cases"] = len(corpus)
    while len(cases) < n + len(corpus):
        case = corpus[len(cases)] if len(cases) < len(corpus) else gen_sequence(rng)
        try:
            obs = run_sequence(case)
        except Unmodelled:
            dist["unmodelled"] += 1
            continue
        cases.append(case)
        obss.append(obs)
        dist["lengths"][len(case["ops"])] = dist["lengths"].get(len(case["ops"]), 0) + 1
        if obs["init_err"]:
            dist["init_errors"] += 1
        for op, e in zip(case["ops"], obs["errs"]):
            dist["ops"][op["op"]] = dist["ops"].get(op["op"], 0) + 1
            dist["errors"][e] += 1
        if not obs["disjoint_ok"]:
            report(rep, "disjoint", "disjoint:" + json.dumps(case)[:300], "a key is present in both group and context of a real Options object "
                   "after the call sequence", {"kind": "ops", "case": case})
            found = True
        if obs.get("history_hash_ok", True) is not True:
            report(rep, "history-hash", "history-hash:" + json.dumps(case)[:300], str(obs["history_hash_ok"]), {"kind": "ops", "case": case})
            found = True
        if obs["init_err"] == 0 and len(case["ops"]) >= 2 and any(obs["errs"]) and not all(obs["errs"]):
            rep.nontrivial(("ops", case))
    terms = [seq_term(c, o) for c, o in zip(cases, obss)]
    bad, info = vlib.run_cases(P, "ops", REQ, "chk_ops", terms, extra_defs=EXTRA_OPS, case_type="case_t", shard=200)
    rep.count(len(cases))
    rep.add("ops", {**info, "sequences": len(cases), "operation_mix": dist["ops"],
                    "error_kinds": {"none": dist["errors"][0], "ValueError": dist["errors"][1], "TypeError": dist["errors"][2],
                                    "other": dist["errors"][3]},
                    "sequence_lengths": dict(sorted(dist["lengths"].items())), "constructor_errors": dist["init_errors"],
                    "corpus_cases_run_first": dist["corpus_cases"],
                    "disagreements": len(bad)})
    for i in bad[:5]:
        rep.finding("ops:" + json.dumps(cases[i])[:300],
                    "state / exception of the real Options object after a call sequence differs from the model "
                    f"(observed errors {obss[i]['errs']}, init {obss[i]['init_err']})", {"kind": "ops", "case": cases[i]})
        found = True
    rep.sample({"kind": "ops", **cases[min(3, len(cases) - 1)]})
    return found


# ------------------------------------------------------------------------------------------------------------
# values: ==, _make_hashable, hash definedness
# ------------------------------------------------------------------------------------------------------------
EXTRA_VAL = """
Definition osame (m : option pyval) (o : option pyval) :=
  match m, o with Some x, Some y => val_same x y | None, None => true | _, _ => false end.
Definition is_some {A} (o : option A) := match o with Some _ => true | None => false end.
Definition val_case := ((pyval * pyval) * (bool * option pyval * option pyval * bool * bool))%type.
Definition chk_val (c : val_case) : bool :=
  match c with
  | ((a, b), (oeq, oca, ocb, ha, hb)) =>
      Bool.eqb (py_eq a b) oeq && osame (canon a) oca && osame (canon b) ocb
      && Bool.eqb (is_some (hash_key a)) ha && Bool.eqb (is_some (hash_key b)) hb
  end.
"""


def observe_canon(v: Any) -> Tuple[Optional[str], bool, Optional[int]]:
    """(_make_hashable(v) as a Coq term or None on TypeError, hash defined?, the hash)"""
    from mloda.core.abstract_plugins.components.hashable_dict import _make_hashable
    try:
        c = _make_hashable(v)
    except TypeError:
        return None, False, None
    try:
        h: Optional[int] = hash(c)
    except TypeError:
        h = None
    return val_term(c), h is not None, h


def check_values(rep: vlib.Reporter, rng: random.Random, n: int) -> bool:
    from mloda.core.abstract_plugins.components.options import Options
    found = False
    terms, descs = [], []
    stats = {"equal": 0, "equal_nontrivially": 0, "canon_typeerror": 0, "unhashable": 0, "hash_checked": 0, "options_pairs": 0}
    while len(terms) < n:
        a = gen_val(rng, 3) if rng.random() < 0.7 else ["D", gen_dict(rng, 2, rng.choice([1, 2, 3]))]
        b = variant(rng, a) if rng.random() < 0.85 else gen_val(rng, 2)
        try:
            pa_, pb = to_py(a), to_py(b)
            ta, tb = val_term(pa_), val_term(pb)
        except (Unmodelled, TypeError):
            continue
        eq = bool(pa_ == pb)
        ca, ha, hva = observe_canon(pa_)
        cb, hb, hvb = observe_canon(pb)
        if eq:
            stats["equal"] += 1
            if ta != tb:
                stats["equal_nontrivially"] += 1
                rep.nontrivial(("val", a, b))
            if ha and hb:
                stats["hash_checked"] += 1
                if hva != hvb:
                    report(rep, "valhash", "valhash:" + json.dumps([a, b])[:300], "two equal option values hash differently after _make_hashable",
                           {"kind": "val", "a": a, "b": b})
                    found = True
            # the same on Options objects, when both are dictionaries
            if isinstance(pa_, dict) and isinstance(pb, dict):
                stats["options_pairs"] += 1
                oa, ob = Options(group=pa_), Options(group=pb)
                try:
                    h1, h2 = hash(oa), hash(ob)
                    if not (oa == ob) or h1 != h2:
                        report(rep, "opthash", "opthash:" + json.dumps([a, b])[:300], "Options with equal group dictionaries are unequal or hash differently",
                               {"kind": "val", "a": a, "b": b})
                        found = True
                except TypeError:
                    pass
        stats["canon_typeerror"] += (ca is None) + (cb is None)
        stats["unhashable"] += (ca is not None and not ha) + (cb is not None and not hb)
        terms.append(f"(({ta}, {tb}), ({cq_bool(eq)}, {vlib.cq_opt(ca)}, {vlib.cq_opt(cb)}, {cq_bool(ha)}, {cq_bool(hb)}))")
        descs.append([a, b])
    bad, info = vlib.run_cases(P, "values", REQ, "chk_val", terms, extra_defs=EXTRA_VAL, case_type="val_case", shard=300)
    rep.count(len(terms))
    rep.add("values", {**info, "pairs": len(terms), **stats, "disagreements": len(bad)})
    for i in bad[:5]:
        rep.finding("val:" + json.dumps(descs[i])[:300], "Python == / _make_hashable / hash definedness of an option value differs from the model",
                    {"kind": "val", "a": descs[i][0], "b": descs[i][1]})
        found = True
    rep.sample({"kind": "val", "a": descs[0][0], "b": descs[0][1]})
    return found


# ------------------------------------------------------------------------------------------------------------
# identities: Feature, Link, Index, SingleFilter
# ------------------------------------------------------------------------------------------------------------
REQ_ID = ["MV.Model.Options", "MV.Model.Identity"]
DTYPES = ["INT32", "INT64", "FLOAT", "DOUBLE", "BOOLEAN", "STRING", "BINARY", "DATE", "TIMESTAMP_MILLIS", "TIMESTAMP_MICROS", "DECIMAL"]
EXTRA_ID = EXTRA_OPS + """
Definition is_some {A} (o : option A) := match o with Some _ => true | None => false end.
Definition oeq_same (m : option bool) (o : option bool) :=
  match m, o with Some x, Some y => Bool.eqb x y | None, None => true | _, _ => false end.
(* observed: a == b (None = raised), hash(a) defined, hash(b) defined, hash(a) == hash(b) (None = not both defined).
   Equal modelled hash keys must come with equal observed hashes (the converse cannot be demanded: Python's hash
   collides on different keys, e.g. hash("") = hash(0)). *)
Definition kf_ctx_inf (a : feat) : bool := match f_child_inf a with Some (InContext, _) => true | _ => false end.
Definition feat_case := ((feat * feat) * (option bool * bool * bool * option bool))%type.
Definition chk_feat (c : feat_case) : bool :=
  match c with ((a, b), (oe, ha, hb, oheq)) =>
    oeq_same (feat_eq a b) oe && Bool.eqb (is_some (feat_hkey a)) ha && Bool.eqb (is_some (feat_hkey b)) hb
    && match feat_hkey a, feat_hkey b, oheq with
       | Some x, Some y, Some o => if py_eq x y then o else true   (* equal keys must give equal hashes; hash("") = hash(0) *)
       | _, _, _ => true
       end
  end.
Definition link_case := ((plink * plink) * bool)%type.
Definition chk_link (c : link_case) : bool := Bool.eqb (plink_eq (fst (fst c)) (snd (fst c))) (snd c).
Definition idx_case := ((list string * list string) * bool)%type.
Definition chk_idx (c : idx_case) : bool := Bool.eqb (idx_eq (fst (fst c)) (snd (fst c))) (snd c).
(* (feature, type, params) twice; observed: constructed a, constructed b, eq, hash a defined, hash b defined.
   inside the known-finding domain (an unhashable parameter value) the hash flag is not compared *)
Definition sfd := (feat * string * list (pykey * pyval))%type.
Definition sf_case := ((sfd * sfd) * (bool * bool * option bool * bool * bool))%type.
Definition kf_unhashable_param (f : sfilter) : bool := negb (forallb (fun kv => hashable (snd kv)) (sf_raw f)).
Definition chk_sf (c : sf_case) : bool :=
  match c with ((((fa, ta), pa), ((fb, tb), pb)), (ca, cb, oe, ha, hb)) =>
    match sf_make fa ta pa, sf_make fb tb pb with
    | Some a, Some b => ca && cb && oeq_same (sf_eq a b) oe
                        && (kf_unhashable_param a || Bool.eqb (is_some (sf_hkey a)) ha)
                        && (kf_unhashable_param b || Bool.eqb (is_some (sf_hkey b)) hb)
    | Some a, None => ca && negb cb && (kf_unhashable_param a || Bool.eqb (is_some (sf_hkey a)) ha)
    | None, Some b => negb ca && cb && (kf_unhashable_param b || Bool.eqb (is_some (sf_hkey b)) hb)
    | None, None => negb ca && negb cb
    end
  end.
"""

_CFW: List[type] = []


def cfw_classes() -> List[type]:
    if not _CFW:
        from mloda_plugins.compute_framework.base_implementations.pyarrow.table import PyArrowTable
        from mloda_plugins.compute_framework.base_implementations.pandas.dataframe import PandasDataFrame
        from mloda_plugins.compute_framework.base_implementations.python_dict.python_dict_framework import PythonDictFramework
        _CFW.extend([PyArrowTable, PandasDataFrame, PythonDictFramework])
    return _CFW


def gen_feat(rng: random.Random) -> dict:
    keys = rng.sample(KEYS[:5], 3)
    o = gen_good_init(rng, keys)
    o["p"] = []
    child = None
    if rng.random() < 0.4:
        child = gen_good_init(rng, keys)
        child["p"] = []
    inf = None
    if rng.random() < 0.3:                 # child_options[in_features] holds Feature objects
        inf = gen_inf(rng)
        child = child or {"g": [], "c": [], "p": []}
        child["g"] = [kv for kv in child["g"] if not is_inf_key(kv[0])]
        child["c"] = [kv for kv in child["c"] if not is_inf_key(kv[0])]
    return {"name": rng.choice(["f", "g"]), "opt": o, "domain": rng.choice([None, None, "d1", "d2"]),
            "cfw": rng.choice([None, None, [0], [1], [0, 1]]), "dtype": rng.choice([None, None, 1, 3, 5]), "child": child, "inf": inf}


INF_NAMES = ["n0", "n3", "n1", "n7", "p", "q"]       # n0 / n3 iterate in insertion-dependent order under PYTHONHASHSEED=0


def is_inf_key(k: Any) -> bool:
    return k == "in_features" or k == ["K", "in_features"]


def gen_inf(rng: random.Random) -> dict:
    kind = "set" if rng.random() < 0.8 else "one"
    m = rng.choice([1, 2, 2, 3, 4]) if kind == "set" else 1
    elems = []
    while len(elems) < m:
        e = [rng.choice(INF_NAMES), rng.choice([0, 0, 1])]
        if e not in elems:
            elems.append(e)
    return {"loc": "group" if rng.random() < 0.75 else "context", "kind": kind, "elems": elems}


def build_inf(inf: dict) -> Any:
    from mloda.core.abstract_plugins.components.feature import Feature
    from mloda.core.abstract_plugins.components.options import Options
    fs = [Feature(n, Options(group={"e": c}) if c else Options()) for n, c in inf["elems"]]
    return frozenset(fs) if inf["kind"] == "set" else fs[0]


def feat_variant(rng: random.Random, f: dict) -> dict:
    g = json.loads(json.dumps(f))
    r = rng.random()
    if f.get("inf") and rng.random() < 0.5:
        r = 0.9                                # vary the Feature-valued in_features (branch below)
    if r < 0.3:
        pass
    elif r < 0.38:
        g["name"] = rng.choice(["f", "g"])
    elif r < 0.5:
        g["opt"]["g"] = variant(rng, ["D", f["opt"]["g"]])[1]
    elif r < 0.62:
        g["opt"]["c"] = variant(rng, ["D", f["opt"]["c"]])[1] if rng.random() < 0.5 else gen_dict(rng, 1, 1, keys=["zz"])
    elif r < 0.7:
        g["domain"] = rng.choice([None, "d1", "d2"])
    elif r < 0.78:
        g["cfw"] = rng.choice([None, [0], [1], [1, 0]])
    elif r < 0.86:
        g["dtype"] = rng.choice([None, 1, 3])
    elif r < 0.93 or f.get("inf"):
        if f.get("inf") and rng.random() < 0.85:
            i2 = g["inf"]
            rr = rng.random()
            if rr < 0.55:
                i2["elems"] = i2["elems"][::-1] if rng.random() < 0.5 else rng.sample(i2["elems"], len(i2["elems"]))   # same set, other insertion order
            elif rr < 0.75:
                i2["elems"][rng.randrange(len(i2["elems"]))] = [rng.choice(INF_NAMES), rng.choice([0, 1])]
                i2["elems"] = [e for k, e in enumerate(i2["elems"]) if e not in i2["elems"][:k]]
            elif rr < 0.9:
                i2["loc"] = "context" if i2["loc"] == "group" else "group"
            else:
                g["inf"] = gen_inf(rng)
        else:
            g["child"] = None if rng.random() < 0.3 else (f["child"] and {**f["child"], "g": variant(rng, ["D", f["child"]["g"]])[1]}) or gen_good_init(rng, KEYS[:3])
            if g["child"]:
                g["child"]["p"] = []
            if g.get("inf"):
                g["child"] = g["child"] or {"g": [], "c": [], "p": []}
                g["child"]["g"] = [kv for kv in g["child"]["g"] if not is_inf_key(kv[0])]
                g["child"]["c"] = [kv for kv in g["child"]["c"] if not is_inf_key(kv[0])]
    # a variant may have created a group/context overlap: reject by construction check
    try:
        build_options(g["opt"])
        if g["child"]:
            build_options(g["child"])
    except Exception:  # noqa: BLE001
        return json.loads(json.dumps(f))
    return g


def build_feat(d: dict) -> Any:
    from mloda.core.abstract_plugins.components.feature import Feature
    from mloda.core.abstract_plugins.components.data_types import DataType
    f = Feature(d["name"], options=build_options(d["opt"]), domain=d["domain"],
                data_type=None if d["dtype"] is None else DataType[DTYPES[d["dtype"]]])
    if d["cfw"] is not None:
        f._set_compute_frameworks({cfw_classes()[i] for i in d["cfw"]})
    if d["child"] is not None:
        f.child_options = build_options(d["child"])
    if d.get("inf"):
        target = f.child_options.group if d["inf"]["loc"] == "group" else f.child_options.context
        target["in_features"] = build_inf(d["inf"])
    return f


def feat_term(d: dict) -> str:
    cf = "None" if d["cfw"] is None else f"(Some {cq_list(cq_nat(i) for i in d['cfw'])})"
    ch = "None" if d["child"] is None else f"(Some (mk_other {init_term(d['child'])}))"
    inf = "None"
    if d.get("inf"):
        els = cq_list(f"({cq_str(n)}, {cq_nat(c)})" for n, c in d["inf"]["elems"])
        val = f"(InfSet {els})" if d["inf"]["kind"] == "set" else f"(InfOne ({cq_str(d['inf']['elems'][0][0])}, {cq_nat(d['inf']['elems'][0][1])}))"
        inf = f"(Some ({'InGroup' if d['inf']['loc'] == 'group' else 'InContext'}, {val}))"
    return (f"{{| f_name := {cq_str(d['name'])}; f_opt := mk_other {init_term(d['opt'])}; f_domain := {vlib.cq_opt(None if d['domain'] is None else cq_str(d['domain']))}; "
            f"f_cfw := {cf}; f_dtype := {vlib.cq_opt(None if d['dtype'] is None else cq_nat(d['dtype']))}; f_child := {ch}; f_child_inf := {inf} |}}")


def observe_eq_hash(a: Any, b: Any) -> Tuple[Optional[bool], Optional[int], Optional[int], Optional[str]]:
    """(a == b or None if it raised, hash(a) or None, hash(b) or None, unexpected exception text)"""
    odd = None
    try:
        e: Optional[bool] = bool(a == b)
    except ValueError:
        e = None
    except Exception as ex:  # noqa: BLE001
        e, odd = None, f"eq: {type(ex).__name__}: {ex}"
    hs: List[Optional[int]] = []
    for x in (a, b):
        try:
            hs.append(hash(x))
        except TypeError:
            hs.append(None)
        except Exception as ex:  # noqa: BLE001
            hs.append(None)
            odd = f"hash: {type(ex).__name__}: {ex}"
    return e, hs[0], hs[1], odd


def opt_b(e: Optional[bool]) -> str:
    return "None" if e is None else f"(Some {cq_bool(e)})"


def check_coherence(rep: vlib.Reporter, what: str, desc: Any, e: Optional[bool], h1: Optional[int], h2: Optional[int],
                    odd: Optional[str]) -> bool:
    """the property itself on the implementation: equal objects hash equal"""
    if odd:
        report(rep, what + "-odd", f"{what}-odd:" + json.dumps(desc)[:300], f"unexpected exception comparing / hashing {what} objects: {odd}",
               {"kind": what, "pair": desc})
        return True
    if e and h1 is not None and h2 is not None and h1 != h2:
        report(rep, what + "-hash", f"{what}-hash:" + json.dumps(desc)[:300], f"two equal {what} objects have different hashes",
               {"kind": what, "pair": desc})
        return True
    return False


def check_ident(rep: vlib.Reporter, rng: random.Random, n: int) -> bool:
    from mloda.core.abstract_plugins.components.link import Link, JoinSpec, JoinType
    from mloda.core.abstract_plugins.components.index.index import Index
    from mloda.core.abstract_plugins.feature_group import FeatureGroup
    from mloda.core.filter.single_filter import SingleFilter
    from mloda.core.filter.global_filter import GlobalFilter
    found = False
    info_all: Dict[str, Any] = {}

    # ---- Feature
    terms, descs = [], []
    st = {"equal": 0, "unequal": 0, "eq_raised": 0, "equal_hash_checked": 0, "unhashable": 0, "context_only_difference": 0,
          "with_feature_valued_in_features": 0, "equal_with_reordered_in_features": 0, "child_context_in_features_domain": 0}
    kf_ctx: Optional[dict] = None
    for _ in range(n):
        fa = gen_feat(rng)
        fb = feat_variant(rng, fa) if rng.random() < 0.9 else gen_feat(rng)
        try:
            a, b = build_feat(fa), build_feat(fb)
            ta, tb = feat_term(fa), feat_term(fb)
        except Unmodelled:
            continue
        e, h1, h2, odd = observe_eq_hash(a, b)
        in_kf = any(x.get("inf") and x["inf"]["loc"] == "context" for x in (fa, fb))
        st["child_context_in_features_domain"] += in_kf
        st["with_feature_valued_in_features"] += bool(fa.get("inf") or fb.get("inf"))
        if in_kf and not odd and e and h1 is not None and h2 is not None and h1 != h2:
            kf_ctx = kf_ctx or {"kind": "feature", "pair": [fa, fb]}      # known-finding domain only
        else:
            found |= check_coherence(rep, "feature", [fa, fb], e, h1, h2, odd)   # strict everywhere else
        if e and fa.get("inf") and fb.get("inf") and fa["inf"]["elems"] != fb["inf"]["elems"] and h1 is not None and h2 is not None:
            st["equal_with_reordered_in_features"] += 1
        st["equal" if e else ("eq_raised" if e is None else "unequal")] += 1
        st["unhashable"] += (h1 is None) + (h2 is None)
        if e and h1 is not None and h2 is not None:
            st["equal_hash_checked"] += 1
            if fa != fb:
                rep.nontrivial(("feat", fa, fb))
        if e is False and h1 is not None and h1 == h2 and a.options.context != b.options.context:
            st["context_only_difference"] += 1
        heq = opt_b(h1 == h2) if (h1 is not None and h2 is not None) else "None"
        terms.append(f"(({ta}, {tb}), ({opt_b(e)}, {cq_bool(h1 is not None)}, {cq_bool(h2 is not None)}, {heq}))")
        descs.append([fa, fb])
    bad, info = vlib.run_cases(P, "feat", REQ_ID, "chk_feat", terms, extra_defs=EXTRA_ID, case_type="feat_case", shard=250)
    rep.count(len(terms))
    info_all["feature"] = {**info, "pairs": len(terms), **st, "disagreements": len(bad)}
    for i in bad[:5]:
        rep.finding("feat:" + json.dumps(descs[i])[:300], "Feature.__eq__ result / hash definedness / hash equality differs from the model",
                    {"kind": "feature", "pair": descs[i]})
        found = True
    rep.sample({"kind": "feature", "pair": descs[0]})

    # ---- Link / Index
    classes = [type(f"K15L{i}", (FeatureGroup,), {}) for i in range(3)]
    jts = list(JoinType)
    lt, it, ld = [], [], []
    lst = {"equal": 0}
    for _ in range(max(200, n // 4)):
        def gl() -> dict:
            return {"jt": rng.randrange(3), "l": rng.randrange(2), "r": rng.randrange(2),
                    "li": [rng.choice("ab") for _ in range(rng.choice([1, 1, 2]))], "ri": [rng.choice("ab")]}
        la = gl()
        lb = dict(la) if rng.random() < 0.4 else gl()
        A, B = [Link(jts[x["jt"]], JoinSpec(classes[x["l"]], tuple(x["li"])), JoinSpec(classes[x["r"]], tuple(x["ri"]))) for x in (la, lb)]
        e, h1, h2, odd = observe_eq_hash(A, B)
        found |= check_coherence(rep, "link", [la, lb], e, h1, h2, odd)
        lst["equal"] += bool(e)
        def lterm(x: dict) -> str:
            return (f"{{| pl_jt := {cq_nat(x['jt'])}; pl_left := {cq_str(classes[x['l']].__name__)}; pl_right := {cq_str(classes[x['r']].__name__)}; "
                    f"pl_lidx := {cq_list(cq_str(c) for c in x['li'])}; pl_ridx := {cq_list(cq_str(c) for c in x['ri'])} |}}")
        lt.append(f"(({lterm(la)}, {lterm(lb)}), {cq_bool(bool(e))})")
        ld.append([la, lb])
        ia, ib = Index(tuple(la["li"])), Index(tuple(lb["li"]))
        e2, g1, g2, odd2 = observe_eq_hash(ia, ib)
        found |= check_coherence(rep, "index", [la["li"], lb["li"]], e2, g1, g2, odd2)
        it.append(f"(({cq_list(cq_str(c) for c in la['li'])}, {cq_list(cq_str(c) for c in lb['li'])}), {cq_bool(bool(e2))})")
    bad, info = vlib.run_cases(P, "link", REQ_ID, "chk_link", lt, extra_defs=EXTRA_ID, case_type="link_case")
    bad2, _ = vlib.run_cases(P, "index", REQ_ID, "chk_idx", it, extra_defs=EXTRA_ID, case_type="idx_case")
    rep.count(len(lt) + len(it))
    info_all["link_index"] = {"pairs": len(lt), "equal_links": lst["equal"], "disagreements": len(bad) + len(bad2)}
    for i in (bad + bad2)[:5]:
        rep.finding("link:" + json.dumps(ld[i])[:300], "Link / Index __eq__ differs from the model", {"kind": "link", "pair": ld[i]})
        found = True

    # ---- SingleFilter
    terms, descs = [], []
    fst = {"constructed": 0, "equal": 0, "unhashable_parameter": 0, "equal_hash_checked": 0}
    kf_hit: Optional[dict] = None
    PK = ["value", "values", "min", "max", "max_exclusive"]
    for _ in range(n):
        def gs() -> dict:
            m = rng.choice([0, 1, 1, 2, 2])
            def pv() -> Any:
                r = rng.random()
                if r < 0.7:
                    a = gen_atom(rng)
                    return a if not (isinstance(a, list) and a[0] == "U") else 1
                if r < 0.82:
                    return ["T", [rng.choice([1, 2, "a"]) for _ in range(rng.choice([1, 2]))]]
                return gen_val(rng, 1) if r < 0.9 else ["L", [1, 2]]
            params = [[rng.choice(PK) if rng.random() < 0.95 else rng.choice([1, None]), pv()] for _ in range(m)]
            ff = gen_feat(rng)
            ff["child"], ff["inf"] = None, None
            return {"feat": ff, "type": rng.choice(["range", "equal", "categorical_inclusion"]), "params": params}
        sa = gs()
        sb = json.loads(json.dumps(sa)) if rng.random() < 0.5 else gs()
        if rng.random() < 0.3:
            sb["params"] = sb["params"][::-1]
        objs: List[Any] = []
        try:
            tterms = [f"({feat_term(x['feat'])}, {cq_str(x['type'])}, {pairs_term((to_py(k), to_py(v)) for k, v in x['params'])})" for x in (sa, sb)]
        except Unmodelled:
            continue
        for x in (sa, sb):
            try:
                objs.append(SingleFilter(build_feat(x["feat"]), x["type"], to_py(["D", x["params"]])))
            except (ValueError, TypeError):
                objs.append(None)
        ca, cb = objs[0] is not None, objs[1] is not None
        fst["constructed"] += ca + cb
        e, h1, h2, odd = (None, None, None, None)
        if ca and cb:
            e, h1, h2, odd = observe_eq_hash(objs[0], objs[1])
            found |= check_coherence(rep, "filter", [sa, sb], e, h1, h2, odd)
            fst["equal"] += bool(e)
            if e and h1 is not None and h2 is not None:
                fst["equal_hash_checked"] += 1
                if sa != sb:
                    rep.nontrivial(("sf", sa, sb))
        else:
            for j, o in enumerate(objs):
                if o is not None:
                    try:
                        hh: Optional[int] = hash(o)
                    except TypeError:
                        hh = None
                    if j == 0:
                        h1 = hh
                    else:
                        h2 = hh
        for x, o, hh in ((sa, objs[0], h1), (sb, objs[1], h2)):
            if o is not None and hh is None and any(not is_hashable_desc(v) for _, v in x["params"]) and kf_hit is None:
                try:
                    hash(o.filter_feature)
                    kf_hit = x
                except TypeError:
                    pass
        fst["unhashable_parameter"] += sum(1 for x in (sa, sb) if any(not is_hashable_desc(v) for _, v in x["params"]))
        terms.append(f"(({tterms[0]}, {tterms[1]}), ({cq_bool(ca)}, {cq_bool(cb)}, {opt_b(e) if (ca and cb) else 'None'}, "
                     f"{cq_bool(h1 is not None)}, {cq_bool(h2 is not None)}))")
        descs.append([sa, sb])
    # chk_sf compares eq only when both constructed; give it the observed eq in that case
    bad, info = vlib.run_cases(P, "filter", REQ_ID, "chk_sf", terms, extra_defs=EXTRA_ID, case_type="sf_case", shard=200)
    rep.count(len(terms))
    info_all["single_filter"] = {**info, "pairs": len(terms), **fst, "disagreements": len(bad)}
    for i in bad[:5]:
        rep.finding("sf:" + json.dumps(descs[i])[:300], "SingleFilter construction / __eq__ / hash definedness differs from the model",
                    {"kind": "filter", "pair": descs[i]})
        found = True
    rep.sample({"kind": "filter", "pair": descs[0]})

    # ---- known finding 1: a filter with a list-valued parameter cannot be hashed, GlobalFilter.add_filter raises
    wit = {"feature": "f", "type": "categorical_inclusion", "parameter": {"values": [1, 2]}}
    try:
        GlobalFilter().add_filter(wit["feature"], wit["type"], dict(wit["parameter"]))
        raised = None
    except TypeError as ex:
        raised = str(ex)
    info_all["kf_filter_unhashable"] = {"witness": wit, "add_filter_raises": raised, "random_case_in_domain": kf_hit is not None}
    if raised is not None:
        rep.finding("C15-filter-unhashable-parameter", "GlobalFilter.add_filter with a list-valued parameter raises TypeError: " + raised,
                    {"kind": "kf_filter", **wit})
    # ---- repaired finding (fixed:17adca0, suppresses nothing): child_options[in_features] = equal frozensets of Features
    # with different iteration orders must hash equal.  Strict: a failure is a VIOLATION.
    w2 = infeatures_witness()
    info_all["feature_hash_in_features_order"] = w2
    if w2.get("equal") and not w2.get("hash_equal"):
        rep.finding("C15-feature-hash-infeatures-order", "two equal Features (child_options[in_features] = the same frozenset of "
                    f"Features {w2.get('pair')} built in two orders) hash differently", {"kind": "kf_infeatures", **w2})
        found = True
    # ---- known finding: the same Feature-valued in_features in the CONTEXT of the child options
    w3 = child_context_witness()
    info_all["kf_feature_hash_child_context"] = {**w3, "random_case_in_domain": kf_ctx is not None}
    if (w3["equal"] and not w3["hash_equal"]) or kf_ctx:
        rep.finding("C15-feature-hash-child-context-infeatures", "two equal Features hash differently (in_features in the child context)",
                    kf_ctx or {"kind": "kf_child_context", **w3})
    rep.add("identities", info_all)
    return found


def child_context_witness() -> dict:
    from mloda.core.abstract_plugins.components.feature import Feature
    from mloda.core.abstract_plugins.components.options import Options

    def mk(n: str) -> Any:
        f = Feature("top")
        f.child_options = Options(group={"x": 1}, context={"in_features": frozenset([Feature(n)])})
        return f
    a, b = mk("p"), mk("q")
    return {"equal": bool(a == b), "hash_equal": hash(a) == hash(b)}


def infeatures_witness() -> dict:
    """two Features whose child_options[in_features] are equal frozensets of two Features with different iteration order"""
    from mloda.core.abstract_plugins.components.feature import Feature
    from mloda.core.abstract_plugins.components.options import Options
    names = [f"n{i}" for i in range(300)]
    pair = None
    for x, y in itertools.combinations(names[:60], 2):
        if [f.name.name for f in frozenset([Feature(x), Feature(y)])] != [f.name.name for f in frozenset([Feature(y), Feature(x)])]:
            pair = (x, y)
            break
    if pair is None:
        return {"pair": None}

    def mk(rev: bool) -> Any:
        fs = [Feature(pair[0]), Feature(pair[1])]
        f = Feature("top")
        f.child_options = Options({"in_features": frozenset(fs[::-1] if rev else fs)})
        return f
    a, b = mk(False), mk(True)
    return {"pair": list(pair), "equal": bool(a == b), "hash_equal": hash(a) == hash(b), "set_size": len({a, b})}


# ------------------------------------------------------------------------------------------------------------
# grouping: unit level (real Features through the real grouping function) and end to end (mloda.run_all)
# ------------------------------------------------------------------------------------------------------------
REQ_G = REQ_ID + ["MV.Model.Grouping", "MV.Spec.GroupingSpec"]
EXTRA_G = EXTRA_OPS + """
Definition nsub (a b : list nat) := forallb (fun x => existsb (Nat.eqb x) b) a.
Definition nset_eq (a b : list nat) := nsub a b && nsub b a.
Definition part_ordered (m o : list (list nat)) := all2 nset_eq m o.
Definition part_unordered (m o : list (list nat)) :=
  Nat.eqb (List.length m) (List.length o) && forallb (fun g => existsb (nset_eq g) o) m.
Fixpoint insert_all {A} (x : A) (l : list A) : list (list A) :=
  match l with [] => [[x]] | y :: t => (x :: l) :: map (cons y) (insert_all x t) end.
Fixpoint perms {A} (l : list A) : list (list A) :=
  match l with [] => [[]] | x :: t => flat_map (insert_all x) (perms t) end.
Definition g_case := (list gfeat * list (list nat))%type.
(* unit level: the list is the iteration order of the very set that was passed in; groups in dict order.
   group_features = the repaired code: dictionary keyed by (options, frameworks, type), found by hash AND == -- by
   C15_grouping_by_equality this is grouping by equality.  The former known-defect domains (the kf_ predicates) are only counted. *)
Definition chk_group (c : g_case) : bool := part_ordered (group_features (fst c)) (snd c).
(* end to end: the set order inside the planner is not observable: some order must explain the calls *)
Definition chk_e2e (c : g_case) : bool := existsb (fun p => part_unordered (group_features p) (snd c)) (perms (fst c)).
Definition chk_not_ambiguous (c : g_case) : bool := negb (kf_ambiguous (map (item_of (fst c)) (fst c))).
Definition chk_not_conflated (c : g_case) : bool := negb (kf_hash_conflation (fst c)).
Definition chk_not_canon (c : g_case) : bool := negb (kf_canon_conflation (fst c)).
Definition chk_not_collision (c : g_case) : bool := negb (kf_hash_collision (fst c)).
(* derived features: child options d_i merged into the (empty) options of the input features *)
Definition empty_opts : ostate := {| og := []; oc := []; opk := [] |}.
Definition d_case := (list ini_t * list (list (list (pykey * pyval) * list (pykey * pyval))))%type.
Fixpoint nub_by {A} (eq : A -> A -> bool) (l : list A) : list A :=
  match l with [] => [] | x :: t => x :: filter (fun y => negb (eq x y)) (nub_by eq t) end.
Definition dict_sim (a b : list (pykey * pyval)) := py_eq (VDict a) (VDict b) && py_eq (VDict b) (VDict a).
Definition chk_derived (c : d_case) : bool :=
  let ms := map (fun i => fst (o_merge (mk_other i) empty_opts)) (fst c) in
  let calls := snd c in
  forallb (fun call => forallb (fun gc => existsb (fun m => dict_sim (og m) (fst gc) && dict_sim (oc m) (snd gc)) ms) call) calls
  && forallb (fun m => existsb (fun call => existsb (fun gc => dict_sim (og m) (fst gc) && dict_sim (oc m) (snd gc)) call) calls) ms
  && Nat.eqb (List.length calls) (List.length (nub_by (fun a b => py_eq (VDict (og a)) (VDict (og b))) ms))
  && forallb (fun call => match call with [] => false | gc :: t => forallb (fun gc' => py_eq (VDict (fst gc)) (VDict (fst gc'))) t end) calls.
"""

BIG0, BIG1 = 2 ** 61 - 1, 2 ** 61          # sys.hash_info.modulus: hash(BIG0) = 0 = hash(0) = hash(""), hash(BIG1) = 1 = hash(True)
GVALS: List[Any] = [1, True, 2, "x", None, "", 0, False, -1, -2, ["L", [1, 2]], ["T", [1, 2]], ["S", [1, 2]], ["S", [2, True]], ["D", [["k", 1]]],
                    ["D", [["k", True]]], ["L", [1, ["D", [["q", ["S", [1]]]]]]],
                    # unequal values with one hash integer (and containers holding them)
                    BIG0, BIG1, -BIG1, ["E", 0], "E0", ["E", 1], "E1", ["T", [-1]], ["T", [-2]], ["L", [1, -1]], ["L", [1, -2]],
                    ["D", [["q", -1]]], ["D", [["q", -2]]], ["D", [["", 1]]], ["D", [[0, 1]]], ["S", [-1]], ["S", [-2]],
                    ["L", [["T", [""]], 1]], ["L", [["T", [0]], 1]]]
# atom -> unequal atoms with the same hash (CPython, 64 bit): see coq/Model/Grouping.v hnorm
COLLIDE: List[Tuple[Any, List[Any]]] = [(-1, [-2]), (-2, [-1, -BIG1]), (-BIG1, [-2]), ("", [0, False, BIG0]), (0, ["", BIG0]), (False, ["", BIG0]),
                                        (BIG0, [0, "", False]), (1, [BIG1]), (True, [BIG1]), (BIG1, [1, True]),
                                        (["E", 0], ["E0"]), ("E0", [["E", 0]]), (["E", 1], ["E1"]), ("E1", [["E", 1]]), (["E", 2], ["E2"])]


def collide_variant(rng: random.Random, d: Any, p: float = 0.7) -> Any:
    """d with some atoms replaced by UNEQUAL atoms that have the same hash (-1 <-> -2, "" <-> 0, 0 <-> 2^61-1, Enum <-> name);
    containers are kept, so the result has another canonical form with the same hash integer"""
    for a, alts in COLLIDE:
        if type(d) is type(a) and d == a:
            return rng.choice(alts) if rng.random() < p else d
    if d is None or isinstance(d, (bool, int, str)):
        return d
    tag, x = d
    if tag in ("L", "T", "S", "F"):
        y = [collide_variant(rng, e, p) for e in x]
        if tag in ("S", "F"):
            y = [e for k, e in enumerate(y) if is_hashable_desc(e) and not any(to_py(e) == to_py(f) for f in y[:k])]
        return [tag, y]
    if tag == "D":
        return ["D", [[k, collide_variant(rng, v, p)] for k, v in x]]
    return d


def set_with_colliding_elements(d: Any) -> bool:
    """a set / frozenset holding two different elements with the same hash (e.g. {True, 2**61}): the hash of such a frozenset
    (XOR of the shuffled element hashes, which cancel) is outside the modelled fragment (Model/Grouping.v hnorm)"""
    if d is None or isinstance(d, (bool, int, str)):
        return False
    tag, x = d
    if tag in ("S", "F"):
        try:
            els = list(to_py([tag, x]))
            if len({hash(e) for e in els}) < len(els):
                return True
        except TypeError:
            pass
    if tag in ("L", "T", "S", "F"):
        return any(set_with_colliding_elements(e) for e in x)
    if tag == "D":
        return any(set_with_colliding_elements(v) for _, v in x)
    return False


def retag_variant(g: List[List[Any]]) -> List[List[Any]]:
    """group options with every list value turned into a tuple and vice versa (unequal, same canonical form)"""
    return [[k, [{"L": "T", "T": "L"}[v[0]], v[1]] if isinstance(v, list) and v[0] in ("L", "T") else v] for k, v in g]


def gen_group_opts(rng: random.Random) -> List[List[Any]]:
    ks = rng.sample(["a", "b", "c"], rng.choice([0, 1, 1, 2]))
    return [[k, rng.choice(GVALS)] for k in ks]


def gen_gfeats(rng: random.Random, n: int, names: Optional[List[str]] = None, cfws: Sequence[Any] = (None, [0], [1]),
               dts: Sequence[Any] = (None, None, 1, 3)) -> List[dict]:
    pool = [gen_group_opts(rng) for _ in range(rng.choice([1, 2, 2, 3]))]
    pool += [variant(rng, ["D", p])[1] for p in pool[:2]]
    if rng.random() < 0.6:                       # the same options with colliding atoms swapped
        pool += [collide_variant(rng, ["D", p])[1] for p in pool[:2]]
    if rng.random() < 0.35:                      # the same options with list <-> tuple swapped (one canonical form)
        pool += [retag_variant(p) for p in pool[:2]]
    pool = [p for p in pool if not set_with_colliding_elements(["D", p])] or [[]]
    out = []
    for i in range(n):
        g = json.loads(json.dumps(rng.choice(pool)))
        if rng.random() < 0.3:
            rng.shuffle(g)
        c = [[k, rng.choice([1, 2, "s", ["L", [1]]])] for k in rng.sample(["y", "z"], rng.choice([0, 0, 1, 2]))]
        out.append({"id": i, "name": names[i] if names else f"f{i}", "g": g, "c": c, "cfw": rng.choice(list(cfws)), "dtype": rng.choice(list(dts))})
    return out


def build_gfeat(d: dict, with_context: bool = True) -> Any:
    from mloda.core.abstract_plugins.components.feature import Feature
    from mloda.core.abstract_plugins.components.options import Options
    from mloda.core.abstract_plugins.components.data_types import DataType
    f = Feature(d["name"], options=Options(group=to_py(["D", d["g"]]), context=to_py(["D", d["c"]]) if with_context else {}),
                data_type=None if d["dtype"] is None else DataType[DTYPES[d["dtype"]]])
    if d["cfw"] is not None:
        f._set_compute_frameworks({cfw_classes()[i] for i in d["cfw"]})
    return f


def gfeat_term(d: dict) -> str:
    cf = "None" if d["cfw"] is None else f"(Some {cq_list(cq_nat(i) for i in d['cfw'])})"
    return (f"{{| g_id := {cq_nat(d['id'])}; g_group := {pairs_term(to_py(['D', d['g']]).items())}; g_ctx := {pairs_term(to_py(['D', d['c']]).items())}; "
            f"g_cfw := {cf}; g_ty := {vlib.cq_opt(None if d['dtype'] is None else cq_nat(d['dtype']))} |}}")


def part_term(groups: List[List[int]]) -> str:
    return cq_list(cq_list(cq_nat(i) for i in g) for g in groups)


def py_agree(a: Any, b: Any) -> bool:
    """the property text: group options, framework and declared type agree (undeclared agrees with any)"""
    return (a.options.group == b.options.group and a.compute_frameworks == b.compute_frameworks
            and (a.data_type is None or b.data_type is None or a.data_type == b.data_type))


def py_same_class(a: Any, b: Any) -> bool:
    """what the implementation compares: the hash of the canonical form of the group options, and the frameworks"""
    return hash(a.options) == hash(b.options) and a.compute_frameworks == b.compute_frameworks


def py_canon(f: Any) -> Any:
    from mloda.core.abstract_plugins.components.hashable_dict import _make_hashable
    return _make_hashable(f.options.group)


def py_conflation(feats: List[Any]) -> bool:
    """unequal (options, frameworks) with the same hash integer: union of the two known-defect domains"""
    return any(py_same_class(a, b) and a.options.group != b.options.group for a, b in itertools.combinations(feats, 2))


def py_canon_conflation(feats: List[Any]) -> bool:
    """domain of C15-grouping-conflates-list-tuple: unequal group options with == canonical forms (_make_hashable)"""
    return any(a.compute_frameworks == b.compute_frameworks and a.options.group != b.options.group and py_canon(a) == py_canon(b)
               for a, b in itertools.combinations(feats, 2))


def py_collision(feats: List[Any]) -> bool:
    """domain of C15-grouping-hash-collision: different canonical forms, the same hash integer"""
    return any(py_same_class(a, b) and py_canon(a) != py_canon(b) for a, b in itertools.combinations(feats, 2))


def py_ambiguous(feats: List[Any], same: Any = None) -> bool:
    same = same or py_same_class
    for u in feats:
        if u.data_type is not None:
            continue
        ts = [t for t in feats if t.data_type is not None and same(t, u)]
        if len({t.data_type for t in ts}) > 1:
            return True
    return False


def py_same_eq(a: Any, b: Any) -> bool:
    return bool(a.options.group == b.options.group and a.compute_frameworks == b.compute_frameworks)


KF_CANON, KF_COLL = "C15-grouping-conflates-list-tuple", "C15-grouping-hash-collision"


def check_grouping(rep: vlib.Reporter, rng: random.Random, n: int) -> bool:
    from mloda.core.prepare.execution_plan import ExecutionPlan
    found = False
    terms, descs, mism, pydom = [], [], [], []
    st = {"features": {}, "groups": {}, "context_stripped_same": 0, "with_untyped_join": 0,
          "skipped_unhashable": 0, "pairs_checked_against_property_text": 0}
    while len(terms) < n:
        ds = gen_gfeats(rng, rng.randrange(1, 8))
        try:
            feats = [build_gfeat(d) for d in ds]
            fset = set(feats)
        except TypeError:
            st["skipped_unhashable"] += 1
            continue
        order = list(fset)                                    # the iteration order the function will see
        res = ExecutionPlan.group_features_by_compute_framework_and_options(None, fset)  # type: ignore[arg-type]
        by_obj = {id(f): d["id"] for f, d in zip(feats, ds)}
        groups = [sorted(by_obj[id(f)] for f in g) for g in res.values()]
        ordered_ds = [ds[by_obj[id(f)]] for f in order]
        # property on the implementation: context never matters (same features without any context, same insertion order)
        feats0 = [build_gfeat(d, with_context=False) for d in ds]
        res0 = ExecutionPlan.group_features_by_compute_framework_and_options(None, set(feats0))  # type: ignore[arg-type]
        by0 = {id(f): d["id"] for f, d in zip(feats0, ds)}
        if sorted(sorted(by0[id(f)] for f in g) for g in res0.values()) != sorted(groups):
            report(rep, "ctx-split", "ctx-split:" + json.dumps(ds)[:300], "removing all context options changes which features are grouped together",
                   {"kind": "grouping", "feats": ds})
            found = True
        else:
            st["context_stripped_same"] += 1
        # property text on the implementation: together iff (group options, framework, type) agree; every pair that does not is
        # classified below, once Coq has said which model the observed partition follows
        gi = {i: k for k, g in enumerate(groups) for i in g}
        bad_pairs = []
        for x, y in itertools.combinations(range(len(ds)), 2):
            st["pairs_checked_against_property_text"] += 1
            if (gi[x] == gi[y]) != py_agree(feats[x], feats[y]):
                bad_pairs.append([x, y, gi[x] == gi[y]])
        mism.append(bad_pairs)
        pydom.append({"amb": py_ambiguous(feats), "amb_eq": py_ambiguous(feats, py_same_eq), "conf": py_conflation(feats),
                      "canon": py_canon_conflation(feats), "coll": py_collision(feats)})
        st["features"][len(ds)] = st["features"].get(len(ds), 0) + 1
        st["groups"][len(groups)] = st["groups"].get(len(groups), 0) + 1
        if any(len(g) > 1 and any(ds[i]["dtype"] is None for i in g) and any(ds[i]["dtype"] is not None for i in g) for g in groups):
            st["with_untyped_join"] += 1
        if len(groups) > 1 and any(len(g) > 1 for g in groups):
            rep.nontrivial(("grp", ds))
        terms.append(f"({cq_list(gfeat_term(d) for d in ordered_ds)}, {part_term(groups)})")
        descs.append({"feats": ds, "groups": groups})

    def ev(name: str, chk: str) -> Tuple[set, dict]:
        bad_, info_ = vlib.run_cases(P, name, REQ_G, chk, terms, extra_defs=EXTRA_G, case_type="g_case", shard=250)
        return set(bad_), info_
    bad, info = ev("grouping", "chk_group")                      # observed != model (grouping by dictionary key = by equality)
    dom = {"amb": ev("grouping_amb", "chk_not_ambiguous")[0], "conf": ev("grouping_conf", "chk_not_conflated")[0],
           "canon": ev("grouping_canon", "chk_not_canon")[0], "coll": ev("grouping_coll", "chk_not_collision")[0]}
    rep.count(len(terms))
    # the decidable domains, computed twice: on the real objects (==, hash(), _make_hashable) and in Coq (py_eq, canon, hnorm).
    # conf / canon / coll are the domains of the two repaired findings (regression inputs); comparing them keeps the hash model tied
    pykey = {"amb": "amb_eq", "conf": "conf", "canon": "canon", "coll": "coll"}
    dom_diff = {k: sorted(dom[k] ^ {i for i, d in enumerate(pydom) if d[pykey[k]]})[:5] for k in dom}
    if any(dom_diff.values()) or dom["conf"] != (dom["canon"] | dom["coll"]):
        i0 = next((v[0] for v in dom_diff.values() if v), 0)
        rep.finding("kf-domain-mismatch", "domains (ambiguous / same canonical form / hash collision) classified differently on the "
                    f"real objects and in Coq: case indices {dom_diff}", {"kind": "grouping", **descs[i0]})
        found = True
    hits: Dict[str, Any] = {}
    for i in sorted(bad):
        in_dom = i in dom["conf"]
        report(rep, "grouping", "grouping:" + json.dumps(descs[i])[:300], "group_features_by_compute_framework_and_options differs from the model"
               + (" (features with unequal group options that have the same hash integer: the repaired findings "
                  "C15-grouping-conflates-list-tuple / C15-grouping-hash-collision)" if in_dom else ""),
               {"kind": "grouping", **descs[i], "pairs_against_property_text": mism[i]})
        found = True
    for i in range(len(terms)):
        if i in bad or not mism[i]:
            continue
        if i in dom["amb"]:
            hits.setdefault("C15-untyped-joins-first-typed-group", {"kind": "grouping", **descs[i], "pairs_against_property_text": mism[i]})
        else:
            x, y, tog = mism[i][0]
            report(rep, "agree", "agree:" + json.dumps(descs[i])[:300], f"features {x},{y}: grouped together = {tog} but agreement of "
                   f"(group options, framework, type) = {not tog}", {"kind": "grouping", **descs[i]})
            found = True
    rep.add("grouping", {**info, "cases": len(terms), "features_per_case": dict(sorted(st["features"].items())),
                         "groups_per_case": dict(sorted(st["groups"].items())),
                         "domains": {k: len(v) for k, v in dom.items()},
                         "regression_cases_unequal_options_one_hash_integer": len(dom["conf"]),
                         "cases_with_pairs_against_property_text": sum(1 for m in mism if m),
                         "pairs_checked_against_property_text": st["pairs_checked_against_property_text"], "untyped_joined_typed_group": st["with_untyped_join"],
                         "context_stripped_same_partition": st["context_stripped_same"], "skipped_unhashable": st["skipped_unhashable"],
                         "disagreements": len(bad)})
    w = grouping_witnesses()
    rep.coverage["grouping"]["known_finding_witnesses"] = w
    if w["collision"]["hash_model_wrong"]:
        rep.finding("collision-model", "pairs the model says have one hash integer do not on this interpreter (or are equal): "
                    f"{w['collision']['hash_model_wrong']}", w["collision"])
        found = True
    if "C15-untyped-joins-first-typed-group" in hits or w["untyped"]["defect_present"]:
        rep.finding("C15-untyped-joins-first-typed-group", "untyped feature compatible with two typed groups",
                    hits.get("C15-untyped-joins-first-typed-group") or w["untyped"])
    # repaired findings (fixed: entries suppress nothing): the committed witnesses must be computed separately
    if w["conflation"]["defect_present"]:
        rep.finding(KF_CANON, "features with unequal group options (same canonical form: {'c': [1, 2]} / {'c': (1, 2)}) are grouped together",
                    w["conflation"])
        found = True
    if w["collision"]["defect_present"]:
        tog = [c["pair"] for c in w["collision"]["pairs"] if c["together"]]
        rep.finding(KF_COLL, f"features with unequal group options {{'c': x}} / {{'c': y}} whose hashes collide are grouped together: (x, y) in {tog}",
                    w["collision"])
        found = True
    rep.sample({"kind": "grouping", **descs[0]})
    return found


# the pairs of coq/Proofs/GroupingP.v collide_pairs (+ -1 / -2), as harness descriptors
COLLIDE_WITNESSES: List[Tuple[Any, Any]] = [(-1, -2), ("", 0), ("", False), (BIG0, 0), (BIG1, True), (-BIG1, -2), (["E", 0], "E0"),
                                            (["T", [-1]], ["T", [-2]]), (["L", [1, -1]], ["L", [1, -2]]), (["D", [["q", -1]]], ["D", [["q", -2]]]),
                                            (["D", [["", 1]]], ["D", [[0, 1]]]), (["S", [-1]], ["S", [-2]])]


def grouping_witnesses() -> dict:
    """the committed witnesses, replayed on the implementation (a list is passed to fix the iteration order)"""
    from mloda.core.prepare.execution_plan import ExecutionPlan
    from mloda.core.abstract_plugins.components.feature import Feature
    from mloda.core.abstract_plugins.components.options import Options
    t1, t2, u = Feature.int64_of("t1"), Feature.double_of("t2"), Feature("u")
    grp = ExecutionPlan.group_features_by_compute_framework_and_options

    def names(fs: List[Any]) -> List[List[str]]:
        return sorted(sorted(f.name.name for f in g) for g in grp(None, fs).values())  # type: ignore[arg-type]
    o1, o2 = names([t1, t2, u]), names([t2, t1, u])
    a = Feature.int64_of("f0", Options(group={"c": [1, 2]}))
    b = Feature.int64_of("f2", Options(group={"c": (1, 2)}))
    o3 = names([a, b])
    d1, d2 = Feature.int64_of("f3", Options(group={"c": {"k": 1}})), Feature.int64_of("f4", Options(group={"c": (("k", 1),)}))
    o4 = names([d1, d2])
    coll, wrong = [], []
    for x, y in COLLIDE_WITNESSES:
        fx, fy = Feature.int64_of("f5", Options(group={"c": to_py(x)})), Feature.int64_of("f6", Options(group={"c": to_py(y)}))
        if fx.options == fy.options or hash(fx.options) != hash(fy.options) or py_canon(fx) == py_canon(fy):
            wrong.append([x, y])
        coll.append({"pair": [x, y], "together": len(names([fx, fy])) == 1})
    return {"untyped": {"kind": "kf_untyped", "order_t1_t2_u": o1, "order_t2_t1_u": o2, "defect_present": o1 != o2},
            "conflation": {"kind": "kf_conflation", "options_equal": bool(a.options == b.options), "groups": o3,
                           "dict_vs_tuple_of_pairs_groups": o4,
                           "defect_present": ((not a.options == b.options) and len(o3) == 1) or ((not d1.options == d2.options) and len(o4) == 1)},
            "collision": {"kind": "kf_collision", "pairs": coll, "hash_model_wrong": wrong,
                          "defect_present": any(c["together"] for c in coll)}}


# ---- end to end
_calls: List[Any] = []
COLS = [f"c{i}" for i in range(6)]
_E2E: Dict[str, type] = {}


def e2e_classes() -> Tuple[type, type]:
    if not _E2E:
        from mloda.provider import FeatureGroup, DataCreator
        from mloda.user import Feature
        from mloda_plugins.compute_framework.base_implementations.pyarrow.table import PyArrowTable

        def input_data(cls: Any) -> Any:
            return DataCreator(set(COLS))

        def calc_root(cls: Any, data: Any, features: Any) -> Any:
            _calls.append(("R", [(f.name.name, f.options.group, f.options.context) for f in features.features]))
            return {c: [1, 2, 3] for c in COLS}

        def cfr(cls: Any) -> Any:
            return {PyArrowTable}

        def input_features(self: Any, options: Any, feature_name: Any) -> Any:
            return {Feature("c0"), Feature("c1")}

        def match(cls: Any, feature_name: Any, options: Any, data_access_collection: Any = None) -> bool:
            return str(feature_name).startswith("d")

        def calc_d(cls: Any, data: Any, features: Any) -> Any:
            _calls.append(("D", [(f.name.name, f.options.group, f.options.context) for f in features.features]))
            return {f.name.name: [0, 0, 0] for f in features.features}

        _E2E["R"] = type("K15Root", (FeatureGroup,), {"input_data": classmethod(input_data), "calculate_feature": classmethod(calc_root),
                                                      "compute_framework_rule": classmethod(cfr)})
        _E2E["D"] = type("K15Derived", (FeatureGroup,), {"input_features": input_features, "match_feature_group_criteria": classmethod(match),
                                                         "calculate_feature": classmethod(calc_d), "compute_framework_rule": classmethod(cfr)})
    return _E2E["R"], _E2E["D"]


def run_request(feats: List[Any]) -> Tuple[Optional[str], List[Any]]:
    from mloda.user import mloda, PluginCollector
    from mloda_plugins.compute_framework.base_implementations.pyarrow.table import PyArrowTable
    R, D = e2e_classes()
    _calls.clear()
    try:
        mloda.run_all(feats, compute_frameworks={PyArrowTable}, plugin_collector=PluginCollector.enabled_feature_groups({R, D}))
        return None, list(_calls)
    except Exception as e:  # noqa: BLE001
        tag = " [Features have different options]" if "Features have different options" in str(e) else ""
        return f"{type(e).__name__}:{tag} {str(e)[:160]}", list(_calls)


def check_e2e(rep: vlib.Reporter, rng: random.Random, n: int) -> bool:
    from mloda.user import Feature, Options
    found = False
    terms, descs, dterms, ddescs, gterms2 = [], [], [], [], []
    st = {"runs": 0, "exceptions": {}, "root_calls": {}, "context_only_requests": 0, "context_only_single_call": 0,
          "derived_runs": 0, "derived_root_calls": {}, "conflation_domain_runs": 0, "conflation_domain_run_failures": 0}
    # A: direct requests on the root group (group / context / declared type variations)
    for _ in range(n):
        k = rng.randrange(1, 6)
        ds = gen_gfeats(rng, k, names=COLS, cfws=(None,), dts=(None, None, 0, 1))    # INT32 / INT64 on int64 data (lenient)
        if rng.random() < 0.25:                      # only the context varies: must be exactly one call
            for d in ds:
                d["g"], d["dtype"] = ds[0]["g"], ds[0]["dtype"]
        try:
            feats = [build_gfeat(d) for d in ds]
            {hash(f) for f in feats}
        except TypeError:
            continue
        exc, calls = run_request(feats)
        st["runs"] += 1
        st["conflation_domain_runs"] += py_conflation(feats)
        if exc:
            st["exceptions"][exc[:60]] = st["exceptions"].get(exc[:60], 0) + 1
            if "[Features have different options]" in exc and py_conflation(feats):
                st["conflation_domain_run_failures"] += 1        # the repaired findings: reported as a violation below
            report(rep, "e2e-exc", "e2e-exc:" + json.dumps(ds)[:300], "run_all raised on a request over one root group: " + exc, {"kind": "e2e", "feats": ds})
            found = True
            continue
        byname = {d["name"]: d["id"] for d in ds}
        groups = [sorted(byname[nm] for nm, _, _ in c[1]) for c in calls if c[0] == "R"]
        st["root_calls"][len(groups)] = st["root_calls"].get(len(groups), 0) + 1
        same_key = all(to_py(["D", d["g"]]) == to_py(["D", ds[0]["g"]]) and d["dtype"] == ds[0]["dtype"] for d in ds)
        if same_key:
            st["context_only_requests"] += 1
            if len(groups) == 1:
                st["context_only_single_call"] += 1
            else:
                report(rep, "e2e-ctx", "e2e-ctx:" + json.dumps(ds)[:300], f"features that differ only in context options were computed in {len(groups)} calls",
                       {"kind": "e2e", "feats": ds})
                found = True
        if len(groups) > 1:
            rep.nontrivial(("e2e", ds))
        terms.append(f"({cq_list(gfeat_term(d) for d in ds)}, {part_term(groups)})")
        descs.append(ds)
    # B: derived features d_i whose options are merged into their inputs c0, c1
    for _ in range(max(20, n // 3)):
        k = rng.randrange(1, 4)
        gds = gen_gfeats(rng, k, names=[f"d{i}" for i in range(k)], cfws=(None,), dts=(None,))
        inis = []
        for d in gds:
            p = [c[0] for c in d["c"] if rng.random() < 0.6]
            inis.append({"g": d["g"], "c": d["c"], "p": p})
        try:
            feats = [Feature(d["name"], options=build_options(i)) for d, i in zip(gds, inis)]
            {hash(f) for f in feats}
        except TypeError:
            continue
        exc, calls = run_request(feats)
        st["derived_runs"] += 1
        st["conflation_domain_runs"] += py_conflation(feats)
        if exc:
            st["exceptions"][exc[:60]] = st["exceptions"].get(exc[:60], 0) + 1
            if "[Features have different options]" in exc and py_conflation(feats):
                st["conflation_domain_run_failures"] += 1
            report(rep, "e2e-derived-exc", "e2e-derived-exc:" + json.dumps(inis)[:300], "run_all raised on derived features: " + exc, {"kind": "e2e_derived", "inis": inis})
            found = True
            continue
        rcalls = [c[1] for c in calls if c[0] == "R"]
        st["derived_root_calls"][len(rcalls)] = st["derived_root_calls"].get(len(rcalls), 0) + 1
        try:
            obs = cq_list(cq_list(f"({pairs_term(g.items())}, {pairs_term(c.items())})" for _, g, c in call) for call in rcalls)
        except Unmodelled:
            continue
        dterms.append(f"({cq_list(init_term(i) for i in inis)}, {obs})")
        ddescs.append(inis)
        byname = {d["name"]: d["id"] for d in gds}
        gterms2.append(f"({cq_list(gfeat_term(d) for d in gds)}, {part_term([sorted(byname[nm] for nm, _, _ in c[1]) for c in calls if c[0] == 'D'])})")
        if len(rcalls) > 1:
            rep.nontrivial(("e2ed", inis))

    def ev(name: str, chk: str, tt: List[str]) -> Tuple[set, dict]:
        bad_, info_ = vlib.run_cases(P, name, REQ_G, chk, tt, extra_defs=EXTRA_G, case_type="g_case", shard=100)
        return set(bad_), info_

    bad_s, info = ev("e2e", "chk_e2e", terms)
    conf_a, _ = ev("e2e_conf", "chk_not_conflated", terms)
    bad = sorted(bad_s)
    bad_d, _ = vlib.run_cases(P, "e2e_derived", REQ_G, "chk_derived", dterms, extra_defs=EXTRA_G, case_type="d_case", shard=100)
    bad_g = sorted(ev("e2e_derived_groups", "chk_e2e", gterms2)[0])
    conf_b, _ = ev("e2e_derived_groups_conf", "chk_not_conflated", gterms2)
    rep.count(len(terms) + len(dterms))
    rep.coverage["traces_validated_against_impl"] = len(terms) + len(dterms)
    rep.add("e2e", {**info, **st, "root_calls": dict(sorted(st["root_calls"].items())),
                    "derived_root_calls": dict(sorted(st["derived_root_calls"].items())),
                    "regression_runs_unequal_options_one_hash_integer": len(conf_a) + len(conf_b),
                    "disagreements": len(bad) + len(bad_d) + len(bad_g)})
    for i in bad[:5]:
        rep.finding("e2e:" + json.dumps(descs[i])[:300], "the calculation calls of run_all (number / composition) are not explained by the "
                    "grouping model for any set iteration order", {"kind": "e2e", "feats": descs[i]})
        found = True
    for i in (list(bad_d) + bad_g)[:5]:
        rep.finding("e2e-derived:" + json.dumps(ddescs[i])[:300], "input features of derived features: merged options / number of root calls differ "
                    "from o_merge + grouping model", {"kind": "e2e_derived", "inis": ddescs[i]})
        found = True
    # the two committed end-to-end witnesses of the repaired findings: two separate calculation calls, no exception
    w = e2e_witnesses()
    rep.coverage["e2e"]["known_finding_witnesses"] = w
    for key, wk in ((KF_CANON, "list_tuple"), (KF_COLL, "minus_one_minus_two")):
        if not w[wk]["as_specified"]:
            rep.finding(key, "run_all on two requested columns of one root group whose group options are unequal but have the same hash integer: "
                        f"exception {w[wk]['exception']!r}, root calculation calls {w[wk]['root_calls']} (specified: [['c0'], ['c1']])", w[wk])
            found = True
    if descs:
        rep.sample({"kind": "e2e", "feats": descs[0]})
    return found


def e2e_witnesses() -> dict:
    """run_all on one root group with two requested columns whose group options are unequal but hash alike: with the
    defect both are put into ONE calculation call (mixed options), which then raises 'Features have different options';
    as specified they are two calls"""
    out = {}
    for name, (x, y) in (("list_tuple", (["L", [1, 2]], ["T", [1, 2]])), ("minus_one_minus_two", (-1, -2))):
        ds = [{"id": 0, "name": "c0", "g": [["k", x]], "c": [], "cfw": None, "dtype": None},
              {"id": 1, "name": "c1", "g": [["k", y]], "c": [], "cfw": None, "dtype": None}]
        exc, calls = run_request([build_gfeat(d) for d in ds])
        rc = [sorted(nm for nm, _, _ in c[1]) for c in calls if c[0] == "R"]
        out[name] = {"kind": "e2e", "feats": ds, "exception": exc and exc[:120], "root_calls": rc,
                     "defect_present": bool(exc and "[Features have different options]" in exc) or any(len(c) > 1 for c in rc),
                     "as_specified": exc is None and sorted(rc) == [["c0"], ["c1"]]}
    return out


# ------------------------------------------------------------------------------------------------------------
def run(rep: vlib.Reporter, tier: str, seed: int) -> None:
    rng = random.Random(seed * 7919 + 15)
    big = tier == "thorough"
    _reported.clear()
    pr = vlib.build_props(P)
    rep.proof(pr)
    found = False
    found |= check_ops(rep, rng, 50000 if big else 3000)
    found |= check_values(rep, rng, 30000 if big else 3000)
    found |= check_ident(rep, rng, 8000 if big else 1200)
    found |= check_grouping(rep, rng, 20000 if big else 1500)
    found |= check_e2e(rep, rng, 4000 if big else 400)
    from harness import c15_levels   # which features of ONE split share a step: dependency levels = depth (Model/LevelDepth.v)
    found |= c15_levels.check_levels(rep, random.Random(seed * 7919 + 1515), 2500 if big else 220, report)
    rep.coverage["trusted_base"] += [
        "hand-written models Model/Options.v (py_eq, canon = _make_hashable, Options operations, merge_options), Model/Identity.v "
        "(eq / hash keys of Feature, Link, Index, SingleFilter), Model/Grouping.v (group_features_by_compute_framework_and_options); "
        "tied by correspondence (T2) on the inputs listed under coverage",
        "Python hash() of str / int / bool / None / tuple / frozenset / Enum respects ==; which DIFFERENT canonical forms get one hash "
        "integer is modelled by Model/Grouping.v hnorm (int: sign * (|z| mod 2^61-1) with -1 -> -2; '' = 0; Enum member = its name; "
        "tuple / frozenset elementwise) and otherwise assumed collision-free: non-empty str (SipHash, not computed), None, the "
        "tuple / frozenset combiners.  Since the repair (dictionary keyed by the values) the hash only matters through == => equal hash; "
        "the hash model is still compared with the real hash() on every generated request (Python-vs-Coq comparison of the domain predicates)",
        "value fragment: dict keys are atoms (str incl. str-Enum, int, bool, None, plain Enum member); no floats; opaque objects are "
        "Enum members (hashable) or identity-equal unhashable objects; Feature objects inside options only as child_options[in_features] "
        "(frozenset of Features or a single Feature, in group or context of the child options)",
        "set iteration order: the unit-level grouping tie reads list(set) of the very set passed in; the end-to-end tie accepts any order",
        "dependency levels inside one split: the loop is Model/PlannerA.v split_levels (hand-written, also tied by C04's planner "
        "correspondence), its specification Model/LevelDepth.v depth; the in-group ancestor relation handed to the model is the transitive "
        "closure of the GENERATED input_features definitions computed by the harness (not read from parent_to_children_mapping); a requested "
        "feature and the same-named dependency (two Feature objects with the same inputs, hence the same depth) are observed as one name",
        "not modelled: Options.__deepcopy__"]
    rep.add("rule", "ops: PRNG sequences of <= 12 calls on a real Options object over 3-6 colliding keys (values nested <= 2 levels), state "
                    "and exception compared after every call; values/identities: PRNG pairs where the second object is a re-written "
                    "(reordered dict/set, True for 1, list<->tuple) or slightly mutated copy of the first; grouping: 1-7 real Features over "
                    "1-3 option classes (+ re-written copies, + copies with atoms swapped for UNEQUAL atoms of the same hash: -1/-2, ''/0/False/2^61-1, "
                    "1/2^61, Enum member/its name, also inside tuples, lists, sets, nested dicts) x framework x declared type, iteration order read from the set; e2e: run_all on a generated root "
                    "group (<= 5 requested columns) and a derived group whose options are merged into its inputs. non-trivial = an ops "
                    "sequence with both succeeding and raising calls / an equal pair written differently / >1 group with a shared group / "
                    ">1 calculation call; levels: run_all (SYNC, pandas) on generated feature groups whose features depend on each other inside the "
                    "group (chains, diamonds, fan-ins with unequal ancestor counts at equal depth, layered random DAGs over one or two groups, "
                    "A->B->A interleaving; 30% with context-only variation of the requested features), per feature group the recorded calls vs "
                    "split_levels / depth in Coq and the property sentence judged per pair of features; non-trivial = a split with at least one "
                    "in-group dependency (distinct by its ancestor relation)")
    from harness import srctie      # source-text tie (Props/SrcTie.v): Options.get / items / add / add_to_group, the validator and
    found = (not srctie.check(rep)) or found    # Features.merge_options regenerated from the source text = Model/Options.v
    if not pr.ok and not found:
        rep.finding("proof-broken", "Props/C15.v no longer checks",
                    {"failed_files": pr.failed_files, "forbidden": pr.forbidden, "log_tail": pr.log[-3000:]}, found_input=False)


def replay(path: str) -> int:
    """re-execute one recorded case against the implementation and print what it does now"""
    r = json.load(open(path))["replay"]
    print(json.dumps(r, indent=1)[:4000])
    kind = r.get("kind")
    if kind == "levels":
        from harness import c15_levels
        c15_levels.replay_case(r)
        return 0
    if kind == "srctie":
        from harness import srctie
        srctie.replay(r)
        return 0
    if kind == "ops":
        obs = run_sequence(r["case"])
        print("now: init_err", obs["init_err"], "errors", obs["errs"], "disjoint", obs["disjoint_ok"])
        for s in obs["steps"]:
            print("  ", s)
    elif kind == "val":
        a, b = to_py(r["a"]), to_py(r["b"])
        print("now: a == b:", a == b, "| canon a:", observe_canon(a), "| canon b:", observe_canon(b))
    elif kind in ("feature", "filter", "link", "index"):
        if kind == "feature":
            a, b = build_feat(r["pair"][0]), build_feat(r["pair"][1])
            print("now:", observe_eq_hash(a, b))
        elif kind == "filter":
            from mloda.core.filter.single_filter import SingleFilter
            objs = []
            for x in r["pair"]:
                try:
                    objs.append(SingleFilter(build_feat(x["feat"]), x["type"], to_py(["D", x["params"]])))
                except (ValueError, TypeError) as e:
                    objs.append(None)
                    print("constructor:", type(e).__name__, e)
            if all(o is not None for o in objs):
                print("now:", observe_eq_hash(objs[0], objs[1]))
        else:
            print("link / index pairs are regenerated from the seed; descriptor printed above")
    elif kind == "grouping":
        from mloda.core.prepare.execution_plan import ExecutionPlan
        feats = [build_gfeat(d) for d in r["feats"]]
        fset = set(feats)
        res = ExecutionPlan.group_features_by_compute_framework_and_options(None, fset)  # type: ignore[arg-type]
        print("iteration order:", [f.name.name for f in fset])
        print("now:", [sorted(f.name.name for f in g) for g in res.values()])
    elif kind == "e2e":
        exc, calls = run_request([build_gfeat(d) for d in r["feats"]])
        print("now:", exc, [(c[0], sorted(n for n, _, _ in c[1])) for c in calls])
    elif kind == "e2e_derived":
        from mloda.user import Feature
        exc, calls = run_request([Feature(f"d{i}", options=build_options(ini)) for i, ini in enumerate(r["inis"])])
        print("now:", exc, [(c[0], [(n, g, cx) for n, g, cx in c[1]]) for c in calls])
    elif kind == "kf_filter":
        from mloda.core.filter.global_filter import GlobalFilter
        try:
            GlobalFilter().add_filter(r["feature"], r["type"], dict(r["parameter"]))
            print("now: add_filter succeeded")
        except TypeError as e:
            print("now: TypeError", e)
    elif kind == "kf_infeatures":
        print("now:", infeatures_witness())
    elif kind == "kf_child_context":
        print("now:", child_context_witness())
    elif kind in ("kf_untyped", "kf_conflation", "kf_collision"):
        print("now:", json.dumps(grouping_witnesses(), indent=1))
    return 0
