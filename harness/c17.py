"""C17 — declared feature types are enforced exactly as documented.

T1: Gen/TypeTables.v regenerated from the real relations (complete truth tables), theorems in Props/C17.v.
T2: (a) DataTypeValidator.validate on every (declared, column type | absent, strict option) vs Model.Validate,
    (b) end-to-end run_all matrix (declared x produced Arrow type x {lenient, strict option, strict API flag}
        x frameworks x typed/untyped mix) vs the spec evaluated in Coq,
    (b3) dependency chains of depth 2-4 (Model/ValidateChain.v),
    (b4) WHICH features reach the type check: requests with Links / index_columns() / GlobalFilters on three frameworks; the
         feature sets observed at ComputeFramework.run_validate_output_features -> DataTypeValidator.validate vs
         Model/ValidateSet.v (harness/c17_links.py),
    (c) Engine.set_data_type conflicts at prepare time (12 x 12, exhaustive).
"""
from __future__ import annotations

import json
import logging
import re
from typing import Any, Dict, List, Optional, Tuple

from lib import vlib
from harness import gen_tables
from harness.gen_tables import DTYPES, atypes

LEVEL = "proof"
logging.disable(logging.CRITICAL)


def _dt(name: Optional[str]) -> Any:
    from mloda.core.abstract_plugins.components.data_types import DataType
    return None if name is None else DataType[name]


def cq_dtype_opt(name: Optional[str]) -> str:
    return "None" if name is None else f"(Some {name})"


# ------------------------------------------------------------------------------------------------------------
# (a) validator level
# ------------------------------------------------------------------------------------------------------------

def validator_cases() -> List[dict]:
    import pyarrow as pa
    from mloda.core.abstract_plugins.components.validators.datatype_validator import DataTypeValidator, DataTypeMismatchError
    from mloda.core.abstract_plugins.components.feature import Feature
    from mloda.core.abstract_plugins.components.feature_set import FeatureSet
    out = []
    for decl in [None] + DTYPES:
        for aname, at in list(atypes().items()) + [("absent", None)]:
            for strict in ("SAbsent", "STrue", "SFalse"):
                opts = {} if strict == "SAbsent" else {"strict_type_enforcement": strict == "STrue"}
                f = Feature("col", data_type=_dt(decl), options=dict(opts))
                fs = FeatureSet()
                fs.add(f)
                cols = {"other": pa.array([1, 2])}
                if at is not None:
                    cols["col"] = pa.nulls(2, type=at)
                tbl = pa.table(cols)
                try:
                    DataTypeValidator.validate(tbl, fs, strict_only=True)
                    obs = "ok"
                except DataTypeMismatchError:
                    obs = "mismatch"
                except Exception as e:  # noqa: BLE001
                    obs = "err:" + type(e).__name__
                out.append({"declared": decl, "atype": aname, "strict": strict, "obs": obs})
    return out


def validator_term(c: dict) -> str:
    present = c["atype"] != "absent"
    actual = f"(match gen_from_arrow {c['atype']} with Some x => x | None => None end)" if present else "None"
    obs = {"ok": "Some false", "mismatch": "Some true"}.get(c["obs"], "None")
    return (f"({{| v_declared := {cq_dtype_opt(c['declared'])}; v_present := {vlib.cq_bool(present)}; "
            f"v_actual := {actual}; v_strict := {c['strict']} |}}, {obs})")


# ------------------------------------------------------------------------------------------------------------
# (b) end to end
# ------------------------------------------------------------------------------------------------------------

FRAMEWORKS = ["PyArrowTable", "PandasDataFrame", "PythonDictFramework"]


def _cfw(name: str) -> Any:
    if name == "PyArrowTable":
        from mloda_plugins.compute_framework.base_implementations.pyarrow.table import PyArrowTable
        return PyArrowTable
    if name == "PandasDataFrame":
        from mloda_plugins.compute_framework.base_implementations.pandas.dataframe import PandasDataFrame
        return PandasDataFrame
    from mloda_plugins.compute_framework.base_implementations.python_dict.python_dict_framework import PythonDictFramework
    return PythonDictFramework


# what a non-Arrow framework can produce, with the Arrow type pyarrow infers for it (= the documented "produced
# column type" for that framework); values chosen so that inference is unambiguous
import datetime as _datetime
import decimal as _dec

NONARROW_VALUES = {
    "A_int64": [1, 2], "A_float64": [1.5, 2.5], "A_bool": [True, False], "A_string": ["x", "y"],
    "A_binary": [b"x", b"y"],
    # further kinds that pandas stores with dtype `object`: the Arrow type is decided by the cell contents, so runs in ONE
    # process over frames of identical layout but different contents must each be judged on their own (history independence)
    "A_decimal128": [_dec.Decimal("1.5"), _dec.Decimal("2.5")],
    "A_date32": [_datetime.date(2020, 1, 1), _datetime.date(2021, 2, 3)],
}
NONARROW_NULLABLE = {"A_bool": [True, None]}      # object column of bools with a null (pandas) / None cell (python dict)


def make_group(fw: str, aname: str, extra_untyped: bool, fg_type: Optional[str] = None) -> Any:
    import pyarrow as pa
    from mloda.provider import FeatureGroup, DataCreator
    cfw = _cfw(fw)
    at = atypes()[aname]
    cols = {"col"} | ({"other"} if extra_untyped else set())

    class G(FeatureGroup):
        @classmethod
        def input_data(cls) -> Any:
            return DataCreator(cols)

        @classmethod
        def compute_framework_rule(cls) -> Any:
            return {cfw}

        @classmethod
        def return_data_type_rule(cls, feature: Any) -> Any:
            if fg_type is not None and feature.get_name() == "col":
                return _dt(fg_type)
            return None

        @classmethod
        def calculate_feature(cls, data: Any, features: Any) -> Any:
            if fw == "PyArrowTable":
                d = {"col": pa.nulls(2, type=at)}
                if extra_untyped:
                    d["other"] = pa.array(["s", "t"])
                return pa.table(d)
            vals = NONARROW_VALUES[aname]
            if fw == "PandasDataFrame":
                import pandas as pd
                d = {"col": vals}
                if extra_untyped:
                    d["other"] = ["s", "t"]
                return pd.DataFrame(d)
            return [dict({"col": v}, **({"other": "s"} if extra_untyped else {})) for v in vals]

    G.__name__ = f"C17G_{fw}_{aname}_{int(extra_untyped)}_{fg_type}"
    return G


def classify_exc(e: BaseException) -> str:
    s = str(e)
    if "DataTypeMismatchError" in s or type(e).__name__ == "DataTypeMismatchError":
        return "mismatch"
    if re.search(r"has no attribute \W{0,3}column_names", s):
        return "attrerr_column_names"
    return "err:" + type(e).__name__ + ":" + (s.strip().splitlines()[-1][:120] if s.strip() else "")


def e2e_one(fw: str, declared: Optional[str], aname: str, mode: str, mix: bool) -> str:
    from mloda.user import mloda, Feature, PluginCollector
    G = make_group(fw, aname, mix)
    opts = {"strict_type_enforcement": True} if mode == "strict_option" else {}
    feats: List[Any] = [Feature("col", data_type=_dt(declared), options=opts)]
    if mix:
        feats.append(Feature("other"))
    try:
        res = mloda.run_all(feats, compute_frameworks={_cfw(fw)},
                            plugin_collector=PluginCollector.enabled_feature_groups({G}),
                            strict_type_enforcement=(mode == "strict_api"))
        ncols = sorted(c for r in res for c in _colnames(r))
        want = ["col", "other"] if mix else ["col"]
        return "ok" if ncols == want else f"err:columns:{ncols}"
    except Exception as e:  # noqa: BLE001
        return classify_exc(e)


def history_cases(rng: Any, n: int) -> List[dict]:
    """Sequences of run_all calls in ONE process on a non-Arrow framework, same column name and layout, different cell kinds:
    the outcome of every call must be what the same call gives on its own (no state carried between validations)."""
    out = []
    kinds = list(NONARROW_VALUES)
    for _ in range(n):
        fw = rng.choice(["PandasDataFrame", "PythonDictFramework"])
        seq = []
        for _ in range(rng.randrange(2, 5)):
            an = rng.choice(kinds)
            decl = rng.choice(DTYPES)
            mode = rng.choice(["lenient", "strict_option"])
            seq.append({"fw": fw, "declared": decl, "atype": an, "mode": mode, "mix": False,
                        "obs": e2e_one(fw, decl, an, mode, False)})
        out.append({"fw": fw, "seq": seq})
    return out


def _colnames(r: Any) -> List[str]:
    if hasattr(r, "column_names"):
        return list(r.column_names)
    if hasattr(r, "columns"):
        return list(r.columns)
    if isinstance(r, list) and r:
        return list(r[0].keys())
    return []


def e2e_term(c: dict) -> str:
    strict = "STrue" if c["mode"] != "lenient" else "SAbsent"
    obs = {"ok": "Some false", "mismatch": "Some true"}.get(c["obs"], "None")
    return (f"({{| v_declared := {cq_dtype_opt(c['declared'])}; v_present := true; "
            f"v_actual := from_arrow_spec {c['atype']}; v_strict := {strict} |}}, {obs})")


def e2e_matrix(tier: str, seeds: List[Tuple[str, str]]) -> List[dict]:
    cases = []
    for fw in FRAMEWORKS:
        anames = list(atypes()) if fw == "PyArrowTable" else list(NONARROW_VALUES)
        for decl in [None] + DTYPES:
            for an in anames:
                for mode in ("lenient", "strict_option", "strict_api"):
                    for mix in (False, True):
                        if mix and tier == "quick" and fw == "PyArrowTable" and (hash((decl, an, mode)) % 7):
                            pass  # all cells are cheap; run the full matrix in both tiers
                        cases.append({"fw": fw, "declared": decl, "atype": an, "mode": mode, "mix": mix,
                                      "obs": e2e_one(fw, decl, an, mode, mix)})
    return cases


# ------------------------------------------------------------------------------------------------------------
# (b2) dependency chains: the per-call / per-feature strict flag below the requested feature (Model/ValidateChain.v)
# ------------------------------------------------------------------------------------------------------------
CHAIN_ATYPES = {"INT32": "A_int32", "INT64": "A_int64", "STRING": "A_string", "DOUBLE": "A_float64", "BOOLEAN": "A_bool"}
OWN = {"SAbsent": None, "STrue": True, "SFalse": False}


def chain_levels(rng: Any, pandas: bool = False) -> List[dict]:
    """levels top..source: declared type (or None), produced type, own strict option"""
    depth = rng.randrange(2, 5)
    lv = []
    for i in range(depth):
        prod = rng.choice([t for t in CHAIN_ATYPES if not (pandas and t == "INT32")])
        r = rng.random()
        decl = None if r < 0.3 else prod if r < 0.6 else rng.choice(list(CHAIN_ATYPES))
        own = "SAbsent" if rng.random() < 0.8 else rng.choice(["STrue", "SFalse"])
        lv.append({"declared": decl, "produced": prod, "own": own})
    # make the interesting pair (lenient-compatible, strict-incompatible) frequent at the DEEPEST levels
    if rng.random() < 0.6:
        j = rng.randrange(1, depth)
        lv[j].update(declared="INT32", produced="INT64")
    return lv


def chain_one(fw: str, lv: List[dict], api_flag: bool) -> str:
    import pyarrow as pa
    from mloda.provider import FeatureGroup, DataCreator
    from mloda.user import mloda, Feature, PluginCollector
    cfw = _cfw(fw)
    n = len(lv)
    groups = []

    def feat(i: int) -> Any:
        opts = {} if OWN[lv[i]["own"]] is None else {"strict_type_enforcement": OWN[lv[i]["own"]]}
        return Feature(f"c{i}", data_type=_dt(lv[i]["declared"]), options=opts)

    for i in range(n):
        at = atypes()[CHAIN_ATYPES[lv[i]["produced"]]]
        ns: Dict[str, Any] = {}
        ns["compute_framework_rule"] = classmethod(lambda cls, _c=cfw: {_c})
        if i == n - 1:
            ns["input_data"] = classmethod(lambda cls, _i=i: DataCreator({f"c{_i}"}))
        else:
            ns["input_features"] = lambda self, options, feature_name, _i=i: {feat(_i + 1)}
            ns["match_feature_group_criteria"] = classmethod(lambda cls, feature_name, options, data_access_collection=None, _i=i:
                                                             str(getattr(feature_name, "name", feature_name)) == f"c{_i}")

        def calc(cls: Any, data: Any, features: Any, _i: int = i, _at: Any = at) -> Any:
            if fw == "PyArrowTable":
                col = pa.nulls(2, type=_at)
                if data is None or _i == n - 1:
                    return pa.table({f"c{_i}": col})
                return data.append_column(f"c{_i}", col)
            vals = NONARROW_VALUES[CHAIN_ATYPES[lv[_i]["produced"]]]
            import pandas as pd
            if data is None or _i == n - 1:
                return pd.DataFrame({f"c{_i}": vals})
            data = data.copy()
            data[f"c{_i}"] = vals
            return data
        ns["calculate_feature"] = classmethod(calc)
        groups.append(type(f"C17Chain_{fw}_{i}_{n}", (FeatureGroup,), ns))
    try:
        mloda.run_all([feat(0)], compute_frameworks={cfw}, plugin_collector=PluginCollector.enabled_feature_groups(set(groups)),
                      strict_type_enforcement=api_flag)
        return "ok"
    except Exception as e:  # noqa: BLE001
        s_ = str(e)
        if ("conflicting values" in s_ and "Duplicate key" in s_) or "already exists in group options with a different value" in s_:
            return "conflict"
        return classify_exc(e)


def chain_cases(rng: Any, n: int) -> List[dict]:
    out = []
    for k in range(n):
        fw = "PyArrowTable" if k % 4 else "PandasDataFrame"
        lv = chain_levels(rng, fw != "PyArrowTable")
        api = rng.random() < 0.5
        out.append({"fw": fw, "levels": lv, "api_flag": api, "obs": chain_one(fw, lv, api)})
    # the witness of C17_api_flag_untyped_request_refuted and its typed twin
    for top_decl in (None, "INT64"):
        lv = [{"declared": top_decl, "produced": "INT64", "own": "SAbsent"}, {"declared": None, "produced": "STRING", "own": "SAbsent"},
              {"declared": "INT32", "produced": "INT64", "own": "SAbsent"}]
        out.append({"fw": "PyArrowTable", "levels": lv, "api_flag": True, "obs": chain_one("PyArrowTable", lv, True)})
    return out


def chain_term(c: dict) -> str:
    def lvl(l: dict) -> str:
        return (f"{{| l_declared := {cq_dtype_opt(l['declared'])}; l_actual := from_arrow_spec {CHAIN_ATYPES[l['produced']]}; "
                f"l_own := {l['own']} |}}")
    obs = {"ok": "Some COk", "mismatch": "Some CMismatch", "conflict": "Some CConflict"}.get(c["obs"], "None")
    return (f"(({'true' if c['api_flag'] else 'false'}, {lvl(c['levels'][0])}, [{'; '.join(lvl(l) for l in c['levels'][1:])}]), {obs})")


def chain_untyped_request_domain(c: dict) -> bool:
    """known-defect domain: per-call flag, UNTYPED requested feature, a typed feature below it"""
    return c["api_flag"] and c["levels"][0]["declared"] is None and any(l["declared"] for l in c["levels"][1:])


# ------------------------------------------------------------------------------------------------------------
# (c) prepare-time conflict
# ------------------------------------------------------------------------------------------------------------

def conflict_cases() -> List[dict]:
    from mloda.user import mloda, Feature, PluginCollector
    out = []
    for decl in [None] + DTYPES:
        for fg in [None] + DTYPES:
            G = make_group("PyArrowTable", "A_int64", False, fg_type=fg)
            try:
                mloda.prepare([Feature("col", data_type=_dt(decl))], compute_frameworks={_cfw("PyArrowTable")},
                              plugin_collector=PluginCollector.enabled_feature_groups({G}))
                obs = "accepted"
            except ValueError as e:
                obs = "rejected" if "data type mismatch" in str(e) else "err:" + str(e)[:80]
            except Exception as e:  # noqa: BLE001
                obs = "err:" + type(e).__name__
            out.append({"declared": decl, "fg": fg, "obs": obs})
    return out


def conflict_term(c: dict) -> str:
    obs = {"accepted": "Some false", "rejected": "Some true"}.get(c["obs"], "None")
    return f"(({cq_dtype_opt(c['declared'])}, {cq_dtype_opt(c['fg'])}), {obs})"


EXTRA_DEFS = """
Definition opt_bool_eqb (a : option bool) (b : bool) := match a with Some x => Bool.eqb x b | None => false end.
Definition chk_validator (c : vcase * option bool) := opt_bool_eqb (snd c) (validate_raises code_strict code_lenient (fst c)).
Definition chk_e2e (c : vcase * option bool) := opt_bool_eqb (snd c) (validate_raises strict_spec lenient_spec (fst c)).
Definition chain_outcome_eqb (a b : chain_outcome) := match a, b with CConflict, CConflict | CMismatch, CMismatch | COk, COk => true | _, _ => false end.
Definition chk_chain (c : (bool * level * list level) * option chain_outcome) :=
  match snd c with Some o => chain_outcome_eqb o (chain_run strict_spec lenient_spec (fst (fst (fst c))) (snd (fst (fst c))) (snd (fst c))) | None => false end.
(* what the statement asks for: a typed feature is judged by the STRICT table iff the call asked for strict enforcement or the
   feature itself / a feature above it in the chain carries strict_type_enforcement=True (a feature's group options apply to
   the input features it asks for); otherwise by the lenient table.  Option conflicts (True above, False below) are not judged. *)
Fixpoint spec_flags (inherited : bool) (ls : list level) : list bool :=
  match ls with
  | [] => []
  | l :: t => let s_ := inherited || (match l_own l with STrue => true | _ => false end) in s_ :: spec_flags s_ t
  end.
Definition spec_raises (api : bool) (ls : list level) : bool :=
  existsb (fun lf : level * bool => validate_raises strict_spec lenient_spec (vcase_of (fst lf) (if snd lf then STrue else SAbsent)))
          (combine ls (spec_flags api ls)).
Definition chk_chain_spec (c : (bool * level * list level) * option chain_outcome) :=
  match c with ((api, top, rest), o) =>
    match o with
    | Some COk => negb (spec_raises api (top :: rest))
    | Some CMismatch => spec_raises api (top :: rest)
    | Some CConflict => true
    | None => false end end.
Definition chk_conflict (c : (option dtype * option dtype) * option bool) :=
  opt_bool_eqb (snd c) (match set_data_type (fst (fst c)) (snd (fst c)) with inr _ => true | inl _ => false end).
"""
REQ = ["MV.Spec.Types", "MV.Model.Validate", "MV.Model.ValidateChain", "MV.Gen.TypeTables", "MV.Model.CodeTables"]
DIAG_REQ = ["MV.Spec.Types", "MV.Gen.TypeTables"]


def diag_table_diffs() -> List[Tuple[str, str, str]]:
    """When the table theorems fail: list the points where the regenerated relations differ from the spec (in Coq)."""
    body = """
Definition ob_eqb (a : option bool) (b : bool) := match a with Some x => Bool.eqb x b | None => false end.
Definition pairs := list_prod all_dtypes all_dtypes.
Definition strict_diffs := filter (fun p => negb (ob_eqb (gen_strict (fst p) (snd p)) (strict_spec (fst p) (snd p)))) pairs.
Definition lenient_diffs := filter (fun p => negb (ob_eqb (gen_lenient (fst p) (snd p)) (lenient_spec (fst p) (snd p)))) pairs.
Eval vm_compute in (strict_diffs, lenient_diffs).
"""
    ok, log = vlib.make_targets(["Gen/TypeTables.vo", "Spec/Types.vo"])
    if not ok:
        return []
    out = vlib.coq_eval("C17", "diag", DIAG_REQ, body)
    m = re.search(r"=\s*\((.*)\)\s*:\s*list", out, re.S)
    if not m:
        return []
    txt = m.group(1)
    # split the two lists at top level:  ([..], [..])
    depth, cut = 0, None
    for i, ch in enumerate(txt):
        if ch == "[":
            depth += 1
        elif ch == "]":
            depth -= 1
            if depth == 0 and cut is None:
                cut = i + 1
    first, second = txt[:cut], txt[cut:]
    res = []
    for which, t in (("strict", first), ("lenient", second)):
        for d, a in re.findall(r"\((\w+),\s*(\w+)\)", t):
            res.append((which, d, a))
    return res


PRODUCER_OF = {"INT32": "A_int32", "INT64": "A_int64", "FLOAT": "A_float32", "DOUBLE": "A_float64",
               "BOOLEAN": "A_bool", "STRING": "A_string", "BINARY": "A_binary", "DATE": "A_date32",
               "TIMESTAMP_MILLIS": "A_ts_ms", "TIMESTAMP_MICROS": "A_ts_us", "DECIMAL": "A_decimal128"}


def run(rep: vlib.Reporter, tier: str, seed: int) -> None:
    gen_tables.generate(["TypeTables"])
    pr = vlib.build_props("C17")
    rep.proof(pr)
    rep.coverage["trusted_base"] += [
        "T1 translator harness/gen_tables.py: evaluates _types_compatible/_types_loosely_compatible on all 121 pairs and "
        "from_arrow_type on 24 Arrow types of the working tree",
        "pyarrow type predicates (pa.types.is_*) are library behaviour",
        "modelled, not verified: DataTypeValidator.validate control flow, mlodaAPI._process_features strict propagation, "
        "Engine.set_data_type (hand-written Model/Validate.v tied by exhaustive correspondence)",
        "modelled, not verified: Engine._process_feature / _add_index_feature / _add_filter_feature / create_index_feature / "
        "add_feature_to_collection (hand-written Model/ValidateSet.v, tied by the generated family `links`: observed feature sets at "
        "the output validation = the model's collection); the produced Arrow type on Pandas / PythonDict is what pyarrow infers "
        "(computed in the harness without mloda)"]
    found_input = False
    from harness import srctie      # source-text tie (Props/SrcTie.v): the literal type sets read from the source text = the tables
    found_input = (not srctie.check(rep)) or found_input

    # (a)
    vc = validator_cases()
    bad, info = vlib.run_cases("C17", "validator", REQ, "chk_validator", [validator_term(c) for c in vc],
                               extra_defs=EXTRA_DEFS, case_type="vcase * option bool")
    rep.count(len(vc))
    rep.add("validator_level", {**info, "cases": len(vc), "disagreements": len(bad), "exhaustive": True})
    for c in vc:
        if c["declared"] and c["atype"] != "absent":
            rep.nontrivial(("v", c["declared"], c["atype"], c["strict"]))
    for i in bad[:10]:
        c = vc[i]
        rep.finding(f"validator:{c['declared']}:{c['atype']}:{c['strict']}:{c['obs']}",
                    f"DataTypeValidator.validate disagrees with the documented decision on {c}", {"kind": "validator", **c})
        found_input = True

    # (b)
    ec = e2e_matrix(tier, [])
    kf_dom = [c for c in ec if c["fw"] != "PyArrowTable" and c["declared"] is not None]
    normal = [c for c in ec if not (c["fw"] != "PyArrowTable" and c["declared"] is not None)]
    bad, info = vlib.run_cases("C17", "e2e", REQ, "chk_e2e", [e2e_term(c) for c in normal], extra_defs=EXTRA_DEFS,
                               case_type="vcase * option bool")
    rep.count(len(ec))
    dist: Dict[str, int] = {}
    for c in ec:
        k = c["fw"] + ":" + c["obs"].split(":")[0]
        dist[k] = dist.get(k, 0) + 1
        if c["declared"]:
            rep.nontrivial(("e", c["fw"], c["declared"], c["atype"], c["mode"], c["mix"]))
    rep.add("e2e", {**info, "cases": len(ec), "observation_distribution": dist, "disagreements": len(bad),
                    "exhaustive": True})
    for i in bad[:10]:
        c = normal[i]
        rep.finding(f"e2e:{c['fw']}:{c['declared']}:{c['atype']}:{c['mode']}:{c['mix']}:{c['obs']}",
                    f"run_all outcome {c['obs']!r} contradicts the documented table for {c}", {"kind": "e2e", **c})
        found_input = True
    # known-defect domain: typed feature on a non-Arrow framework. Accept the defect (known finding) or the spec.
    bad2, _ = vlib.run_cases("C17", "e2e_kf", REQ, "chk_e2e", [e2e_term(c) for c in kf_dom], extra_defs=EXTRA_DEFS,
                             case_type="vcase * option bool")
    bad2s = set(bad2)
    for i, c in enumerate(kf_dom):
        if i not in bad2s:
            continue
        if c["obs"] == "attrerr_column_names":
            rep.finding("C17-nonarrow-attributeerror", "typed feature on non-Arrow framework dies with AttributeError",
                        {"kind": "e2e", **c})
        else:
            rep.finding(f"e2e:{c['fw']}:{c['declared']}:{c['atype']}:{c['mode']}:{c['mix']}:{c['obs']}",
                        f"run_all outcome {c['obs']!r} contradicts the documented table for {c}", {"kind": "e2e", **c})
            found_input = True

    # (b2) histories on non-Arrow frameworks
    import random as _random
    hc = history_cases(_random.Random(seed * 31 + 17), 120 if tier == "thorough" else 25)
    flat = [c for h in hc for c in h["seq"]]
    badh, infoh = vlib.run_cases("C17", "history", REQ, "chk_e2e", [e2e_term(c) for c in flat], extra_defs=EXTRA_DEFS,
                                 case_type="vcase * option bool")
    rep.count(len(flat))
    rep.add("histories", {**infoh, "sequences": len(hc), "calls": len(flat), "disagreements": len(badh)})
    for i in badh[:10]:
        c = flat[i]
        h = [h_ for h_ in hc if c in h_["seq"]][0]
        rep.finding(f"history:{c['fw']}:{[ (x['declared'], x['atype'], x['mode']) for x in h['seq']]}",
                    f"in a sequence of run_all calls in one process the call {c} has an outcome that contradicts the documented table "
                    f"(sequence: {[(x['declared'], x['atype'], x['obs']) for x in h['seq']]})", {"kind": "history", **h})
        found_input = True
    for h in hc:
        rep.nontrivial(("h", h["fw"], [(x["declared"], x["atype"]) for x in h["seq"]]))

    # (b3) dependency chains (depth 2-4): the model's outcome (faithful) and the statement's (every typed feature of a strict call
    # is judged strictly); the two differ exactly in the recorded domain `untyped requested feature + per-call flag`
    chc = chain_cases(_random.Random(seed * 37 + 5), 600 if tier == "thorough" else 120)
    cterms = [chain_term(c) for c in chc]
    cty = "(bool * level * list level) * option chain_outcome"
    bad_m = set(vlib.run_cases("C17", "chain", REQ, "chk_chain", cterms, extra_defs=EXTRA_DEFS, case_type=cty)[0])
    bad_s = set(vlib.run_cases("C17", "chain_spec", REQ, "chk_chain_spec", cterms, extra_defs=EXTRA_DEFS, case_type=cty)[0])
    cdist: Dict[str, int] = {}
    for i, c in enumerate(chc):
        k = f"depth{len(c['levels'])}:{'api' if c['api_flag'] else 'noapi'}:{c['obs'].split(':')[0]}"
        cdist[k] = cdist.get(k, 0) + 1
        if any(l["declared"] for l in c["levels"][1:]):
            rep.nontrivial(("chain", c["fw"], json.dumps(c["levels"]), c["api_flag"]))
        own_conflict = c["obs"] == "conflict"
        if i in bad_m and i in bad_s:
            rep.finding(f"chain:{json.dumps(c['levels'])}:{c['api_flag']}:{c['obs']}",
                        f"dependency chain {c['levels']} (per-call strict flag {c['api_flag']}, {c['fw']}): run_all outcome {c['obs']!r} is neither "
                        "the model's (Model/ValidateChain.chain_run) nor what the statement asks for", {"kind": "chain", **c})
            found_input = True
        elif i in bad_s and not own_conflict:
            # the faithful model reproduces it, the statement does not hold
            if chain_untyped_request_domain(c):
                rep.finding("C17-strict-per-call-skips-typed-dependencies-of-untyped-request",
                            f"{c['levels']}: outcome {c['obs']}", {"kind": "chain", **c})
            else:
                rep.finding(f"chain-spec:{json.dumps(c['levels'])}:{c['api_flag']}:{c['obs']}",
                            f"dependency chain {c['levels']} (per-call strict flag {c['api_flag']}, {c['fw']}): run_all outcome {c['obs']!r} is not "
                            "what the declared types and the strict/lenient tables ask for at every depth", {"kind": "chain", **c})
                found_input = True
        elif i in bad_m:
            rep.finding(f"chain-model:{json.dumps(c['levels'])}:{c['api_flag']}:{c['obs']}",
                        f"dependency chain {c['levels']} (per-call strict flag {c['api_flag']}, {c['fw']}): run_all outcome {c['obs']!r} is not the "
                        "model's (Model/ValidateChain.chain_run); it agrees with the statement", {"kind": "chain", **c}, found_input=False)
    rep.count(len(chc))
    rep.add("chains", {"cases": len(chc), "distribution": cdist, "model_disagreements": len(bad_m), "statement_disagreements": len(bad_s)})

    # (b4) WHICH features reach the type check: requests with Links / index columns / GlobalFilters (Model/ValidateSet.v)
    from harness import c17_links
    found_input = c17_links.run_family(rep, tier, seed) or found_input

    # (c)
    cc = conflict_cases()
    bad, info = vlib.run_cases("C17", "conflict", REQ, "chk_conflict", [conflict_term(c) for c in cc], extra_defs=EXTRA_DEFS,
                               case_type="(option dtype * option dtype) * option bool")
    rep.count(len(cc))
    rep.add("prepare_conflict", {**info, "cases": len(cc), "disagreements": len(bad), "exhaustive": True})
    for c in cc:
        if c["declared"] and c["fg"]:
            rep.nontrivial(("c", c["declared"], c["fg"]))
    for i in bad[:10]:
        c = cc[i]
        rep.finding(f"conflict:{c['declared']}:{c['fg']}:{c['obs']}",
                    f"prepare outcome {c['obs']!r} for request type {c['declared']} vs feature-group type {c['fg']}",
                    {"kind": "conflict", **c})
        found_input = True

    rep.add("rule", "exhaustive: (declared in None+11) x (24 Arrow column types + absent) x strict option {absent,True,False} at "
                    "validator level; end-to-end run_all over frameworks x declared x producible types x {lenient, strict "
                    "option, strict API flag} x {single, typed+untyped mix}; prepare conflicts 12x12. non-trivial = a "
                    "declared type meets a present column (the type check is actually reached); family links: fixed matrix "
                    "(frameworks x modes x 15 key column types x consumer/direct) + generated requests (1-3 linked roots, consumer or "
                    "direct, rules, filters), non-trivial = a typed feature and an engine-added untyped feature reached the validator")
    rep.add("exhaustive", True)
    for c in (vc[40], ec[100], ec[-1], cc[17]):
        rep.sample(c)

    # broken proof: look for a concrete failing input
    if not pr.ok:
        diffs = diag_table_diffs()
        rep.add("diag_table_diffs", diffs)
        for which, d, a in diffs[:10]:
            mode = "strict_option" if which == "strict" else "lenient"
            an = PRODUCER_OF[a]
            obs = e2e_one("PyArrowTable", d, an, mode, False)
            rep.finding(f"table:{which}:{d}:{a}",
                        f"{which} table entry (declared {d}, produced {a}) differs from the documented table; run_all "
                        f"with that pair gives {obs!r}",
                        {"kind": "e2e", "fw": "PyArrowTable", "declared": d, "atype": an, "mode": mode, "mix": False,
                         "obs": obs, "theorem": f"C17_{which}_table"})
            found_input = True
        if not found_input:
            rep.finding("proof-broken", "Props/C17.v no longer checks",
                        {"failed_files": pr.failed_files, "forbidden": pr.forbidden, "log_tail": pr.log[-3000:],
                         "theorems": pr.theorems}, found_input=False)


def replay(path: str) -> int:
    r = json.load(open(path))["replay"]
    if r.get("kind") == "srctie":
        from harness import srctie
        srctie.replay(r, show=True)
        return 0
    if r.get("kind") == "links":
        from harness import c17_links
        c17_links.replay(r)
        return 0
    if r.get("kind") == "e2e":
        obs = e2e_one(r["fw"], r["declared"], r["atype"], r["mode"], r["mix"])
        print("replay e2e:", {k: r[k] for k in ("fw", "declared", "atype", "mode", "mix")}, "->", obs, "(recorded:", r.get("obs"), ")")
        return 0
    print(json.dumps(r, indent=1))
    return 0
