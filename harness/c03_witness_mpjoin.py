"""MULTIPROCESSING + pandas + Link: a requested feature on the join's left object -> the run raises (SYNC returns it)."""
import logging, sys
logging.disable(logging.CRITICAL)
import pandas as pd
from mloda.user import mloda, Feature, PluginCollector, ParallelizationMode, Link, JoinSpec, Index
from mloda.provider import FeatureGroup, DataCreator
from mloda.core.runtime.flight.runner_flight_server import ParallelRunnerFlightServer
from mloda_plugins.compute_framework.base_implementations.pandas.dataframe import PandasDataFrame
import mloda_plugins.compute_framework.base_implementations.pandas.pandaspyarrowtransformer  # noqa

class R1(FeatureGroup):
    @classmethod
    def input_data(cls): return DataCreator({"k1", "a"})
    @classmethod
    def calculate_feature(cls, data, features): return pd.DataFrame({"k1": [1, 2, 3], "a": [10, 20, 30]})
    @classmethod
    def index_columns(cls): return [Index(("k1",))]
    @classmethod
    def compute_framework_rule(cls): return {PandasDataFrame}

class R2(FeatureGroup):
    @classmethod
    def input_data(cls): return DataCreator({"k2", "c"})
    @classmethod
    def calculate_feature(cls, data, features): return pd.DataFrame({"k2": [1, 2, 3], "c": [1, 1, 1]})
    @classmethod
    def index_columns(cls): return [Index(("k2",))]
    @classmethod
    def compute_framework_rule(cls): return {PandasDataFrame}

class J(FeatureGroup):
    @classmethod
    def feature_names_supported(cls): return {"j"}
    def input_features(self, options, feature_name): return {Feature("a"), Feature("c")}
    @classmethod
    def calculate_feature(cls, data, features):
        data = data.copy(); data["j"] = data["a"] + data["c"]; return data
    @classmethod
    def compute_framework_rule(cls): return {PandasDataFrame}

def run(req, mode, fs=None):
    links = {Link.inner(JoinSpec(R1, Index(("k1",))), JoinSpec(R2, Index(("k2",))))}
    try:
        res = mloda.run_all(req, compute_frameworks={PandasDataFrame}, links=links,
                            plugin_collector=PluginCollector.enabled_feature_groups({R1, R2, J}),
                            parallelization_modes={mode}, flight_server=fs)
        return [sorted(map(str, t.columns)) for t in res]
    except Exception as e:
        return "RAISED ... " + " ".join(str(e).split())[-150:]

if __name__ == "__main__":
    fs = ParallelRunnerFlightServer(); fs.start_flight_server_process()
    try:
        for req in (["j"], ["a", "j"]):
            print(req, "SYNC ->", run(req, ParallelizationMode.SYNC))
            print(req, "MULTIPROCESSING ->", run(req, ParallelizationMode.MULTIPROCESSING, fs))
    finally:
        fs.end_flight_server_process()
