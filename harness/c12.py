"""C12 — every framework's merge engine implements the same relational operators.

Spec  : coq/Spec/Rel.v (rel_join, bag_eq)          Model : coq/Model/MergePyDict.v (faithful PythonDict engine + dispatch)
Refs  : coq/Model/MergeLibRef.v (reference descriptions of the pandas / pyarrow engines, T2 only)
Proofs: coq/Proofs/{RelLemmas,MergePyDictP}.v       Theorems: coq/Props/C12.v

T2 (correspondence; all comparisons are evaluated by vm_compute inside coqc on the definitions the theorems are about):
  engine   : PythonDictMergeEngine.merge vs merge_pydict on EVERY generated case (equality of bags of rows);
             PandasMergeEngine.merge and PyArrowMergeEngine.merge vs rel_join; inside a verified known-defect
             domain the observation must equal the reference description (defect present) or rel_join (defect gone)
  dispatch : BaseMergeEngine.merge on every JoinType member vs base_dispatch; PythonDictMergeEngine.merge_* vs pydict_kernel
  e2e      : mloda.run_all with two generated root groups + a consumer + a Link on each of the three frameworks;
             the table the consumer receives is checked like an engine-level observation and must equal the direct
             engine call on the same inputs
  pipe     : harness/c12_pipe.py - pipelines with 0 / 1 / n-row right tables that KEEP their schema (pandas / pyarrow), left tables
             with repeated rows: column set AND rows of the table the consumer receives = smerge_data srel_join
             (Model/JoinCallEmpty.v: JoinStep._merge_data's unconditional engine call, tables with schemas) = direct engine call
Inputs: pairs of tables with 0-3 rows, key alphabet {1, 2, None} (or {"x","y",None}), value alphabet {7, 8, None},
  1-2 key columns with equal / different / partly different names, overlapping non-key names, six join types.
  thorough: exhaustive for <=2 rows x <=2 rows with one key column (equal and different names, disjoint and identical
  non-key names, value alphabet {7, None}) + PRNG; quick: PRNG sample of the same space.
Normalisation: rows as bags; None / NaN / pd.NA / absent column -> null; floats that are integral -> ints.
"""
from __future__ import annotations

import itertools
import json
import logging
import math
import random
import re
import time
from concurrent.futures import ThreadPoolExecutor
from typing import Any, Dict, List, Optional, Sequence, Tuple

from lib import vlib
from lib.vlib import cq_list, cq_str

LEVEL = "proof"
logging.disable(logging.CRITICAL)
REQ = ["MV.Spec.Rel", "MV.Model.MergePyDict", "MV.Model.MergeLibRef"]
JTS = ["INNER", "LEFT", "RIGHT", "OUTER", "APPEND", "UNION"]
CQ_JT = {"INNER": "JInner", "LEFT": "JLeft", "RIGHT": "JRight", "OUTER": "JOuter", "APPEND": "JAppend", "UNION": "JUnion"}
ENGINES = ("pydict", "pandas", "pyarrow")

# bits of the classification code computed in Coq
B_PD_MODEL, B_PD_SPEC, B_PA_SPEC, B_PA_REF, B_AR_SPEC, B_AR_REF = 1, 2, 4, 8, 16, 32
B_DUP, B_NULL, B_OVER, B_UNION, B_ARDOM, B_ARDUP, B_SOV, B_PD_SKIP, B_PA_SKIP, B_AR_SKIP = 64, 128, 256, 512, 1024, 2048, 4096, 8192, 16384, 32768

EXTRA = r"""
Inductive obs := Skip | Raised | DupCols | Rows (t : table).
Definition case := (jointype * (list string * list string) * (list string * list string) * (table * table) * (obs * obs * obs))%type.
Definition idord (l : list (list val)) := l.
Definition eq_rows (o : obs) (t : table) := match o with Rows x => bag_eqb x t | _ => false end.
Definition eq_opt (o : obs) (t : option table) :=
  match o, t with Rows x, Some y => bag_eqb x y | Raised, None => true | _, _ => false end.
Definition is_skip (o : obs) := match o with Skip => true | _ => false end.
Definition is_dup (o : obs) := match o with DupCols => true | _ => false end.
Definition sov (jt : jointype) (lk rk lcols rcols : list string) :=
  is_join jt && match pandas_overlap lk rk lcols rcols with [] => false | _ => true end.
Definition bit (b : bool) (w : Z) : Z := if b then w else 0%Z.
Definition code (c : case) : Z :=
  match c with
  | (jt, (lk, rk), (lcols, rcols), (L, R), (opd, opa, oar)) =>
    let spec := rel_join jt lk rk L R in
    (bit (eq_rows opd (merge_pydict idord jt L R lk rk)) 1 + bit (eq_rows opd spec) 2
     + bit (eq_rows opa spec) 4 + bit (eq_rows opa (pandas_ref jt lk rk lcols rcols L R)) 8
     + bit (eq_rows oar spec) 16 + bit (eq_opt oar (arrow_ref jt lk rk lcols rcols L R)) 32
     + bit (kf_dup_key jt L R lk rk) 64 + bit (kf_null_key jt L R lk rk) 128
     + bit (kf_overlap_cols jt L R lk rk) 256 + bit (kf_union_partial_dup jt L R lk rk) 512
     + bit (arrow_dom jt lk rk lcols rcols) 1024 + bit (is_dup oar) 2048 + bit (sov jt lk rk lcols rcols) 4096
     + bit (is_skip opd) 8192 + bit (is_skip opa) 16384 + bit (is_skip oar) 32768)%Z
  end.
(* "no violation": the PythonDict engine is the model (or, inside a known-defect domain, the spec);
   pandas / pyarrow are the spec, or inside their verified domains the reference description *)
Definition chk_ok (c : case) : bool :=
  match c with
  | (jt, (lk, rk), (lcols, rcols), (L, R), (opd, opa, oar)) =>
    let spec := rel_join jt lk rk L R in
    (is_skip opd || eq_rows opd (merge_pydict idord jt L R lk rk) || (in_kf jt L R lk rk && eq_rows opd spec))
    && (is_skip opa || eq_rows opa spec
        || ((kf_null_key jt L R lk rk || sov jt lk rk lcols rcols) && eq_rows opa (pandas_ref jt lk rk lcols rcols L R)))
    && (is_skip oar || eq_rows oar spec
        || (arrow_dom jt lk rk lcols rcols && eq_opt oar (arrow_ref jt lk rk lcols rcols L R))
        || (sov jt lk rk lcols rcols && is_dup oar))
  end.
Definition chk_dispatch (c : jointype * string) : bool :=
  String.eqb (snd c)
    (match base_dispatch (fst c) with
     | MInner => "merge_inner" | MLeft => "merge_left" | MRight => "merge_right"
     | MFullOuter => "merge_full_outer" | MAppend => "merge_append" | MUnion => "merge_union" end).
Definition chk_kernel (c : jointype * string) : bool :=
  String.eqb (snd c)
    (match base_dispatch (fst c) with
     | MInner => "_inner_join" | MLeft => "_left_join" | MRight => "_right_join"
     | MFullOuter => "_outer_join" | MAppend => "concat" | MUnion => "_union_join" end).
"""
CASE_TY = "case"


# ------------------------------------------------------------------------------------------------------------
# literals
# ------------------------------------------------------------------------------------------------------------
def cq_val(v: Any) -> str:
    if v is None:
        return "VNull"
    if isinstance(v, bool):
        raise ValueError("bool value")
    if isinstance(v, int):
        return f"VInt {v}" if v >= 0 else f"VInt ({v})"
    if isinstance(v, str):
        return f"VStr {cq_str(v)}"
    raise ValueError(f"value {v!r} has no Rel.val encoding")


def cq_row(r: Sequence[Tuple[str, Any]]) -> str:
    return cq_list(f"({cq_str(c)}, {cq_val(v)})" for c, v in r)


def cq_table(t: Sequence[Sequence[Tuple[str, Any]]]) -> str:
    return cq_list(cq_row(r) for r in t)


def cq_cols(cs: Sequence[str]) -> str:
    return cq_list(cq_str(c) for c in cs)


def cq_obs(o: Any) -> str:
    if o is None:
        return "Skip"
    if o == "raised":
        return "Raised"
    if o == "dupcols":
        return "DupCols"
    return f"(Rows {cq_table(o)})"


def case_term(c: dict) -> str:
    L = [[(col, r.get(col)) for col in c["lcols"]] for r in c["L"]]
    R = [[(col, r.get(col)) for col in c["rcols"]] for r in c["R"]]
    o = c["obs"]
    return (f"({CQ_JT[c['jt']]}, ({cq_cols(c['lk'])}, {cq_cols(c['rk'])}), ({cq_cols(c['lcols'])}, {cq_cols(c['rcols'])}), "
            f"({cq_table(L)}, {cq_table(R)}), ({cq_obs(o.get('pydict'))}, {cq_obs(o.get('pandas'))}, {cq_obs(o.get('pyarrow'))}))")


# ------------------------------------------------------------------------------------------------------------
# running the real engines
# ------------------------------------------------------------------------------------------------------------
def norm_val(v: Any) -> Any:
    """None / NaN / pd.NA / NaT -> None; numpy scalars -> python; integral floats -> int. Anything else is refused."""
    import pandas as pd
    if v is None or v is pd.NA or v is pd.NaT:
        return None
    if hasattr(v, "item") and not isinstance(v, (int, float, str)):
        v = v.item()
    if isinstance(v, bool):
        raise ValueError("unexpected bool")
    if isinstance(v, float):
        if math.isnan(v):
            return None
        if v == int(v):
            return int(v)
        raise ValueError(f"non-integral float {v}")
    if isinstance(v, (int, str)):
        return v
    raise ValueError(f"unexpected value {v!r} of type {type(v).__name__}")


def norm_rows(rows: Sequence[dict]) -> List[List[Tuple[str, Any]]]:
    out = []
    for r in rows:
        out.append(sorted((str(c), norm_val(v)) for c, v in r.items()))
    return sorted(out, key=repr)


def arrow_table(rows: Sequence[dict], cols: Sequence[str], ktype: str, keys: Sequence[str]) -> Any:
    import pyarrow as pa
    arrs = {}
    for c in cols:
        ty = pa.string() if (ktype == "str" and c in keys) else pa.int64()
        arrs[c] = pa.array([r.get(c) for r in rows], type=ty)
    return pa.table(arrs) if arrs else pa.table({})


_STR_DTYPE: List[Any] = []


def pandas_frame(rows: Sequence[dict], cols: Sequence[str], ktype: str, keys: Sequence[str]) -> Any:
    """int columns are int64, or float64 with NaN when a value is missing (what pandas itself does); string keys use the
    default string dtype of the installed pandas."""
    import pandas as pd
    if not _STR_DTYPE:
        try:
            pd.Series([], dtype="str")
            _STR_DTYPE.append("str")
        except Exception:  # noqa: BLE001
            _STR_DTYPE.append(object)
    data = {}
    for c in cols:
        vals = [r.get(c) for r in rows]
        if ktype == "str" and c in keys:
            data[c] = pd.Series(vals, dtype=_STR_DTYPE[0])
        elif any(v is None for v in vals):
            data[c] = pd.Series([float("nan") if v is None else float(v) for v in vals], dtype="float64")
        else:
            data[c] = pd.Series(vals, dtype="int64")
    return pd.DataFrame(data, columns=list(cols))


def _jt(name: str) -> Any:
    from mloda.user import JoinType
    return JoinType[name]


def native_inputs(c: dict, engine: str) -> Tuple[Any, Any]:
    if engine == "pydict":
        return [dict(r) for r in c["L"]], [dict(r) for r in c["R"]]
    if engine == "pyarrow":
        return arrow_table(c["L"], c["lcols"], c["ktype"], c["lk"]), arrow_table(c["R"], c["rcols"], c["ktype"], c["rk"])
    return pandas_frame(c["L"], c["lcols"], c["ktype"], c["lk"]), pandas_frame(c["R"], c["rcols"], c["ktype"], c["rk"])


def observe(engine: str, out: Any) -> Any:
    """Canonical observation of an engine output: sorted bag of rows, or 'dupcols'."""
    if engine == "pydict":
        return norm_rows(out)
    if engine == "pandas":
        cols = [str(x) for x in out.columns]
        if len(set(cols)) != len(cols):
            return "dupcols"
        return norm_rows(out.to_dict("records"))
    cols = list(out.column_names)
    if len(set(cols)) != len(cols):
        return "dupcols"
    return norm_rows(out.to_pylist())


def engine_class(engine: str) -> Any:
    if engine == "pydict":
        from mloda_plugins.compute_framework.base_implementations.python_dict.python_dict_merge_engine import PythonDictMergeEngine
        return PythonDictMergeEngine
    if engine == "pandas":
        from mloda_plugins.compute_framework.base_implementations.pandas.pandas_merge_engine import PandasMergeEngine
        return PandasMergeEngine
    from mloda_plugins.compute_framework.base_implementations.pyarrow.pyarrow_merge_engine import PyArrowMergeEngine
    return PyArrowMergeEngine


def run_engine(c: dict, engine: str) -> Tuple[Any, Optional[str]]:
    from mloda.user import Index
    left, right = native_inputs(c, engine)
    try:
        out = engine_class(engine)().merge(left, right, _jt(c["jt"]), Index(tuple(c["lk"])), Index(tuple(c["rk"])))
    except Exception as e:  # noqa: BLE001
        return "raised", f"{type(e).__name__}: {str(e)[:80]}"
    try:
        return observe(engine, out), None
    except Exception as e:  # noqa: BLE001
        return "raised", f"observe {type(e).__name__}: {str(e)[:80]}"


def run_engines(c: dict) -> dict:
    c["obs"], c["exc"] = {}, {}
    for e in ENGINES:
        o, x = run_engine(c, e)
        c["obs"][e] = o
        if x:
            c["exc"][e] = x
    return c


# ------------------------------------------------------------------------------------------------------------
# generation
# ------------------------------------------------------------------------------------------------------------
KEYCFG = {"same1": (["k"], ["k"]), "diff1": (["k"], ["j"]), "same2": (["k", "k2"], ["k", "k2"]),
          "diff2": (["k", "k2"], ["j", "j2"]), "mixed2": (["k", "k2"], ["k", "j2"])}
# non-key columns of (left, right)
LAYOUT = {"A": (["a"], ["b"]), "B": (["a", "v"], ["b", "v"]), "C": (["a"], ["a"]), "D": (["a"], ["b", "k"]), "V": (["v"], ["v"]),
          # tables WITHOUT payload columns (the keys are the whole table): right, left, both
          "K": (["a"], []), "L": ([], ["b"]), "KK": ([], [])}


def make_case(jt: str, cfg: str, layout: str, ktype: str, L: List[dict], R: List[dict]) -> dict:
    lk, rk = KEYCFG[cfg]
    ln, rn = LAYOUT[layout]
    return {"jt": jt, "cfg": cfg, "layout": layout, "ktype": ktype, "lk": lk, "rk": rk,
            "lcols": lk + ln, "rcols": rk + rn, "L": L, "R": R}


def kalpha(ktype: str) -> List[Any]:
    return [1, 2, None] if ktype == "int" else ["x", "y", None]


def random_table(rng: random.Random, cols: Sequence[str], keys: Sequence[str], ktype: str, maxrows: int) -> List[dict]:
    n = min(rng.choice([0, 1, 1, 2, 2, 2, 3, 3]), maxrows)
    ka = kalpha(ktype)
    # bias: null keys are rarer than in the uniform choice so that cases outside the null domain are common
    kw = [4, 4, 2]
    return [{c: (rng.choices(ka, kw)[0] if c in keys else rng.choice([7, 8, None])) for c in cols} for _ in range(n)]


def random_case(rng: random.Random) -> dict:
    cfg = rng.choice(["same1", "same1", "diff1", "diff1", "same2", "diff2", "mixed2"])
    layout = rng.choice(["A", "A", "A", "B", "C", "K", "K", "L", "KK"] + (["D"] if cfg == "diff1" else []))
    ktype = rng.choice(["int", "int", "str"])
    jt = rng.choice(JTS)
    lk, rk = KEYCFG[cfg]
    ln, rn = LAYOUT[layout]
    L = random_table(rng, lk + ln, lk, ktype, 3)
    R = random_table(rng, rk + rn, rk, ktype, 3)
    return make_case(jt, cfg, layout, ktype, L, R)


def exhaustive_cases() -> List[dict]:
    """All pairs of tables with <= 2 rows over key {1,2,None} x value {7,None}; one key column; equal / different key
    names with disjoint non-key names, and identical schemas (layout C, equal names); six join types."""
    out = []
    for cfg, layout in (("same1", "A"), ("diff1", "A"), ("same1", "C")):
        lk, rk = KEYCFG[cfg]
        ln, rn = LAYOUT[layout]

        def tables(kc: str, vc: str) -> List[List[dict]]:
            rows = [{kc: k, vc: v} for k in (1, 2, None) for v in (7, None)]
            ts: List[List[dict]] = [[]]
            ts += [[r] for r in rows]
            ts += [[r1, r2] for r1 in rows for r2 in rows]
            return ts

        for L in tables(lk[0], ln[0]):
            for R in tables(rk[0], rn[0]):
                for jt in JTS:
                    out.append(make_case(jt, cfg, layout, "int", L, R))
    return out


def corpus_cases() -> List[dict]:
    """Canonical witnesses of the known findings (known_findings.json); run first on every tier."""
    mk = make_case
    return [
        mk("INNER", "same1", "A", "int", [{"k": 1, "a": 10}], [{"k": 1, "b": 100}, {"k": 1, "b": 101}]),       # pydict dup key
        mk("INNER", "same1", "A", "int", [{"k": None, "a": 10}], [{"k": None, "b": 100}]),                      # null keys: pydict, pandas
        mk("INNER", "same1", "V", "int", [{"k": 1, "v": 10}], [{"k": 1, "v": 20}]),                             # overlap: all three
        mk("OUTER", "same1", "V", "int", [{"k": 1, "v": 10}], [{"k": 2, "v": 20}]),                             # overlap: left-only row loses its value
        mk("UNION", "same1", "C", "int", [{"k": 1, "a": 10}], [{"k": 1, "a": 11}]),                             # pydict union; pyarrow union
        mk("UNION", "same1", "C", "int", [{"k": 1, "a": 10}], [{"k": 2, "a": 20}]),                             # pyarrow union (only)
        mk("APPEND", "same1", "A", "int", [{"k": 1, "a": 10}], [{"k": 2, "b": 20}]),                            # pyarrow append
        mk("OUTER", "diff1", "A", "int", [{"k": 1, "a": 10}], [{"j": 2, "b": 20}]),                             # pyarrow outer coalesce
        mk("RIGHT", "diff1", "A", "int", [{"k": 1, "a": 10}], [{"j": 1, "b": 20}]),                             # pyarrow right drops k
        mk("INNER", "diff2", "A", "int", [{"k": 1, "k2": 2, "a": 10}], [{"j": 1, "j2": 2, "b": 20}]),           # pyarrow multi-key
    ]


E2E_CORPUS = [("pydict", ("INNER", "same1", "A", "int", [{"k": 1, "a": 10}], [{"k": 2, "b": 20}]))]   # empty result raises


# ------------------------------------------------------------------------------------------------------------
# Coq evaluation of the classification code (same cases files as vlib.run_cases, result = one Z per case)
# ------------------------------------------------------------------------------------------------------------
def eval_codes(name: str, terms: Sequence[str], shard: int = 300) -> Tuple[List[int], dict]:
    d = vlib.BUILD / "C12" / name
    if d.exists():
        import shutil
        shutil.rmtree(d)
    d.mkdir(parents=True)
    shards = [list(range(i, min(i + shard, len(terms)))) for i in range(0, len(terms), shard)]
    files = []
    for k, idxs in enumerate(shards):
        f = d / f"codes_{k}.v"
        lines = ["From Coq Require Import List String ZArith Bool.", "Import ListNotations.",
                 "Open Scope string_scope. Open Scope list_scope."]
        lines += [f"Require Import {r}." for r in REQ]
        lines.append(EXTRA)
        lines.append(f"Definition cases : list ({CASE_TY}) := [")
        lines.append(";\n".join(terms[i] for i in idxs))
        lines.append("].")
        lines.append("Definition verif_codes := map code cases.")
        lines.append("Eval vm_compute in verif_codes.")
        f.write_text("\n".join(lines) + "\n")
        files.append(f)

    def one(f: Any) -> Tuple[int, str]:
        return vlib.sh(["coqc"] + vlib.coq_project_args() + [str(f)], vlib.COQ_TIMEOUT_S, cwd=d)

    t0 = time.time()
    with ThreadPoolExecutor(max_workers=vlib.NCPU) as ex:
        results = list(ex.map(one, files))
    codes: List[int] = []
    for k, (rc, out) in enumerate(results):
        if rc != 0:
            raise RuntimeError(f"coqc failed on {files[k]}:\n{out[-3000:]}")
        m = re.search(r"=\s*\[(.*?)\]\s*:\s*list Z", out, re.S)
        if not m:
            raise RuntimeError(f"cannot parse coqc output for {files[k]}:\n{out[-2000:]}")
        vals = [int(x) for x in re.findall(r"-?\d+", m.group(1).replace("%Z", ""))]
        if len(vals) != len(shards[k]):
            raise RuntimeError(f"{files[k]}: {len(vals)} codes for {len(shards[k])} cases")
        codes += vals
    return codes, {"coq_cases": len(terms), "coq_shards": len(files), "coq_eval_s": round(time.time() - t0, 2),
                   "cmd": f"coqc -Q {vlib.COQ} MV {d}/codes_*.v  (Eval vm_compute in map code cases)"}


# ------------------------------------------------------------------------------------------------------------
# classification of one case from its code (mirrors chk_ok; used to name the finding)
# ------------------------------------------------------------------------------------------------------------
PD_KEYS = [(B_DUP, "C12-pydict-dup-key-one-match"), (B_NULL, "C12-pydict-null-keys-match"),
           (B_OVER, "C12-pydict-overlap-right-overwrites"), (B_UNION, "C12-pydict-union-dedups-on-key")]


def classify(c: dict, code: int) -> List[Tuple[str, str, bool]]:
    """-> list of (engine, finding key or 'VIOLATION:<why>', narrow) for every deviation from rel_join."""
    out: List[Tuple[str, str, bool]] = []
    has = lambda b: bool(code & b)  # noqa: E731
    # PythonDict
    if not has(B_PD_SKIP):
        doms = [k for b, k in PD_KEYS if has(b)]
        if not has(B_PD_MODEL) and not (doms and has(B_PD_SPEC)):
            out.append(("pydict", "VIOLATION:PythonDict engine differs from its model" +
                        ("" if doms else " and from the relational operator"), True))
        elif not has(B_PD_SPEC):
            if not doms:
                out.append(("pydict", "VIOLATION:PythonDict engine differs from the relational operator outside every known domain", True))
            for k in doms:
                out.append(("pydict", k, len(doms) == 1))
    # pandas
    if not has(B_PA_SKIP) and not has(B_PA_SPEC):
        if has(B_PA_REF) and (has(B_NULL) or has(B_SOV)):
            if has(B_NULL):
                out.append(("pandas", "C12-pandas-null-keys-match", not has(B_SOV)))
            if has(B_SOV):
                out.append(("pandas", "C12-pandas-overlap-suffixes", not has(B_NULL)))
        else:
            out.append(("pandas", "VIOLATION:Pandas engine differs from the relational operator" +
                        (" (and from the pandas reference inside a known domain)" if has(B_NULL) or has(B_SOV) else ""), True))
    # pyarrow
    if not has(B_AR_SKIP) and not has(B_AR_SPEC):
        if has(B_SOV) and has(B_ARDUP):
            out.append(("pyarrow", "C12-pyarrow-overlap-duplicate-columns", True))
        elif has(B_ARDOM) and has(B_AR_REF):
            if c["jt"] == "UNION":
                k = "C12-pyarrow-union-unsupported"
            elif c["jt"] == "APPEND":
                k = "C12-pyarrow-append-schema-mismatch-raises"
            elif len(c["lk"]) > 1:
                k = "C12-pyarrow-multikey-diffnames-drops-keys"
            elif c["jt"] == "OUTER":
                k = "C12-pyarrow-outer-diffkey-coalesce"
            elif c["jt"] == "RIGHT":
                k = "C12-pyarrow-right-diffkey-drops-left-key"
            else:
                k = "VIOLATION:PyArrow engine differs from the relational operator for an inner/left join on one differently named key"
            out.append(("pyarrow", k, not has(B_SOV)))
        else:
            out.append(("pyarrow", "VIOLATION:PyArrow engine differs from the relational operator" +
                        (" (and from the pyarrow reference inside a known domain)" if has(B_ARDOM) else ""), True))
    return out


def is_nontrivial(c: dict) -> bool:
    if not c["L"] or not c["R"]:
        return False
    if c["jt"] in ("APPEND", "UNION"):
        return True
    kl = [tuple(r.get(k) for k in c["lk"]) for r in c["L"]]
    kr = [tuple(r.get(k) for k in c["rk"]) for r in c["R"]]
    return any(a == b and None not in a for a in kl for b in kr)


def slim(c: dict) -> dict:
    return {k: c[k] for k in ("jt", "cfg", "layout", "ktype", "lk", "rk", "lcols", "rcols", "L", "R", "obs") if k in c} | \
           ({"exc": c["exc"]} if c.get("exc") else {}) | ({"e2e": c["e2e"]} if c.get("e2e") else {})


# ------------------------------------------------------------------------------------------------------------
# dispatch tie
# ------------------------------------------------------------------------------------------------------------
def dispatch_cases() -> Tuple[List[Tuple[str, str]], List[Tuple[str, str]], List[str]]:
    from mloda.user import Index, JoinType
    from mloda.provider import BaseMergeEngine
    PD = engine_class("pydict")
    members = [m.name for m in JoinType]
    called: List[str] = []

    def rec(name: str) -> Any:
        def f(self: Any, l: Any, r: Any, li: Any, ri: Any) -> Any:
            called.append(f"{name}:{l}:{r}:{li.index}:{ri.index}")
            return name
        return f

    Rec = type("C12Rec", (BaseMergeEngine,), {n: rec(n) for n in ("merge_inner", "merge_left", "merge_right", "merge_full_outer",
                                                                  "merge_append", "merge_union")})
    base: List[Tuple[str, str]] = []
    for m in JoinType:
        called.clear()
        try:
            res = Rec().merge("L", "R", m, Index(("lk",)), Index(("rk",)))
            ok_args = called == [f"{res}:L:R:('lk',):('rk',)"]
            base.append((m.name, res if ok_args else f"bad-args:{called}"))
        except Exception as e:  # noqa: BLE001
            base.append((m.name, f"raised:{type(e).__name__}"))
    kern: List[Tuple[str, str]] = []
    for m in JoinType:
        hits: List[str] = []
        sub = {}
        for n in ("_inner_join", "_left_join", "_right_join", "_outer_join", "_union_join"):
            def mk(n: str = n) -> Any:
                def f(self: Any, l: Any, r: Any, lc: Any, rc: Any) -> Any:
                    hits.append(f"{n}:{l}:{r}:{lc}:{rc}")
                    return n
                return f
            sub[n] = mk()
        Sub = type("C12PD", (PD,), sub)
        try:
            res = Sub().merge(["L"], ["R"], m, Index(("lk",)), Index(("rk",)))
            if res == ["L", "R"] and not hits:
                kern.append((m.name, "concat"))
            elif hits == [f"{res}:['L']:['R']:('lk',):('rk',)"]:
                kern.append((m.name, res))
            else:
                kern.append((m.name, f"bad:{hits}:{res}"))
        except Exception as e:  # noqa: BLE001
            kern.append((m.name, f"raised:{type(e).__name__}"))
    return base, kern, members


# ------------------------------------------------------------------------------------------------------------
# end to end: the join a consumer receives through mloda.run_all
# ------------------------------------------------------------------------------------------------------------
_e2e_n = [0]


def framework_class(engine: str) -> Any:
    if engine == "pydict":
        from mloda_plugins.compute_framework.base_implementations.python_dict.python_dict_framework import PythonDictFramework
        return PythonDictFramework
    if engine == "pandas":
        from mloda_plugins.compute_framework.base_implementations.pandas.dataframe import PandasDataFrame
        return PandasDataFrame
    from mloda_plugins.compute_framework.base_implementations.pyarrow.table import PyArrowTable
    return PyArrowTable


def exc_summary(e: BaseException) -> str:
    """mloda wraps worker failures into Exception((traceback text, ...)): report the innermost 'XError: message'."""
    text = str(e).replace("\\n", "\n")
    ms = re.findall(r"([A-Za-z_.]+(?:Error|Exception)): ([^\\\n\"']{0,140})", text)
    if ms:
        return f"{ms[-1][0].split('.')[-1]}: {ms[-1][1]}"
    return f"{type(e).__name__}: {text[:100]}"


def run_e2e(c: dict, engine: str) -> Tuple[Any, Optional[str]]:
    """Two DataCreator roots producing L and R natively in the framework, one consumer of all their columns, one Link."""
    import pyarrow as pa
    from mloda.provider import FeatureGroup, DataCreator
    from mloda.user import Feature, Index, Link, JoinSpec, PluginCollector, mloda
    fw = framework_class(engine)
    _e2e_n[0] += 1
    tag = f"{_e2e_n[0]}"
    left, right = native_inputs(c, engine)
    received: List[Any] = []

    def root(name: str, cols: Sequence[str], data: Any) -> type:
        def input_data(cls: Any) -> Any:
            return DataCreator(set(cols))

        def calculate_feature(cls: Any, d: Any, features: Any) -> Any:
            return data

        def compute_framework_rule(cls: Any) -> Any:
            return {fw}
        return type(name, (FeatureGroup,), {"input_data": classmethod(input_data), "calculate_feature": classmethod(calculate_feature),
                                            "compute_framework_rule": classmethod(compute_framework_rule)})

    A = root(f"C12L{tag}", c["lcols"], left)
    B = root(f"C12R{tag}", c["rcols"], right)
    link = Link(_jt(c["jt"]), JoinSpec(A, Index(tuple(c["lk"]))), JoinSpec(B, Index(tuple(c["rk"]))))
    cname = f"C12Cons{tag}"
    # a feature name may be served by one group only: names that both roots produce (equal key names) are not requested
    need = set(c["lcols"]) ^ set(c["rcols"])

    def input_features(self: Any, options: Any, feature_name: Any) -> Any:
        if c["jt"] in ("APPEND", "UNION"):
            # the planner locates the two sides of an append/union by the index of exactly one feature per side
            la = [x for x in c["lcols"] if x in need][0]
            ra = [x for x in c["rcols"] if x in need][0]
            return {Feature(x, index=Index(tuple(c["lk"])) if x == la else (Index(tuple(c["rk"])) if x == ra else None))
                    for x in need}
        return {Feature(x) for x in need}

    def calculate_feature(cls: Any, data: Any, features: Any) -> Any:
        received.append(data)
        if engine == "pydict":
            return [{**r, cname: 1} for r in data] if data else [{cname: 1}]
        if engine == "pyarrow":
            return data.append_column(cname, pa.array([1] * data.num_rows, type=pa.int64()))
        data = data.copy()
        data[cname] = 1
        return data

    def compute_framework_rule(cls: Any) -> Any:
        return {fw}

    C = type(cname, (FeatureGroup,), {"input_features": input_features, "calculate_feature": classmethod(calculate_feature),
                                      "compute_framework_rule": classmethod(compute_framework_rule)})
    try:
        mloda.run_all([Feature(cname)], links={link}, compute_frameworks={fw},
                      plugin_collector=PluginCollector.enabled_feature_groups({A, B, C}))
    except Exception as e:  # noqa: BLE001
        return "raised", exc_summary(e)
    if not received:
        return "raised", "consumer never called"
    try:
        return observe(engine, received[-1]), None
    except Exception as e:  # noqa: BLE001
        return "raised", f"observe {type(e).__name__}: {str(e)[:80]}"


def e2e_cases(rng: random.Random, n: int) -> List[dict]:
    out = []
    forced = list(E2E_CORPUS)
    while len(out) < n:
        if forced:
            feng, args = forced.pop(0)
            c = make_case(*args)
        else:
            feng, c = None, random_case(rng)
        # the API refuses RIGHT links between unrelated groups; a feature name can be served by one root only, so the
        # non-key columns are disjoint (layout A) and equally named key columns are not requested by the consumer
        if c["jt"] == "RIGHT" or c["layout"] != "A":
            continue
        if not c["L"] or not c["R"]:
            continue
        eng = feng or rng.choice(ENGINES)
        direct, _ = run_engine(c, eng)
        got, exc = run_e2e(c, eng)
        c["exc"] = {eng: exc} if exc else {}
        # PythonDictFramework.set_column_names raises on an empty result: the run fails instead of yielding an empty table
        empty_raises = (eng == "pydict" and got == "raised" and direct == [] and "Data is empty" in (exc or ""))
        c["e2e"] = {"engine": eng, "direct": direct, "same_as_direct": got == direct, "empty_result_raises": empty_raises}
        c["obs"] = {} if empty_raises else {eng: got}
        out.append(c)
    return out


# ------------------------------------------------------------------------------------------------------------
def check_cases(rep: vlib.Reporter, name: str, cases: List[dict], stats: Dict[str, Any], first: Dict[str, dict]) -> bool:
    """Evaluate chk_ok (vlib.run_cases) and the classification code on the cases; report. Returns True if a violation
    with a concrete input was reported."""
    terms = [case_term(c) for c in cases]
    bad, info = vlib.run_cases("C12", name, REQ, "chk_ok", terms, case_type=CASE_TY, extra_defs=EXTRA, shard=300)
    codes, info2 = eval_codes(name + "_codes", terms)
    stats[name] = {**info, "codes_eval_s": info2["coq_eval_s"], "cases": len(cases), "chk_ok_false": len(bad)}
    found = False
    badset = set(bad)
    viol = 0
    per_key: Dict[str, int] = stats.setdefault("deviations_by_key", {})
    dom = stats.setdefault("domain_counts", {"dup": 0, "null": 0, "overlap_data": 0, "union_partial_dup": 0,
                                              "arrow_dom": 0, "overlap_schema": 0, "outside_all_pydict_domains": 0})
    agree = stats.setdefault("agree_with_rel_join", {e: 0 for e in ENGINES})
    ran = stats.setdefault("engine_runs", {e: 0 for e in ENGINES})
    for i, (c, code) in enumerate(zip(cases, codes)):
        for b, k in ((B_DUP, "dup"), (B_NULL, "null"), (B_OVER, "overlap_data"), (B_UNION, "union_partial_dup"),
                     (B_ARDOM, "arrow_dom"), (B_SOV, "overlap_schema")):
            if code & b:
                dom[k] += 1
        if not code & (B_DUP | B_NULL | B_OVER | B_UNION):
            dom["outside_all_pydict_domains"] += 1
        for e, skipb, specb in (("pydict", B_PD_SKIP, B_PD_SPEC), ("pandas", B_PA_SKIP, B_PA_SPEC), ("pyarrow", B_AR_SKIP, B_AR_SPEC)):
            if not code & skipb:
                ran[e] += 1
                if code & specb:
                    agree[e] += 1
        devs = classify(c, code)
        is_viol = any(k.startswith("VIOLATION:") for _, k, _ in devs)
        if is_viol != (i in badset):
            # the two evaluations of the same definitions must agree; if not, the harness itself is broken
            rep.finding("check-inconsistent", f"chk_ok and code disagree on case {i} of {name}", {"case": slim(c), "code": code},
                        found_input=False)
        for eng, k, narrow in devs:
            per_key[k] = per_key.get(k, 0) + 1
            if k.startswith("VIOLATION:"):
                viol += 1
                found = True
                if viol <= 5:
                    rep.finding(f"{name}:{eng}:{json.dumps(slim(c), sort_keys=True, default=str)[:400]}",
                                f"{k[10:]}: {c['jt']} on keys {c['lk']}/{c['rk']}, L={c['L']} R={c['R']} -> {eng} gave {c['obs'].get(eng)}",
                                {"kind": name, "engine": eng, "code": code, "case": slim(c)})
            else:
                # known finding: keep the first witness that lies in this domain only (else the first one)
                if k not in first or (narrow and not first[k]["narrow"]):
                    first[k] = {"narrow": narrow, "engine": eng, "case": slim(c), "code": code, "kind": name}
    return found


def run(rep: vlib.Reporter, tier: str, seed: int) -> None:
    rng = random.Random(seed * 7919 + 12)
    big = tier == "thorough"
    pr = vlib.build_props("C12", extra_targets=["Model/MergeLibRef.vo"])
    rep.proof(pr)
    rep.coverage["trusted_base"] += [
        "hand-written model Model/MergePyDict.v of PythonDictMergeEngine (_inner/_left/_right/_outer/_union_join, merge_append) and "
        "of the BaseMergeEngine.merge dispatch; tied by correspondence (T2) on every generated case and by the dispatch tie over all JoinType members",
        "Python ==/hash on tuples of int/str/None = structural equality (generated values only: no bool/float keys, where 1 == True == 1.0)",
        "Model/MergeLibRef.v: reference DESCRIPTIONS of pandas.merge / pyarrow Table.join behaviour (NaN keys equal, _x/_y suffixes; Acero keeps one "
        "key set, coalesces in full outer joins); nothing is proved about pandas/pyarrow, they are only compared with rel_join by T2",
        "harness normalisation: None/NaN/pd.NA/absent column -> null, integral floats -> ints (pandas widens int columns with missing values), "
        "rows sorted; pandas inputs have int64 columns (float64 with NaN when a value is missing) and default-string-dtype key columns, pyarrow inputs int64 / string columns",
        "iteration order of Python sets is a parameter of the model (ord); the bag comparison does not depend on it (theorem quantifies over ord)",
        "Model/JoinCallEmpty.v: smerge_data (JoinStep._merge_data calls the engine unconditionally) and srel_join (result columns = left columns "
        "+ new right columns, every row padded) are hand-written; tied by the family `pipe` (column set and rows of the table a consumer receives "
        "through run_all, on pandas / pyarrow, right tables with 0 / 1 / n rows); a 0-row PythonDict table has no schema and is kept out of that family"]
    found = False
    stats: Dict[str, Any] = {}
    first: Dict[str, dict] = {}

    # ---- dispatch tie (exhaustive over the enum) ----
    base, kern, members = dispatch_cases()
    bad1, _ = vlib.run_cases("C12", "dispatch", REQ, "chk_dispatch",
                             [f"({CQ_JT.get(n, 'JInner')}, {cq_str(m)})" for n, m in base], case_type="jointype * string", extra_defs=EXTRA)
    bad2, _ = vlib.run_cases("C12", "kernel", REQ, "chk_kernel",
                             [f"({CQ_JT.get(n, 'JInner')}, {cq_str(m)})" for n, m in kern], case_type="jointype * string", extra_defs=EXTRA)
    rep.count(len(base) + len(kern))
    rep.add("dispatch", {"jointype_members": members, "base": base, "pydict": kern, "disagreements": len(bad1) + len(bad2), "exhaustive": True})
    if sorted(members) != sorted(JTS):
        rep.finding(f"dispatch:members:{members}", f"JoinType members {members} differ from the six modelled join types", {"kind": "dispatch", "members": members})
        found = True
    for i in bad1:
        rep.finding(f"dispatch:{base[i]}", f"BaseMergeEngine.merge({base[i][0]}) dispatches to {base[i][1]}", {"kind": "dispatch", "obs": base[i]})
        found = True
    for i in bad2:
        rep.finding(f"kernel:{kern[i]}", f"PythonDictMergeEngine.merge({kern[i][0]}) runs {kern[i][1]}", {"kind": "dispatch", "obs": kern[i]})
        found = True

    # ---- engine level ----
    cases: List[dict] = corpus_cases()
    if big:
        cases += exhaustive_cases()
        cases += [random_case(rng) for _ in range(12000)]
    else:
        ex = exhaustive_cases()
        cases += rng.sample(ex, 900)
        cases += [random_case(rng) for _ in range(2100)]
    t0 = time.time()
    for c in cases:
        run_engines(c)
    stats["engine_run_s"] = round(time.time() - t0, 1)
    found |= check_cases(rep, "engine", cases, stats, first)
    rep.count(3 * len(cases))
    for c in cases:
        if is_nontrivial(c):
            rep.nontrivial((c["jt"], c["lk"], c["rk"], c["lcols"], c["rcols"], c["L"], c["R"]))

    # ---- end to end ----
    ec = e2e_cases(rng, 600 if big else 90)
    found |= check_cases(rep, "e2e", ec, stats, first)
    rep.count(len(ec))
    differ = [c for c in ec if not c["e2e"]["same_as_direct"] and not c["e2e"]["empty_result_raises"]]
    empties = [c for c in ec if c["e2e"]["empty_result_raises"]]
    stats["e2e"]["pydict_empty_result_raises"] = len(empties)
    if empties:
        first["C12-pydict-e2e-empty-join-result-raises"] = {"narrow": True, "engine": "pydict", "case": slim(empties[0]), "code": -1, "kind": "e2e"}
    stats["e2e"]["differs_from_direct_engine_call"] = len(differ)
    stats["e2e"]["by_engine"] = {e: sum(1 for c in ec if c["e2e"]["engine"] == e) for e in ENGINES}
    stats["e2e"]["raised"] = sorted({x for c in ec for x in c["exc"].values()})[:5]
    for c in differ[:5]:
        rep.finding(f"e2e-glue:{json.dumps(slim(c), sort_keys=True, default=str)[:400]}",
                    f"the table a consumer receives through run_all ({c['obs']}) differs from the direct {c['e2e']['engine']} merge-engine "
                    f"call ({c['e2e']['direct']}) for {c['jt']} on {c['lk']}/{c['rk']}, L={c['L']} R={c['R']}",
                    {"kind": "e2e", "engine": c["e2e"]["engine"], "case": slim(c)})
        found = True
    for c in ec:
        if is_nontrivial(c):
            rep.nontrivial(("e2e", c["e2e"]["engine"], c["jt"], c["lk"], c["rk"], c["L"], c["R"]))

    # ---- pipeline family: empty boundary, schemas (harness/c12_pipe.py) ----
    from harness import c12_pipe
    found |= c12_pipe.run_family(rep, random.Random(seed * 7919 + 1212), big, stats)

    # ---- known findings (only inside their narrowly defined domains; see classify) ----
    for k, w in sorted(first.items()):
        rep.finding(k, f"{k}: {w['engine']} deviates from rel_join", {"kind": w["kind"], "engine": w["engine"], "code": w["code"], "case": w["case"]})

    # ---- distributions ----
    dist: Dict[str, Dict[str, int]] = {"jointype": {}, "key_config": {}, "layout": {}, "key_type": {}, "rows_L": {}, "rows_R": {}, "raised": {}}
    for c in cases:
        for k, v in (("jointype", c["jt"]), ("key_config", c["cfg"]), ("layout", c["layout"]), ("key_type", c["ktype"]),
                     ("rows_L", str(len(c["L"]))), ("rows_R", str(len(c["R"])))):
            dist[k][v] = dist[k].get(v, 0) + 1
        for e, x in c.get("exc", {}).items():
            kk = f"{e}:{x.split(':')[0]}"
            dist["raised"][kk] = dist["raised"].get(kk, 0) + 1
    rep.add("distribution", dist)
    rep.add("correspondence", stats)
    rep.add("exhaustive_part", {"included": "all" if big else "sample of 900", "size": len(exhaustive_cases()),
                                "what": "all pairs of tables with <=2 rows over key {1,2,None} x value {7,None}, one key column, "
                                        "(equal names, disjoint non-key names) + (different names) + (identical schemas), six join types"})
    rep.add("rule", "one evaluation = one merge-engine call (3 engines per generated case) or one run_all; non-trivial = both tables "
                    "non-empty and, for the four joins, at least one pair of rows with equal non-null keys; distinct by (join type, keys, schemas, tables)")
    for c in (cases[0], cases[len(cases) // 2], cases[-1], ec[0]):
        rep.sample(slim(c))
    if not pr.ok and not found:
        rep.finding("proof-broken", "Props/C12.v no longer checks",
                    {"failed_files": pr.failed_files, "forbidden": pr.forbidden, "log_tail": pr.log[-3000:]}, found_input=False)


def replay(path: str) -> int:
    r = json.load(open(path))["replay"]
    print(json.dumps(r, indent=1, default=str))
    if r.get("kind") == "dispatch":
        print("now:", dispatch_cases())
        return 0
    if r.get("kind") == "pipe":
        from harness import c12_pipe
        return c12_pipe.replay_case(r)
    c = r["case"]
    recorded = c.get("obs")
    c = {k: c[k] for k in ("jt", "cfg", "layout", "ktype", "lk", "rk", "lcols", "rcols", "L", "R")}
    if r.get("kind") == "e2e":
        eng = r["engine"]
        got, exc = run_e2e(c, eng)
        direct, _ = run_engine(c, eng)
        c["obs"] = {eng: got}
        print("now (run_all):", got, exc, " direct engine call:", direct)
    else:
        run_engines(c)
        print("now:", json.dumps(c["obs"], default=str), c.get("exc"))
    print("recorded:", json.dumps(recorded, default=str))
    codes, _ = eval_codes("replay", [case_term(c)])
    print("code:", codes[0], "deviations:", classify(c, codes[0]))
    return 0
