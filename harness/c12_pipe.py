"""C12 family `pipe`: the join a PIPELINE computes = the relational operator = the framework's own merge engine, incl. 0-row tables.

Model : coq/Model/JoinCallEmpty.v  smerge_data srel_join (JoinStep._merge_data's unconditional engine call, on tables WITH a
        schema: columns = join_schema lcols rcols, rows = rel_join padded) - theorems Props/C12.v C12_result_columns,
        C12_left_outer_join_empty_right(_uniform/_values), C12_inner_join_empty_right(_schema), C12_union_empty_right(_schema),
        C12_append_empty_right, C12_merge_call_total, C12_merge_call_skip_invisible, C12_merge_call_skip_empty_right_refuted.
Tie   : two root feature groups (DataCreator roots whose calculate_feature returns the framework's native table - for 0 rows a
        pandas DataFrame / pyarrow Table with typed columns, i.e. an empty table that KEEPS its schema), one consumer of their
        columns, one Link, through mloda.run_all on PandasDataFrame / PyArrowTable.  Observed: the table the consumer's
        calculate_feature receives (column NAMES and bag of rows) and the number of rows of the returned table of the requested
        consumer feature.  Compared, by vm_compute on the model definitions (chk_pipe):
          pipeline table = smerge_data srel_join (Link) (lcols, L) (rcols, R)      columns as a set AND rows as a bag
          direct engine call (engine_class().merge on the same two native tables) = the same term                  (pipeline = engine)
          rows of the returned feature = number of rows of the operator
        The schema-less comparison of the other families (bag_eq: absent column = null) cannot see a missing null column
        (C12_merge_call_skip_invisible); this family compares the column set.
Inputs: join types INNER / LEFT / OUTER / APPEND / UNION on pandas, INNER / LEFT / OUTER on pyarrow (APPEND / UNION on pyarrow are
        the recorded findings C12-pyarrow-append-schema-mismatch-raises / -union-unsupported, C05 append_union; OUTER with a
        differently named key and right-only rows is C12-pyarrow-outer-diffkey-coalesce: generated only with 0 right rows there);
        key configs same1 / diff1 / same2 (pandas also diff2 / mixed2); right tables with 0, 1, 2-3 rows; left tables with 1-4 rows
        and repeated whole rows (UNION must remove them also when the right table is empty); non-null keys {1,2,3} / {x,y,z}
        (null keys: C12-pandas-null-keys-match, covered by the engine family), values {7,8,None}.
        PythonDict is kept out: an empty list-of-dicts table has no schema (C14 kf_empty, C05-pydict-empty-join,
        C12-pydict-e2e-empty-join-result-raises).
"""
from __future__ import annotations

import json
import random
from typing import Any, Dict, List, Optional, Sequence, Tuple

from lib import vlib
from lib.vlib import cq_list, cq_str

REQ = ["MV.Spec.Rel", "MV.Model.RoutingJ", "MV.Model.JoinCall", "MV.Model.JoinCallEmpty"]
EXTRA = r"""
Inductive pobs := PRaised | PTab (cols : list string) (rows : table).
Definition pcase := (jointype * (list string * list string) * (list string * list string) * (table * table) * (pobs * pobs * Z))%type.
Definition same_cols (a b : list string) : bool :=
  forallb (fun c => mem c b) a && forallb (fun c => mem c a) b && Nat.eqb (List.length a) (List.length b).
Definition eq_st (o : pobs) (m : stable) : bool :=
  match o with PTab cs rs => same_cols cs (st_cols m) && bag_eqb rs (st_rows m) | PRaised => false end.
Definition chk_pipe (c : pcase) : bool :=
  match c with
  | (jt, (lk, rk), (lcols, rcols), (L, R), (opipe, odirect, nret)) =>
    let m := smerge_data srel_join {| ld_jt := jt; ld_left := lk; ld_right := rk |} (lcols, L) (rcols, R) in
    eq_st opipe m && eq_st odirect m && Z.eqb nret (Z.of_nat (List.length (st_rows m)))
  end.
"""
CASE_TY = "pcase"
PANDAS_JT = ["INNER", "LEFT", "OUTER", "APPEND", "UNION"]
ARROW_JT = ["INNER", "LEFT", "OUTER"]


def _h() -> Any:
    from harness import c12
    return c12


def observe2(engine: str, out: Any) -> Any:
    """(column names, sorted bag of rows) of a native table; 'raised' if the column names are not unique."""
    H = _h()
    if engine == "pandas":
        cols = [str(x) for x in out.columns]
        rows = out.to_dict("records") if len(set(cols)) == len(cols) else None
    else:
        cols = [str(x) for x in out.column_names]
        rows = out.to_pylist() if len(set(cols)) == len(cols) else None
    if rows is None:
        return "raised"
    return [sorted(cols), H.norm_rows(rows)]


def cq_pobs(o: Any) -> str:
    H = _h()
    if o == "raised" or o is None:
        return "PRaised"
    return f"(PTab {H.cq_cols(o[0])} {H.cq_table(o[1])})"


def case_term(c: dict) -> str:
    H = _h()
    L = [[(col, r.get(col)) for col in c["lcols"]] for r in c["L"]]
    R = [[(col, r.get(col)) for col in c["rcols"]] for r in c["R"]]
    return (f"({H.CQ_JT[c['jt']]}, ({H.cq_cols(c['lk'])}, {H.cq_cols(c['rk'])}), ({H.cq_cols(c['lcols'])}, {H.cq_cols(c['rcols'])}), "
            f"({H.cq_table(L)}, {H.cq_table(R)}), ({cq_pobs(c['pipe'])}, {cq_pobs(c['direct'])}, ({c['nret']})%Z))")


# ------------------------------------------------------------------------------------------------------------
_n = [0]


def run_direct(c: dict, engine: str) -> Tuple[Any, Optional[str]]:
    H = _h()
    from mloda.user import Index
    left, right = H.native_inputs(c, engine)
    try:
        out = H.engine_class(engine)().merge(left, right, H._jt(c["jt"]), Index(tuple(c["lk"])), Index(tuple(c["rk"])))
        return observe2(engine, out), None
    except Exception as e:  # noqa: BLE001
        return "raised", f"{type(e).__name__}: {str(e)[:100]}"


def run_pipe(c: dict, engine: str) -> Tuple[Any, int, Optional[str]]:
    """-> (table the consumer received as (cols, rows) | 'raised', rows of the returned consumer feature | -1, exception text)."""
    H = _h()
    import pyarrow as pa
    from mloda.provider import FeatureGroup, DataCreator
    from mloda.user import Feature, Index, Link, JoinSpec, PluginCollector, mloda
    fw = H.framework_class(engine)
    _n[0] += 1
    tag = f"{_n[0]}"
    left, right = H.native_inputs(c, engine)
    received: List[Any] = []

    def root(name: str, cols: Sequence[str], data: Any) -> type:
        def input_data(cls: Any) -> Any:
            return DataCreator(set(cols))

        def calculate_feature(cls: Any, d: Any, features: Any) -> Any:
            return data

        def compute_framework_rule(cls: Any) -> Any:
            return {fw}
        return type(name, (FeatureGroup,), {"input_data": classmethod(input_data), "calculate_feature": classmethod(calculate_feature),
                                            "compute_framework_rule": classmethod(compute_framework_rule)})

    A = root(f"C12PL{tag}", c["lcols"], left)
    B = root(f"C12PR{tag}", c["rcols"], right)
    link = Link(H._jt(c["jt"]), JoinSpec(A, Index(tuple(c["lk"]))), JoinSpec(B, Index(tuple(c["rk"]))))
    cname = f"C12PCons{tag}"
    need = set(c["lcols"]) ^ set(c["rcols"])     # a feature name may be served by one group only

    def input_features(self: Any, options: Any, feature_name: Any) -> Any:
        if c["jt"] in ("APPEND", "UNION"):
            la = [x for x in c["lcols"] if x in need][0]
            ra = [x for x in c["rcols"] if x in need][0]
            return {Feature(x, index=Index(tuple(c["lk"])) if x == la else (Index(tuple(c["rk"])) if x == ra else None))
                    for x in need}
        return {Feature(x) for x in need}

    def calculate_feature(cls: Any, data: Any, features: Any) -> Any:
        received.append(data)
        if engine == "pyarrow":
            return data.append_column(cname, pa.array([1] * data.num_rows, type=pa.int64()))
        data = data.copy()
        data[cname] = 1
        return data

    def compute_framework_rule(cls: Any) -> Any:
        return {fw}

    C = type(cname, (FeatureGroup,), {"input_features": input_features, "calculate_feature": classmethod(calculate_feature),
                                      "compute_framework_rule": classmethod(compute_framework_rule)})
    try:
        res = mloda.run_all([Feature(cname)], links={link}, compute_frameworks={fw},
                            plugin_collector=PluginCollector.enabled_feature_groups({A, B, C}))
    except Exception as e:  # noqa: BLE001
        return "raised", -1, H.exc_summary(e)
    if not received:
        return "raised", -1, "consumer never called"
    try:
        nret = -1
        for t in res:
            names = [str(x) for x in (t.columns if engine == "pandas" else t.column_names)]
            if cname in names:
                nret = len(t) if engine == "pandas" else t.num_rows
        return observe2(engine, received[-1]), nret, None
    except Exception as e:  # noqa: BLE001
        return "raised", -1, f"observe {type(e).__name__}: {str(e)[:80]}"


# ------------------------------------------------------------------------------------------------------------
def gen_table(rng: random.Random, cols: Sequence[str], keys: Sequence[str], ktype: str, n: int, dups: bool) -> List[dict]:
    ka = [1, 2, 3] if ktype == "int" else ["x", "y", "z"]
    rows = [{c: (rng.choice(ka) if c in keys else rng.choice([7, 8, None])) for c in cols} for _ in range(n)]
    if dups and rows:
        rows.append(dict(rows[0]))                       # a repeated whole row
        if rng.random() < 0.3:
            rows.insert(1, dict(rows[-1]))
    return rows


def gen_case(rng: random.Random, engine: str, jt: str, cfg: str, nr: int) -> dict:
    H = _h()
    lk, rk = H.KEYCFG[cfg]
    ln, rn = H.LAYOUT["A"]
    ktype = rng.choice(["int", "int", "str"])
    dups = jt == "UNION" or rng.random() < 0.35
    L = gen_table(rng, lk + ln, lk, ktype, rng.choice([1, 2, 2, 3]), dups)
    R = gen_table(rng, rk + rn, rk, ktype, nr, nr > 1 and rng.random() < 0.3)
    c = H.make_case(jt, cfg, "A", ktype, L, R)
    c["engine"] = engine
    return c


def in_scope(engine: str, jt: str, cfg: str, nr: int) -> bool:
    """Where the unchanged tree computes the relational operator (see the module docstring for the recorded exceptions)."""
    if engine == "pandas":
        return jt in PANDAS_JT
    if jt not in ARROW_JT or cfg not in ("same1", "diff1", "same2"):
        return False
    return not (jt == "OUTER" and cfg == "diff1" and nr > 0)


def gen_cases(rng: random.Random, big: bool) -> List[dict]:
    out = []
    reps = 6 if big else 1
    for engine in ("pandas", "pyarrow"):
        for cfg in ("same1", "diff1", "same2", "diff2", "mixed2"):
            for jt in PANDAS_JT:
                for nrk in (0, 1, 2):
                    for _ in range(reps if cfg in ("same1", "diff1") or big else (1 if nrk == 0 else 0)):
                        nr = nrk if nrk < 2 else rng.choice([2, 3])
                        if in_scope(engine, jt, cfg, nr):
                            out.append(gen_case(rng, engine, jt, cfg, nr))
    extra = 400 if big else 30
    while extra:
        engine = rng.choice(["pandas", "pyarrow"])
        jt, cfg, nr = rng.choice(PANDAS_JT), rng.choice(["same1", "diff1", "same2"]), rng.choice([0, 0, 1, 2, 3])
        if in_scope(engine, jt, cfg, nr):
            out.append(gen_case(rng, engine, jt, cfg, nr))
            extra -= 1
    return out


def slim(c: dict) -> dict:
    return {k: c[k] for k in ("engine", "jt", "cfg", "layout", "ktype", "lk", "rk", "lcols", "rcols", "L", "R", "pipe", "direct", "nret",
                              "exc") if k in c}


def observe_case(c: dict) -> dict:
    eng = c["engine"]
    c["direct"], dx = run_direct(c, eng)
    c["pipe"], c["nret"], px = run_pipe(c, eng)
    c["exc"] = {k: v for k, v in (("direct", dx), ("pipe", px)) if v}
    return c


def explain(c: dict) -> str:
    want = sorted(set(c["lcols"]) | set(c["rcols"]))
    p, d = c["pipe"], c["direct"]
    parts = []
    if p == "raised":
        parts.append(f"the pipeline raised {c['exc'].get('pipe')}")
    else:
        if p[0] != want:
            parts.append(f"the consumer received columns {p[0]}, the operator's columns are {want} (missing {sorted(set(want) - set(p[0]))})")
        parts.append(f"consumer received {len(p[1])} rows {p[1]}")
    if d == "raised":
        parts.append(f"the direct engine call raised {c['exc'].get('direct')}")
    elif d != p:
        parts.append(f"the direct {c['engine']} merge-engine call on the same tables gives columns {d[0]}, {len(d[1])} rows {d[1]}")
    parts.append(f"returned feature has {c['nret']} rows")
    return "; ".join(parts)


def run_family(rep: vlib.Reporter, rng: random.Random, big: bool, stats: Dict[str, Any]) -> bool:
    cases = [observe_case(c) for c in gen_cases(rng, big)]
    terms = [case_term(c) for c in cases]
    bad, info = vlib.run_cases("C12", "pipe", REQ, "chk_pipe", terms, case_type=CASE_TY, extra_defs=EXTRA, shard=300)
    st: Dict[str, Any] = {**info, "cases": len(cases), "chk_pipe_false": len(bad),
                          "by_engine": {}, "by_jointype": {}, "rows_R": {}, "empty_right": 0, "left_with_repeated_rows": 0,
                          "pipeline_differs_from_direct_engine": sum(1 for c in cases if c["pipe"] != c["direct"])}
    for c in cases:
        for k, v in (("by_engine", c["engine"]), ("by_jointype", c["jt"]), ("rows_R", str(len(c["R"])))):
            st[k][v] = st[k].get(v, 0) + 1
        st["empty_right"] += not c["R"]
        st["left_with_repeated_rows"] += len({json.dumps(r, sort_keys=True) for r in c["L"]}) < len(c["L"])
        # non-trivial: the right table is empty and the operator is not the left table (columns to add / duplicates to remove /
        # rows to drop), or both tables have rows
        rep.nontrivial(("pipe", c["engine"], c["jt"], c["lk"], c["rk"], json.dumps(c["L"]), json.dumps(c["R"])))
    rep.count(len(cases))
    stats["pipe"] = st
    for i in bad[:5]:
        c = cases[i]
        rep.finding(f"pipe:{json.dumps(slim(c), sort_keys=True, default=str)[:400]}",
                    f"pipeline join differs from the relational operator: {c['jt']} on {c['engine']} keys {c['lk']}/{c['rk']}, "
                    f"L={c['L']} R={c['R']} (right schema {c['rcols']}): {explain(c)}",
                    {"kind": "pipe", "engine": c["engine"], "case": slim(c)})
    if cases:
        rep.sample(slim(cases[0]))
    return bool(bad)


def replay_case(r: dict) -> int:
    c = dict(r["case"])
    rec = {k: c.pop(k, None) for k in ("pipe", "direct", "nret", "exc")}
    observe_case(c)
    print("recorded:", json.dumps(rec, default=str))
    print("now     :", json.dumps({k: c[k] for k in ("pipe", "direct", "nret", "exc")}, default=str))
    bad, _ = vlib.run_cases("C12", "pipe_replay", REQ, "chk_pipe", [case_term(c)], case_type=CASE_TY, extra_defs=EXTRA)
    print("chk_pipe:", not bad, "" if not bad else explain(c))
    return 0
